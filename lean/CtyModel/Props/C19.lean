/-
C19 — Walk, transform and paths address exactly the members of a value.

Property theorems only; helper lemmas live in `CtyModel/Lemmas/Walk*.lean`, `d19*.lean` and
`d19b*.lean` (second deepening: `Enter` replacement, replace below a set, paths through
sets, `Enter` / `Exit` nesting, PathSet with empty operands and over null / compound keys).

Every statement is about the transliterations that the correspondence harness
(`harness/c19.go`, `c19ps.go`) diffs against /repo on every run:
`Walk.walk`, `Walk.transform`, `Walk.transformWith`, `Walk.unmarkDeepWithPaths`,
`Walk.markWithPaths` (cty/walk.go, cty/marks.go), `Path.apply`, `PathStep.apply`
(cty/path.go), `PathSet.pathRules` and the `SetImpl` operations behind `PathSet`
(cty/path_set.go, cty/set).

Vocabulary of the statements (`Lemmas/WalkBase.lean`, `WalkShape.lean`):
a *position* (`Pos`) is the list of member indices leading from the root to a
nested member; `nodeAt X v pos` is the member there and `pathAt X v pos` its cty
path; `posLt` is document order.  `X : SetOracle` is what the model is told about
set hashing and set iteration order; `IterPerm X` — the iteration lists exactly
the members — is its contract.  `shapedV v` is the (decidable) shape of every
value the public API can build.  Callbacks are arbitrary Lean functions of the
calls made so far, the path and the value.
-/
import CtyModel.Lemmas.WalkPre
import CtyModel.Lemmas.d19Hash
import CtyModel.Lemmas.d19Inj
import CtyModel.Lemmas.d19Members
import CtyModel.Lemmas.d19Complete
import CtyModel.Lemmas.WalkStepsShape
import CtyModel.Lemmas.WalkPathSet
import CtyModel.Lemmas.WalkTrans
import CtyModel.Lemmas.WalkReplace
import CtyModel.Lemmas.WalkMarks
import CtyModel.Lemmas.WalkRawEq
import CtyModel.Lemmas.PathFnsTie
import CtyModel.Lemmas.d19bVisits
import CtyModel.Lemmas.d19bSetPaths
import CtyModel.Lemmas.d19bPathSet
import CtyModel.Lemmas.d19bKeys
import CtyModel.Lemmas.d19bBracket
import CtyModel.Lemmas.d19bKeysSets
import CtyModel.Props.C03
namespace CtyModel
namespace C19
open Walk

/-! ## Walking a value visits the value and each nested member exactly once, parents before children -/

/-- **Every member exactly once, parents first.**  With a callback that always
descends, the visits of `Walk` are in one-to-one correspondence with the
positions of the value: there is a list `ps` of positions, one per visit, that
(1) has no repetition, (2) contains exactly the positions that exist in the
value, (3) each visit reports the member at its position together with the cty
path of that position, (4) is in document order — so a container is visited
before each of its members (`walk_parent_first`) — and the walk returns nil. -/
theorem walk_preorder_once {X : SetOracle} (hX : IterPerm X) (root : Value) :
    ∃ ps : List Pos,
      ps.length = (walk X descend root).1.length ∧
      ps.Nodup ∧
      (∀ pos, pos ∈ ps ↔ (nodeAt X root pos).isSome = true) ∧
      (∀ i (h : i < ps.length) (h' : i < (walk X descend root).1.length),
        nodeAt X root ps[i] = some ((walk X descend root).1[i]).2 ∧
        pathAt X root ps[i] = some ((walk X descend root).1[i]).1) ∧
      ps.Pairwise (fun a b => posLt a b = true) ∧
      (walk X descend root).2 = .ok () := by
  rw [walk_eq_preorder hX]
  refine ⟨(preorder X root).map (·.1), by simp, ?_, ?_, ?_, ?_, rfl⟩
  · exact pairwise_posLt_nodup (preFuel_sorted _ _ _ _)
  · intro pos
    constructor
    · intro h
      obtain ⟨e, he, rfl⟩ := List.mem_map.mp h
      obtain ⟨r, _, h1, h2, _⟩ := mem_preFuel _ _ _ _ _ he
      simp only [List.nil_append] at h1
      rw [h1, h2]; rfl
    · intro h
      cases hn : nodeAt X root pos with
      | none => rw [hn] at h; cases h
      | some n =>
        obtain ⟨e, he, hpos⟩ := pos_mem_preFuel hX (root.v.depth + 1) root (by omega) [] [] pos n hn
        exact List.mem_map.mpr ⟨e, he, by simpa using hpos⟩
  · intro i h h'
    simp only [List.length_map] at h
    have he : (preorder X root)[i] ∈ preorder X root := List.getElem_mem h
    obtain ⟨r, p, h1, h2, h3, h4⟩ := mem_preFuel _ _ _ _ _ he
    simp only [List.nil_append] at h1 h4
    simp only [List.getElem_map, Node.visit, h1, h2, h3, h4]
    exact ⟨trivial, trivial⟩
  · exact preFuel_sorted _ _ _ _

/-- document order puts a container before its members: in any list of positions
in document order, a position occurs before every extension of it -/
theorem walk_parent_first (ps : List Pos) (h : ps.Pairwise (fun a b => posLt a b = true))
    (i j : Nat) (hi : i < ps.length) (hj : j < ps.length) (k : Nat) (rest : Pos)
    (hc : ps[j] = ps[i] ++ k :: rest) : i < j := by
  apply Classical.byContradiction
  intro hlt
  have hle : j ≤ i := by omega
  rcases Nat.lt_or_eq_of_le hle with hji | rfl
  · have := List.pairwise_iff_getElem.mp h j i hj hi hji
    rw [hc, posLt_ext_false] at this
    cases this
  · have := congrArg List.length hc
    simp at this

/-- **Whatever the callback does** — descend, prune (`false`), fail, panic, and
that depending on the calls made so far — the visits made are a sub-listing of
the full pre-order listing: no member is visited twice, none out of order. -/
theorem walk_any_callback_sublist (X : SetOracle) (cb : WalkCb) (root : Value) :
    (walk X cb root).1.Sublist (walk X descend root).1 ∨ ¬ IterPerm X := by
  by_cases hX : IterPerm X
  · left
    rw [walk_eq_preorder hX]
    exact walk_sublist_preorder X cb root
  · exact Or.inr hX

/-! ## every reported path applied to the root returns the visited member (set members excepted) -/

/-- **Reported paths lead back.**  For every visit `(p, n)` of `Walk`: it is the
visit of a position `pos` (member `n`, path `p`), and unless the way to `pos`
goes through a set (whose members paths cannot address), applying `p` to the
root succeeds and returns the visited member — compared after `Unmark`, because
the operation methods add a container's marks to what they return: the marks of
the result are exactly the marks of `n` together with the marks of the
containers on the way (`anc` ranges over the members at the proper prefixes of
`pos`). -/
theorem walk_paths_lead_back {X : SetOracle} (hX : IterPerm X) (root : Value)
    (hs : shapedV root = true) (p : Path) (n : Value) (hv : (p, n) ∈ (walk X descend root).1) :
    ∃ pos, nodeAt X root pos = some n ∧ pathAt X root pos = some p ∧
      (noSetAt X root pos = true →
        ∃ a, Path.apply p root = .ok a ∧ a.unmark = n.unmark ∧
          ∀ m, m ∈ a.marks ↔ (m ∈ n.marks ∨
            ∃ q s anc, pos = q ++ s ∧ s ≠ [] ∧ nodeAt X root q = some anc ∧ m ∈ anc.marks)) := by
  rw [walk_eq_preorder hX] at hv
  obtain ⟨e, he, hev⟩ := List.mem_map.mp hv
  obtain ⟨r, p', h1, h2, h3, h4⟩ := mem_preFuel _ _ _ _ _ he
  simp only [Node.visit, Prod.mk.injEq] at hev
  obtain ⟨rfl, rfl⟩ := hev
  simp only [List.nil_append] at h4
  refine ⟨r, h2, by rw [h3, h4], fun hns => ?_⟩
  obtain ⟨a, ha, hE⟩ := apply_pathAt_extra hX r root root e.2.2 [] p' (Extra.rfl' root) hs h2 h3 hns
  refine ⟨a, by rw [h4]; exact ha, hE.unmark_eq, fun m => ?_⟩
  rw [hE.marks, List.append_nil, mem_ancMarks m r root e.2.2 h2]

/-! ## path application succeeds exactly when every step names an existing member -/

/-- **`Path.Apply` never panics** — the full statement: every path whose index keys
are shaped values (of any type; known, unknown or null; marked or not), applied
to every shaped value of a well-formed type.  (Shapedness is what every value the
public API can build has; the model also contains ill-typed payloads, on which the
transliterated operation methods "panic" as the Go type assertions would.) -/
def ApplyNeverPanics : Prop :=
  ∀ (p : Path) (v : Value), shapedV v = true → Ty.wf v.ty = true → keysShaped p = true →
    (Path.apply p v).isPanic = false

/-- holds since 32f15f9 (`IndexStep.Apply` answers a null key with an error and an
unknown index into a tuple with `DynamicVal`) -/
theorem apply_never_panics : ApplyNeverPanics :=
  fun p v hs hw hk => (apply_ok_iff p v hs hw hk).2

/-- regression (DESIGN §8 #15, repaired): `IndexStep{Key: unknown number}.Apply(tuple)`
is `DynamicVal`, not a panic -/
example : Path.apply [.index (Value.unknown .number)] ⟨.tuple [], .seq []⟩ = .ok Value.dynVal := by rfl

/-- regression (repaired): a null number key on a list / tuple, a null string key on a
map are errors, not panics -/
example : Path.apply [.index (Value.null .number)] ⟨.list .string, .seq []⟩ =
    .err "key value is null" := by rfl
example : Path.apply [.index (Value.null .number)] ⟨.tuple [], .seq []⟩ =
    .err "key value is null" := by rfl
example : Path.apply [.index (Value.null .string)] ⟨.map .string, .smap [] []⟩ =
    .err "key value is null" := by rfl

/-- **One step** (`GetAttrStep.Apply`, `IndexStep.Apply`) on a shaped value of a
well-formed type, with any shaped key: the step succeeds exactly when it names an
existing member (`stepExists`: the attribute is declared; a known key — marks
aside — is a whole-number index within the list / tuple or a key of the map; an
unknown key of the fitting type names no particular member and is accepted; a
null key and a key of another type name nothing; null has no members; an unknown
list or map has its members by type), it does not panic, and what it returns is
again a shaped value of a well-formed type. -/
theorem apply_step_ok_iff_exists (s : PathStep) (v : Value) (hs : shapedV v = true)
    (hw : Ty.wf v.ty = true)
    (hk : (match s with | .index k => shapedV k | .getAttr _ => true) = true) :
    ((s.apply v).isOk = true ↔ stepExists s v = true) ∧ (s.apply v).isPanic = false ∧
      ∀ v', s.apply v = .ok v' → shapedV v' = true ∧ Ty.wf v'.ty = true := by
  have := step_ok_iff s v hs hw hk
  exact ⟨by rw [this.1], this.2, fun v' h => step_shaped s v v' hs hw hk h⟩

/-- marks on a key change neither whether the step succeeds nor whether it panics -/
theorem apply_step_key_marks_irrelevant (v k : Value) (hk : shapedV k = true) :
    ((PathStep.index k).apply v).isOk = ((PathStep.index k.unmark).apply v).isOk ∧
    ((PathStep.index k).apply v).isPanic = ((PathStep.index k.unmark).apply v).isPanic :=
  apply_index_unmark v k hk

/-- **Whole paths.**  `Path.Apply` — any shaped keys, a shaped value of a
well-formed type — succeeds exactly when every step names an existing member of
the value reached by the steps before it (`stepsExist`), and does not panic.
(No longer `_partial`: unknown, null and marked keys are covered.) -/
theorem apply_ok_iff_steps_exist (p : Path) (v : Value) (hs : shapedV v = true)
    (hw : Ty.wf v.ty = true) (hk : keysShaped p = true) :
    ((Path.apply p v).isOk = true ↔ stepsExist p v = true) ∧ (Path.apply p v).isPanic = false := by
  have := apply_ok_iff p v hs hw hk
  exact ⟨by rw [this.1], this.2⟩

/-! ## an identity transformation returns an equal value and visits the same paths -/

/-- **Identity transform.**  For every schedule `σ` of Go's map iteration in
`transform`'s object branch, every value of any shape, depth and marking that
meets `Good` (shaped; types well formed and without optional-attribute
annotations; every set inside is reproduced by `SetVal` from its own iteration
order — `SetsStable`): `Transform` with the identity callback succeeds and
returns the value itself — each list, set, map, tuple and object is rebuilt from
its transformed members with its marks re-applied, nulls and unknowns are
passed through — and the `(path, value)` pairs handed to the callback are exactly
the visits of `Walk` (in post-order, attributes in `σ` order: a permutation).

What the side condition leaves out: a set holding hash-tied members stored
against their iteration order (e.g. numbers equal to 10 significant digits added
in descending order) is rebuilt with those members in the other bucket order; the
result is then a different representation of the same set, `RawEquals` to the
input by stability of the sort behind set iteration.  That case is compared with
the implementation on every run (generator `c19TiedSet`, ops `walk.trans`,
`val.rawequals`, predicate `transform-id`) but is not covered by this theorem. -/
theorem transform_id_partial {X : SetOracle} (hX : IterPerm X) {σ : Sched} (hσ : SchedOk σ)
    (v : Value) (hg : Walk.Good X v) :
    ∃ log, transform X σ idCb v = (log, .ok v) ∧ (exits log).Perm (walk X descend v).1 := by
  refine ⟨_, transform_id_eq hX hσ v hg, ?_⟩
  rw [walk_eq_preorder hX]
  simp only [preorder, preFuel_visit]
  exact exits_idEvs_perm hX hσ _ v hg.shaped []


/-- …in the property's own words: the result `RawEquals` the input (`Value.rawEquals`
is the transliteration of `Value.RawEquals`; capsule values, which compare by Go
pointer identity, are outside the model). -/
theorem transform_id_rawEquals_partial {X : SetOracle} (hX : IterPerm X) {σ : Sched} (hσ : SchedOk σ)
    (v : Value) (hg : Walk.Good X v) (hc : Ty.hasCapsule v.ty = false) :
    ∃ log r, transform X σ idCb v = (log, .ok r) ∧ Value.rawEquals X r v = .ok true ∧
      (exits log).Perm (walk X descend v).1 := by
  obtain ⟨log, h1, h2⟩ := transform_id_partial hX hσ v hg
  have hw : Ty.wf v.ty = true := by
    have := hg.ty
    simp only [tyOk, Bool.and_eq_true] at this
    exact this.1
  exact ⟨log, v, h1, rawEquals_refl hX v hg.shaped hw hc, h2⟩

/-- the result does not depend on the schedule (the callback log does, by a permutation) -/
theorem transform_id_schedule_indep {X : SetOracle} (hX : IterPerm X) {σ σ' : Sched}
    (hσ : SchedOk σ) (hσ' : SchedOk σ') (v : Value) (hg : Walk.Good X v) :
    (transform X σ idCb v).2 = (transform X σ' idCb v).2 ∧
      (exits (transform X σ idCb v).1).Perm (exits (transform X σ' idCb v).1) := by
  obtain ⟨l1, h1, p1⟩ := transform_id_partial hX hσ v hg
  obtain ⟨l2, h2, p2⟩ := transform_id_partial hX hσ' v hg
  rw [h1, h2]
  exact ⟨rfl, p1.trans p2.symm⟩


/-! ## …and lets a callback replace any member without disturbing the others -/

/-- **Replace one member.**  Let the callback return `x` — any value of the
member's type — at the path of position `r0` (not inside a set) and return what
it is given at the path of every other position (it may depend on the calls made
so far in any other way).  Then for every schedule `σ`, `Transform` succeeds and
returns `replaceAt X v r0 x`: the value in which every container on the way to
`r0` is the same container (same type, same marks, same other members) around
the changed member.  In that result the member at `r0` is `x`, and every
position that is neither above nor below `r0` holds the member it held. -/
theorem transform_replace_one {X : SetOracle} (hX : IterPerm X) {σ : Sched} (hσ : SchedOk σ)
    (cb : TCb) (v x n : Value) (r0 : Pos) (hg : Walk.Good X v)
    (hn : nodeAt X v r0 = some n) (hns : noSetAt X v r0 = true) (hx : x.ty = n.ty)
    (hrep : ∀ q0, pathAt X v r0 = some q0 → ∀ log v', cb log q0 v' = .ok x)
    (hid : ∀ r q, r ≠ r0 → pathAt X v r = some q → ∀ log v', cb log q v' = .ok v') :
    ∃ log, transform X σ cb v = (log, .ok (replaceAt X v r0 x)) ∧
      nodeAt X (replaceAt X v r0 x) r0 = some x ∧
      ∀ r, ¬ r0 <+: r → ¬ r <+: r0 → nodeAt X (replaceAt X v r0 x) r = nodeAt X v r := by
  obtain ⟨evs, hev⟩ := transformFuel_replace hX hσ cb x (v.v.depth + 1) v (by omega) hg r0 [] n hn hns hx
    (by simpa using hrep) (by simpa using hid)
  refine ⟨evs, ?_, nodeAt_replaceAt_self hX r0 v x n hg.shaped hn hns hx,
    nodeAt_replaceAt_other hX r0 v x n hg.shaped hn hns hx⟩
  simp only [transform, transformWith, hev, List.nil_append]


/-! ## removing marks deeply together with their paths and re-applying them by path restores the value -/

/-- **Unmark, then remark.**  For every value meeting `Good` and every pair of
schedules (`UnmarkDeepWithPaths` and `MarkWithPaths` each range over Go maps on
their own): `UnmarkDeepWithPaths` returns (1) the value with every mark removed at
every depth (`Value.unmarkDeep`, which holds no mark), and (2) a list with exactly
one kind of entry: the path and the marks of each position that carries marks;
and `MarkWithPaths` of that value with that list returns the original value —
marks included, at every depth. -/
theorem unmark_remark_roundtrip {X : SetOracle} (hX : IterPerm X) {σ σ' : Sched}
    (hσ : SchedOk σ) (hσ' : SchedOk σ') (v : Value) (hg : Walk.Good X v) :
    ∃ pvm, unmarkDeepWithPaths X σ v = .ok (v.unmarkDeep, pvm) ∧
      v.unmarkDeep.containsMarked = false ∧
      (∀ q ms, (q, ms) ∈ pvm ↔
        ∃ r n, nodeAt X v r = some n ∧ pathAt X v r = some q ∧ ms = n.marks ∧ n.marks ≠ []) ∧
      markWithPaths X σ' v.unmarkDeep pvm = .ok v := by
  refine ⟨pvmOf (unEvs X σ (v.v.depth + 1) [] v), ?_, stripMarks_not_containsMarked v.v, ?_, ?_⟩
  · have h := transformFuel_unmark hX hσ (v.v.depth + 1) v (by omega) hg [] []
    simp only [unmarkDeepWithPaths, transformWith, h, List.nil_append]
  · intro q ms
    rw [mem_pvmOf_unEvs hX hσ (v.v.depth + 1) v (by omega) hg.shaped [] q ms]
    constructor
    · rintro ⟨r, n, q', h1, h2, h3, h4, h5⟩
      exact ⟨r, n, h1, by simpa [h3] using h2, h4, h5⟩
    · rintro ⟨r, n, h1, h2, h3, h4⟩
      exact ⟨r, n, q, h1, h2, by simp, h3, h4⟩
  · obtain ⟨evs, hev⟩ := transformFuel_remark hX hσ' (pvmOf (unEvs X σ (v.v.depth + 1) [] v))
      ((strip v).v.depth + 1) v (by omega) hg []
      (fun r m q hm hq => by simpa using adequate_unmark hX hσ v hg.shaped r m q hm hq)
    simp only [markWithPaths, transformWith]
    have := hev []
    simp only [strip] at this
    rw [this]

/-! ## path sets behave as mathematical sets of paths -/

/-- **`pathSetRules` is lawful** on paths whose index keys are known numbers or
strings — marked or not, since 9ae0f30 drops the marks before the comparison is
read: `Equivalent` is reflexive, symmetric and transitive, and equivalent paths
hash alike (the hash writes the same bytes: attribute names, `#` for every index
step).  A key and the same key with marks are equivalent (`keyEq` looks under the
marker).  Unknown keys remain outside (next theorem); null keys and keys of compound
type are covered by `pathset_rules_lawful_wide` (slice d19b). -/
theorem pathset_rules_lawful : PathSet.goodRules.Lawful := PathSet.goodRules_lawful

/-- Reflexivity fails for a path with an unknown key (`Equals` of an unknown with
itself is unknown, which `Equivalent` reads as "not equivalent"): such a path can
be added twice and is never found by `Has`. -/
theorem pathset_unknown_key_counterexample :
    let p : Path := [.index (Value.unknown .number)]
    PathSet.pathRules.equiv p p = false ∧
      SetImpl.has PathSet.pathRules (SetImpl.add PathSet.pathRules SetImpl.empty p) p = false := by
  constructor <;> rfl


/-- regression (repaired): paths whose index keys carry marks compare without a panic,
are good paths, and a marked key is equivalent to the same key unmarked -/
example :
    let k : Int → Value := fun i => ⟨.number, .marked ["m"] (.n (Num.ofInt i 64))⟩
    PathSet.equiv [.index (k 1)] [.index (k 2)] = .ok false ∧
      PathSet.equiv [.index (k 1)] [.index (k 1)] = .ok true ∧
      PathSet.equiv [.index (k 1)] [.index (Value.intVal 1)] = .ok true ∧
      PathSet.keysOk [.index (k 1)] = true := by
  refine ⟨rfl, rfl, rfl, rfl⟩

/-- **PathSet refines sets of paths, for all histories.**  Whatever sequence of
`Add`, `AddAllSteps`, `Remove`, `Has`, `List`, `Empty`, `Equal`, `Union`,
`Intersection`, `Subtract`, `SymmetricDifference` calls is applied to PathSet
variables that satisfy the representation invariant (in particular: to fresh
sets), on paths with known number / string keys (marked or not): every variable satisfies the invariant
afterwards; the mathematical sets it stands for (`abs`) are those obtained by
running the mathematical operations (`psSpecRun`: ∪, ∩, ∖, △, insert, delete,
insert-all-non-empty-prefixes); and every answer is the one those sets dictate
(`PSOutsOk`: `Has` = membership, `Empty` = emptiness, `Equal` = equality of the
sets, `List` = a duplicate-free listing).  Instance of `C03.set_refines`. -/
theorem pathset_refines (ops : List (PathSet.PSOp PathSet.GoodPath))
    (st : List (SetImpl PathSet.GoodPath))
    (h : ∀ i, SetImpl.Inv PathSet.goodRules (SetImpl.getReg st i)) :
    let R := PathSet.goodRules
    let out := PathSet.psRun R PathSet.prefixesG ops st
    (∀ i, SetImpl.Inv R (SetImpl.getReg out.1 i)) ∧
    SetImpl.absRegs R out.1 = PathSet.psSpecRun R PathSet.prefixesG ops (SetImpl.absRegs R st) ∧
    PathSet.PSOutsOk R PathSet.prefixesG (SetImpl.absRegs R st) ops out.2 := by
  have hR := PathSet.goodRules_lawful
  have hB : SetImpl.AllInv PathSet.goodRules st := fun j => (h j).toB hR
  refine ⟨fun i => ((PathSet.allInv_psRun hR ops hB) i).toInv hR, ?_⟩
  exact PathSet.psRun_refines hR ops hB

/-- …in particular for every history started from fresh (`NewPathSet()`) sets. -/
theorem pathset_refines_from_empty (ops : List (PathSet.PSOp PathSet.GoodPath)) :
    let R := PathSet.goodRules
    let out := PathSet.psRun R PathSet.prefixesG ops []
    (∀ i, SetImpl.Inv R (SetImpl.getReg out.1 i)) ∧
    SetImpl.absRegs R out.1 = PathSet.psSpecRun R PathSet.prefixesG ops (SetImpl.absRegs R []) ∧
    PathSet.PSOutsOk R PathSet.prefixesG (SetImpl.absRegs R []) ops out.2 :=
  pathset_refines ops [] (fun i => by
    rw [SetImpl.getReg_nil]; exact SetImpl.inv_empty _)

/-- `AddAllSteps` adds exactly the non-empty prefixes of its argument. -/
theorem pathset_addAllSteps_prefixes (x q : PathSet.GoodPath) :
    q ∈ PathSet.prefixesG x ↔ ∃ n, 0 < n ∧ n ≤ x.1.length ∧ q.1 = x.1.take n :=
  PathSet.mem_prefixesG x q

/-! ## the hypotheses are satisfiable -/

/-- a nested, marked value with an unknown, a null, a map and a set -/
def sample : Value :=
  ⟨.object ["a", "b", "s"] [.list .string, .tuple [.number, .map .bool], .set .string] [false, false, false],
   .marked ["m1"] (.smap ["a", "b", "s"]
     [.seq [.s "x", .marked ["m2"] (.s "y"), .unk .unref],
      .seq [.n (.fin false 1 0 64), .smap ["k"] [.null]],
      .sset [5, 7] [.s "p", .s "q"]])⟩

def X0 : SetOracle := SetOracle.storage

example : IterPerm X0 := iterPerm_storage _
example : shapedV sample = true ∧ Ty.wf sample.ty = true := by decide
example : (walk X0 descend sample).1.length = 12 := by decide
example : nodeAt X0 sample [0, 1] = some ⟨.string, .marked ["m2"] (.s "y")⟩ ∧
    pathAt X0 sample [0, 1] = some [.getAttr "a", .index (Value.intVal 1)] := ⟨rfl, rfl⟩
example : noSetAt X0 sample [0, 1] = true ∧ noSetAt X0 sample [2, 0] = false := by decide
example : keysShaped [.index (Value.intVal 1), .index (Value.strVal "k"), .index ⟨.bool, .b true⟩,
    .index (Value.unknown .number), .index (Value.null .string),
    .index ⟨.number, .marked ["m"] (.n (.fin false 1 0 64))⟩] = true := by decide
example : stepExists (.getAttr "a") sample = true ∧ stepExists (.getAttr "zz") sample = false := by
  decide
example : keysShaped [.getAttr "b", .index (Value.intVal 1), .index (Value.strVal "k")] = true ∧
    stepsExist [.getAttr "b", .index (Value.intVal 1), .index (Value.strVal "k")] sample = true ∧
    stepsExist [.getAttr "b", .index (Value.intVal 2)] sample = false := by decide
example : PathSet.keysOk [.getAttr "a", .index (Value.intVal 1), .index (Value.strVal "k")] = true := by
  decide

/-- an oracle under which the sample's set is stable: the stored bucket ids are the hashes -/
def X1 : SetOracle :=
  SetOracle.storage (fun _ p => match p with | .s "p" => 5 | .s "q" => 7 | _ => 0)

example : IterPerm X1 := iterPerm_storage _
example : Ty.hasCapsule sample.ty = false := by decide
example : Walk.Good X1 sample :=
  ⟨by decide, by decide, by
    simp only [sample, SetsStable, SetsStableZip, SetsStableAll, and_true, true_and]
    exact ⟨rfl, rfl⟩⟩
example : SchedOk Sched.sorted ∧ SchedOk (fun _ ns => ns.reverse) :=
  ⟨schedOk_sorted, fun _ ns => List.reverse_perm ns⟩

/-- a callback that replaces the second element of a list, and a value for it -/
def sampleList : Value := ⟨.list .string, .seq [.s "a", .s "b"]⟩
def sampleCb : TCb := fun _ p w =>
  match p with
  | [.index ⟨_, .n (.fin _ 1 0 _)⟩] => .ok ⟨.string, .s "z"⟩
  | _ => .ok w

example : Walk.Good X0 sampleList ∧ nodeAt X0 sampleList [1] = some ⟨.string, .s "b"⟩ ∧
    noSetAt X0 sampleList [1] = true :=
  ⟨⟨by decide, by decide, by simp [sampleList, SetsStable, SetsStableAll]⟩, rfl, by decide⟩
example : ∀ q0, pathAt X0 sampleList [1] = some q0 → ∀ log v', sampleCb log q0 v' = .ok ⟨.string, .s "z"⟩ := by
  intro q0 h log v'
  have : q0 = [.index (Value.intVal 1)] := by
    have h' : some [PathStep.index (Value.intVal 1)] = some q0 := h
    exact (Option.some.inj h').symm
  subst this
  rfl
example : (transform X0 Sched.sorted sampleCb sampleList).2 =
    .ok ⟨.list .string, .seq [.s "a", .s "z"]⟩ := by rfl

/-! ## d19 — deepening along the audit (audit/audit-C15-C20.md, section C19) -/

/-- **"the value and each nested member", counted independently** (audit item 2).
`walk_preorder_once` speaks of the positions `nodeAt` knows, and `nodeAt` is defined
through the `children` that `walk` itself iterates.  `nodes` counts the nested
members of a payload by recursion on the payload alone (slice elements of a list
/ tuple, map values of a map / object, stored members of a set; nothing below
null, unknown, primitives, capsules; a marker has what it wraps) — no `children`,
no iteration oracle.  On every shaped value `Walk` with a descending callback
makes exactly that many visits; together with `walk_preorder_once` (no position
twice) and `walk_paths_lead_back` (each visit is the member its path names) no
kind of member can be left out. -/
theorem walk_visits_count {X : SetOracle} (hX : IterPerm X) (root : Value)
    (hs : shapedV root = true) : (walk X descend root).1.length = nodes root.v := by
  rw [walk_eq_preorder hX]
  simp [preorder_length hX root hs]

/-- **Under which steps the members are reported**, by type and payload (audit
item 2, "missing theorem (b)"): a known non-null list of `n` elements / tuple of
`n` element types reports the index steps `NumberIntVal(0 … n-1)` in that order, a
map the index steps `StringVal(key)` in key order, an object the attribute steps of
the attributes of its TYPE, a set its members in iteration order, each as its own
key; everything else has no members. -/
theorem walk_member_steps (X : SetOracle) (v : Value) (hs : shapedV v = true)
    (hnull : v.isNull = false) (hknown : v.isKnown = true) : StepsSpec X v (kids X v) :=
  kids_steps_spec X v hs hnull hknown

/-- `walk_any_callback_sublist` as the implication it is (audit item 5) -/
theorem walk_any_callback_sublist_of_iterPerm {X : SetOracle} (hX : IterPerm X) (cb : WalkCb)
    (root : Value) : (walk X cb root).1.Sublist (walk X descend root).1 := by
  rw [walk_eq_preorder hX]
  exact walk_sublist_preorder X cb root

/-- **A path outside sets names one position** (audit item 5): if the way to `r0`
does not go through a set, no other position of the value has the path of `r0`.
(Below a set the step key is the member itself and `Path.Apply` cannot address it;
those positions are outside this statement, as they are outside `walk_paths_lead_back`.) -/
theorem walk_path_names_one_position {X : SetOracle} (hX : IterPerm X) (root : Value)
    (hs : shapedV root = true) (r0 r : Pos) (q : Path) (hns : noSetAt X root r0 = true)
    (h0 : pathAt X root r0 = some q) (h : pathAt X root r = some q) : r = r0 :=
  pathAt_inj_noSet hX r0 r root q hs hns h0 h

/-- **Replace one member, with the callback the correspondence runs** (audit item
5: `transform_replace_one` takes two hypotheses about the callback that are
jointly satisfiable only because paths identify positions).  `atPathCb q0 x` —
"return `x` at path `q0`, the given value anywhere else" — is the denotation of the
harness rule `(at q0 (ret x))` (`Driver/HWalk.decTRules`, `harness/c19.go` predicate
`transform-replace`).  For every position `r0` outside sets, with `q0` its path,
that callback meets both hypotheses, so the conclusion of `transform_replace_one`
holds outright. -/
theorem transform_replace_at_path {X : SetOracle} (hX : IterPerm X) {σ : Sched} (hσ : SchedOk σ)
    (v x n : Value) (r0 : Pos) (q0 : Path) (hg : Walk.Good X v)
    (hn : nodeAt X v r0 = some n) (hq : pathAt X v r0 = some q0) (hns : noSetAt X v r0 = true)
    (hx : x.ty = n.ty) :
    ∃ log, transform X σ (atPathCb q0 x) v = (log, .ok (replaceAt X v r0 x)) ∧
      nodeAt X (replaceAt X v r0 x) r0 = some x ∧
      ∀ r, ¬ r0 <+: r → ¬ r <+: r0 → nodeAt X (replaceAt X v r0 x) r = nodeAt X v r := by
  obtain ⟨h1, h2⟩ := atPathCb_hyps hX v x r0 q0 hg.shaped hns hq
  exact transform_replace_one hX hσ (atPathCb q0 x) v x n r0 hg hn hns hx h1 h2

example : (transform X0 Sched.sorted (atPathCb [.index (Value.intVal 1)] ⟨.string, .s "z"⟩) sampleList).2 =
    .ok ⟨.list .string, .seq [.s "a", .s "z"]⟩ := by decide

/-- **Hash coherence of `pathSetRules`, for ALL paths**: whenever `Equivalent(p, q)`
answers true — whatever the index keys are: marked or not, of any type, known,
unknown or null — `Hash(p) = Hash(q)`.  (`Hash` writes the attribute names and one
placeholder byte per index step; `Equivalent` is true only for paths that agree in
length, step kinds and attribute names.)  A `Hash` that folds anything of an index
key into the sum — so that `m["k"]` and `m[StringVal("k").Mark(x)]`, or `[1]` and
`[1.0]`, land in different buckets — falsifies this theorem for the model that
follows it. -/
theorem pathset_hash_coherent (p q : Path) (h : PathSet.equiv p q = .ok true) :
    PathSet.hash p = PathSet.hash q :=
  PathSet.hash_eq_of_equiv p q h

/-- …for the `set.Rules` value `NewPathSet` hands to `set.NewSet` -/
theorem pathset_rules_hash_coherent (p q : Path) (h : PathSet.pathRules.equiv p q = true) :
    PathSet.pathRules.hash p = PathSet.pathRules.hash q :=
  PathSet.pathRules_hash_eq p q h

/-- …and what it buys: after `Add(p)` on a fresh set, `Has(q)` is true for every `q`
that `Equivalent` identifies with `p` — the lookup goes to the bucket `p` was filed
in.  No restriction on the keys. -/
theorem pathset_has_equivalent_after_add (p q : Path) (h : PathSet.pathRules.equiv q p = true) :
    SetImpl.has PathSet.pathRules (SetImpl.add PathSet.pathRules SetImpl.empty p) q = true :=
  PathSet.has_singleton_of_equiv p q h

/-- a marked key and its plain twin, and `1` against `1.0` (another precision): equivalent,
same hash, found -/
example :
    let mk : Path := [.getAttr "a", .index ⟨.string, .marked ["m"] (.s "k")⟩]
    let pl : Path := [.getAttr "a", .index (Value.strVal "k")]
    PathSet.equiv mk pl = .ok true ∧ PathSet.hash mk = PathSet.hash pl ∧
      SetImpl.has PathSet.pathRules (SetImpl.add PathSet.pathRules SetImpl.empty mk) pl = true :=
  ⟨rfl, pathset_hash_coherent _ _ rfl, pathset_has_equivalent_after_add _ _ rfl⟩
example :
    let a : Path := [.index ⟨.number, .n (.fin false 1 0 64)⟩]
    let b : Path := [.index ⟨.number, .n (.fin false 1 0 512)⟩]
    PathSet.equiv a b = .ok true ∧ PathSet.hash a = PathSet.hash b :=
  ⟨by decide, pathset_hash_coherent _ _ (by decide)⟩

/-- **The full statement about `pathSetRules`** — the contract of `cty/set/rules.go`
(`Equivalent` an equivalence, equivalent values hash alike) for every path — is
false of the code… -/
def PathRulesLawful : Prop := PathSet.pathRules.Lawful

/-- …because of reflexivity on unknown keys only (`pathset_unknown_key_counterexample`). -/
theorem pathRules_lawful_counterexample : ¬ PathRulesLawful := fun h => by
  have := h.refl [.index (Value.unknown .number)]
  exact absurd this (by decide)

/-- The strongest true part, about the very `Rules` value the code uses (not a
restriction of it): on the carrier of paths with known number / string keys,
marked or not, it is lawful (`pathset_rules_lawful` is this statement on the
subtype); and the hash clause holds on ALL paths (`pathset_rules_hash_coherent`). -/
theorem pathRules_lawful_partial :
    PathSet.pathRules.LawfulOn (fun p => PathSet.keysOk p = true) where
  refl a ha := PathSet.goodRules_lawful.refl ⟨a, ha⟩
  symm a b ha hb := PathSet.goodRules_lawful.symm ⟨a, ha⟩ ⟨b, hb⟩
  trans a b c ha hb hc := PathSet.goodRules_lawful.trans ⟨a, ha⟩ ⟨b, hb⟩ ⟨c, hc⟩
  hash_eq a b _ _ h := pathset_rules_hash_coherent a b h

/-- **No existing member is left out** (audit item 2, the converse of
`walk_paths_lead_back`, one level at a time and hence at every depth).  Let `Walk`
with a descending callback visit a known member `n` under path `p`, and let `s` be
any step that names an existing member of `n` — `stepExists`, the predicate by which
`IndexStep.Apply` / `GetAttrStep.Apply` succeed (`apply_step_ok_iff_exists`), with a
known key of any representation (marked, another precision).  Then `Walk` also makes
a visit under `p ++ [s']` where `s'` names the same member as `s` (`sameStep`: same
attribute, number keys denoting the same index, string keys with the same
content).  "Member" here is what path application can reach — not the model's own
`children`. -/
theorem walk_visits_every_existing_member {X : SetOracle} (hX : IterPerm X) (root : Value)
    (hs : shapedV root = true) (p : Path) (n : Value) (hv : (p, n) ∈ (walk X descend root).1)
    (s : PathStep) (hknown : n.isKnown = true)
    (hk : (match s with | .index k => k.isKnown | .getAttr _ => true) = true)
    (h : stepExists s n = true) :
    ∃ s' m, (p ++ [s'], m) ∈ (walk X descend root).1 ∧ sameStep s s' = true := by
  rw [walk_eq_preorder hX] at hv ⊢
  obtain ⟨e, he, hev⟩ := List.mem_map.mp hv
  simp only [Node.visit, Prod.mk.injEq] at hev
  obtain ⟨rfl, rfl⟩ := hev
  obtain ⟨e', he', s', hp', hss⟩ := preorder_has_kid hX root hs e he s hknown hk h
  exact ⟨s', e'.2.2, List.mem_map.mpr ⟨e', he', by simp [Node.visit, hp']⟩, hss⟩

/-- the sample's list `a` has a member at index 1 whichever way the key is written -/
example : stepExists (.index ⟨.number, .marked ["k"] (.n (.fin false 1 0 512))⟩)
      ⟨.list .string, .seq [.s "x", .marked ["m2"] (.s "y"), .unk .unref]⟩ = true ∧
    sameStep (.index ⟨.number, .marked ["k"] (.n (.fin false 1 0 512))⟩) (.index (Value.intVal 1)) = true := by
  decide

/-! ### why `transform_id_partial` carries `SetsStable` (audit item 3) -/

/-- an oracle whose sets iterate in string order whatever the storage order (as cty's
do: `Values` sorts by `Less`), all members in one bucket -/
def X2 : SetOracle :=
  ⟨fun _ _ => 0, fun _ _ ms => SetImpl.sortStable
    (fun a b => match a, b with | .s x, .s y => decide (x < y) | _, _ => false) ms⟩

/-- a set stored against its iteration order (what hash-tied members added in
descending order look like) -/
def tiedSet : Value := ⟨.set .string, .sset [0, 0] [.s "q", .s "p"]⟩

/-- The conclusion of `transform_id_partial` in the form "returns the value ITSELF",
for every shaped value of a plain well-formed type — without `SetsStable` — is
false of the model (and of the code: the rebuilt set is another representation)… -/
def TransformIdReturnsInput : Prop :=
  ∀ (X : SetOracle) (σ : Sched) (v : Value), IterPerm X → SchedOk σ → shapedV v = true →
    tyOk v.ty = true → (transform X σ idCb v).2 = .ok v

theorem transform_id_returns_input_counterexample : ¬ TransformIdReturnsInput := fun h => by
  have := h X2 Sched.sorted tiedSet (fun _ _ _ => SetImpl.sortStable_perm _ _) schedOk_sorted
    (by decide) (by decide)
  exact absurd this (by decide)

/-- …while what the property asks — a `RawEquals` value — does hold on that witness:
the members come back in the other storage order, the two representations iterate
alike.  For sets like this one at arbitrary depth the `RawEquals` form is compared
with the implementation on every run (generator `c19TiedSet`, predicate
`transform-id`) but is NOT proved: `transform_id_rawEquals_partial` still assumes
`SetsStable`. -/
example : (transform X2 Sched.sorted idCb tiedSet).2 = .ok ⟨.set .string, .sset [0, 0] [.s "p", .s "q"]⟩ ∧
    Value.rawEquals X2 ⟨.set .string, .sset [0, 0] [.s "p", .s "q"]⟩ tiedSet = .ok true := by decide

example : (unmarkDeepWithPaths X1 Sched.sorted sample).map (·.2.length) = .ok 2 := by rfl

/-! ## The regenerated model

`extract/translate_path.go` translates `GetAttrStep.Apply`, `IndexStep.Apply`, `Path.Apply`, `Path.LastStep`,
`Path.Equals`, `Path.HasPrefix`, `Path.Copy`, the path constructors and `pathSetRules.Hash` / `Equivalent` /
`SameRules` from go-cty's source into Lean on every check (`Generated/PathFns.lean`; the `Value` and `Type` methods
they call are the hand-written operations model, `CtyModel/PathGo.lean` says how Go data is read).  The
`generated_*_eq` theorems say that what the source text computes is what the hand-written model computes — value,
error class and panic alike, for all inputs — so every theorem above about paths and path sets holds of the
translated source; the `*_generated` corollaries state the property clauses directly about it.  A source edit that
changes the meaning makes these proofs fail; an edit that leaves the translated fragment makes the extractor fail. -/

/-- the two `Apply` methods of the steps, as written in the source, are the model's `PathStep.apply` -/
theorem generated_step_apply_eq (s : PathStep) (v : Value) :
    (match s with
      | .getAttr n => Generated.PathFns.GetAttrStep_Apply n v
      | .index k => Generated.PathFns.IndexStep_Apply k v) = s.apply v := by
  cases s
  · exact PathFnsTie.getAttrStep_apply_eq _ v
  · exact PathFnsTie.indexStep_apply_eq _ v

/-- `Path.Apply` as written in the source is the model's `Path.apply`: same value, same error class, same panic -/
theorem generated_path_apply_eq (p : Path) (v : Value) : Generated.PathFns.Path_Apply p v = Path.apply p v :=
  PathFnsTie.path_apply_eq p v

/-- `Path.LastStep` as written in the source is the model's `Path.lastStep` -/
theorem generated_path_lastStep_eq (p : Path) (v : Value) :
    Generated.PathFns.Path_LastStep p v = Path.lastStep p v := PathFnsTie.path_lastStep_eq p v

/-- `pathSetRules.Hash` as written in the source — which bytes are written per step kind included — is the model's hash -/
theorem generated_hash_eq (p : Path) : Generated.PathFns.pathSetRules_Hash p = .ok (PathSet.hash p) :=
  PathFnsTie.hash_eq p

/-- `pathSetRules.Equivalent` as written in the source is the model's `PathSet.equiv`, for all paths -/
theorem generated_equivalent_eq (p q : Path) :
    Generated.PathFns.pathSetRules_Equivalent p q = PathSet.equiv p q := PathFnsTie.equivalent_eq p q

/-- the rules built from the translated `Hash` and `Equivalent` are the model's rules -/
theorem generated_rules_eq : PathFnsTie.genGoodRules = PathSet.goodRules := PathFnsTie.genGoodRules_eq

/-- reported paths lead back, about the translated `Path.Apply` -/
theorem walk_paths_lead_back_generated {X : SetOracle} (hX : IterPerm X) (root : Value)
    (hs : shapedV root = true) (p : Path) (n : Value) (hv : (p, n) ∈ (walk X descend root).1) :
    ∃ pos, nodeAt X root pos = some n ∧ pathAt X root pos = some p ∧
      (noSetAt X root pos = true →
        ∃ a, Generated.PathFns.Path_Apply p root = .ok a ∧ a.unmark = n.unmark ∧
          ∀ m, m ∈ a.marks ↔ (m ∈ n.marks ∨
            ∃ q s anc, pos = q ++ s ∧ s ≠ [] ∧ nodeAt X root q = some anc ∧ m ∈ anc.marks)) := by
  simp only [generated_path_apply_eq]
  exact walk_paths_lead_back hX root hs p n hv

/-- one step, about the translated `GetAttrStep.Apply` / `IndexStep.Apply`: succeeds exactly when it names an
existing member, never panics, returns a shaped value of a well-formed type -/
theorem apply_step_ok_iff_exists_generated (s : PathStep) (v : Value) (hs : shapedV v = true)
    (hw : Ty.wf v.ty = true)
    (hk : (match s with | .index k => shapedV k | .getAttr _ => true) = true) :
    let r := match s with
      | .getAttr n => Generated.PathFns.GetAttrStep_Apply n v
      | .index k => Generated.PathFns.IndexStep_Apply k v
    (r.isOk = true ↔ stepExists s v = true) ∧ r.isPanic = false ∧
      ∀ v', r = .ok v' → shapedV v' = true ∧ Ty.wf v'.ty = true := by
  simp only [generated_step_apply_eq]
  exact apply_step_ok_iff_exists s v hs hw hk

/-- whole paths, about the translated `Path.Apply`: it succeeds exactly when every step names an existing member
of the value reached by the steps before it, and does not panic -/
theorem apply_ok_iff_steps_exist_generated (p : Path) (v : Value) (hs : shapedV v = true)
    (hw : Ty.wf v.ty = true) (hk : keysShaped p = true) :
    ((Generated.PathFns.Path_Apply p v).isOk = true ↔ stepsExist p v = true) ∧
      (Generated.PathFns.Path_Apply p v).isPanic = false := by
  rw [generated_path_apply_eq]
  exact apply_ok_iff_steps_exist p v hs hw hk

/-- `Path.LastStep`, about the translated source: nil step for the empty path; otherwise it succeeds exactly when
every step but the last names an existing member, returns the last step, and never panics (in particular neither
`p[:len(p)-1]` nor `p[len(p)-1]` is out of range) -/
theorem lastStep_generated (p : Path) (v : Value) (hs : shapedV v = true)
    (hw : Ty.wf v.ty = true) (hk : keysShaped p.dropLast = true) :
    (p = [] → Generated.PathFns.Path_LastStep p v = .ok (v, none)) ∧
    ((Generated.PathFns.Path_LastStep p v).isOk = true ↔ stepsExist p.dropLast v = true) ∧
    (Generated.PathFns.Path_LastStep p v).isPanic = false ∧
    (∀ w s, Generated.PathFns.Path_LastStep p v = .ok (w, s) → s = p.getLast? ∧ Path.apply p.dropLast v = .ok w) := by
  rw [generated_path_lastStep_eq]
  have ha := apply_ok_iff_steps_exist p.dropLast v hs hw hk
  refine ⟨fun h => by subst h; rfl, ?_, ?_, ?_⟩
  · rw [← ha.1]
    cases hl : p.getLast? with
    | none =>
      have : p = [] := by simpa using hl
      subst this; simp [Path.lastStep, Path.apply, Res.isOk]
    | some l => simp only [Path.lastStep, hl]; cases Path.apply p.dropLast v <;> simp [Res.map, Res.isOk]
  · cases hl : p.getLast? with
    | none => simp [Path.lastStep, hl, Res.isPanic]
    | some l =>
      have := ha.2
      simp only [Path.lastStep, hl]; cases h : Path.apply p.dropLast v <;> simp_all [Res.map, Res.isPanic]
  · intro w s h
    cases hl : p.getLast? with
    | none =>
      have : p = [] := by simpa using hl
      subst this
      simp only [Path.lastStep, List.getLast?_nil, Res.ok.injEq, Prod.mk.injEq] at h
      simp [h.1.symm, h.2.symm, Path.apply]
    | some l =>
      simp only [Path.lastStep, hl] at h
      cases ha' : Path.apply p.dropLast v <;> simp_all [Res.map]

/-- the translated rules are lawful on paths whose index keys are known numbers or strings (marked or not) -/
theorem pathset_rules_lawful_generated : PathFnsTie.genGoodRules.Lawful := by
  rw [generated_rules_eq]; exact pathset_rules_lawful

/-- the hash of the translated source writes one `#` for EVERY index step, whatever its key: two paths that differ
only in their index keys hash alike (what `Equivalent` needs, since keys that are `Equals` need not be the same
value — a folded-in key would separate `1` from a marked `1`) -/
theorem hash_ignores_index_keys_generated (pre post : Path) (k k' : Value) :
    Generated.PathFns.pathSetRules_Hash (pre ++ .index k :: post) =
      Generated.PathFns.pathSetRules_Hash (pre ++ .index k' :: post) := by
  simp only [generated_hash_eq, PathSet.hash]
  have : ∀ pre : Path, PathSet.hashBytes (pre ++ .index k :: post) = PathSet.hashBytes (pre ++ .index k' :: post) := by
    intro pre
    induction pre with
    | nil => simp [PathSet.hashBytes]
    | cons s r ih => cases s <;> simp [PathSet.hashBytes, ih]
  rw [this]

/-- PathSet refines sets of paths for all histories, with the rules as translated from the source -/
theorem pathset_refines_generated (ops : List (PathSet.PSOp PathSet.GoodPath))
    (st : List (SetImpl PathSet.GoodPath))
    (h : ∀ i, SetImpl.Inv PathFnsTie.genGoodRules (SetImpl.getReg st i)) :
    let R := PathFnsTie.genGoodRules
    let out := PathSet.psRun R PathSet.prefixesG ops st
    (∀ i, SetImpl.Inv R (SetImpl.getReg out.1 i)) ∧
    SetImpl.absRegs R out.1 = PathSet.psSpecRun R PathSet.prefixesG ops (SetImpl.absRegs R st) ∧
    PathSet.PSOutsOk R PathSet.prefixesG (SetImpl.absRegs R st) ops out.2 := by
  rw [generated_rules_eq] at h ⊢
  exact pathset_refines ops st h

/-- the `PathSet` methods that are more than a forwarded call — `AddAllSteps`, `Equal`, `Empty`, `List` — as written
in the source, are the model's (`PathSet.addAll` of `prefixes`, `equal`, `isEmpty`, `list`), for any rules over paths -/
theorem generated_pathset_methods_eq (R : Rules Path) (s o : SetImpl Path) (p : Path) :
    Generated.PathFns.PathSet_AddAllSteps R s p = .ok (PathSet.addAll R s (PathSet.prefixes p)) ∧
    Generated.PathFns.PathSet_Equal R s o = .ok (PathSet.equal R s o) ∧
    Generated.PathFns.PathSet_Empty s = .ok (PathSet.isEmpty s) ∧
    Generated.PathFns.PathSet_List R s = .ok (PathSet.list R s) :=
  ⟨PathFnsTie.addAllSteps_eq R s p, PathFnsTie.equal_eq R s o, PathFnsTie.empty_eq s, PathFnsTie.list_eq R s⟩

/-- `AddAllSteps`, about the translated source: no slice bound is out of range, and afterwards the set holds what it
held together with exactly the non-empty prefixes of the path (up to `Equivalent`) -/
theorem pathset_addAllSteps_generated {R : Rules Path} (hR : R.Lawful) {s : SetImpl Path} (hs : SetImpl.InvB R s)
    (p : Path) :
    ∃ s', Generated.PathFns.PathSet_AddAllSteps R s p = .ok s' ∧ SetImpl.InvB R s' ∧
      ∀ y, SetImpl.abs R s' y ↔ (SetImpl.abs R s y ∨ ∃ n, 0 < n ∧ n ≤ p.length ∧ R.equiv y (p.take n) = true) := by
  refine ⟨_, PathFnsTie.addAllSteps_eq R s p, PathSet.invB_addAll hR hs _, fun y => ?_⟩
  rw [PathSet.abs_addAll hR hs]
  simp only [PathSet.prefixes, List.mem_map, List.mem_range]
  constructor
  · rintro (h | ⟨x, ⟨i, hi, rfl⟩, hx⟩)
    · exact Or.inl h
    · exact Or.inr ⟨i + 1, by omega, by omega, hx⟩
  · rintro (h | ⟨n, h0, hn, hx⟩)
    · exact Or.inl h
    · exact Or.inr ⟨_, ⟨n - 1, by omega, rfl⟩, by rwa [show n - 1 + 1 = n by omega]⟩

/-- `Equal`, about the translated source: it decides equality of the sets of paths the two values stand for -/
theorem pathset_equal_generated {R : Rules Path} (hR : R.Lawful) {s o : SetImpl Path}
    (hs : SetImpl.InvB R s) (ho : SetImpl.InvB R o) :
    ∃ b, Generated.PathFns.PathSet_Equal R s o = .ok b ∧ (b = true ↔ ∀ y, SetImpl.abs R s y ↔ SetImpl.abs R o y) :=
  ⟨_, PathFnsTie.equal_eq R s o, PathSet.equal_iff hR hs ho⟩

/-- `cty.Walk` / `walk` as written in the source (cty/walk.go; the callback a parameter, `ElementIterator` the model's
element iteration) make the same callback invocations with the same outcome as the model's `Walk.walk` — for every
callback, failing, pruning and panicking ones included -/
theorem generated_walk_eq (X : SetOracle) (cb : WalkCb) (val : Value) :
    Generated.PathFns.go_Walk X cb [] val = walk X cb val := PathFnsTie.walk_eq X cb val

/-- every member exactly once, parents first — about the translated `Walk` -/
theorem walk_preorder_once_generated {X : SetOracle} (hX : IterPerm X) (root : Value) :
    ∃ ps : List Pos,
      ps.length = (Generated.PathFns.go_Walk X descend [] root).1.length ∧
      ps.Nodup ∧
      (∀ pos, pos ∈ ps ↔ (nodeAt X root pos).isSome = true) ∧
      (∀ i (h : i < ps.length) (h' : i < (Generated.PathFns.go_Walk X descend [] root).1.length),
        nodeAt X root ps[i] = some ((Generated.PathFns.go_Walk X descend [] root).1[i]).2 ∧
        pathAt X root ps[i] = some ((Generated.PathFns.go_Walk X descend [] root).1[i]).1) ∧
      ps.Pairwise (fun a b => posLt a b = true) ∧
      (Generated.PathFns.go_Walk X descend [] root).2 = .ok () := by
  simp only [generated_walk_eq]
  exact walk_preorder_once hX root

/-- whatever the callback does, the translated `Walk` visits a sub-listing of the full pre-order listing -/
theorem walk_any_callback_sublist_generated (X : SetOracle) (cb : WalkCb) (root : Value) :
    (Generated.PathFns.go_Walk X cb [] root).1.Sublist (Generated.PathFns.go_Walk X descend [] root).1 ∨ ¬ IterPerm X := by
  simp only [generated_walk_eq]
  exact walk_any_callback_sublist X cb root

/-- the paths the translated `Walk` reports, applied by the translated `Path.Apply`, lead back to the visited member -/
theorem walk_apply_roundtrip_generated {X : SetOracle} (hX : IterPerm X) (root : Value)
    (hs : shapedV root = true) (p : Path) (n : Value)
    (hv : (p, n) ∈ (Generated.PathFns.go_Walk X descend [] root).1) :
    ∃ pos, nodeAt X root pos = some n ∧ pathAt X root pos = some p ∧
      (noSetAt X root pos = true →
        ∃ a, Generated.PathFns.Path_Apply p root = .ok a ∧ a.unmark = n.unmark) := by
  rw [generated_walk_eq] at hv
  obtain ⟨pos, h1, h2, h3⟩ := walk_paths_lead_back_generated hX root hs p n hv
  exact ⟨pos, h1, h2, fun h => let ⟨a, ha, hu, _⟩ := h3 h; ⟨a, ha, hu⟩⟩

/-! ## d19b — second deepening (Enter replacement, below sets, fresh PathSet results, paths through sets) -/

/-- **`TransformWithTransformer` traverses what `Enter` RETURNED** (harness predicate
`transform-enter-replace`; cty/walk.go `transform` re-binds `val` to the result of
`t.Enter` before the null / unknown test and the type switch).  Let `Enter` answer
`x` — any good value of the member's type, of ANY null / unknown status: a known
container for a null member, a null for a known container … — at the path `q0` of
position `r0` (outside sets) and the value it is given everywhere else, `Exit` the
identity (`enterAtT q0 x`: the denotation of the harness rule pair
`(tcb ((at q0 (ret x))) ())`), with enough fuel for the replacement.  Then for every
schedule:

* the transform succeeds and returns `replaceAt X v r0 x`: at `r0` it holds `x`, every
  position neither above nor below `r0` holds what it held;
* the events are `pre ++ Enter(q0, n) :: seg ++ post`: `Enter` at the position was
  handed the ORIGINAL member `n`;
* `seg` is what is traversed afterwards up to the matching `Exit`: its `Enter` calls are
  exactly `Walk`'s visits of the PROPER MEMBERS OF `x` under `q0`, each once (none when
  `x` is null or unknown, whatever `n` was), its `Exit` calls exactly `Walk`'s visits of
  `x` and its members (what `Exit` receives is the rebuilt value, here the member
  itself), and it ends with `Exit(q0, x)`;
* no other event of the run (`pre`, `post`) has a path at or below `q0`: the members of
  the original `n` are never entered, the members of `x` exactly once. -/
theorem transform_enter_replace {X : SetOracle} (hX : IterPerm X) {σ : Sched} (hσ : SchedOk σ)
    (v x n : Value) (r0 : Pos) (q0 : Path) (hg : Walk.Good X v) (hgx : Walk.Good X x)
    (hn : nodeAt X v r0 = some n) (hq : pathAt X v r0 = some q0) (hns : noSetAt X v r0 = true)
    (hx : x.ty = n.ty) (fuel : Nat) (hf1 : v.v.depth < fuel) (hf2 : r0.length + x.v.depth < fuel) :
    ∃ pre seg post,
      transformWith X σ (enterAtT q0 x) fuel v =
        (pre ++ .enter q0 n :: seg ++ post, .ok (replaceAt X v r0 x)) ∧
      (enters seg).Perm (((walk X descend x).1.map (under q0)).tail) ∧
      (exits seg).Perm ((walk X descend x).1.map (under q0)) ∧
      seg.getLast? = some (.exit q0 x) ∧
      (∀ e, e ∈ pre ++ post → ¬ q0 <+: e.path) ∧
      nodeAt X (replaceAt X v r0 x) r0 = some x ∧
      ∀ r, ¬ r0 <+: r → ¬ r <+: r0 → nodeAt X (replaceAt X v r0 x) r = nodeAt X v r := by
  obtain ⟨pre, seg, post, f', hf', hseg, hout, hrun⟩ :=
    transformWith_enterAt hX hσ v x n r0 q0 hg hgx hn hq hns hx fuel hf1 hf2
  obtain ⟨h1, h2, h3⟩ := idEvs_tail_visits hX hσ x hgx.shaped q0 f' hf'
  rw [← hseg] at h1 h2 h3
  exact ⟨pre, seg, post, hrun, h1, h2, h3, hout,
    nodeAt_replaceAt_self hX r0 v x n hg.shaped hn hns hx,
    nodeAt_replaceAt_other hX r0 v x n hg.shaped hn hns hx⟩

/-- a null list member replaced on entry by a two-element list (descended into), and a
known list replaced by a null (a leaf): the hypotheses are met and this is what runs -/
def enterSample : Value :=
  ⟨.object ["a", "b"] [.list .string, .number] [false, false], .smap ["a", "b"] [.null, .n (.fin false 1 0 64)]⟩
def enterRepl : Value := ⟨.list .string, .seq [.s "x", .marked ["m"] (.s "y")]⟩

example : Walk.Good X0 enterSample ∧ Walk.Good X0 enterRepl ∧
    nodeAt X0 enterSample [0] = some ⟨.list .string, .null⟩ ∧
    pathAt X0 enterSample [0] = some [.getAttr "a"] ∧ noSetAt X0 enterSample [0] = true ∧
    enterSample.v.depth < 5 ∧ [0].length + enterRepl.v.depth < 5 :=
  ⟨⟨by decide, by decide, by simp [enterSample, SetsStable, SetsStableZip]⟩,
   ⟨by decide, by decide, by simp [enterRepl, SetsStable, SetsStableAll]⟩, rfl, rfl, by decide, by decide, by decide⟩
example :
    let r := transformWith X0 Sched.sorted (enterAtT [.getAttr "a"] enterRepl) 5 enterSample
    r.2 = .ok ⟨.object ["a", "b"] [.list .string, .number] [false, false],
       .smap ["a", "b"] [.seq [.s "x", .marked ["m"] (.s "y")], .n (.fin false 1 0 64)]⟩ ∧
    enters r.1 = [([], enterSample), ([.getAttr "a"], ⟨.list .string, .null⟩),
      ([.getAttr "a", .index (Value.intVal 0)], ⟨.string, .s "x"⟩),
      ([.getAttr "a", .index (Value.intVal 1)], ⟨.string, .marked ["m"] (.s "y")⟩),
      ([.getAttr "b"], ⟨.number, .n (.fin false 1 0 64)⟩)] ∧
    exits r.1 = [([.getAttr "a", .index (Value.intVal 0)], ⟨.string, .s "x"⟩),
      ([.getAttr "a", .index (Value.intVal 1)], ⟨.string, .marked ["m"] (.s "y")⟩),
      ([.getAttr "a"], enterRepl), ([.getAttr "b"], ⟨.number, .n (.fin false 1 0 64)⟩),
      ([], replaceAt X0 enterSample [0] enterRepl)] := by decide
/-- a known list replaced on entry by a null: its elements are never entered -/
def enterSample2 : Value := ⟨.tuple [.list .string], .seq [.seq [.s "a", .s "b"]]⟩
example :
    let r := transformWith X0 Sched.sorted (enterAtT [.index (Value.intVal 0)] ⟨.list .string, .null⟩) 5 enterSample2
    r.2 = .ok ⟨.tuple [.list .string], .seq [.null]⟩ ∧
    enters r.1 = [([], enterSample2), ([.index (Value.intVal 0)], ⟨.list .string, .seq [.s "a", .s "b"]⟩)] ∧
    exits r.1 = [([.index (Value.intVal 0)], ⟨.list .string, .null⟩), ([], ⟨.tuple [.list .string], .seq [.null]⟩)] := by
  decide

/-- **`Enter` / `Exit` are properly nested — for EVERY transformer, value, schedule and
fuel.**  Whatever the two methods do (replace members by values of any shape or status,
fail, panic, depend on the calls made so far), the calls of `TransformWithTransformer`
form a bracket sequence (`brk` runs them against the stack of open `Enter` paths):
`Exit(p, ·)` is only ever called for the most recent `Enter(p, ·)` still open, with the
same path; a run that succeeds leaves nothing open; a run that fails stops with the
`Enter`s on the way to the failure open (a failing `Enter` stays open, a failing `Exit`
has closed its `Enter`). -/
theorem transform_calls_properly_nested (X : SetOracle) (σ : Sched) (t : Transformer) (fuel : Nat)
    (v : Value) :
    ∃ open_, brk (transformWith X σ t fuel v).1 [] = some open_ ∧
      ((transformWith X σ t fuel v).2.isOk = true → open_ = []) := by
  obtain ⟨evs, h1, hb⟩ := transformFuel_brk X σ t fuel [] [] v
  obtain ⟨st', h2, h3, _⟩ := hb []
  simp only [List.nil_append] at h1
  exact ⟨st', by simp only [transformWith, h1, h2], fun h => h3 h⟩

/-- an `Exit` that fails inside a list: the element's bracket is closed, the list's and
nothing else is open -/
example :
    let t : Transformer := ⟨idCb, fun _ p w => if p = [.index (Value.intVal 1)] then .err "no" else .ok w⟩
    brk (transformWith X0 Sched.sorted t 5 sampleList).1 [] = some [[]] ∧
      (transformWith X0 Sched.sorted t 5 sampleList).2 = .err "no" := by decide

/-- **`Enter` / `Exit` bracket every successful identity traversal**: with any transformer
that is the identity on the paths of `v` (`IdOnT`), each position is entered once and
exited once — the `Enter` calls and the `Exit` calls are both permutations of `Walk`'s
visits — and `Exit` receives the rebuilt value, which is the member itself. -/
theorem transform_identity_enter_exit_paired {X : SetOracle} (hX : IterPerm X) {σ : Sched}
    (hσ : SchedOk σ) (t : Transformer) (v : Value) (hg : Walk.Good X v) (hid : IdOnT t X [] v)
    (fuel : Nat) (hf : v.v.depth < fuel) :
    ∃ log, transformWith X σ t fuel v = (log, .ok v) ∧
      (enters log).Perm (walk X descend v).1 ∧ (exits log).Perm (walk X descend v).1 := by
  have hu : ∀ l : List Visit, l.map (under []) = l := by
    intro l; induction l <;> simp_all [under]
  have hw := walk_under_eq_preVis hX v [] fuel hf
  rw [hu] at hw
  refine ⟨idEvs X σ fuel [] v, ?_, ?_, ?_⟩
  · have := transformFuel_idOnT hX hσ t fuel v hf hg [] hid []
    simpa [transformWith] using this
  · rw [hw]; exact enters_idEvs_perm hX hσ fuel v hg.shaped []
  · rw [hw]; exact exits_idEvs_perm hX hσ fuel v hg.shaped []

/-- **Replace one member BELOW A SET** (harness reference `c19RefReplace`, predicate
`transform-replace` / `set-member-not-replaced`).  `v` is a set value (marked or not);
the callback returns `x` at the path of position `i :: r` — inside the set's `i`-th
member in iteration order, not passing a further set — and what it is given at the path
of every other position.  Then the outcome of `Transform` is EXACTLY what `SetVal` makes
of the transformed members — the `i`-th member with its position `r` replaced, every
other member itself, in iteration order — with the marks of the members hoisted by
`SetVal` (`Walk.setVal`) and the set's own marks re-applied: success, or the panic of
`SetVal` on inconsistent element types.  Nothing of the original set is reused
(`seeded/C19-transform-set-reuse-when-last-member-unchanged` returned the input set
when the member iterated last was unchanged). -/
theorem transform_replace_below_set {X : SetOracle} (hX : IterPerm X) {σ : Sched} (hσ : SchedOk σ)
    (cb : TCb) (v x n : Value) (e : Ty) (i : Nat) (r : Pos) (q0' : Path) (ci : PathStep × Value)
    (hg : Walk.Good X v) (hty : v.ty = .set e) (hci : (kids X v)[i]? = some ci)
    (hn : nodeAt X ci.2 r = some n) (hq : pathAt X ci.2 r = some q0') (hns : noSetAt X ci.2 r = true)
    (hx : x.ty = n.ty)
    (hrep : ∀ log v', cb log (ci.1 :: q0') v' = .ok x)
    (hid : ∀ r' q, r' ≠ i :: r → pathAt X v r' = some q → ∀ log v', cb log q v' = .ok v') :
    (transform X σ cb v).2 =
      (setVal X (((kids X v).map (·.2)).set i (replaceAt X ci.2 r x))).map (·.withMarks v.marks) := by
  obtain ⟨evs, h⟩ := transformFuel_replace_below_set hX hσ cb x (v.v.depth + 1) v (by omega) hg e hty i r
    [] q0' ci n hci hn hq hns hx (by simpa using hrep) (by simpa using hid)
  simp only [transform, transformWith, h []]

/-- **…with the callback the correspondence runs** (`atPathCb`, the harness rule
`(at q0 (ret x))`): when no two members of the set are the same value — so that their
steps, the members themselves, tell them apart — both hypotheses about the callback
hold, and the conclusion of `transform_replace_below_set` holds outright. -/
theorem transform_replace_below_set_at_path {X : SetOracle} (hX : IterPerm X) {σ : Sched} (hσ : SchedOk σ)
    (v x n : Value) (e : Ty) (i : Nat) (r : Pos) (q0' : Path) (ci : PathStep × Value)
    (hg : Walk.Good X v) (hty : v.ty = .set e) (hnd : ((kids X v).map (·.1)).Nodup)
    (hci : (kids X v)[i]? = some ci)
    (hn : nodeAt X ci.2 r = some n) (hq : pathAt X ci.2 r = some q0') (hns : noSetAt X ci.2 r = true)
    (hx : x.ty = n.ty) :
    (transform X σ (atPathCb (ci.1 :: q0') x) v).2 =
      (setVal X (((kids X v).map (·.2)).set i (replaceAt X ci.2 r x))).map (·.withMarks v.marks) := by
  obtain ⟨h1, h2⟩ := atPathCb_hyps_below_set hX v x hg.shaped hnd i r q0' ci hci hq hns
  exact transform_replace_below_set hX hσ _ v x n e i r q0' ci hg hty hci hn hq hns hx h1 h2

/-- a marked set of two strings; the callback replaces the member `"p"` -/
def setSample : Value := ⟨.set .string, .marked ["ms"] (.sset [5, 7] [.s "p", .s "q"])⟩
def setCb : TCb := atPathCb [.index ⟨.string, .s "p"⟩] ⟨.string, .marked ["mx"] (.s "r")⟩

example : ((kids X1 setSample).map (fun c : PathStep × Value => c.1)).Nodup := by decide


example : Walk.Good X1 setSample ∧ (kids X1 setSample)[0]? = some (.index ⟨.string, .s "p"⟩, ⟨.string, .s "p"⟩) ∧
    nodeAt X1 ⟨.string, .s "p"⟩ [] = some ⟨.string, .s "p"⟩ ∧ pathAt X1 ⟨.string, .s "p"⟩ [] = some [] :=
  ⟨⟨by decide, by decide, by
      simp only [setSample, SetsStable, SetsStableAll, and_true]
      exact ⟨rfl, rfl⟩⟩, rfl, rfl, rfl⟩
example : ∀ log v', setCb log [.index ⟨.string, .s "p"⟩] v' = .ok ⟨.string, .marked ["mx"] (.s "r")⟩ := by
  intro log v'; simp [setCb, atPathCb]
example : ∀ r' q, r' ≠ [0] → pathAt X1 setSample r' = some q → ∀ log v', setCb log q v' = .ok v' := by
  intro r' q hne hq log v'
  have hq0 : q ≠ [.index ⟨.string, .s "p"⟩] := by
    intro h
    subst h
    match r', hne, hq with
    | [], _, hq => cases hq
    | [0], hne, _ => exact hne rfl
    | [1], _, hq => exact absurd hq (by decide)
    | (k + 2) :: _, _, hq => simp [pathAt, kids, setSample, Value.isNull, Value.isKnown, Payload.isNull,
        Payload.isKnown, Payload.unmark1, Value.unmark, children, X1, SetOracle.storage, setKids] at hq
    | 0 :: _ :: _, _, hq => simp [pathAt, kids, setSample, Value.isNull, Value.isKnown, Payload.isNull,
        Payload.isKnown, Payload.unmark1, Value.unmark, children, X1, SetOracle.storage, setKids] at hq
    | 1 :: _ :: _, _, hq => simp [pathAt, kids, setSample, Value.isNull, Value.isKnown, Payload.isNull,
        Payload.isKnown, Payload.unmark1, Value.unmark, children, X1, SetOracle.storage, setKids] at hq
  simp [setCb, atPathCb, hq0]
/-- the replacement's mark is hoisted to the set, next to the set's own; `"r"` hashes to bucket 0 under `X1` -/
example : (transform X1 Sched.sorted setCb setSample).2 =
    .ok ⟨.set .string, .marked ["ms", "mx"] (.sset [0, 7] [.s "r", .s "q"])⟩ := by decide

/-- **…that result holds transformed members only, with their marks hoisted, and is a
function of WHICH members `SetVal` kept** (C03, slice d03b).  Whatever `SetVal` returned
for the transformed members `ws` is a set value `sset ids vs` under marks, where every
member kept is one of the transformed members with its marks removed (none is invented,
none of the original set is kept unless it was transformed into itself), and the marks
of the result are exactly the marks found anywhere in the transformed members together
with the set's own `ms`.  When the element type holds no capsule and `setRules.Less` is
a strict total order on the members kept (`Payload.lessStrictTotal`, the decidable
carrier of `C03.set_value_function_of_members`), EVERY set value holding the same
members — in any bucket layout, built from the members in any order, e.g. by a
reference that re-runs `SetVal` — iterates identically, is `RawEquals` and has the same
`Hash`.  This is why the harness may compare the real result with `c19RefReplace` by
`RawEquals`; for hash-tied members that `Less` does not order the comparison falls
back to `c19OrderOnly` (recorded under C03). -/
theorem transform_set_result_function_of_members {X : SetOracle} (ws : List Value) (ms : List String)
    (r : Value) (h : (setVal X ws).map (·.withMarks ms) = .ok r) :
    ∃ e ids vs, r.unmark = ⟨.set e, .sset ids vs⟩ ∧ ids.length = vs.length ∧
      (∀ m ∈ vs, ∃ w ∈ ws, m = w.unmarkDeep.v) ∧
      (∀ k, k ∈ r.marks ↔ (k ∈ ms ∨ ∃ w ∈ ws, k ∈ w.marksDeep)) ∧
      (D03b.capFree e = true → D03b.GAll e vs → Payload.lessStrictTotal e vs = true →
        ∀ (iy : List Int) (ys : List Payload), iy.length = ys.length → vs.Perm ys →
          Value.setIter e vs = Value.setIter e ys ∧
          Value.rawEq ⟨.set e, .sset ids vs⟩ ⟨.set e, .sset iy ys⟩ = .ok true ∧
          Value.hash ⟨.set e, .sset ids vs⟩ = Value.hash ⟨.set e, .sset iy ys⟩) := by
  cases hs : setVal X ws with
  | ok s =>
    rw [hs] at h
    simp only [Res.map, Res.ok.injEq] at h
    obtain ⟨e, ids, vs, hu, hl, hmem, hmk⟩ := setVal_members_marks hs
    refine ⟨e, ids, vs, ?_, hl, hmem, fun k => ?_, fun hc gx ht iy ys ly hp => ?_⟩
    · rw [← h, PathSet.unmark_withMarks, hu]
    · rw [← h]
      simp only [Value.marks, Value.withMarks]
      rw [marks1_withMarks]
      have := hmk k
      simp only [Value.marks] at this
      rw [this]
      exact ⟨fun h => h.elim Or.inr Or.inl, fun h => h.elim Or.inr Or.inl⟩
    · have := C03.set_value_function_of_members e hc ids iy vs ys hl ly gx hp ht
      exact ⟨this.1, this.2.1, this.2.2.2⟩
  | err c => rw [hs] at h; cases h
  | panic w => rw [hs] at h; cases h
  | unmodelled => rw [hs] at h; cases h

/-! ### paths through sets -/

/-- **A reported path that passes through a set does not apply** — the other half of
`walk_paths_lead_back`.  For every visit of `Walk` whose position lies below a set,
`Path.Apply` of the reported path on the root answers with an ERROR (at the first set
on the way: its step key is the member itself, and `IndexStep.Apply` takes number keys
on lists / tuples and string keys on maps only): it does not panic and it does not
return some other member. -/
theorem walk_paths_through_sets_do_not_apply {X : SetOracle} (hX : IterPerm X) (root : Value)
    (hs : shapedV root = true) (pos : Pos) (p : Path) (n : Value)
    (hn : nodeAt X root pos = some n) (hp : pathAt X root pos = some p)
    (hset : noSetAt X root pos = false) :
    ∃ c, Path.apply p root = .err c ∧ Generated.PathFns.Path_Apply p root = .err c := by
  obtain ⟨c, hc⟩ := apply_pathAt_through_set hX pos root root n [] p (Extra.rfl' root) hs hn hp hset
  exact ⟨c, hc, by rw [generated_path_apply_eq, hc]⟩

/-- …so for EVERY visit the outcome of `Path.Apply` on the reported path is decided: the
member (plus ancestor marks) outside sets, an error below a set; never a panic -/
theorem walk_paths_apply_total {X : SetOracle} (hX : IterPerm X) (root : Value)
    (hs : shapedV root = true) (p : Path) (n : Value) (hv : (p, n) ∈ (walk X descend root).1) :
    (∃ a, Path.apply p root = .ok a ∧ a.unmark = n.unmark) ∨ (∃ c, Path.apply p root = .err c) := by
  obtain ⟨pos, h1, h2, h3⟩ := walk_paths_lead_back hX root hs p n hv
  by_cases hns : noSetAt X root pos = true
  · obtain ⟨a, ha, hu, _⟩ := h3 hns
    exact Or.inl ⟨a, ha, hu⟩
  · obtain ⟨c, hc, _⟩ := walk_paths_through_sets_do_not_apply hX root hs pos p n h1 h2 (by simpa using hns)
    exact Or.inr ⟨c, hc⟩

example : noSetAt X0 sample [2, 0] = false ∧
    pathAt X0 sample [2, 0] = some [.getAttr "s", .index ⟨.string, .s "p"⟩] ∧
    Path.apply [.getAttr "s", .index ⟨.string, .s "p"⟩] sample = .err "not a map type" := by decide

/-! ### the set algebra of `PathSet` with an empty operand -/

/-- **`Union` / `Subtract` with an EMPTY operand** (the case
`seeded/C19-pathset-union-subtract-empty-operand-aliases-result` short-cut), for any
lawful rules — in particular `goodRules`: the result satisfies the representation
invariant and stands for the other operand's set (`s ∪ ∅ = ∅ ∪ s = s ∖ ∅ = s`,
`∅ ∖ s = ∅`).  That change is an ALIASING change — the operand itself was returned,
which IS the right set at that moment — so no value-level statement can see it; what
these clauses and `pathset_algebra_empty_operand_rebuilt` pin is the value and how
it is built, the sharing is judged by the harness (mutate the result, observe the
operand) and modelled in C20. -/
theorem pathset_algebra_empty_operand {α : Type} {R : Rules α} (hR : R.Lawful) (s : SetImpl α) :
    (SetImpl.Inv R (SetImpl.union R s SetImpl.empty) ∧ SetImpl.Inv R (SetImpl.union R SetImpl.empty s) ∧
     SetImpl.Inv R (SetImpl.subtract R s SetImpl.empty) ∧ SetImpl.Inv R (SetImpl.subtract R SetImpl.empty s)) ∧
    (∀ y, SetImpl.abs R (SetImpl.union R s SetImpl.empty) y ↔ SetImpl.abs R s y) ∧
    (∀ y, SetImpl.abs R (SetImpl.union R SetImpl.empty s) y ↔ SetImpl.abs R s y) ∧
    (∀ y, SetImpl.abs R (SetImpl.subtract R s SetImpl.empty) y ↔ SetImpl.abs R s y) ∧
    (∀ y, ¬ SetImpl.abs R (SetImpl.subtract R SetImpl.empty s) y) := by
  obtain ⟨u1, u2, u3, u4⟩ := PathSet.union_empty_refines hR s
  obtain ⟨s1, s2, s3, s4⟩ := PathSet.subtract_empty_refines hR s
  exact ⟨⟨u1.toInv hR, u2.toInv hR, s1.toInv hR, s2.toInv hR⟩, u3, u4, s3, s4⟩

/-- **…and the result is REBUILT, in the source text too**: `PathSet.Union` /
`Subtract` as translated from cty/path_set.go and cty/set (`Generated.PathFns`), given
an empty operand, return `fromList` of the other operand's iteration — every member
`Add`ed again into `NewSet(rules)` — not the operand passed through.  (An early
`return s` for an empty operand changes the translated definition: this theorem and the
`rfl` ties `PathFnsTie.union_eq` / `subtract_eq` stop building.) -/
theorem pathset_algebra_empty_operand_rebuilt (R : Rules Path) (s : SetImpl Path) :
    Generated.PathFns.PathSet_Union R s SetImpl.empty = .ok (SetImpl.fromList R (SetImpl.iter R s)) ∧
    Generated.PathFns.PathSet_Union R SetImpl.empty s = .ok (SetImpl.fromList R (SetImpl.iter R s)) ∧
    Generated.PathFns.PathSet_Subtract R s SetImpl.empty = .ok (SetImpl.fromList R (SetImpl.iter R s)) ∧
    Generated.PathFns.PathSet_Subtract R SetImpl.empty s = .ok SetImpl.empty := by
  rw [PathFnsTie.union_eq, PathFnsTie.union_eq, PathFnsTie.subtract_eq, PathFnsTie.subtract_eq,
    PathSet.union_empty_right_eq, PathSet.union_empty_left_eq, PathSet.subtract_empty_right_eq,
    PathSet.subtract_empty_left_eq]
  exact ⟨rfl, rfl, rfl, rfl⟩

/-- **The result is an independent set variable** (what the harness observes after
`union d a b` / `sub d a b` with `b` empty): in the history semantics of
`pathset_refines`, `Add` on the result register `d ≠ a` leaves every later answer about
the operand register `a` what it was.  True by construction of the register model (a
result is a new value) — stated because it is the specification the aliasing change
violates; the Go side of it is checked on every run, not proved. -/
theorem pathset_result_independent_of_operand (R : Rules PathSet.GoodPath) (st : List (SetImpl PathSet.GoodPath))
    (d a b : Nat) (hda : d ≠ a) (p q : PathSet.GoodPath) (sub : Bool) :
    (PathSet.psRun R PathSet.prefixesG
      [.set (if sub then .subtract d a b else .union d a b), .set (.add d p), .set (.has a q)] st).2 =
      [.none, .none, .bool (SetImpl.has R (SetImpl.getReg st a) q)] := by
  have hne : ¬ a = d := fun h => hda h.symm
  cases sub <;>
    simp [PathSet.psRun, PathSet.psStep, SetImpl.step, SetImpl.getReg_putReg, hne]

example : (PathSet.psRun PathSet.goodRules PathSet.prefixesG
    [.set (.add 0 ⟨[.index (Value.intVal 1)], rfl⟩), .set (.union 2 0 1), .set (.add 2 ⟨[.index (Value.intVal 2)], rfl⟩),
     .set (.has 0 ⟨[.index (Value.intVal 2)], rfl⟩), .set (.has 2 ⟨[.index (Value.intVal 1)], rfl⟩)] []).2 =
    [.none, .none, .none, .bool false, .bool true] := by decide

/-! ### PathSet over null keys and keys of compound type (the old frontier) -/

/-- **`pathSetRules` is lawful on every path whose index keys, marks removed at every
depth, are wholly known values of a type without set and capsule types**
(`PathSet.keysWideM`): known numbers and strings (the `keysOk` carrier of
`pathset_rules_lawful`, contained in this one: `pathset_wide_contains_good`), NULL keys
of any such type, and keys of COMPOUND type — lists, maps, tuples, objects, nested,
with nulls inside, marked anywhere or not.  `Equivalent` is reflexive, symmetric and
transitive there and equivalent paths hash alike.  Two null keys are equivalent whatever
their types (`Equals` of two nulls is true), a null key is equivalent to no other key,
keys of different types are otherwise never equivalent, and keys of one type are
equivalent exactly when `RawEquals` holds (C03 `equals_of_members`).  Still outside:
unknown keys (the recorded finding) and keys that hold sets or capsules. -/
theorem pathset_rules_lawful_wide :
    PathSet.pathRules.LawfulOn (fun p => PathSet.keysWideM p = true) :=
  PathSet.pathRules_lawfulOn_wideM

theorem pathset_wide_contains_good (p : Path) (h : PathSet.keysOk p = true) :
    PathSet.keysWideM p = true := PathSet.keysOk_wideM p h

/-- **PathSet refines sets of paths for all histories over those paths** — the statement
of `pathset_refines` on the wider carrier, for the same two functions
(`wideRulesM` = `pathRules` on the subtype). -/
theorem pathset_refines_wide (ops : List (PathSet.PSOp PathSet.WidePathM))
    (st : List (SetImpl PathSet.WidePathM))
    (h : ∀ i, SetImpl.Inv PathSet.wideRulesM (SetImpl.getReg st i)) :
    let R := PathSet.wideRulesM
    let out := PathSet.psRun R PathSet.prefixesWM ops st
    (∀ i, SetImpl.Inv R (SetImpl.getReg out.1 i)) ∧
    SetImpl.absRegs R out.1 = PathSet.psSpecRun R PathSet.prefixesWM ops (SetImpl.absRegs R st) ∧
    PathSet.PSOutsOk R PathSet.prefixesWM (SetImpl.absRegs R st) ops out.2 := by
  have hR := PathSet.wideRulesM_lawful
  have hB : SetImpl.AllInv PathSet.wideRulesM st := fun j => (h j).toB hR
  refine ⟨fun i => ((PathSet.allInv_psRun hR ops hB) i).toInv hR, ?_⟩
  exact PathSet.psRun_refines hR ops hB

/-- …`AddAllSteps` adds exactly the non-empty prefixes there too -/
theorem pathset_addAllSteps_prefixes_wide (x q : PathSet.WidePathM) :
    q ∈ PathSet.prefixesWM x ↔ ∃ n, 0 < n ∧ n ≤ x.1.length ∧ q.1 = x.1.take n := by
  simp only [PathSet.prefixesWM, List.mem_map, List.mem_range]
  constructor
  · rintro ⟨i, hi, rfl⟩
    exact ⟨i + 1, by omega, by omega, rfl⟩
  · rintro ⟨n, h0, hn, hq⟩
    refine ⟨n - 1, by omega, ?_⟩
    apply Subtype.ext
    simp only [hq]
    congr 1
    omega

/-- null keys, a list key, a tuple key with a null inside, a marked list key: in the
carrier; an unknown key and a set key: not -/
example :
    PathSet.keysWideM [.index (Value.null .number), .getAttr "a", .index (Value.null (.list .string))] = true ∧
    PathSet.keysWideM [.index ⟨.list .string, .seq [.s "a"]⟩] = true ∧
    PathSet.keysWideM [.index ⟨.tuple [.number, .string], .seq [.n (.fin false 1 0 64), .null]⟩] = true ∧
    PathSet.keysWideM [.index ⟨.list .string, .marked ["m"] (.seq [.marked ["k"] (.s "a")])⟩] = true ∧
    PathSet.keysWideM [.index (Value.unknown .number)] = false ∧
    PathSet.keysWideM [.index ⟨.set .string, .sset [1] [.s "a"]⟩] = false := by decide
/-- two nulls of different types are one key; `[1]` and `[1.0]` inside a tuple are one key;
a marked list key and its plain twin are one key -/
example :
    PathSet.equiv [.index (Value.null .number)] [.index (Value.null .string)] = .ok true ∧
    PathSet.equiv [.index (Value.null .number)] [.index (Value.intVal 0)] = .ok false ∧
    PathSet.equiv [.index ⟨.tuple [.number], .seq [.n (.fin false 1 0 64)]⟩]
      [.index ⟨.tuple [.number], .seq [.n (.fin false 1 0 512)]⟩] = .ok true ∧
    PathSet.equiv [.index ⟨.list .string, .marked ["m"] (.seq [.marked ["k"] (.s "a")])⟩]
      [.index ⟨.list .string, .seq [.s "a"]⟩] = .ok true := by decide

/-- **…and on paths whose keys hold SETS**: the carrier of the C03 `Equals` theorems for
values with sets (`PathSet.keysDeepM`: every key, marks removed at every depth, is a
well-formed wholly known value of a capsule-free type whose set nodes are well-formed
— bucket ids the members' hashes, `Less` a strict total order on the members — with
whole numbers and quotable strings).  `Equivalent` is an equivalence there and
equivalent paths hash alike, by C03 `equals_equiv_with_sets`.  (The two carriers
overlap but neither contains the other: this one admits sets and asks the numbers to
be whole, `keysWideM` admits every number and no set.) -/
theorem pathset_rules_lawful_with_sets :
    PathSet.pathRules.LawfulOn (fun p => PathSet.keysDeepM p = true) :=
  PathSet.pathRules_lawfulOn_deepM

/-- **PathSet refines sets of paths for all histories over paths whose keys hold sets** —
`pathset_refines` on that carrier, for the same two functions (`deepRulesM` = `pathRules`
on the subtype) -/
theorem pathset_refines_with_sets (ops : List (PathSet.PSOp PathSet.DeepPathM))
    (st : List (SetImpl PathSet.DeepPathM))
    (h : ∀ i, SetImpl.Inv PathSet.deepRulesM (SetImpl.getReg st i)) :
    let R := PathSet.deepRulesM
    let out := PathSet.psRun R PathSet.prefixesDM ops st
    (∀ i, SetImpl.Inv R (SetImpl.getReg out.1 i)) ∧
    SetImpl.absRegs R out.1 = PathSet.psSpecRun R PathSet.prefixesDM ops (SetImpl.absRegs R st) ∧
    PathSet.PSOutsOk R PathSet.prefixesDM (SetImpl.absRegs R st) ops out.2 := by
  have hR := PathSet.deepRulesM_lawful
  have hB : SetImpl.AllInv PathSet.deepRulesM st := fun j => (h j).toB hR
  refine ⟨fun i => ((PathSet.allInv_psRun hR ops hB) i).toInv hR, ?_⟩
  exact PathSet.psRun_refines hR ops hB

/-- a set of strings and a marked list of sets as keys: in the carrier -/
example :
    PathSet.keysDeepM [.index ⟨.set .string,
      .sset [(CtyModel.ctyRules .string).hash (.s "a"), (CtyModel.ctyRules .string).hash (.s "b")] [.s "a", .s "b"]⟩,
      .getAttr "x",
      .index ⟨.list (.set .string), .marked ["m"] (.seq [.sset [] [], .null])⟩] = true := by decide +kernel

open SetImpl SetGo SetFnsTie Generated.SetFns in
/-- **The set algebra of `PathSet`, tied to the source through BOTH layers** (audit,
missing theorem (c)): `PathSet.Union` / `Intersection` / `Subtract` /
`SymmetricDifference` as translated from cty/path_set.go forward to the `SetImpl`
operation that `psRun` runs and the refinement theorems are about, and that operation
is what `set.Set.Union` … as translated from cty/set/ops.go compute on the same bucket
maps — for every Go map iteration order `ord`, any rules that are `SameRules` with
themselves, operands with ascending buckets (in particular: satisfying the invariant). -/
theorem pathset_algebra_source_tie (same : Rules Path → Rules Path → Bool) (ord : GoMap Path → GoMap Path)
    (ho : MapOrder ord) (R : Rules Path) (s o : SetImpl Path) (hs : Asc s.buckets) (hb : Asc o.buckets)
    (hsame : same R R = true) :
    (Generated.PathFns.PathSet_Union R s o = .ok (union R s o) ∧
      Set_Union same ord s.buckets R o.buckets R = .ok ⟨(union R s o).buckets, R⟩) ∧
    (Generated.PathFns.PathSet_Intersection R s o = .ok (intersection R s o) ∧
      Set_Intersection same ord s.buckets R o.buckets R = .ok ⟨(intersection R s o).buckets, R⟩) ∧
    (Generated.PathFns.PathSet_Subtract R s o = .ok (subtract R s o) ∧
      Set_Subtract same ord s.buckets R o.buckets R = .ok ⟨(subtract R s o).buckets, R⟩) ∧
    (Generated.PathFns.PathSet_SymmetricDifference R s o = .ok (symmetricDifference R s o) ∧
      Set_SymmetricDifference same ord s.buckets R o.buckets R = .ok ⟨(symmetricDifference R s o).buckets, R⟩) :=
  ⟨⟨rfl, Set_Union_eq same ord ho R s o hs hb hsame⟩, ⟨rfl, Set_Intersection_eq same ord ho R s o hs hsame⟩,
   ⟨rfl, Set_Subtract_eq same ord ho R s o hs hsame⟩,
   ⟨rfl, Set_SymmetricDifference_eq same ord ho R s o hs hb hsame⟩⟩

end C19
end CtyModel
