/-
C19 — Walk, transform and paths address exactly the members of a value.

Property theorems only; helper lemmas live in `CtyModel/Lemmas/Walk*.lean`.
-/
import CtyModel.Walk
import CtyModel.PathSet
namespace CtyModel
namespace C19

/-- `IndexStep{Key: unknown number}.Apply(tuple)` panics (finding #15): the
"no particular member" branch asks a tuple type for its element type. -/
theorem apply_unknown_key_tuple_counterexample :
    Path.apply [.index (Value.unknown .number)] ⟨.tuple [], .seq []⟩ =
      .panic "ElementType on non-collection type" := by rfl

end C19
end CtyModel
