/-
C08 — Type conversion is conformant, total where safe, idempotent, never panics.

Property theorems only; helper lemmas live in `CtyModel/Lemmas/Convert*.lean`.
Every statement is about `Convert.convert` (= convert.Convert), `Convert.getConv`
(= GetConversion / GetConversionUnsafe) and `Convert.apply` (a returned
conversion applied to a value) — the transliterations of cty/convert that the
harness diffs against /repo on every run (ok value / err / panic).

Parameters: `E : Convert.Env` carries what the conversion files take from
elsewhere — the type result of `unify` (C09) and the hash / equivalence / order of
set members (C03).  Theorems hold for every `E` satisfying the stated laws
(`UnifyLaws`: identical types unify to that type; `SetLaws`: hash and equivalence do
not panic on well-typed, mark-free, wholly-known members), every fuel, and values /
types of any depth.  Both laws are PROVED of `Convert.driverEnv`, the environment the
correspondence driver runs (`unifyLaws_driver`, `setLaws_driver`), and the main
clauses are restated for it without law hypotheses (`…_driver`).  Capsule types have
no conversion callbacks in the model.

"Placeholder-free" theorems (`…_partial`) assume `RegularPair v want`: a
well-formed value (`Value.wt`: well-formed type without optional-attribute
annotations, payload of that type) and a well-formed target type without
DynamicPseudoType.  Targets with placeholders need laws of `unify` that belong to
C09; what is known to fail there is kept as `def … : Prop` + counterexample.

Second deepening (d08b) — statements that need NO `RegularPair` (any target, placeholders included):
* marks: `convert_commutes_with_unmarkDeep` (+ `_failures`, `_converse`, `conversion_…`): conversion
  commutes with `UnmarkDeep` for every value with well-formed marker layers; `deep_marks_kept_partial`:
  no mark is lost at any depth by the element-wise conversions (`DeepMarksKept` is false by design);
* the frontier of the recorded findings: `empty_collection_resolves_direct_placeholder`,
  `unknown_null_resolve_placeholders_partial` (unknown and null inputs DO resolve placeholders),
  `result_resolves_placeholders_unknown_length_counterexample`, `idempotent_counterexample`,
  `conforming_converts_to_itself_counterexample` / `_partial`, `idempotent_spelled_out_partial`;
* unknown sets: `unknown_set_to_set_lower_bound` (+ `_needed`); round trip `roundtrip_set_list_set_partial`.
-/
import CtyModel.Lemmas.ConvertUnknown
import CtyModel.Lemmas.ConvertTotal
import CtyModel.Lemmas.ConvertSafe
import CtyModel.Lemmas.ConvertRoundtrip
import CtyModel.Generated.PrimConv
import CtyModel.ConvertUnify
import CtyModel.ConvertD08Env
import CtyModel.Lemmas.ConvertD08SetEnv
import CtyModel.Lemmas.UnifyTyLaws
import CtyModel.Lemmas.ConvertD08Mono
import CtyModel.Lemmas.ConvertD08Fuel
import CtyModel.Lemmas.ConvertD08Covers
import CtyModel.Lemmas.ConvertD08Roundtrip
import CtyModel.Lemmas.ConvertD08CoversColl
import CtyModel.Lemmas.d08bUnmark
import CtyModel.Lemmas.d08bFrontier
import CtyModel.Lemmas.d08bKept
import CtyModel.Lemmas.d08bSetRT
import CtyModel.Lemmas.d08bConform
namespace CtyModel
namespace C08
open Convert Ty

/-! ## The result conforms to the requested type -/

/-- For a placeholder-free target the result has exactly the requested type without
its optional-attribute annotations … -/
theorem result_type_partial (E : Env) (hU : UnifyLaws E) (fuel : Nat) (v r : Value) (want : Ty)
    (hp : RegularPair v want) (h : convert E fuel v want = .ok r) : r.ty = want.stripOpt :=
  convert_ty hU hp h

/-- … hence conforms to it (clause "returns a value whose type conforms to the
requested type"). -/
theorem result_conforms_partial (E : Env) (hU : UnifyLaws E) (fuel : Nat) (v r : Value) (want : Ty)
    (hp : RegularPair v want) (h : convert E fuel v want = .ok r) : conformsTo want r = true := by
  simp [conformsTo, convert_ty hU hp h, conform_stripOpt want hp.wfT hp.noDyn]

/-- The same for a conversion obtained from `GetConversion` / `GetConversionUnsafe`. -/
theorem result_conforms_getConversion_partial (E : Env) (hU : UnifyLaws E) (fuel : Nat) (uns : Bool)
    (v r : Value) (want : Ty) (p : Plan) (hp : RegularPair v want)
    (hg : getConv E v.ty want uns = some p) (h : apply E fuel p v = .ok r) : conformsTo want r = true := by
  simp [conformsTo, apply_ty hU hp hg h, conform_stripOpt want hp.wfT hp.noDyn]

/-- regression witnesses of a repaired defect (`dynamicReplace` assumed that every
optional attribute of an object target is compatible with the element type of a
null / unknown map: it answered the empty object type for an object attribute and
panicked for a tuple attribute): the result now has the target type -/
example : convert Env.simple 4 ⟨.map .string, .null⟩ (.object ["a"] [.object ["b"] [.string] [false]] [true]) =
    .ok ⟨.object ["a"] [.object ["b"] [.string] [false]] [false], .null⟩ := rfl
example : convert Env.simple 4 ⟨.map .string, .null⟩ (.object ["a"] [.tuple [.string]] [true]) =
    .ok ⟨.object ["a"] [.tuple [.string]] [false], .null⟩ := rfl
example : convert Env.simple 4 ⟨.map (.tuple []), .unk .unref⟩ (.object ["a"] [.tuple [.bool]] [true]) =
    .ok ⟨.object ["a"] [.tuple [.bool]] [false], .unk .unref⟩ := rfl

/-! ## No optional-attribute annotation in the result type -/

/-- The result type carries no optional-attribute annotation anywhere (clause "free of
optional-attribute annotations"), for placeholder-free targets. -/
theorem result_no_optional_partial (E : Env) (hU : UnifyLaws E) (fuel : Nat) (v r : Value) (want : Ty)
    (hp : RegularPair v want) (h : convert E fuel v want = .ok r) : noOptional r = true := by
  simp [noOptional, convert_ty hU hp h, stripOpt_noOpt]

/-- regression witness of a repaired defect (conversionMapToObject filled a missing
optional attribute with a null of the attribute type as written, annotations
included): the missing attribute's type is now erased too -/
example : convert Env.simple 4 ⟨.map .string, .smap [] []⟩
      (.object ["a"] [.object ["b"] [.string] [true]] [true]) =
    .ok ⟨.object ["a"] [.object ["b"] [.string] [false]] [false], .smap ["a"] [.null]⟩ := rfl

/-! ## Placeholders the input already resolved do not come back -/

/-- Full statement: every placeholder of the result type sits where the input type
has one too (or at a position the input type does not have).  FALSE of the code —
see `result_resolves_placeholders_unknown_length_counterexample` (the other recorded shape,
`empty-collection-keeps-nested-placeholder`, is repaired: `empty_collection_resolves_nested_placeholder`). -/
def ResultResolvesPlaceholders : Prop :=
  ∀ (E : Env) (fuel : Nat) (v r : Value) (want : Ty), UnifyLaws E → Value.wt v = true → want.wf = true →
    convert E fuel v want = .ok r → resolvedIn v.ty r.ty = true

theorem result_resolves_placeholders_partial (E : Env) (hU : UnifyLaws E) (fuel : Nat) (v r : Value)
    (want : Ty) (hp : RegularPair v want) (h : convert E fuel v want = .ok r) :
    resolvedIn v.ty r.ty = true := by
  apply resolvedIn_noDyn
  rw [convert_ty hU hp h, stripOpt_hasDyn]
  exact hp.noDyn

/-- REPAIRED (`empty-collection-keeps-nested-placeholder`; this was `result_resolves_placeholders_counterexample`):
the former witness, an *empty* list of maps converted to list(map(placeholder)), now is a list(map(bool)) —
like the non-empty list of the same type — and the same for the empty set and the empty map. -/
theorem result_resolves_placeholders_empty_witness :
    convert Env.simple 4 ⟨.list (.map .bool), .seq []⟩ (.list (.map .dyn)) =
      .ok ⟨.list (.map .bool), .seq []⟩ ∧
    resolvedIn (.list (.map .bool)) (.list (.map .bool)) = true ∧
    convert Env.simple 6 ⟨.list (.map .bool), .seq [.smap ["k"] [.b true]]⟩ (.list (.map .dyn)) =
      .ok ⟨.list (.map .bool), .seq [.smap ["k"] [.b true]]⟩ ∧
    convert Env.simple 4 ⟨.set (.map .bool), .sset [] []⟩ (.set (.map .dyn)) =
      .ok ⟨.set (.map .bool), .sset [] []⟩ ∧
    convert Env.simple 4 ⟨.map (.list .bool), .smap [] []⟩ (.map (.list .dyn)) =
      .ok ⟨.map (.list .bool), .smap [] []⟩ := by
  refine ⟨rfl, by decide, rfl, rfl, rfl⟩

/-! ### the frontier of `ResultResolvesPlaceholders`

What an empty collection resolves (every placeholder, since the repair), and the recorded
shape that remains (a set whose length is unknown). -/

/-- The closure bodies for an EMPTY collection, for every environment, fuel, element conversion and
element types: when the target's element type `ety` has a placeholder ANYWHERE, the result is the
empty collection of `dynamicReplace(input element type, ety without annotations)` (the code after the
repair; before it only `ety == DynamicPseudoType` itself was replaced). -/
theorem empty_collection_element_type (E : Env) (fuel : Nat) (ety ie : Ty) (conv : Plan)
    (h : ety.hasDyn = true) :
    apply E (fuel + 1) (.collToList ety conv) ⟨.list ie, .seq []⟩ =
      (dynRepl E ie ety.stripOpt).bind (fun t => .ok ⟨.list t, .seq []⟩) ∧
    apply E (fuel + 1) (.collToList ety conv) ⟨.set ie, .sset [] []⟩ =
      (dynRepl E ie ety.stripOpt).bind (fun t => .ok ⟨.list t, .seq []⟩) ∧
    apply E (fuel + 1) (.collToSet ety conv) ⟨.set ie, .sset [] []⟩ =
      (dynRepl E ie ety.stripOpt).bind (fun t => .ok ⟨.set t, .sset [] []⟩) ∧
    apply E (fuel + 1) (.collToSet ety conv) ⟨.list ie, .seq []⟩ =
      (dynRepl E ie ety.stripOpt).bind (fun t => .ok ⟨.set t, .sset [] []⟩) ∧
    apply E (fuel + 1) (.collToMap ety conv) ⟨.map ie, .smap [] []⟩ =
      (dynRepl E ie ety.stripOpt).bind (fun t => .ok ⟨.map t, .smap [] []⟩) := by
  refine ⟨?_, ?_, ?_, ?_, ?_⟩ <;>
    simp [apply, applyStep, h, lengthKnown, elemsOf, setValues, mapRes, elementType, Res.bind,
      Payload.whollyKnownL]

/-- … hence an EMPTY list / set / map whose element type has no placeholder, converted by the closure
for a collection target of the same shape (`D08B.covered`, as in `unknown_null_resolve_placeholders_partial`;
placeholders anywhere in the target's element type, NESTED ones included), is an empty collection
whose type has NO placeholder: each one was filled from the input's element type.  For every
environment and fuel.  (Before the repair the nested ones came back.) -/
theorem empty_collection_resolves_nested_placeholder (E : Env) (fuel : Nat) (ety ie : Ty) (conv : Plan) (r : Value)
    (hd : Ty.hasDyn ie = false) (hc : D08B.covered ie ety.stripOpt = true)
    (h : apply E (fuel + 1) (.collToList ety conv) ⟨.list ie, .seq []⟩ = .ok r ∨
         apply E (fuel + 1) (.collToList ety conv) ⟨.set ie, .sset [] []⟩ = .ok r ∨
         apply E (fuel + 1) (.collToSet ety conv) ⟨.set ie, .sset [] []⟩ = .ok r ∨
         apply E (fuel + 1) (.collToSet ety conv) ⟨.list ie, .seq []⟩ = .ok r ∨
         apply E (fuel + 1) (.collToMap ety conv) ⟨.map ie, .smap [] []⟩ = .ok r) :
    Ty.hasDyn r.ty = false := by
  cases hety : ety.hasDyn with
  | false =>
    have hs : Ty.hasDyn ety.stripOpt = false := by rw [stripOpt_hasDyn]; exact hety
    rcases h with h | h | h | h | h <;>
      (simp [apply, applyStep, hety, lengthKnown, elemsOf, setValues, mapRes, Res.bind,
        Payload.whollyKnownL] at h
       subst h
       simpa [Ty.hasDyn] using hs)
  | true =>
    obtain ⟨h1, h2, h3, h4, h5⟩ := empty_collection_element_type E fuel ety ie conv hety
    rw [h1, h2, h3, h4, h5] at h
    cases hdr : dynRepl E ie ety.stripOpt with
    | ok t =>
      have ht := D08B.dynRepl_noDyn E ie ety.stripOpt t hd hc hdr
      rw [hdr] at h
      rcases h with h | h | h | h | h <;>
        (simp [Res.bind] at h
         subst h
         simpa [Ty.hasDyn] using ht)
    | err _ => rw [hdr] at h; simp [Res.bind] at h
    | panic _ => rw [hdr] at h; simp [Res.bind] at h
    | unmodelled => rw [hdr] at h; simp [Res.bind] at h

theorem resultResolvesPlaceholders_false : ¬ ResultResolvesPlaceholders := by
  intro h
  have := h Env.simple 4 ⟨.set (.list .string), .sset [1, 2] [.seq [.s "a"], .unk .unref]⟩ _ (.list (.set .dyn))
    unifyLaws_simple (by decide) (by decide)
    (show convert Env.simple 4 ⟨.set (.list .string), .sset [1, 2] [.seq [.s "a"], .unk .unref]⟩ (.list (.set .dyn)) =
      .ok ⟨.list (.set .dyn), .unk .unref⟩ from rfl)
  revert this
  decide

/-- The special case of a placeholder that IS the element type of the target (already true before the
repair), through `convert`, for every environment, fuel and element type: it is replaced by the input's
element type (list → list, set → list, set → set, map → map; list → set in unsafe mode). -/
theorem empty_collection_resolves_direct_placeholder (E : Env) (fuel : Nat) (ie : Ty) (h : ie.isDyn = false) :
    convert E (fuel + 2) ⟨.list ie, .seq []⟩ (.list .dyn) = .ok ⟨.list ie, .seq []⟩ ∧
    convert E (fuel + 2) ⟨.set ie, .sset [] []⟩ (.list .dyn) = .ok ⟨.list ie, .seq []⟩ ∧
    convert E (fuel + 2) ⟨.set ie, .sset [] []⟩ (.set .dyn) = .ok ⟨.set ie, .sset [] []⟩ ∧
    convert E (fuel + 2) ⟨.list ie, .seq []⟩ (.set .dyn) = .ok ⟨.set ie, .sset [] []⟩ ∧
    convert E (fuel + 2) ⟨.map ie, .smap [] []⟩ (.map .dyn) = .ok ⟨.map ie, .smap [] []⟩ := by
  cases ie <;> first | (simp [Ty.isDyn] at h; done) | exact ⟨rfl, rfl, rfl, rfl, rfl⟩

/-- the second recorded witness (`set-unknown-length-keeps-nested-placeholder`): a set holding an
unknown member has an unknown number of elements, so its conversion to a list is an unknown list —
of the target's element type AS WRITTEN, `set(placeholder)`, although the input's element type
`list(string)` has no placeholder.  In the driver's environment too. -/
theorem result_resolves_placeholders_unknown_length_counterexample :
    Value.wt ⟨.set (.list .string), .sset [1, 2] [.seq [.s "a"], .unk .unref]⟩ = true ∧
    convert Env.simple 4 ⟨.set (.list .string), .sset [1, 2] [.seq [.s "a"], .unk .unref]⟩ (.list (.set .dyn)) =
      .ok ⟨.list (.set .dyn), .unk .unref⟩ ∧
    convert driverEnv 4 ⟨.set (.list .string), .sset [1, 2] [.seq [.s "a"], .unk .unref]⟩ (.list (.set .dyn)) =
      .ok ⟨.list (.set .dyn), .unk .unref⟩ ∧
    resolvedIn (.set (.list .string)) (.list (.set .dyn)) = false := by
  refine ⟨by decide, rfl, rfl, by decide⟩

/-- UNKNOWN AND NULL INPUTS DO RESOLVE PLACEHOLDERS — unlike empty known collections.  An unmarked
unknown or null value whose type has no placeholder, converted by any conversion `GetConversion*`
returned to a target of the same shape (`D08B.covered`: lists / sets against lists / sets, maps against
maps, tuples against tuples of the same length, objects against objects or maps, at every depth —
the pairs for which `dynamicReplace` does not consult `unify`; placeholders anywhere in the
target), comes back with a type WITHOUT any placeholder: each one was filled from the input's type.
For every environment and fuel. -/
theorem unknown_null_resolve_placeholders_partial (E : Env) (fuel : Nat) (uns : Bool) (want : Ty) (p : Plan)
    (v r : Value) (hg : getConv E v.ty want uns = some p) (hm : v.isMarked = false)
    (hl : (!v.isKnown || v.isNull) = true) (hod : want.isDyn = false) (hd : Ty.hasDyn v.ty = false)
    (hc : D08B.covered v.ty want.stripOpt = true) (h : apply E (fuel + 1) p v = .ok r) :
    Ty.hasDyn r.ty = false ∧ resolvedIn v.ty r.ty = true := by
  obtain ⟨c, _, rfl⟩ := Option.map_eq_some_iff.mp hg
  have key : Ty.hasDyn r.ty = false := by
    simp only [apply, applyStep, hm, hod, hl, Bool.false_eq_true, if_false, if_true] at h
    cases hdr : dynRepl E v.ty want.stripOpt with
    | ok t =>
      have ht := D08B.dynRepl_noDyn E v.ty want.stripOpt t hd hc hdr
      rw [hdr] at h
      simp only at h
      split at h
      · obtain ⟨rng, _, h⟩ := Convert.Res.bind_eq_ok h
        rw [prepareUnknownResult_ty h]; exact ht
      · simp at h; subst h; exact ht
    | err _ => rw [hdr] at h; simp at h
    | panic _ => rw [hdr] at h; simp at h
    | unmodelled => rw [hdr] at h; simp at h
  exact ⟨key, resolvedIn_noDyn _ _ key⟩

/-- like the empty known list (`result_resolves_placeholders_empty_witness`): the UNKNOWN and the NULL list of maps
of bools, converted to list(map(placeholder)), are a list(map(bool)) -/
example : D08B.covered (.list (.map .bool)) (.list (.map .dyn)) = true := by decide
example : convert Env.simple 4 ⟨.list (.map .bool), .unk .unref⟩ (.list (.map .dyn)) =
    .ok ⟨.list (.map .bool), .unk (.coll .u 0 9223372036854775807)⟩ := rfl
example : convert Env.simple 4 ⟨.list (.map .bool), .null⟩ (.list (.map .dyn)) =
    .ok ⟨.list (.map .bool), .null⟩ := rfl

/-! ## Identity and idempotence -/

/-- Converting a value to its own type (disregarding annotations of the target)
returns it unchanged — for every value, type, environment and fuel. -/
theorem identity (E : Env) (fuel : Nat) (v : Value) (want : Ty)
    (h : v.ty.equals want.stripOpt = true) : convert E fuel v want = .ok v :=
  convert_identity E fuel v want h

/-- in particular converting to `v.Type()` itself -/
theorem identity_own_type (E : Env) (fuel : Nat) (v : Value) (hw : Value.wt v = true) :
    convert E fuel v v.ty = .ok v := by
  simp only [Value.wt, Bool.and_eq_true, Bool.not_eq_true'] at hw
  apply convert_identity
  rw [stripOpt_id_of_noOpt _ hw.1.2]
  exact Convert.equals_self hw.1.1

/-- Converting the result again gives the same result. -/
theorem idempotent_partial (E : Env) (hU : UnifyLaws E) (fuel fuel' : Nat) (v r : Value) (want : Ty)
    (hp : RegularPair v want) (h : convert E fuel v want = .ok r) : convert E fuel' r want = .ok r :=
  convert_idempotent hU hp h

/-- Full statement of idempotence, placeholders in the target included.  NOT PROVEN in this generality:
the recorded counterexample (`idempotent / empty-collection-keeps-nested-placeholder`) is repaired —
`idempotent_empty_witness` — and no other is known; what is proven is `idempotent_partial` (targets
without placeholders) and `idempotent_spelled_out_partial`. -/
def Idempotent : Prop :=
  ∀ (E : Env) (fuel fuel' : Nat) (v r : Value) (want : Ty), UnifyLaws E → Value.wt v = true → want.wf = true →
    convert E fuel v want = .ok r → convert E fuel' r want = .ok r ∨ convert E fuel' r want = .unmodelled

/-- REPAIRED (this was `idempotent_counterexample`), in the driver's environment: a tuple of two maps of
lists of strings, the second EMPTY, converted to list(map(list(placeholder))).  The first conversion
gives `list(map(list(string)))`, which conforms to the target; converting the result AGAIN now
returns it: the empty map takes `dynamicReplace(list(string), list(placeholder)) = list(string)` as its
element type and matches its neighbour (before the repair: `element types must all match`). -/
theorem idempotent_empty_witness :
    convert driverEnv 16 ⟨.tuple [.map (.list .string), .map (.list .string)],
        .seq [.smap ["m"] [.seq [.s "x"]], .smap [] []]⟩ (.list (.map (.list .dyn))) =
      .ok ⟨.list (.map (.list .string)), .seq [.smap ["m"] [.seq [.s "x"]], .smap [] []]⟩ ∧
    conformsTo (.list (.map (.list .dyn)))
      ⟨.list (.map (.list .string)), .seq [.smap ["m"] [.seq [.s "x"]], .smap [] []]⟩ = true ∧
    convert driverEnv 16 ⟨.list (.map (.list .string)), .seq [.smap ["m"] [.seq [.s "x"]], .smap [] []]⟩
        (.list (.map (.list .dyn))) =
      .ok ⟨.list (.map (.list .string)), .seq [.smap ["m"] [.seq [.s "x"]], .smap [] []]⟩ := by
  refine ⟨rfl, by decide, rfl⟩

/-- Full statement of "a value that already conforms to the requested type converts to itself",
placeholders in the target included, for values without unknown parts (an unknown converts to an
unknown that admits it but may carry weaker length bounds).  NOT PROVEN in this generality: the
recorded counterexample (`conforming_identity / empty-collection-keeps-nested-placeholder`) is
repaired — `conforming_converts_to_itself_empty_witness` — and no other is known; what is proven is
`conforming_converts_to_itself_partial`; for targets without placeholders conformance is
equality of types up to annotations and `identity` applies. -/
def ConformingConvertsToItself : Prop :=
  ∀ (E : Env) (fuel : Nat) (v : Value) (want : Ty), UnifyLaws E → Value.wt v = true → want.wf = true →
    Payload.whollyKnown v.v = true → conformsTo want v = true →
    convert E fuel v want = .ok v ∨ convert E fuel v want = .unmodelled

/-- REPAIRED (this was `conforming_converts_to_itself_counterexample`): a list of two lists of maps, the
first EMPTY, conforms to list(list(map(placeholder))) and now converts to itself — the empty member
becomes a `list(map(bool))` like its neighbour (before the repair it became a `list(map(placeholder))`
and `ListVal` refused the mixture).  In the driver's environment too. -/
theorem conforming_converts_to_itself_empty_witness :
    Value.wt ⟨.list (.list (.map .bool)), .seq [.seq [], .seq [.smap ["k"] [.b true]]]⟩ = true ∧
    conformsTo (.list (.list (.map .dyn)))
      ⟨.list (.list (.map .bool)), .seq [.seq [], .seq [.smap ["k"] [.b true]]]⟩ = true ∧
    convert Env.simple 8 ⟨.list (.list (.map .bool)), .seq [.seq [], .seq [.smap ["k"] [.b true]]]⟩
      (.list (.list (.map .dyn))) =
      .ok ⟨.list (.list (.map .bool)), .seq [.seq [], .seq [.smap ["k"] [.b true]]]⟩ ∧
    convert driverEnv 8 ⟨.list (.list (.map .bool)), .seq [.seq [], .seq [.smap ["k"] [.b true]]]⟩
      (.list (.list (.map .dyn))) =
      .ok ⟨.list (.list (.map .bool)), .seq [.seq [], .seq [.smap ["k"] [.b true]]]⟩ := by
  refine ⟨by decide, by decide, rfl, rfl⟩

/-- What does hold, placeholders anywhere in the target: on lists, maps and tuples nested to any depth
over primitive leaves, a value that conforms to the target and is SPELLED OUT wherever the target is
(`D08B.solidFor`: a primitive of the same type, a NON-EMPTY list / map of such members, or a tuple of
such members against a tuple type of the same length; anything unmarked below a placeholder of the
target) converts to itself — for every environment satisfying
`UnifyLaws`, every fuel (or the model runs out of fuel), by induction over the plans
`getConversionKnown` builds for such pairs.  The empty collection is what the hypothesis
excludes (it was a counterexample before the repair of `empty-collection-keeps-nested-placeholder`;
`conforming_converts_to_itself_empty_witness` shows such a value converting to itself now). -/
theorem conforming_converts_to_itself_partial (E : Env) (hU : UnifyLaws E) (fuel : Nat) (inT want : Ty)
    (p : Payload) (hw : wf inT = true) (hd : hasDyn inT = false) (ho : hasOpt inT = false)
    (hs : D08B.solidFor want inT p = true)
    (hg : (getConv E inT want true).isSome = true ∨ inT.equals want.stripOpt = true) :
    convert E fuel ⟨inT, p⟩ want = .ok ⟨inT, p⟩ ∨ convert E fuel ⟨inT, p⟩ want = .unmodelled := by
  unfold convert convertWith
  split
  · exact .inl rfl
  · rename_i hne
    rcases hg with hg | hg
    · obtain ⟨q, hq⟩ := Option.isSome_iff_exists.mp hg
      obtain ⟨c, hc, rfl⟩ := Option.map_eq_some_iff.mp hq
      simp only [hq]
      rcases D08B.conf_apply hU want inT true c hc hw hd ho p hs fuel with h | h
      · exact .inr h
      · exact .inl h
    · exact absurd hg hne

/-- … hence idempotence on that fragment: if the result of a conversion is spelled out wherever the
target is, converting it again returns it. -/
theorem idempotent_spelled_out_partial (E : Env) (hU : UnifyLaws E) (fuel fuel' : Nat) (v r : Value) (want : Ty)
    (_h : convert E fuel v want = .ok r) (hw : wf r.ty = true) (hd : hasDyn r.ty = false)
    (ho : hasOpt r.ty = false) (hs : D08B.solidFor want r.ty r.v = true)
    (hg : (getConv E r.ty want true).isSome = true ∨ r.ty.equals want.stripOpt = true) :
    convert E fuel' r want = .ok r ∨ convert E fuel' r want = .unmodelled :=
  conforming_converts_to_itself_partial E hU fuel' r.ty want r.v hw hd ho hs hg

/-- … and `ResultResolvesPlaceholders` on that fragment: a spelled-out (in particular NON-EMPTY at every
level) list / map / tuple nest resolves every placeholder of the target, nested ones included — the result is
the value itself, whose type has none. -/
theorem result_resolves_placeholders_spelled_out_partial (E : Env) (hU : UnifyLaws E) (fuel : Nat)
    (inT want : Ty) (p : Payload) (r : Value) (hw : wf inT = true) (hd : hasDyn inT = false)
    (ho : hasOpt inT = false) (hs : D08B.solidFor want inT p = true)
    (h : convert E fuel ⟨inT, p⟩ want = .ok r) : r = ⟨inT, p⟩ ∧ resolvedIn inT r.ty = true := by
  have hg : (getConv E inT want true).isSome = true ∨ inT.equals want.stripOpt = true := by
    unfold convert convertWith at h
    split at h
    · exact .inr ‹_›
    · split at h
      · simp at h
      · rename_i q hq; exact .inl (by simp [hq])
  rcases conforming_converts_to_itself_partial E hU fuel inT want p hw hd ho hs hg with h1 | h1
  · rw [h1] at h
    simp at h; subst h
    exact ⟨rfl, resolvedIn_noDyn _ _ hd⟩
  · rw [h1] at h; simp at h

/-- the hypotheses are satisfiable by a nested value and a nested placeholder; the former witness
(`conforming_converts_to_itself_empty_witness`) fails exactly `solidFor` (its first member is an empty list) -/
example : D08B.solidFor (.list (.list (.map .dyn))) (.list (.list (.map .bool)))
    (.seq [.seq [.smap ["j"] [.b false]], .seq [.smap ["k"] [.b true]]]) = true := by decide
example : (getConv Env.simple (.list (.list (.map .bool))) (.list (.list (.map .dyn))) true).isSome = true := by decide
example : D08B.solidFor (.list (.list (.map .dyn))) (.list (.list (.map .bool)))
    (.seq [.seq [], .seq [.smap ["k"] [.b true]]]) = false := by decide
example : D08B.solidFor (.tuple [.list .dyn, .string]) (.tuple [.list .number, .string])
    (.seq [.seq [.n (.fin false 1 0 512)], .s "x"]) = true := by decide
example : convert Env.simple 8 ⟨.tuple [.list .number, .string], .seq [.seq [.n (.fin false 1 0 512)], .s "x"]⟩
    (.tuple [.list .dyn, .string]) =
    .ok ⟨.tuple [.list .number, .string], .seq [.seq [.n (.fin false 1 0 512)], .s "x"]⟩ := rfl

/-- the same two lists without the empty one convert to themselves: the failure needs the empty member -/
example : convert Env.simple 8 ⟨.list (.list (.map .bool)), .seq [.seq [.smap ["j"] [.b false]], .seq [.smap ["k"] [.b true]]]⟩
    (.list (.list (.map .dyn))) =
    .ok ⟨.list (.list (.map .bool)), .seq [.seq [.smap ["j"] [.b false]], .seq [.smap ["k"] [.b true]]]⟩ := rfl

/-! ## Unknown and null inputs -/

/-- A null input converts to the null of the target type (placeholder-free target;
through `Convert` or any conversion `GetConversion*` returns). -/
theorem null_sound_partial (E : Env) (hU : UnifyLaws E) (fuel : Nat) (uns : Bool) (v : Value) (want : Ty)
    (p : Plan) (hp : RegularPair v want) (hg : getConv E v.ty want uns = some p)
    (hm : v.isMarked = false) (hk : v.isKnown = true) (hn : v.isNull = true) :
    apply E (fuel + 1) p v = .ok (Value.null want.stripOpt) :=
  apply_null_exact hU fuel hp hg hm hk hn

/-- An unknown input converts to a value of the target type computed by
`prepareUnknownResult` from the input's range, and when that value is an unknown
carrying the refinement `rf`, the refinement is carried only where still true:
* it says "not null" only if the input was definitely not null;
* for a collection converted to a list or map its length bounds are no tighter
  than the input's (those conversions keep the number of elements);
* for a collection converted to a set the lower bound is at most 1 (and 0 if the
  input may be empty): members may coalesce, but not vanish; the upper bound is no
  tighter than the input's;
* for a tuple / object converted to a list / map the bounds admit the number of
  elements / attributes; for a tuple converted to a set, between min(1, n) and n. -/
theorem unknown_sound_partial (E : Env) (hU : UnifyLaws E) (fuel : Nat) (uns : Bool) (v r : Value)
    (want : Ty) (p : Plan) (hp : RegularPair v want) (hg : getConv E v.ty want uns = some p)
    (hm : v.isMarked = false) (hk : v.isKnown = false) (h : apply E (fuel + 1) p v = .ok r) :
    r.ty = want.stripOpt ∧
    ∃ rng, Refine.range v = .ok rng ∧ rng.ty = v.ty ∧ ∀ rf, r.v = .unk rf →
      (rf.nullness = .f → rng.definitelyNotNull = true) ∧
      (∀ lo hi e, Refine.isCollectionTy v.ty = true → rng.lengthLowerBound = .ok lo →
        rng.lengthUpperBound = .ok hi →
        (want.stripOpt = .set e → lenLo rf ≤ (if lo > 0 then 1 else 0) ∧ min hi Refine.maxInt ≤ lenHi rf) ∧
        (want.stripOpt = .list e ∨ want.stripOpt = .map e →
          lenLo rf ≤ max lo 0 ∧ min hi Refine.maxInt ≤ lenHi rf)) ∧
      (∀ ts e, v.ty = .tuple ts → want.stripOpt = .list e →
        lenLo rf ≤ (ts.length : Int) ∧ (ts.length : Int) ≤ lenHi rf ∨ Refine.maxInt < ts.length) ∧
      (∀ ts e, v.ty = .tuple ts → want.stripOpt = .set e →
        lenLo rf ≤ min (ts.length : Int) 1 ∧ (ts.length : Int) ≤ lenHi rf ∨ Refine.maxInt < ts.length) ∧
      (∀ ns ts os e, v.ty = .object ns ts os → want.stripOpt = .map e →
        lenLo rf ≤ (ns.length : Int) ∧ (ns.length : Int) ≤ lenHi rf ∨ Refine.maxInt < ns.length) := by
  refine ⟨apply_ty hU hp hg h, ?_⟩
  rw [apply_unknown_exact hU fuel hp hg hm hk] at h
  obtain ⟨rng, hrng, h⟩ := Res.bind_eq_ok h
  have hty : rng.ty = v.ty := by
    unfold Refine.range at hrng
    repeat' split at hrng
    all_goals first
      | (simp at hrng; subst hrng; rfl)
      | simp at hrng
  refine ⟨rng, hrng, hty, ?_⟩
  intro rf hr
  have hl := prepare_len h hr
  refine ⟨prepare_notNull h hr, ?_, ?_, ?_, ?_⟩
  · intro lo hi e hc; exact hl.2.2.2 lo hi e (by rw [hty]; exact hc)
  · intro ts e hv; exact hl.2.1 ts e (by rw [hty]; exact hv)
  · intro ts e hv; exact hl.2.2.1 ts e (by rw [hty]; exact hv)
  · intro ns ts os e hv; exact hl.1 ns ts os e (by rw [hty]; exact hv)

/-- the clause the seeded change "clamp only when the source is not a set" breaks: an
unknown set of at least 2 strings becomes an unknown set of numbers with at least 1 member -/
example : convert Env.simple 4 ⟨.set .string, .unk (.coll .u 2 3)⟩ (.set .number) =
    .ok ⟨.set .number, .unk (.coll .u 1 3)⟩ := rfl

/-- UNKNOWN SET → SET: whatever length bounds the unknown set carries, the unknown set the conversion
returns promises AT MOST ONE member as its lower bound (and none if the input may be empty), and
its upper bound is no tighter than the input's — members may coalesce under the element
conversion, never vanish, never multiply.  For every environment satisfying `UnifyLaws` (the
driver's: `unifyLaws_driver`), every fuel, both modes.  The seeded change
`C08-unknown-set-to-set-keeps-length-lower-bound` (copy the source's lower bound when the source is
a set) contradicts this theorem for every input with lower bound ≥ 2. -/
theorem unknown_set_to_set_lower_bound (E : Env) (hU : UnifyLaws E) (fuel : Nat) (uns : Bool) (v r : Value)
    (ie oe : Ty) (p : Plan) (hty : v.ty = .set ie) (hp : RegularPair v (.set oe))
    (hg : getConv E v.ty (.set oe) uns = some p) (hm : v.isMarked = false) (hk : v.isKnown = false)
    (h : apply E (fuel + 1) p v = .ok r) :
    r.ty = .set oe.stripOpt ∧ ∀ rf, r.v = .unk rf → lenLo rf ≤ 1 ∧
      ∃ rng hi, Refine.range v = .ok rng ∧ rng.lengthUpperBound = .ok hi ∧ min hi Refine.maxInt ≤ lenHi rf := by
  obtain ⟨hrt, rng, hrng, hrty, hall⟩ := unknown_sound_partial E hU fuel uns v r (.set oe) p hp hg hm hk h
  refine ⟨hrt, fun rf hrf => ?_⟩
  have hc : Refine.isCollectionTy v.ty = true := by rw [hty]; rfl
  obtain ⟨lo, hi, hlo, hhi⟩ := D08B.lenBounds_defined rng (by rw [hrty]; exact hc)
  have := ((hall rf hrf).2.1 lo hi oe.stripOpt hc hlo hhi).1 rfl
  refine ⟨?_, rng, hi, hrng, hhi, this.2⟩
  have h1 := this.1
  split at h1 <;> omega

/-- why the bound cannot be kept: in an environment whose member equivalence is exact
(`D08B.envExact`) the unknown set of 2 to 3 strings admits the set {"1", "01"}, whose conversion to
a set of numbers has ONE member; the result the code gives for the unknown (1 to 3 numbers) admits
it, the result of the seeded change (2 to 3 numbers) does not. -/
theorem unknown_set_to_set_lower_bound_needed :
    Covers ⟨.set .string, .unk (.coll .u 2 3)⟩ ⟨.set .string, .sset [0, 0] [.s "1", .s "01"]⟩ = true ∧
    convert D08B.envExact 4 ⟨.set .string, .sset [0, 0] [.s "1", .s "01"]⟩ (.set .number) =
      .ok ⟨.set .number, .sset [0] [.n (.fin false 1 0 512)]⟩ ∧
    convert D08B.envExact 4 ⟨.set .string, .unk (.coll .u 2 3)⟩ (.set .number) =
      .ok ⟨.set .number, .unk (.coll .u 1 3)⟩ ∧
    Covers ⟨.set .number, .unk (.coll .u 1 3)⟩ ⟨.set .number, .sset [0] [.n (.fin false 1 0 512)]⟩ = true ∧
    Covers ⟨.set .number, .unk (.coll .u 2 3)⟩ ⟨.set .number, .sset [0] [.n (.fin false 1 0 512)]⟩ = false := by
  refine ⟨by decide, rfl, rfl, by decide, by decide⟩

example : UnifyLaws D08B.envExact := D08B.unifyLaws_exact

/-! ### … stated with `Covers`, marked inputs included

`Covers a c` (DESIGN §3.6): the abstract value `a` admits `c`.  The clause "for unknown or null
input returns an unknown or null of the target type whose refinements admit the conversion of
every admitted input" is monotonicity of the conversion along `Covers`. -/

/-- A marked input — known, unknown or null — is converted without its marks and gets them back:
this lifts `null_sound_partial` and `unknown_sound_partial` (stated for unmarked inputs) to marked ones,
for every conversion `GetConversion*` returns, every environment and fuel. -/
theorem marked_input (E : Env) (fuel : Nat) (out : Ty) (conv : Plan) (v : Value) (hm : v.isMarked = true) :
    apply E (fuel + 1) (.wrap out conv) v =
      (match apply E fuel (.wrap out conv) v.unmark with
       | .ok r => .ok (r.withMarks v.marks)
       | other => other) :=
  apply_marked E fuel out conv v hm

/-- Conversions between primitive types: `v` unknown with any refinement (marked or not), `v'` any
well-typed value of the same type that `v` admits — a null, a more refined unknown, or a known value,
marked or not.  The result for `v` admits the result for `v'` (`Covers`), whichever conversion
(`GetConversion` or `GetConversionUnsafe`), environment and fuels.  (List and map targets:
`unknown_covers_coll_partial`; set targets, where members may coalesce: `unknown_covers_set_partial`;
the admitted null, every target: `unknown_covers_null_partial`.) -/
theorem unknown_covers_prim_partial (E : Env) (hU : UnifyLaws E) (fuel fuel' : Nat) (uns : Bool)
    (v v' r r' : Value) (want : Ty) (p : Plan) (hpv : isPrim v.ty = true) (hw : isPrim want = true)
    (hwt : wtP v.ty v.v = true) (hwt' : wtP v'.ty v'.v = true) (hty : v'.ty = v.ty)
    (hg : getConv E v.ty want uns = some p) (hk : v.isKnown = false) (hc : Covers v v' = true)
    (h : apply E fuel p v = .ok r) (h' : apply E fuel' p v' = .ok r') : Covers r r' = true :=
  unknown_covers_prim hU hpv hw hwt hwt' hty hg hk hc h h'

/-- LIST AND MAP TARGETS, the known-collapse case included.  `v` unknown — a list, set, map, tuple or
object type with any refinement, marked or not; `v'` a wholly-known non-null value of the same type that
`v` admits (`Covers v v'`), marked or not at any depth, whose number of members fits an `int`.  The
result for `v` is an unknown list / map carrying the length refinement `prepareUnknownResult` derives
— or, when that length is exact, the KNOWN list of that many unknown members, or the empty list / map
— and it admits the result for `v'`: the bounds admit the converted collection's length, and each
unknown member of a collapsed result admits the corresponding converted member. -/
theorem unknown_covers_coll_partial (E : Env) (hU : UnifyLaws E) (fuel fuel' : Nat) (uns : Bool)
    (v v' r r' : Value) (want : Ty) (p : Plan) (hT : (∃ e, want = .list e) ∨ (∃ e, want = .map e))
    (hp : RegularPair v want) (hwt' : wtP v'.ty v'.v = true) (hty : v'.ty = v.ty)
    (hg : getConv E v.ty want uns = some p) (hk : v.isKnown = false)
    (hk' : v'.isKnown = true) (hn' : v'.isNull = false) (hwk' : v'.v.whollyKnown = true)
    (hfit : (srcLen v'.v.unmark1 : Int) ≤ CtyModel.maxInt) (hc : Covers v v' = true)
    (h : apply E fuel p v = .ok r) (h' : apply E fuel' p v' = .ok r') : Covers r r' = true :=
  unknown_covers_coll hU hT hp hwt' hty hg hk hk' hn' hwk' hfit hc h h'

/-- SET TARGETS.  As `unknown_covers_coll_partial`, for a conversion to a set type: the converted known
value may have fewer members than the admitted value had (members coalesce) but not none if it had
any, and that is exactly what the result for the unknown says — lower bound 1 if the source cannot be
empty, the source's upper bound, and when both are 0 or 1 the known empty set / the set of one unknown
member. -/
theorem unknown_covers_set_partial (E : Env) (hU : UnifyLaws E) (fuel fuel' : Nat) (uns : Bool)
    (v v' r r' : Value) (oe : Ty) (p : Plan)
    (hp : RegularPair v (.set oe)) (hwt' : wtP v'.ty v'.v = true) (hty : v'.ty = v.ty)
    (hg : getConv E v.ty (.set oe) uns = some p) (hk : v.isKnown = false)
    (hk' : v'.isKnown = true) (hn' : v'.isNull = false) (hwk' : v'.v.whollyKnown = true)
    (hfit : (srcLen v'.v.unmark1 : Int) ≤ CtyModel.maxInt) (hc : Covers v v' = true)
    (h : apply E fuel p v = .ok r) (h' : apply E fuel' p v' = .ok r') : Covers r r' = true :=
  unknown_covers_set hU hp hwt' hty hg hk hk' hn' hwk' hfit hc h h'

/-- Conversions to a set type never invent members and never lose all of them. -/
theorem set_length_bounds_partial (E : Env) (hU : UnifyLaws E) (fuel : Nat) (uns : Bool) (v r : Value)
    (oe : Ty) (p : Plan) (hp : RegularPair v (.set oe)) (hg : getConv E v.ty (.set oe) uns = some p)
    (hm : v.isMarked = false) (hk : v.isKnown = true) (hn : v.isNull = false)
    (h : apply E fuel p v = .ok r) :
    ∃ ids xs, r.v.stripMarks = .sset ids xs ∧ min 1 (srcLen v.v) ≤ xs.length ∧ xs.length ≤ srcLen v.v :=
  apply_len_set hU hp hg hm hk hn h

/-- the collapse at work: an unknown list of exactly two strings, not null, converts to the KNOWN list of two
unknown numbers, which admits the conversion `[1, 2]` of the admitted `["1", "2"]` -/
example :
    convert Env.simple 4 ⟨.list .string, .unk (.coll .f 2 2)⟩ (.list .number) =
      .ok ⟨.list .number, .seq [.unk .unref, .unk .unref]⟩ ∧
    Covers ⟨.list .string, .unk (.coll .f 2 2)⟩ ⟨.list .string, .seq [.s "1", .s "2"]⟩ = true ∧
    Covers ⟨.list .number, .seq [.unk .unref, .unk .unref]⟩
      ⟨.list .number, .seq [.n (.fin false 1 0 512), .n (.fin false 1 1 512)]⟩ = true := by
  refine ⟨rfl, by decide, by decide⟩

/-- Conversions to a list / map type keep the number of elements (clause "preserves the converted value's
information"): an unmarked known non-null value — a set only if its length is known — converted by a
conversion `GetConversion*` returns gives a list / map with exactly as many members. -/
theorem list_map_length_preserved_partial (E : Env) (hU : UnifyLaws E) (fuel : Nat) (uns : Bool) (v r : Value)
    (want : Ty) (p : Plan) (hp : RegularPair v want) (hg : getConv E v.ty want uns = some p)
    (hm : v.isMarked = false) (hk : v.isKnown = true) (hn : v.isNull = false) (hlk : lengthKnown v = true)
    (h : apply E fuel p v = .ok r) :
    (∀ oe, want = .list oe → ∃ xs, r.v = .seq xs ∧ xs.length = srcLen v.v) ∧
    (∀ oe, want = .map oe → ∃ ks xs, r.v = .smap ks xs ∧ xs.length = srcLen v.v) :=
  apply_len hU hp hg hm hk hn hlk h

/-- EVERY placeholder-free target, collections included: `v` unknown (any refinement, marked or
not), `v'` a null of the same type (marked or not) that `v` admits.  The result for `v` — an unknown
of the target type, whatever length refinement `prepareUnknownResult` gave it, or the null a
refinement "is null" collapses to — admits the result for `v'`. -/
theorem unknown_covers_null_partial (E : Env) (hU : UnifyLaws E) (fuel fuel' : Nat) (uns : Bool)
    (v v' r r' : Value) (want : Ty) (p : Plan) (hp : RegularPair v want) (hwt' : wtP v'.ty v'.v = true)
    (hty : v'.ty = v.ty) (hg : getConv E v.ty want uns = some p) (hk : v.isKnown = false)
    (hn' : v'.isNull = true) (hc : Covers v v' = true)
    (h : apply E fuel p v = .ok r) (h' : apply E fuel' p v' = .ok r') : Covers r r' = true :=
  unknown_covers_null hU hp hwt' hty hg hk hn' hc h h'

/-- Full statement of the clause as monotonicity along `Covers` for ALL admitted values, partly
unknown ones included.  FALSE of the code as it stands — a matter of precision, not of soundness
for concrete values: see `unknown_covers_counterexample`. -/
def UnknownCoversAll : Prop :=
  ∀ (E : Env) (fuel : Nat) (v v' r r' : Value) (want : Ty), UnifyLaws E → RegularPair v want →
    RegularPair v' want → v'.ty = v.ty → v.isKnown = false → Covers v v' = true →
    convert E fuel v want = .ok r → convert E fuel v' want = .ok r' → Covers r r' = true

/-- the witness: an unknown set of 1 to 5 strings admits the known set {unknown, "a"} (which has 1 or 2
members).  Converted to a list, the unknown set keeps its bounds (list of 1 to 5 strings), but the
known set — its number of members being unknown — becomes an UNREFINED unknown list, which the
refined result does not admit (it could be empty, or longer than 5).  `conversionCollectionToList`
could return `UnknownVal(list).Refine().CollectionLengthLowerBound(1).CollectionLengthUpperBound(2)`
from `val.LengthInt()`'s range instead; every CONCRETE list the known set stands for is admitted. -/
theorem unknown_covers_counterexample :
    Covers ⟨.set .string, .unk (.coll .u 1 5)⟩ ⟨.set .string, .sset [1, 2] [.unk .unref, .s "a"]⟩ = true ∧
    convert Env.simple 4 ⟨.set .string, .unk (.coll .u 1 5)⟩ (.list .string) =
      .ok ⟨.list .string, .unk (.coll .u 1 5)⟩ ∧
    convert Env.simple 4 ⟨.set .string, .sset [1, 2] [.unk .unref, .s "a"]⟩ (.list .string) =
      .ok ⟨.list .string, .unk .unref⟩ ∧
    Covers ⟨.list .string, .unk (.coll .u 1 5)⟩ ⟨.list .string, .unk .unref⟩ = false := by
  refine ⟨by decide, rfl, rfl, by decide⟩

theorem unknownCoversAll_false : ¬ UnknownCoversAll := by
  intro h
  have := h Env.simple 4 ⟨.set .string, .unk (.coll .u 1 5)⟩ ⟨.set .string, .sset [1, 2] [.unk .unref, .s "a"]⟩
    ⟨.list .string, .unk (.coll .u 1 5)⟩ ⟨.list .string, .unk .unref⟩
    (.list .string) unifyLaws_simple ⟨by decide, by decide, by decide⟩
    ⟨by decide, by decide, by decide⟩ rfl rfl unknown_covers_counterexample.1
    unknown_covers_counterexample.2.1 unknown_covers_counterexample.2.2.1
  rw [unknown_covers_counterexample.2.2.2] at this
  exact absurd this (by decide)

/-- a marked unknown number that is not null admits the marked known 1.5; so do the results -/
example : Covers ⟨.number, .marked ["m"] (.unk (.num .f none none))⟩ ⟨.number, .n (.fin false 3 (-1) 53)⟩ = true := by
  decide

/-! ## Marks do not influence a conversion (deep non-interference)

`Value.MarksWF`: the marker layers of the value are as cty's constructors build them — never an
empty mark set, never a marker directly inside a marker, no marker inside a set (`SetVal` moves
them to the set).  No hypothesis on the environment, the target type (placeholders included), the
fuel, or the depth of the value and of its marks. -/

/-- **Converting commutes with `UnmarkDeep`**: if converting `v` — marked at any depth — returns `r`,
then converting the deeply unmarked `v` (same fuel) returns the deeply unmarked `r`; and `r` again
has well-formed marker layers (so the theorem composes). -/
theorem convert_commutes_with_unmarkDeep (E : Env) (fuel : Nat) (v r : Value) (want : Ty)
    (hw : v.MarksWF) (h : convert E fuel v want = .ok r) :
    convert E fuel v.unmarkDeep want = .ok r.unmarkDeep ∧ r.MarksWF := by
  obtain ⟨y, hy, rfl, hr⟩ := (D08B.convert_sim E fuel hw want).ok_inv h
  exact ⟨hy, hr⟩

/-- … and marks neither cause nor mask a failure: an error stays an error and a panic stays a panic
when the marks are taken off first. -/
theorem convert_commutes_with_unmarkDeep_failures (E : Env) (fuel : Nat) (v : Value) (want : Ty)
    (hw : v.MarksWF) :
    (∀ c, convert E fuel v want = .err c → ∃ c', convert E fuel v.unmarkDeep want = .err c') ∧
    (∀ w, convert E fuel v want = .panic w → ∃ w', convert E fuel v.unmarkDeep want = .panic w') :=
  ⟨fun _ h => (D08B.convert_sim E fuel hw want).err_inv h,
   fun _ h => (D08B.convert_sim E fuel hw want).panic_inv h⟩

/-- Conversely: if converting the deeply unmarked value returns `r0` (at some fuel), then converting
the marked value, at any fuel at which the model finishes, returns a value whose deeply unmarked
form is `r0` — it cannot fail, and cannot return anything else.  (The marked run needs one more unit
of fuel per marker layer; that it finishes at all is `fuel_monotone` plus fuel adequacy.) -/
theorem convert_commutes_with_unmarkDeep_converse (E : Env) (fuel fuel' : Nat) (v r0 : Value) (want : Ty)
    (hw : v.MarksWF) (h0 : convert E fuel v.unmarkDeep want = .ok r0)
    (hfin : convert E fuel' v want ≠ .unmodelled) :
    ∃ r, convert E fuel' v want = .ok r ∧ r.unmarkDeep = r0 := by
  have hs := D08B.convert_sim E fuel' hw want
  have hne := hs.right_ne_unmodelled hfin
  have h1 : convert E (max fuel fuel') v.unmarkDeep want = .ok r0 := by
    rw [convert_mono E (Nat.le_max_left _ _) _ _ (by rw [h0]; simp), h0]
  have h2 : convert E fuel' v.unmarkDeep want = .ok r0 := by
    rw [← convert_mono E (Nat.le_max_right fuel fuel') _ _ hne, h1]
  obtain ⟨x, hx, hr, _⟩ := hs.ok_inv_right hfin h2
  exact ⟨x, hx, hr.symm⟩

/-- The same for a conversion obtained from `GetConversion` / `GetConversionUnsafe`, applied to a
value marked at any depth. -/
theorem conversion_commutes_with_unmarkDeep (E : Env) (fuel : Nat) (uns : Bool) (inT want : Ty) (p : Plan)
    (v r : Value) (hg : getConv E inT want uns = some p) (hw : v.MarksWF)
    (h : apply E fuel p v = .ok r) : apply E fuel p v.unmarkDeep = .ok r.unmarkDeep ∧ r.MarksWF := by
  obtain ⟨y, hy, rfl, hr⟩ := (D08B.getConv_sim E fuel hw hg).ok_inv h
  exact ⟨hy, hr⟩

/-- Every conversion `getConversionKnown` builds, in either mode and for every pair of types, holds as
element / attribute conversions only "no conversion" or closures of `getConversion` (which take the
marks off before they look at the value) — the structural reason for the theorems above. -/
theorem plans_are_shaped (E : Env) (inT want : Ty) (uns : Bool) (p : Plan)
    (hg : getConv E inT want uns = some p) : D08B.shaped p = true :=
  (D08B.getConv_shaped hg).1

/-- Where the marks of the result come from and where the top-level ones go: every mark at any depth of
the result is a mark of the input (no invention), and every top-level mark of the input is a
top-level mark of the result. -/
theorem convert_marks_of_result (E : Env) (fuel : Nat) (v r : Value) (want : Ty)
    (h : convert E fuel v want = .ok r) :
    (∀ m ∈ r.marksDeep, m ∈ v.marksDeep) ∧ (∀ m ∈ v.marks, m ∈ r.marks) :=
  ⟨D04C.convert_noinv E fuel v want r h, fun m hm => D04C.convert_top_kept E fuel v want r h m hm⟩

/-! ### … and where the marks below the top go

Full statement: every mark of the input, at any depth, is a mark of the result.  FALSE of the code, by
design: a conversion to an object type drops the attributes (map → object: the keys) the target
does not name, and their marks go with them — the result no longer depends on those values.  Not a
finding.  What is proved: conversions that rebuild their input element by element (`D08B.keeps`)
lose nothing. -/
def DeepMarksKept : Prop :=
  ∀ (E : Env) (fuel : Nat) (v r : Value) (want : Ty), Value.wt v = true → v.MarksWF →
    convert E fuel v want = .ok r → ∀ m ∈ v.marksDeep, m ∈ r.marksDeep

theorem deep_marks_kept_counterexample :
    convert Env.simple 4 ⟨.object ["a", "b"] [.bool, .bool] [false, false],
        .smap ["a", "b"] [.marked ["gone"] (.b true), .b false]⟩ (.object ["b"] [.bool] [false]) =
      .ok ⟨.object ["b"] [.bool] [false], .smap ["b"] [.b false]⟩ := rfl

theorem deepMarksKept_false : ¬ DeepMarksKept := by
  intro h
  have := h Env.simple 4 _ _ _ (by decide) ⟨by decide, by decide⟩ deep_marks_kept_counterexample "gone" (by decide)
  revert this
  decide

/-- **No mark is lost, at any depth**, by a conversion `GetConversion*` returned whose plan is of the
keeping kind — `getConversion`'s wrapper, primitive conversions, list / set / map rebuilding (maps of
non-collections), tuple → tuple, tuple → set, at any nesting — applied to a well-typed value whose
sets hold no marks, when the result type names no object type: every mark of the input is on the
converted element at the corresponding position, or on the set it went into, or above.  Every
environment and fuel.  (Outside this class — tuple → list, object sources, maps of collections,
dynamic sources: searched by the harness predicate `marks_kept`.) -/
theorem deep_marks_kept_partial (E : Env) (fuel : Nat) (p : Plan) (v r : Value)
    (hk : D08B.keeps p = true) (hwt : wtP v.ty v.v = true) (hc : v.v.setsClean = true)
    (h : apply E fuel p v = .ok r) (hno : D08B.noObj r.ty = true) :
    ∀ m ∈ v.marksDeep, m ∈ r.marksDeep :=
  fun m hm => D08B.apply_kept E fuel p v r hk h hno m (D08B.deep_subset_seen v.ty v.v m hwt hc hm)

/-- … and by `Convert`, when the conversion it looks up is of that kind. -/
theorem deep_marks_kept_convert_partial (E : Env) (fuel : Nat) (v r : Value) (want : Ty)
    (hk : ∀ p, getConv E v.ty want true = some p → D08B.keeps p = true)
    (hwt : wtP v.ty v.v = true) (hc : v.v.setsClean = true)
    (h : convert E fuel v want = .ok r) (hno : D08B.noObj r.ty = true) :
    ∀ m ∈ v.marksDeep, m ∈ r.marksDeep := by
  unfold convert convertWith at h
  split at h
  · simp at h; subst h; exact fun _ hm => hm
  · split at h
    · simp at h
    · rename_i p hp
      exact deep_marks_kept_partial E fuel p v r (hk p hp) hwt hc h hno

/-- the class is not empty: list(list(bool)) → list(set(string)) and tuple(bool, number) → set(string)
are conversions of the keeping kind, and the marks of the elements end up on the sets -/
example : (getConv Env.simple (.list (.list .bool)) (.list (.set .string)) true).all D08B.keeps = true := by decide
example : (getConv Env.simple (.tuple [.bool, .number]) (.set .string) true).all D08B.keeps = true := by decide
example : convert Env.simple 12 ⟨.list (.list .bool), .seq [.seq [.marked ["e"] (.b true)], .marked ["l"] (.seq [])]⟩
      (.list (.set .string)) =
    .ok ⟨.list (.set .string), .seq [.marked ["e"] (.sset [0] [.s "true"]), .marked ["l"] (.sset [] [])]⟩ := rfl

/-- the hypotheses at work: an object with a marked list holding a marked
element, converted to an object type with a set attribute — the element's mark moves up to the set,
the list's mark stays, and taking all marks off first gives the result with all marks off -/
def markedSample : Value :=
  ⟨.object ["a", "b"] [.list .bool, .string] [false, false],
   .marked ["top"] (.smap ["a", "b"] [.marked ["l"] (.seq [.b true, .marked ["e"] (.b false)]), .s "x"])⟩

example : markedSample.MarksWF := ⟨by decide, by decide⟩
example : convert Env.simple 12 markedSample (.object ["a"] [.set .string] [false]) =
    .ok ⟨.object ["a"] [.set .string] [false],
      .marked ["top"] (.smap ["a"] [.marked ["e", "l"] (.sset [0, 0] [.s "true", .s "false"])])⟩ := by
  rfl
example : convert Env.simple 12 markedSample.unmarkDeep (.object ["a"] [.set .string] [false]) =
    .ok ⟨.object ["a"] [.set .string] [false],
      .smap ["a"] [.sset [0, 0] [.s "true", .s "false"]]⟩ := by
  rfl

/-! ## No panic -/

/-- For a placeholder-free target and a value without unknown parts (nulls and marks are
allowed at any depth) `Convert` returns a value, an error, or runs out of model
fuel — never a panic; for every environment satisfying the laws and every fuel.
(Unknown parts go through the refinement builder, whose freedom from panics on the
bounds it is handed here is not proved; the harness checks it on every run.) -/
theorem no_panic_partial (E : Env) (hU : UnifyLaws E) (hS : SetLaws E) (fuel : Nat) (v : Value) (want : Ty)
    (hp : RegularPair v want) (hk : Payload.whollyKnown v.v = true) :
    (convert E fuel v want).isPanic = false := by
  have h := (convert_NB hU hS fuel hp hk).1
  cases hr : convert E fuel v want <;> simp [Res.isPanic]
  exact absurd hr (h _)

/-- … and neither does any conversion returned by `GetConversion` / `GetConversionUnsafe`. -/
theorem no_panic_getConversion_partial (E : Env) (hU : UnifyLaws E) (hS : SetLaws E) (fuel : Nat)
    (uns : Bool) (v : Value) (want : Ty) (p : Plan) (hp : RegularPair v want)
    (hk : Payload.whollyKnown v.v = true) (hg : getConv E v.ty want uns = some p) :
    (apply E fuel p v).isPanic = false := by
  have h := (apply_NB hU hS fuel hp hk hg).1
  cases hr : apply E fuel p v <;> simp [Res.isPanic]
  exact absurd hr (h _)

/-! ## A safe conversion never fails -/

/-- A conversion offered by `GetConversion` (safe mode) to a placeholder-free target
never reports an error and never panics on a value of the source type without
unknown parts: the outcome is a value of the target type (or the model's fuel ran
out).  Errors come only from conversions built in unsafe mode. -/
theorem safe_total_partial (E : Env) (hU : UnifyLaws E) (hS : SetLaws E) (fuel : Nat) (v : Value) (want : Ty)
    (p : Plan) (hp : RegularPair v want) (hk : Payload.whollyKnown v.v = true)
    (hg : getConversion E v.ty want = some p) :
    (∃ r, apply E fuel p v = .ok r ∧ r.ty = want.stripOpt) ∨ apply E fuel p v = .unmodelled := by
  have h := apply_NB hU hS fuel hp hk hg
  cases hr : apply E fuel p v with
  | ok r => exact .inl ⟨r, rfl, apply_ty hU hp hg hr⟩
  | err c => exact absurd (h.2 c hr) (by simp)
  | panic w => exact absurd hr (h.1 w)
  | unmodelled => exact .inr rfl

/-- with enough fuel the sample conversion of the non-vacuity section does return a value -/
example : (apply Env.simple 8 (.wrap (.list .string) (.collToList .string (.wrap .string .boolToStr)))
    ⟨.list .bool, .seq [.b true, .null]⟩).isOk = true := by decide

/-! ## Fuel: the model's results are monotone in the fuel, and enough fuel is explicit

`apply E 0 _ _ = .unmodelled`, so at small fuel the theorems above hold for a trivial reason.
These two facts rule that reading out: an outcome other than `.unmodelled` never changes when
more fuel is given, and for safe conversions twice the nesting depth of the value is enough. -/

/-- An outcome other than "out of fuel" is the outcome at every larger fuel — for every
environment, plan and value (no side condition at all). -/
theorem fuel_monotone (E : Env) (fuel fuel' : Nat) (hle : fuel ≤ fuel') (p : Plan) (v : Value)
    (h : apply E fuel p v ≠ .unmodelled) : apply E fuel' p v = apply E fuel p v :=
  apply_mono E hle p v h

/-- … and likewise for `Convert`. -/
theorem fuel_monotone_convert (E : Env) (fuel fuel' : Nat) (hle : fuel ≤ fuel') (v : Value) (want : Ty)
    (h : convert E fuel v want ≠ .unmodelled) : convert E fuel' v want = convert E fuel v want :=
  convert_mono E hle v want h

/-- an environment whose set parameters always answer satisfies the set laws -/
theorem setLaws_of_total (E : Env) (hT : SetTotal E) : SetLaws E where
  hash_ok := fun t p hw hm => .inl (hT.hash_ok t p hw hm)
  equiv_ok := fun t a b hw ha hb => .inl (hT.equiv_ok t a b hw ha hb)

/-- Fuel adequacy: with `fuel ≥ 2 · depth(value)` a safe conversion to a placeholder-free target,
applied to a well-typed wholly-known value, does not run out of fuel (when the set parameters
themselves answer: `SetTotal`, e.g. `Env.simple`; `hashC` / `equivC` of the driver give up only on
strings outside the modelled `%q` range and on capsule members). -/
theorem safe_fuel_adequate_partial (E : Env) (hU : UnifyLaws E) (hT : SetTotal E) (v : Value) (want : Ty)
    (p : Plan) (hp : RegularPair v want) (hk : Payload.whollyKnown v.v = true)
    (hg : getConversion E v.ty want = some p) :
    ∀ fuel, 2 * v.v.depth ≤ fuel → apply E fuel p v ≠ .unmodelled :=
  fun _ hf => apply_safe_fin hU hT hp hk hg hf

/-- `safe_total_partial` without its `∨ … = .unmodelled` disjunct: with adequate fuel a safe
conversion RETURNS A VALUE of the target type — and the same value for every larger fuel. -/
theorem safe_total_adequate_partial (E : Env) (hU : UnifyLaws E) (hT : SetTotal E) (fuel : Nat) (v : Value)
    (want : Ty) (p : Plan) (hp : RegularPair v want) (hk : Payload.whollyKnown v.v = true)
    (hg : getConversion E v.ty want = some p) (hf : 2 * v.v.depth ≤ fuel) :
    ∃ r, apply E fuel p v = .ok r ∧ r.ty = want.stripOpt ∧ ∀ fuel', fuel ≤ fuel' → apply E fuel' p v = .ok r := by
  rcases safe_total_partial E hU (setLaws_of_total E hT) fuel v want p hp hk hg with ⟨r, hr, hty⟩ | hu
  · refine ⟨r, hr, hty, fun fuel' hle => ?_⟩
    rw [apply_mono E hle p v (by rw [hr]; simp), hr]
  · exact absurd hu (apply_safe_fin hU hT hp hk hg hf)

example : SetTotal Env.simple := setTotal_simple
example : 2 * (Payload.seq [.b true, .null]).depth ≤ 4 := by decide

/-! ## Everything offered as safe is offered as unsafe -/

/-- A conversion offered by `GetConversion` to a placeholder-free target is also
offered by `GetConversionUnsafe`, and the two give the same outcome on every value
of the source type (known, unknown, null or marked, any depth), for every fuel. -/
theorem safe_sub_unsafe_partial (E : Env) (hU : UnifyLaws E) (v : Value) (want : Ty) (p : Plan)
    (hp : RegularPair v want) (hg : getConversion E v.ty want = some p) :
    ∃ p', getConversionUnsafe E v.ty want = some p' ∧ ∀ fuel, apply E fuel p' v = apply E fuel p v := by
  obtain ⟨c, hc, rfl⟩ := Option.map_eq_some_iff.mp hg
  refine ⟨.wrap want (up c), ?_, fun fuel => recEq_apply hU fuel v.ty want c v hc hp.conds⟩
  simp [getConversionUnsafe, getConv, gck_up E v.ty want c hp.noDyn hc]

/-- the offer itself needs nothing of the value: for any types with a placeholder-free
target, a safe conversion implies an unsafe one -/
theorem safe_sub_unsafe_offer (E : Env) (inT want : Ty) (hd : want.hasDyn = false)
    (h : (getConversion E inT want).isSome = true) : (getConversionUnsafe E inT want).isSome = true := by
  obtain ⟨p, hp⟩ := Option.isSome_iff_exists.mp h
  obtain ⟨c, hc, rfl⟩ := Option.map_eq_some_iff.mp hp
  simp [getConversionUnsafe, getConv, gck_up E inT want c hd hc]

/-- Full statement: whatever `GetConversion` offers, `GetConversionUnsafe` offers too
(any target, placeholders included; `E` any environment).  FALSE of the code — see
`safe_sub_unsafe_counterexample`: with a placeholder as the map element type the
element type is chosen by `unify(attribute types, unsafe)`, and the unsafe
unification fails where the safe one succeeds. -/
def SafeSubUnsafe : Prop :=
  ∀ (E : Env) (inT want : Ty), (getConversion E inT want).isSome = true →
    (getConversionUnsafe E inT want).isSome = true

/-- the witness, in the environment whose `unify` is the transliteration of unify.go
(`unifyTyF`, diffed against convert.Unify / UnifyUnsafe on every run):
`Unify([map(tuple(string)), object{a: bool, m: any, zz: string}])` is `map(any)` but
`UnifyUnsafe` of the same list is NilType -/
def subWitnessT : Ty :=
  .object ["x", "y"] [.map (.tuple [.string]), .object ["a", "m", "zz"] [.bool, .dyn, .string]
    [false, false, false]] [false, false]

theorem safe_sub_unsafe_counterexample :
    (getConversion (Env.ofUnify (unifyTyF 12)) subWitnessT (.map .dyn)).isSome = true ∧
    (getConversionUnsafe (Env.ofUnify (unifyTyF 12)) subWitnessT (.map .dyn)).isSome = false := by
  decide

theorem safeSubUnsafe_false : ¬ SafeSubUnsafe := by
  intro h
  have := h (Env.ofUnify (unifyTyF 12)) subWitnessT (.map .dyn) safe_sub_unsafe_counterexample.1
  rw [safe_sub_unsafe_counterexample.2] at this
  exact absurd this (by decide)

/-! ## Round trips through the inverse conversion -/

/-- bool → string → bool gives back the same bool (string → bool is the unsafe inverse). -/
theorem roundtrip_bool_string (E : Env) (fuel : Nat) (b : Bool) :
    convert E (fuel + 2) ⟨.bool, .b b⟩ .string = .ok ⟨.string, .s (if b then "true" else "false")⟩ ∧
    convert E (fuel + 2) ⟨.string, .s (if b then "true" else "false")⟩ .bool = .ok ⟨.bool, .b b⟩ := by
  cases b <;> exact ⟨rfl, rfl⟩

/-- Full statement for numbers: number → string → number gives back a number that
`Equals` the original (`rawNumberEqual`).  FALSE of the code — see
`roundtrip_number_string_counterexample`. -/
def RoundtripNumberString : Prop :=
  ∀ (E : Env) (fuel : Nat) (n m : Num) (s : String),
    convert E (fuel + 2) ⟨.number, .n n⟩ .string = .ok ⟨.string, .s s⟩ →
    convert E (fuel + 2) ⟨.string, .s s⟩ .number = .ok ⟨.number, .n m⟩ → Num.rawEqual m n = true

/-- the float64 nearest to 1e23, i.e. `cty.NumberFloatVal(1e23)`: 99999999999999991611392 -/
def float1e23 : Num := .fin false 2980232238769531 25 53

/-- the witness: number → string prints the shortest decimal that identifies the number
at its own 53-bit precision ("1" and 23 zeros); string → number reads that as the
integer 10^23, which is a different integer, and integers are compared exactly -/
theorem roundtrip_number_string_counterexample :
    convert Env.simple 2 ⟨.number, .n float1e23⟩ .string = .ok ⟨.string, .s "100000000000000000000000"⟩ ∧
    convert Env.simple 2 ⟨.string, .s "100000000000000000000000"⟩ .number =
      .ok ⟨.number, .n (.fin false 11920928955078125 23 512)⟩ ∧
    Num.rawEqual (.fin false 11920928955078125 23 512) float1e23 = false := by
  refine ⟨rfl, rfl, by decide⟩

theorem roundtripNumberString_false : ¬ RoundtripNumberString := by
  intro h
  have := h Env.simple 0 float1e23 _ _ roundtrip_number_string_counterexample.1
    roundtrip_number_string_counterexample.2.1
  rw [roundtrip_number_string_counterexample.2.2] at this
  exact absurd this (by decide)

/-- what does hold for every environment and fuel: zeros keep their sign and the
infinities come back (the harness evaluates the round trip on every generated
number; the exact class of numbers that come back is `numTextExact`, below) -/
theorem roundtrip_number_string_partial (E : Env) (fuel : Nat) (neg : Bool) (p : Nat) :
    (∃ s, convert E (fuel + 2) ⟨.number, .n (.inf neg)⟩ .string = .ok ⟨.string, .s s⟩ ∧
      convert E (fuel + 2) ⟨.string, .s s⟩ .number = .ok ⟨.number, .n (.inf neg)⟩) ∧
    (∃ s, convert E (fuel + 2) ⟨.number, .n (.fin neg 0 0 p)⟩ .string = .ok ⟨.string, .s s⟩ ∧
      convert E (fuel + 2) ⟨.string, .s s⟩ .number = .ok ⟨.number, .n (.fin neg 0 0 512)⟩) := by
  cases neg
  · exact ⟨⟨"+Inf", rfl, rfl⟩, ⟨"0", rfl, rfl⟩⟩
  · exact ⟨⟨"-Inf", rfl, rfl⟩, ⟨"-0", rfl, rfl⟩⟩

/-- The exact condition under which number → string → number gives back an equal number: the text
`Value.AsBigFloat().Text('f', -1)` of the number, read back by `ParseNumberVal`, is `RawEquals` to it.
Decidable, and evaluated by the harness on every generated number; the recorded finding
`integer-shortest-text-not-exact` is its complement. -/
def numTextExact (n : Num) : Bool :=
  match parseNumber (Num.textF n) with
  | .ok m => Num.rawEqual m n
  | _ => false

/-- number → string → number returns a number equal to the original EXACTLY when `numTextExact` holds
— for every environment and fuel. -/
theorem roundtrip_number_string_iff (E : Env) (fuel : Nat) (n : Num) :
    (∃ s m, convert E (fuel + 2) ⟨.number, .n n⟩ .string = .ok ⟨.string, .s s⟩ ∧
      convert E (fuel + 2) ⟨.string, .s s⟩ .number = .ok ⟨.number, .n m⟩ ∧ Num.rawEqual m n = true) ↔
    numTextExact n = true := by
  have h1 : convert E (fuel + 2) ⟨.number, .n n⟩ .string = .ok ⟨.string, .s (Num.textF n)⟩ := rfl
  have h2 : ∀ s, convert E (fuel + 2) ⟨.string, .s s⟩ .number =
      (parseNumber s).map fun x => ⟨.number, .n x⟩ := fun _ => rfl
  constructor
  · rintro ⟨s, m, hs, hm, he⟩
    rw [h1] at hs
    simp only [Res.ok.injEq, Value.mk.injEq, Payload.s.injEq, true_and] at hs
    subst hs
    rw [h2] at hm
    obtain ⟨x, hx, hxm⟩ := Convert.Res.map_eq_ok hm
    simp only [Value.mk.injEq, Payload.n.injEq, true_and] at hxm
    subst hxm
    simp [numTextExact, hx, he]
  · intro h
    unfold numTextExact at h
    cases hp : parseNumber (Num.textF n) with
    | ok m =>
      rw [hp] at h
      exact ⟨_, m, h1, by rw [h2, hp]; rfl, h⟩
    | err _ => rw [hp] at h; simp at h
    | panic _ => rw [hp] at h; simp at h
    | unmodelled => rw [hp] at h; simp at h

/-- the recorded witness fails the condition; a small integer meets it -/
theorem numTextExact_counterexample : numTextExact float1e23 = false := by
  have h : parseNumber (Num.textF float1e23) = .ok (.fin false 11920928955078125 23 512) := rfl
  simp only [numTextExact, h]
  decide
example : numTextExact (.fin true 12 0 64) = true := by
  have h : parseNumber (Num.textF (.fin true 12 0 64)) = .ok (.fin true 3 2 512) := rfl
  simp only [numTextExact, h]
  decide

/-- tuple → list has no inverse: no conversion from a list type to a tuple type is
ever offered (so "tuple → list → tuple" cannot be asked for). -/
theorem roundtrip_tuple_list_no_inverse (E : Env) (e : Ty) (ts : List Ty) (uns : Bool) :
    getConv E (.list e) (.tuple ts) uns = none := by
  simp [getConv, gck, Ty.isDyn, isPrim]

/-- A tuple whose elements all have the placeholder-free type `T` converts to
`list(T)` holding the same elements in the same order (nothing is lost on the way;
by `roundtrip_tuple_list_no_inverse` there is no way back to ask for). -/
theorem roundtrip_tuple_list (E : Env) (hU : UnifyLaws E) (fuel : Nat) (T : Ty) (its : List Ty)
    (ps : List Payload) (hT : wf T = true) (hTo : hasOpt T = false) (hTd : hasDyn T = false)
    (hne : its ≠ []) (hall : ∀ it ∈ its, it = T) (hw : wtZip its ps = true) :
    convert E (fuel + 2) ⟨.tuple its, .seq ps⟩ (.list T) = .ok ⟨.list T, .seq ps⟩ :=
  tuple_to_list_same hU fuel T its ps hT hTo hTd hne hall hw

/-- **set → list → set**: a wholly known set of a placeholder-free element type with unmarked members
converts (safely) to the list of its members in iteration order, and converting that list back to
the set type (an unsafe conversion) returns the ORIGINAL set — for every environment and every
fuel ≥ 2.  `D08B.setCanon`, the one fact about `set.Set` this rests on, is a decidable side condition:
rebuilding the set from its members in iteration order reproduces its payload (bucket ids = the
members' hashes, insertion order inside a bucket); true of every set the library builds. -/
theorem roundtrip_set_list_set_partial (E : Env) (fuel : Nat) (e : Ty) (ids : List Int) (ps : List Payload)
    (he : wf e = true) (heo : hasOpt e = false) (hed : hasDyn e = false) (hne : ps ≠ [])
    (hwk : Payload.whollyKnownL ps = true) (hcl : Payload.containsMarkedL ps = false)
    (hcanon : D08B.setCanon E e ids ps) :
    convert E (fuel + 2) ⟨.set e, .sset ids ps⟩ (.list e) = .ok ⟨.list e, .seq (setValues E e ps)⟩ ∧
    convert E (fuel + 2) ⟨.list e, .seq (setValues E e ps)⟩ (.set e) = .ok ⟨.set e, .sset ids ps⟩ :=
  D08B.set_list_set_same fuel e ids ps he heo hed hne hwk hcl hcanon

/-- the side condition is satisfiable: {"a", "b"} in the simple environment -/
example : D08B.setCanon Env.simple .string [0, 0] [.s "a", .s "b"] := rfl

/-- object → map → object: an object whose attributes all have the placeholder-free
type `T` (and hold no null) converts to `map(T)` with the same keys and members, and
converting that map back to the object type returns the original value. -/
theorem roundtrip_object_map (E : Env) (hU : UnifyLaws E) (fuel : Nat) (T : Ty) (ns : List String)
    (its : List Ty) (os : List Bool) (ps : List Payload) (hT : wf T = true) (hTo : hasOpt T = false)
    (hTd : hasDyn T = false) (hne : its ≠ []) (hall : ∀ it ∈ its, it = T) (hos : ∀ o ∈ os, o = false)
    (hw : wtZip its ps = true) (hnd : ns.Nodup) (hln : ns.length = its.length)
    (hlo : os.length = its.length) (hnn : ∀ p ∈ ps, p.isNull = false) :
    convert E (fuel + 2) ⟨.object ns its os, .smap ns ps⟩ (.map T) = .ok ⟨.map T, .smap ns ps⟩ ∧
    convert E (fuel + 2) ⟨.map T, .smap ns ps⟩ (.object ns its os) =
      .ok ⟨.object ns its os, .smap ns ps⟩ :=
  ⟨object_to_map_same hU fuel T ns its os ps hT hTo hTd hne hall hw hln,
   map_to_object_same fuel T ns its os ps hT hTd hall hos hnd hln hlo (wtZip_length hw).symm hnn⟩

/-- object → map → object THROUGH ELEMENT CONVERSIONS: the attributes may have different types.
`cs` are the element conversions `getConversionKnown` builds towards the map's element type `T`,
`cs'` the ones it builds from `T` back to each attribute type.  If every attribute converts to
`T` (giving the members `es'`) and every member converts back to its non-null attribute
(`BackAll`), then the object converts to the map of the converted members, and converting that map
to the object type returns the ORIGINAL object — for every environment satisfying `UnifyLaws`, every
fuel and depth.  The hypotheses on the elements are conversions of the same model, so the theorem
composes with `roundtrip_bool_string`, `roundtrip_number_string_iff`, and with itself. -/
theorem roundtrip_object_map_elems (E : Env) (hU : UnifyLaws E) (fuel : Nat) (T : Ty) (ns : List String)
    (its : List Ty) (os : List Bool) (ps : List Payload) (cs cs' : List Plan) (es' : List Value)
    (hT : wf T = true) (hTo : hasOpt T = false) (hTd : hasDyn T = false) (hne : its ≠ [])
    (hw : wtZip its ps = true) (hnd : ns.Nodup) (hln : ns.length = its.length)
    (hlo : os.length = its.length) (hos : ∀ o ∈ os, o = false)
    (hgc : gcAll E its T true = some cs)
    (hgc' : mapToObjConvs (fun o => gck E T o true) T its os = some cs')
    (hF : applyZip (apply E fuel) id cs (zipTys its ps) = .ok es') (hty : ∀ e ∈ es', e.ty = T)
    (hB : BackAll (apply E fuel) cs' es' (zipTys its ps)) :
    convert E (fuel + 2) ⟨.object ns its os, .smap ns ps⟩ (.map T) = .ok ⟨.map T, .smap ns (es'.map (·.v))⟩ ∧
    convert E (fuel + 2) ⟨.map T, .smap ns (es'.map (·.v))⟩ (.object ns its os) =
      .ok ⟨.object ns its os, .smap ns ps⟩ :=
  object_map_object_elems hU fuel T ns its os ps cs cs' es' hT hTo hTd hne hw hnd hln hlo hos hgc hgc' hF hty hB

/-- the hypotheses are satisfiable with real element conversions inside: `{a = true, b = "x"}` ↔
`{a = "true", b = "x"} : map(string)` (bool → string out, string → bool back, the string as it is) -/
example :
    convert Env.simple 4 ⟨.object ["a", "b"] [.bool, .string] [false, false], .smap ["a", "b"] [.b true, .s "x"]⟩
        (.map .string) = .ok ⟨.map .string, .smap ["a", "b"] [.s "true", .s "x"]⟩ ∧
    convert Env.simple 4 ⟨.map .string, .smap ["a", "b"] [.s "true", .s "x"]⟩
        (.object ["a", "b"] [.bool, .string] [false, false]) =
      .ok ⟨.object ["a", "b"] [.bool, .string] [false, false], .smap ["a", "b"] [.b true, .s "x"]⟩ :=
  roundtrip_object_map_elems Env.simple unifyLaws_simple 2 .string ["a", "b"] [.bool, .string] [false, false]
    [.b true, .s "x"] [.wrap .string .boolToStr, .nil] [.wrap .bool .strToBool, .nil]
    [⟨.string, .s "true"⟩, ⟨.string, .s "x"⟩] rfl rfl rfl (by simp) rfl (by decide) rfl rfl (by simp) rfl rfl rfl
    (by simp) (.cons rfl rfl (.cons rfl rfl .nil))

example : convert Env.simple 2 ⟨.object ["a", "b"] [.string, .string] [false, false],
      .smap ["a", "b"] [.s "x", .unk .unref]⟩ (.map .string) =
    .ok ⟨.map .string, .smap ["a", "b"] [.s "x", .unk .unref]⟩ := rfl

/-! ## Conversion to the placeholder itself, and the primitive tables -/

/-- Converting to DynamicPseudoType itself returns the value as it is. -/
theorem to_placeholder_passthrough (E : Env) (fuel : Nat) (v : Value) (hm : v.isMarked = false) :
    convert E (fuel + 1) v .dyn = .ok v := by
  unfold convert convertWith
  split
  · rfl
  · have : getConv E v.ty .dyn true = some (.wrap .dyn .dynPass) := by
      simp [getConv, gck, Ty.isDyn]
    simp [this, apply, applyStep, hm, Ty.isDyn]

/-- … and for EVERY value — marked at any number of layers, ill-typed, anything — and every
environment and fuel, the conversion to DynamicPseudoType does not panic and, when it returns, returns
a value whose type conforms to the placeholder (no `RegularPair`, no laws). -/
theorem no_panic_placeholder_target (E : Env) : ∀ (fuel : Nat) (v : Value),
    (apply E fuel (.wrap .dyn .dynPass) v).isPanic = false ∧
    ∀ r, apply E fuel (.wrap .dyn .dynPass) v = .ok r → conformsTo .dyn r = true
  | 0, _ => ⟨rfl, by simp [apply]⟩
  | fuel + 1, v => by
    have ih := no_panic_placeholder_target E fuel v.unmark
    have hc : ∀ r : Value, conformsTo .dyn r = true := by
      intro r; simp [conformsTo, Ty.conformErrs]
    simp only [apply, applyStep]
    split
    · cases hr : apply E fuel (.wrap .dyn .dynPass) v.unmark with
      | ok r0 => exact ⟨rfl, fun r _ => hc r⟩
      | err e => exact ⟨rfl, by simp⟩
      | panic w => rw [hr] at ih; simp [Res.isPanic] at ih
      | unmodelled => exact ⟨rfl, by simp⟩
    · simp only [Ty.isDyn, if_true]
      exact ⟨rfl, fun r _ => hc r⟩

/-- The primitive conversions of the model are exactly the keys of
`primitiveConversionsSafe` / `primitiveConversionsUnsafe` as re-read from the source
on every check (`Generated/PrimConv.lean`). -/
theorem primConv_table (a b : Ty) (ha : isPrim a = true) (hb : isPrim b = true) :
    (primSafe a b).isSome = Generated.primConvSafe.any (fun p => p.1.equals a && p.2.equals b) ∧
    (primUnsafe a b).isSome = Generated.primConvUnsafe.any (fun p => p.1.equals a && p.2.equals b) := by
  cases a <;> simp [isPrim] at ha <;> cases b <;> simp [isPrim] at hb <;> decide

/-! ## Well-typedness is preserved -/

/-- The result of a successful conversion of a well-typed value (to a placeholder-free target)
is well typed: a well-formed type without optional-attribute annotations and a payload that
type can have, at every depth — so it can be fed to another conversion (C09's composed
conversions rely on this). -/
theorem result_well_typed_partial (E : Env) (hU : UnifyLaws E) (fuel : Nat) (v r : Value) (want : Ty)
    (hp : RegularPair v want) (h : convert E fuel v want = .ok r) : Value.wt r = true :=
  (convert_wt hU hp h).1

/-- … and it holds no unknown at any depth when the input held none. -/
theorem result_wholly_known_partial (E : Env) (hU : UnifyLaws E) (fuel : Nat) (v r : Value) (want : Ty)
    (hp : RegularPair v want) (hk : Payload.whollyKnown v.v = true) (h : convert E fuel v want = .ok r) :
    Payload.whollyKnown r.v = true :=
  (convert_wt hU hp h).2 hk

/-- The same for a conversion obtained from `GetConversion` / `GetConversionUnsafe`. -/
theorem result_well_typed_getConversion_partial (E : Env) (hU : UnifyLaws E) (fuel : Nat) (uns : Bool)
    (v r : Value) (want : Ty) (p : Plan) (hp : RegularPair v want)
    (hg : getConv E v.ty want uns = some p) (h : apply E fuel p v = .ok r) :
    Value.wt r = true ∧ (Payload.whollyKnown v.v = true → Payload.whollyKnown r.v = true) :=
  apply_wt hU hp hg h

/-! ## The laws hold of the environment the driver runs

`Convert.driverEnv` is the `Env` of `Driver/HConvert.lean` (every `cv.*` operation diffed
against /repo uses it).  The two laws the theorems above assume are theorems about it. -/

/-- `unify` of the driver (`Unify.unifyTy`, fuel computed from the argument): identical
well-formed annotation-free types unify to that type, at every depth. -/
theorem unifyLaws_driver : UnifyLaws driverEnv := Unify.unifyLaws_std (Env.concrete Unify.unifyTy)

/-- `setRules.Hash` / `setRules.Equivalent` of the driver (`hashC`, `equivC`): no panic and no
error on well-typed, mark-free, wholly-known members of a well-formed element type. -/
theorem setLaws_driver : SetLaws driverEnv := setLaws_concrete _

theorem result_type_driver (fuel : Nat) (v r : Value) (want : Ty)
    (hp : RegularPair v want) (h : convert driverEnv fuel v want = .ok r) : r.ty = want.stripOpt :=
  result_type_partial _ unifyLaws_driver fuel v r want hp h

theorem result_conforms_driver (fuel : Nat) (v r : Value) (want : Ty)
    (hp : RegularPair v want) (h : convert driverEnv fuel v want = .ok r) : conformsTo want r = true :=
  result_conforms_partial _ unifyLaws_driver fuel v r want hp h

theorem result_well_typed_driver (fuel : Nat) (v r : Value) (want : Ty)
    (hp : RegularPair v want) (h : convert driverEnv fuel v want = .ok r) : Value.wt r = true :=
  result_well_typed_partial _ unifyLaws_driver fuel v r want hp h

theorem idempotent_driver (fuel fuel' : Nat) (v r : Value) (want : Ty)
    (hp : RegularPair v want) (h : convert driverEnv fuel v want = .ok r) :
    convert driverEnv fuel' r want = .ok r :=
  idempotent_partial _ unifyLaws_driver fuel fuel' v r want hp h

/-- `Convert`, in the environment that is diffed against the Go code, never panics on a
well-typed wholly-known value and a placeholder-free target — no hypothesis on the environment left. -/
theorem no_panic_driver (fuel : Nat) (v : Value) (want : Ty)
    (hp : RegularPair v want) (hk : Payload.whollyKnown v.v = true) :
    (convert driverEnv fuel v want).isPanic = false :=
  no_panic_partial _ unifyLaws_driver setLaws_driver fuel v want hp hk

theorem no_panic_getConversion_driver (fuel : Nat) (uns : Bool) (v : Value) (want : Ty) (p : Plan)
    (hp : RegularPair v want) (hk : Payload.whollyKnown v.v = true)
    (hg : getConv driverEnv v.ty want uns = some p) : (apply driverEnv fuel p v).isPanic = false :=
  no_panic_getConversion_partial _ unifyLaws_driver setLaws_driver fuel uns v want p hp hk hg

/-- A conversion offered as safe never fails, in the driver's environment. -/
theorem safe_total_driver (fuel : Nat) (v : Value) (want : Ty) (p : Plan)
    (hp : RegularPair v want) (hk : Payload.whollyKnown v.v = true)
    (hg : getConversion driverEnv v.ty want = some p) :
    (∃ r, apply driverEnv fuel p v = .ok r ∧ r.ty = want.stripOpt) ∨ apply driverEnv fuel p v = .unmodelled :=
  safe_total_partial _ unifyLaws_driver setLaws_driver fuel v want p hp hk hg

theorem safe_sub_unsafe_driver (v : Value) (want : Ty) (p : Plan)
    (hp : RegularPair v want) (hg : getConversion driverEnv v.ty want = some p) :
    ∃ p', getConversionUnsafe driverEnv v.ty want = some p' ∧
      ∀ fuel, apply driverEnv fuel p' v = apply driverEnv fuel p v :=
  safe_sub_unsafe_partial _ unifyLaws_driver v want p hp hg

/-! The counterexamples of this file (and the repaired former witness of
`empty-collection-keeps-nested-placeholder`), restated in the driver's environment — the one whose every
answer is diffed against the Go code — so that "FALSE of the code" does not rest on a toy
environment or on a fuel bound chosen by hand. -/

/-- REPAIRED (this was `result_resolves_placeholders_counterexample_driver`; the counterexample that
remains, `result_resolves_placeholders_unknown_length_counterexample`, has its driver half inside) -/
theorem result_resolves_placeholders_empty_witness_driver :
    convert driverEnv 4 ⟨.list (.map .bool), .seq []⟩ (.list (.map .dyn)) =
      .ok ⟨.list (.map .bool), .seq []⟩ ∧
    resolvedIn (.list (.map .bool)) (.list (.map .bool)) = true ∧
    convert driverEnv 6 ⟨.list (.map .bool), .seq [.smap ["k"] [.b true]]⟩ (.list (.map .dyn)) =
      .ok ⟨.list (.map .bool), .seq [.smap ["k"] [.b true]]⟩ := by
  refine ⟨rfl, by decide, rfl⟩

theorem safe_sub_unsafe_counterexample_driver :
    (getConversion driverEnv subWitnessT (.map .dyn)).isSome = true ∧
    (getConversionUnsafe driverEnv subWitnessT (.map .dyn)).isSome = false := by
  decide

theorem roundtrip_number_string_counterexample_driver :
    convert driverEnv 2 ⟨.number, .n float1e23⟩ .string = .ok ⟨.string, .s "100000000000000000000000"⟩ ∧
    convert driverEnv 2 ⟨.string, .s "100000000000000000000000"⟩ .number =
      .ok ⟨.number, .n (.fin false 11920928955078125 23 512)⟩ ∧
    Num.rawEqual (.fin false 11920928955078125 23 512) float1e23 = false := by
  refine ⟨rfl, rfl, by decide⟩

/-- the sample of the non-vacuity section, in the driver's environment: it really finishes -/
example : (convert driverEnv 8 ⟨.list .bool, .seq [.b true, .null]⟩ (.list .string)).isOk = true := by decide

/-! ## Non-vacuity: the hypotheses are satisfiable by non-trivial inputs -/

/-- an object with a list, a null and a nested tuple, converted to an object type
with an optional attribute, a set and a map -/
def sampleV : Value :=
  ⟨.object ["a", "b", "c"] [.list .bool, .string, .tuple [.bool, .bool]] [false, false, false],
   .smap ["a", "b", "c"] [.seq [.b true, .b false], .null, .seq [.b true, .unk .unref]]⟩
def sampleT : Ty :=
  .object ["a", "c", "d"] [.set .string, .list .string, .map .number] [false, false, true]

example : RegularPair sampleV sampleT := ⟨by decide, by decide, by decide⟩
example : UnifyLaws Env.simple := unifyLaws_simple
example : (convert Env.simple 8 sampleV sampleT).isOk = true := by decide

end C08
end CtyModel
