/-
C08 — Type conversion is conformant, total where safe, idempotent, never panics.

Property theorems only; helper lemmas live in `CtyModel/Lemmas/Convert*.lean`.
Every statement is about `Convert.convert` (= convert.Convert), `Convert.getConv`
(= GetConversion / GetConversionUnsafe) and `Convert.apply` (a returned
conversion applied to a value) — the transliterations of cty/convert that the
harness diffs against /repo on every run (ok value / err / panic).

Parameters: `E : Convert.Env` carries what the conversion files take from
elsewhere — the type result of `unify` (C09) and the hash / equivalence / order of
set members (C03).  Theorems hold for every `E` satisfying the stated laws
(`UnifyLaws`, `SetLaws`; both hold of `Env.simple`, and the harness probes them on
the real code), every fuel, and values / types of any depth.  Capsule types have
no conversion callbacks in the model.

"Placeholder-free" theorems (`…_partial`) assume `RegularPair v want`: a
well-formed value, a well-formed target without DynamicPseudoType, and a
*regular* pair of types — `Convert.regular`, the compatibility that
`dynamicReplace` assumes of its arguments (see the counterexamples for what
happens without it).
-/
import CtyModel.Lemmas.ConvertProps
namespace CtyModel
namespace C08
open Convert Ty

/-! ## The result conforms to the requested type -/

/-- Full statement: a successful conversion returns a value whose type conforms to
the requested type (`TestConformance` reports nothing).  FALSE of the code — see
`result_conforms_counterexample`. -/
def ResultConforms : Prop :=
  ∀ (E : Env) (fuel : Nat) (v r : Value) (want : Ty), UnifyLaws E → Value.wt v = true → want.wf = true →
    convert E fuel v want = .ok r → conformsTo want r = true

/-- For a placeholder-free target and a regular pair the result has exactly the
requested type without its optional-attribute annotations … -/
theorem result_type_partial (E : Env) (hU : UnifyLaws E) (fuel : Nat) (v r : Value) (want : Ty)
    (hp : RegularPair v want) (h : convert E fuel v want = .ok r) : r.ty = want.stripOpt :=
  convert_ty hU hp h

/-- … hence conforms to it (clause "returns a value whose type conforms to the
requested type"). -/
theorem result_conforms_partial (E : Env) (hU : UnifyLaws E) (fuel : Nat) (v r : Value) (want : Ty)
    (hp : RegularPair v want) (h : convert E fuel v want = .ok r) : conformsTo want r = true := by
  simp [conformsTo, convert_ty hU hp h, conform_stripOpt want hp.wfT hp.noDyn]

/-- The same for a conversion obtained from `GetConversion` / `GetConversionUnsafe`. -/
theorem result_conforms_getConversion_partial (E : Env) (hU : UnifyLaws E) (fuel : Nat) (uns : Bool)
    (v r : Value) (want : Ty) (p : Plan) (hp : RegularPair v want)
    (hg : getConv E v.ty want uns = some p) (h : apply E fuel p v = .ok r) : conformsTo want r = true := by
  simp [conformsTo, apply_ty hU hp hg h, conform_stripOpt want hp.wfT hp.noDyn]

/-- the witness: a null map converted to an object type one of whose optional
attributes (an object) the map's element type cannot convert to — `dynamicReplace`
answers the empty object type for that attribute -/
def conformsWitnessV : Value := ⟨.map .string, .null⟩
def conformsWitnessT : Ty := .object ["a"] [.object ["b"] [.string] [false]] [true]

theorem result_conforms_counterexample :
    convert Env.simple 4 conformsWitnessV conformsWitnessT =
      .ok ⟨.object ["a"] [.object [] [] []] [false], .null⟩ ∧
    conformErrs conformsWitnessT (.object ["a"] [.object [] [] []] [false]) ≠ 0 := by
  constructor
  · rfl
  · decide

theorem resultConforms_false : ¬ ResultConforms := by
  intro h
  have := h Env.simple 4 conformsWitnessV _ conformsWitnessT unifyLaws_simple (by decide) (by decide)
    result_conforms_counterexample.1
  revert this
  decide

/-! ## No optional-attribute annotation in the result type -/

/-- Full statement: the result type carries no optional-attribute annotation
anywhere.  FALSE of the code — see `result_no_optional_counterexample`. -/
def ResultNoOptional : Prop :=
  ∀ (E : Env) (fuel : Nat) (v r : Value) (want : Ty), UnifyLaws E → Value.wt v = true → want.wf = true →
    convert E fuel v want = .ok r → noOptional r = true

theorem result_no_optional_partial (E : Env) (hU : UnifyLaws E) (fuel : Nat) (v r : Value) (want : Ty)
    (hp : RegularPair v want) (h : convert E fuel v want = .ok r) : noOptional r = true := by
  simp [noOptional, convert_ty hU hp h, stripOpt_noOpt]

/-- the witness: an empty map converted to an object type with an optional
attribute whose own type has an optional attribute — conversionMapToObject fills
the missing attribute with a null of the attribute type as written -/
def optWitnessT : Ty := .object ["a"] [.object ["b"] [.string] [true]] [true]

theorem result_no_optional_counterexample :
    convert Env.simple 4 ⟨.map .string, .smap [] []⟩ optWitnessT =
      .ok ⟨.object ["a"] [.object ["b"] [.string] [true]] [false], .smap ["a"] [.null]⟩ ∧
    hasOpt (.object ["a"] [.object ["b"] [.string] [true]] [false]) = true := by
  constructor
  · rfl
  · decide

theorem resultNoOptional_false : ¬ ResultNoOptional := by
  intro h
  have := h Env.simple 4 ⟨.map .string, .smap [] []⟩ _ optWitnessT unifyLaws_simple (by decide) (by decide)
    result_no_optional_counterexample.1
  revert this
  decide

/-! ## Placeholders the input already resolved do not come back -/

/-- Full statement: every placeholder of the result type sits where the input type
has one too (or at a position the input type does not have).  FALSE of the code —
see `result_resolves_placeholders_counterexample`. -/
def ResultResolvesPlaceholders : Prop :=
  ∀ (E : Env) (fuel : Nat) (v r : Value) (want : Ty), UnifyLaws E → Value.wt v = true → want.wf = true →
    convert E fuel v want = .ok r → resolvedIn v.ty r.ty = true

theorem result_resolves_placeholders_partial (E : Env) (hU : UnifyLaws E) (fuel : Nat) (v r : Value)
    (want : Ty) (hp : RegularPair v want) (h : convert E fuel v want = .ok r) :
    resolvedIn v.ty r.ty = true := by
  apply resolvedIn_noDyn
  rw [convert_ty hU hp h, stripOpt_hasDyn]
  exact hp.noDyn

/-- the witness: an *empty* list of maps converted to list(map(placeholder)) keeps the
placeholder, although a non-empty list of the same type resolves it to bool -/
theorem result_resolves_placeholders_counterexample :
    convert Env.simple 4 ⟨.list (.map .bool), .seq []⟩ (.list (.map .dyn)) =
      .ok ⟨.list (.map .dyn), .seq []⟩ ∧
    resolvedIn (.list (.map .bool)) (.list (.map .dyn)) = false ∧
    convert Env.simple 6 ⟨.list (.map .bool), .seq [.smap ["k"] [.b true]]⟩ (.list (.map .dyn)) =
      .ok ⟨.list (.map .bool), .seq [.smap ["k"] [.b true]]⟩ := by
  refine ⟨rfl, by decide, rfl⟩

theorem resultResolvesPlaceholders_false : ¬ ResultResolvesPlaceholders := by
  intro h
  have := h Env.simple 4 ⟨.list (.map .bool), .seq []⟩ _ (.list (.map .dyn)) unifyLaws_simple
    (by decide) (by decide) result_resolves_placeholders_counterexample.1
  revert this
  decide

/-! ## Identity and idempotence -/

/-- Converting a value to its own type (disregarding annotations of the target)
returns it unchanged — for every value, type, environment and fuel. -/
theorem identity (E : Env) (fuel : Nat) (v : Value) (want : Ty)
    (h : v.ty.equals want.stripOpt = true) : convert E fuel v want = .ok v :=
  convert_identity E fuel v want h

/-- in particular converting to `v.Type()` itself -/
theorem identity_own_type (E : Env) (fuel : Nat) (v : Value) (hw : Value.wt v = true) :
    convert E fuel v v.ty = .ok v := by
  simp only [Value.wt, Bool.and_eq_true, Bool.not_eq_true'] at hw
  apply convert_identity
  rw [stripOpt_id_of_noOpt _ hw.1.2]
  exact equals_self hw.1.1

/-- Converting the result again gives the same result. -/
theorem idempotent_partial (E : Env) (hU : UnifyLaws E) (fuel fuel' : Nat) (v r : Value) (want : Ty)
    (hp : RegularPair v want) (h : convert E fuel v want = .ok r) : convert E fuel' r want = .ok r :=
  convert_idempotent hU hp h

/-! ## Non-vacuity: the hypotheses are satisfiable by non-trivial inputs -/

/-- an object with a list, a null and a nested tuple, converted to an object type
with an optional attribute, a set and a map -/
def sampleV : Value :=
  ⟨.object ["a", "b", "c"] [.list .bool, .string, .tuple [.bool, .bool]] [false, false, false],
   .smap ["a", "b", "c"] [.seq [.b true, .b false], .null, .seq [.b true, .unk .unref]]⟩
def sampleT : Ty :=
  .object ["a", "c", "d"] [.set .string, .list .string, .map .number] [false, false, true]

example : RegularPair sampleV sampleT := ⟨by decide, by decide, by decide, by decide⟩
example : UnifyLaws Env.simple := unifyLaws_simple
example : (convert Env.simple 8 sampleV sampleT).isOk = true := by decide

end C08
end CtyModel
