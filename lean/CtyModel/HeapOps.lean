/-
C20 — the API entry points of go-cty as small programs over the heap of
`CtyModel.Heap`, each with its aliasing signature visible in the program text:
what it reads, what it writes in place (`setBody`), what it freshly allocates
(`alloc`), what it shares with its inputs (a word copied from an input), whose
ownership it takes (`freeze`) and what it returns.

A state is a heap plus register files that only ever grow: `vals` (every
cty.Value created so far — all of them stay observable), `gos` (Go data the
caller holds: *big.Float, []cty.Value, map[string]cty.Value, ValueMarks,
[]cty.Type, ValueSet, cty.Path, PathSet), `wks` (running Walks, defunctionalised:
one `walkNext` per callback invocation, so that caller code can run "inside" the
callback), `outs` (scalar answers).  `HeapOp` is an API call or a caller action
on data the caller holds.

Core Lean only (the driver imports this file).
-/
import CtyModel.Heap
namespace CtyModel
namespace Heap

/-- one frame of a running `walk`: the path slice this frame was called with and
the children not yet visited (step word, child value) -/
structure Frame where
  path : Word
  todo : List (Word × Word)
  deriving DecidableEq, Repr, Inhabited

/-- a running `Walk`, suspended inside a callback invocation: `pending` is the
(path, node) that invocation was given — its children are enumerated only after
the callback returns — and `frames` the enclosing `walk` activations -/
structure Walker where
  pending : Option (Word × Word)
  frames : List Frame
  deriving DecidableEq, Repr, Inhabited

structure St where
  mem : Mem := []
  vals : List Word := []
  gos : List Word := []
  wks : List Walker := []
  outs : List (List Tok) := []
  deriving DecidableEq, Repr, Inhabited

/-- where a caller-made `[]cty.Type` cell comes from -/
inductive TySrc where
  | prim (n : String)
  | ofVal (v : Nat)          -- `vals[v].Type()`
  deriving DecidableEq, Repr, Inhabited

/-- API entry points of go-cty (arguments are register indices; `hs`, `h`, `perm`
are oracle columns computed by the real code: member hashes and the order
`Set.Values` sorts members into) -/
inductive Api where
  -- constructors
  | numberVal (g : Nat)                    -- NumberVal(*big.Float): RETAINS the pointer (documented)
  | numberIntVal (n : Int)
  | stringVal (s : String)
  | boolVal (b : Bool)
  | nullVal (t : String)
  | unknownVal (t : String) (r : String)
  | listVal (g : Nat)
  | tupleVal (g : Nat)
  | objectVal (g : Nat)
  | mapVal (g : Nat)
  | setVal (g : Nat) (hs : List Int)
  | setValFromValueSet (g : Nat)
  -- accessors
  | asBigFloat (v : Nat)
  | asValueSlice (v : Nat) (perm : List Nat)
  | asValueMap (v : Nat)
  | asValueSet (v : Nat) (hs : List Int)
  | elements (v : Nat) (perm : List Nat)   -- ElementIterator / ForEachElement: keys and elements
  | lengthInt (v : Nat)
  | getAttr (v : Nat) (name : String)
  | index (v : Nat) (k : Key)              -- Index with a known whole-number or string key
  | marks (v : Nat)
  | unmark (v : Nat)
  | mark (v : Nat) (mk : String)
  | withMarks (v : Nat) (g : Nat)
  | withSameMarks (v w : Nat)              -- WithSameMarks(src): reads the marker of `src`
  -- operation methods (read-only)
  | opAdd (v w : Nat)
  | opNegate (v : Nat)
  | opEquals (v w : Nat)
  | opLength (v : Nat)
  -- ValueSet / set.Set
  | newValueSet (t : TySrc)
  | vsAdd (g v : Nat) (h : Int)
  | vsRemove (g v : Nat) (h : Int)
  | vsHas (g v : Nat) (h : Int)
  | vsCopy (g : Nat)
  | vsValues (g : Nat) (perm : List Nat)
  | vsLength (g : Nat)
  -- types
  | tupleType (g : Nat)                    -- cty.Tuple([]Type): RETAINS the slice (documented)
  | tupleElementTypes (v : Nat)            -- returns internal state (documented read-only)
  | objectType (g : Nat)                   -- cty.Object(map): copies (the doc reserves the right to retain)
  | attributeTypes (v : Nat)               -- returns internal state (documented read-only)
  -- paths, path sets, walk
  | pathIndex (g v : Nat)
  | pathGetAttr (g : Nat) (name : String)
  | pathCopy (g : Nat)
  | newPathSet
  | psAdd (g p : Nat) (h : Int)            -- PathSet.Add: RETAINS the path (documented)
  | psAddAllSteps (g p : Nat) (hs : List Int) -- PathSet.AddAllSteps: Add(path[:i:i]) for every i — RETAINS the path, all members share its array (no spare capacity)
  | psHas (g p : Nat) (h : Int)
  | psRemove (g p : Nat) (h : Int)         -- PathSet.Remove: the bucket without the member is a fresh array
  | psList (g : Nat) (perm : List Nat)     -- the member paths themselves (Paths are immutable by convention)
  | walkBegin (v : Nat)                    -- Walk: first callback invocation (root, nil path)
  | walkNext (w : Nat)                     -- …next callback invocation: the path shares the walk's buffer
  deriving DecidableEq, Repr, Inhabited

/-- caller actions on Go data the caller holds -/
inductive Caller where
  | newFloat (n : Int)
  | newSlice (vs : List Nat) (cap : Nat)   -- []cty.Value{vals[vs]…} with capacity max cap len
  | newMap (kvs : List (String × Nat))
  | newMarks (ms : List String)
  | newTypes (ts : List TySrc)
  | newTypeMap (kts : List (String × TySrc))
  | nilPath
  | elemPath (g i : Nat)                   -- p := paths[i] (a []cty.Path the caller got from PathSet.List)
  | setFloat (g : Nat) (n : Int)           -- bf.SetInt64(n)
  | setElem (g i v : Nat)                  -- s[i] = vals[v]
  | setElemType (g i : Nat) (t : TySrc)    -- tys[i] = t
  | setStep (g i : Nat) (name : String)    -- path[i] = GetAttrStep{name}
  | mapPut (g : Nat) (k : String) (v : Nat)
  | mapPutType (g : Nat) (k : String) (t : TySrc)
  | mapDelete (g : Nat) (k : String)
  | marksAdd (g : Nat) (mk : String)
  | appendVal (g v : Nat)                  -- append(s, vals[v]) → new register
  | appendStep (g : Nat) (name : String)   -- append(path, GetAttrStep{name}) → new register
  deriving DecidableEq, Repr, Inhabited

inductive HeapOp where
  | api (c : Api)
  | caller (c : Caller)
  deriving DecidableEq, Repr, Inhabited

namespace St

def val (st : St) (i : Nat) : Option (Word × Word) :=
  match st.vals[i]? with
  | some (.pair t v) => some (t, v)
  | _ => none

def go (st : St) (i : Nat) : Option Word := st.gos[i]?

def pushVal (st : St) (t v : Word) : St := { st with vals := st.vals ++ [.pair t v] }
def pushGo (st : St) (w : Word) : St := { st with gos := st.gos ++ [w] }
def pushOut (st : St) (o : List Tok) : St := { st with outs := st.outs ++ [o] }
def withMem (st : St) (m : Mem) : St := { st with mem := m }

end St

/-- ownership of a caller-owned object passes to the library (documented transfers) -/
def freezeCaller (m : Mem) (a : Addr) : Mem :=
  if ownerOf m a == some .caller then freeze m a else m

def tNumber : Word := .tprim "number"
def tString : Word := .tprim "string"
def tBool : Word := .tprim "bool"
def tDyn : Word := .tprim "dyn"

/-- `val.v` of a marked value without the marker -/
def unwrap : Word → Word
  | .marked _ r => r
  | w => w

def tySrc (st : St) : TySrc → Option Word
  | .prim n => some (.tprim n)
  | .ofVal v => (st.val v).map (·.1)

/-- the (type, payload) halves of `[]cty.Value` cells -/
def splitPairs : List Word → Option (List Word × List Word)
  | [] => some ([], [])
  | .pair t v :: r => (splitPairs r).map fun p => (t :: p.1, v :: p.2)
  | _ => none

def splitKV : List (Key × Word) → Option (List (Key × Word) × List (Key × Word))
  | [] => some ([], [])
  | (k, .pair t v) :: r => (splitKV r).map fun p => ((k, t) :: p.1, (k, v) :: p.2)
  | _ => none

/-- the element type `ListVal`/`SetVal`/`MapVal` infer: the first non-dynamic one -/
def elemType : List Word → Word
  | [] => tDyn
  | t :: r => if t = tDyn then elemType r else t

/-- element types of a sequence value with `n` elements -/
def seqTypes (m : Mem) (t : Word) (n : Nat) : Option (List Word) :=
  match t with
  | .tlist e | .tset e => some (List.replicate n e)
  | .ttuple ts => sliceElems m ts
  | _ => none

def zipPairs : List Word → List Word → List Word
  | t :: ts, v :: vs => .pair t v :: zipPairs ts vs
  | _, _ => []

/-- allocate `NumberIntVal(i)` for `i = 0 … n-1` (the keys `ElementIterator` hands out) -/
def allocIdxKeys (m : Mem) : Nat → Nat → Mem × List Word
  | _, 0 => (m, [])
  | i, n + 1 =>
    let (m1, a) := alloc m .lib (.bigfloat i)
    let r := allocIdxKeys m1 (i + 1) n
    (r.1, .pair tNumber (.num a) :: r.2)

/-- what `ElementIterator` yields for a known, non-null, unmarked value:
(key value, element value) in iteration order.  Lists/tuples: fresh
`NumberIntVal(i)` keys; maps/objects: `StringVal(k)` keys in sorted key order;
sets: each member is its own key, in `Set.Values` order (oracle `perm`). -/
def iterElems (m : Mem) (t v : Word) (perm : List Nat) : Option (Mem × List (Word × Word)) :=
  match t, v with
  | .tlist e, .slice .. | .tlist e, .null =>
    (sliceElems m v).map fun xs =>
      let r := allocIdxKeys m 0 xs.length
      (r.1, r.2.zip (xs.map (Word.pair e)))
  | .ttuple ts, _ =>
    match sliceElems m v, sliceElems m ts with
    | some xs, some tys =>
      let r := allocIdxKeys m 0 xs.length
      some (r.1, r.2.zip (zipPairs tys xs))
    | _, _ => none
  | .tmap e, .map a =>
    (kvsOf m a).map fun kvs => (m, kvs.filterMap fun kv =>
      match kv.1 with
      | .s k => some (.pair tString (.str k), .pair e kv.2)
      | _ => none)
  | .tobject (.map ta), .map a =>
    -- the iterator ranges over the attribute names of the TYPE (sorted) and reads vals[name]
    match kvsOf m a, kvsOf m ta with
    | some kvs, some tkvs => some (m, tkvs.filterMap fun tkv =>
      match tkv.1 with
      | .s k => some (.pair tString (.str k), .pair tkv.2 ((kvLookup tkv.1 kvs).getD .null))
      | _ => none)
    | _, _ => none
  | .tset e, .set a =>
    match setMembers m a with
    | none => none
    | some xs => (applyPerm xs perm).map fun ys => (m, ys.map fun y => (.pair e y, .pair e y))
  | _, _ => none

/-- `LengthInt` -/
def lengthOf (m : Mem) (t v : Word) : Option Nat :=
  match t, v with
  | .ttuple ts, _ => (sliceElems m ts).map List.length
  | .tobject (.map ta), _ => (kvsOf m ta).map List.length
  | .tlist _, _ => (sliceElems m v).map List.length
  | .tmap _, .map a => (kvsOf m a).map List.length
  | .tset _, .set a => (setMembers m a).map List.length
  | _, _ => none

/-- children `walk` descends into: (path step, child value) -/
def walkChildren (m : Mem) (t v : Word) : Mem × List (Word × Word) :=
  let v := unwrap v
  match v with
  | .null | .unk _ => (m, [])
  | _ =>
    match t with
    | .tobject _ =>
      match iterElems m t v [] with
      | some (m', kes) => (m', kes.map fun ke =>
          match ke.1 with
          | .pair _ (.str k) => (.attr k, ke.2)
          | k => (k, ke.2))
      | none => (m, [])
    | .tset _ =>
      match v with
      | .set a => match setMembers m a with
        | some xs => (match iterElems m t v (List.range xs.length) with
          | some r => r
          | none => (m, []))
        | none => (m, [])
      | _ => (m, [])
    | _ =>
      match iterElems m t v [] with
      | some r => r
      | none => (m, [])

/-- return from the frames whose children have all been visited -/
def popFrames : List Frame → List Frame
  | ⟨_, []⟩ :: rest => popFrames rest
  | fs => fs

/-- the callback invocation in progress returns: its node is entered, i.e. its
children are enumerated into a new frame -/
def expandPending (m : Mem) (wk : Walker) : Mem × List Frame :=
  match wk.pending with
  | some (path, .pair t p) =>
    let r := walkChildren m t p
    (r.1, (⟨path, r.2⟩ : Frame) :: wk.frames)
  | _ => (m, wk.frames)

def boolTok (b : Bool) : List Tok := [.i (if b then 1 else 0)]

/-- `path[:1:1], path[:2:2], … , path[:len:len]`: slice headers over the SAME backing array, each
WITHOUT spare capacity (since /repo 776b476; before it they were `path[:i]`, with the full capacity
of `path`, so that appending to a listed member overwrote a step of a longer member) -/
def pathPrefixes (arr off len _cap : Nat) : List Word :=
  (List.range len).map fun i => Word.slice arr off (i + 1) (i + 1)

/-- the caller's own mark set or the value's, as a list -/
def valMarks (m : Mem) : Word → List String
  | .marked ms _ => (marksOf m ms).getD []
  | _ => []

/-! ### API calls -/

def stepApi (st : St) : Api → Option St
  -- NumberVal(v *big.Float): Value{Number, v} — shares the caller's object, whose
  -- ownership passes to the library
  | .numberVal g => do
    let .num a ← st.go g | none
    let _ ← floatOf st.mem a
    pure ((st.withMem (freezeCaller st.mem a)).pushVal tNumber (.num a))
  | .numberIntVal n =>
    let (m, a) := alloc st.mem .lib (.bigfloat n)
    some ((st.withMem m).pushVal tNumber (.num a))
  | .stringVal s => some (st.pushVal tString (.str s))
  | .boolVal b => some (st.pushVal tBool (.bool b))
  | .nullVal t => some (st.pushVal (.tprim t) .null)
  | .unknownVal t r => some (st.pushVal (.tprim t) (.unk r))
  -- ListVal(vals): rawList := make([]interface{}, len(vals)); rawList[i] = val.v
  | .listVal g => do
    let s ← st.go g
    let cells ← sliceElems st.mem s
    if cells.isEmpty then none
    let (ts, vs) ← splitPairs cells
    let (m, a) := alloc st.mem .lib (.array vs)
    pure ((st.withMem m).pushVal (.tlist (elemType ts)) (.slice a 0 vs.length vs.length))
  -- TupleVal(elems): fresh elemTypes and elemVals
  | .tupleVal g => do
    let s ← st.go g
    let cells ← sliceElems st.mem s
    let (ts, vs) ← splitPairs cells
    let (m1, ta) := alloc st.mem .lib (.array ts)
    let (m2, va) := alloc m1 .lib (.array vs)
    pure ((st.withMem m2).pushVal (.ttuple (.slice ta 0 ts.length ts.length)) (.slice va 0 vs.length vs.length))
  -- ObjectVal(attrs): fresh attrTypes (copied once more by Object) and attrVals
  | .objectVal g => do
    let kvs ← (match ← st.go g with
      | .map a => kvsOf st.mem a
      | .null => some []
      | _ => none)
    let (kts, kvv) ← splitKV kvs
    let (m1, _) := alloc st.mem .lib (.gomap kts)       -- attrTypes (garbage after Object copies it)
    let (m2, ta) := alloc m1 .lib (.gomap kts)          -- attrTypesNorm
    let (m3, va) := alloc m2 .lib (.gomap kvv)
    pure ((st.withMem m3).pushVal (.tobject (.map ta)) (.map va))
  | .mapVal g => do
    let .map a ← st.go g | none
    let kvs ← kvsOf st.mem a
    if kvs.isEmpty then none
    let (kts, kvv) ← splitKV kvs
    let (m1, va) := alloc st.mem .lib (.gomap kvv)
    pure ((st.withMem m1).pushVal (.tmap (elemType (kts.map (·.2)))) (.map va))
  -- SetVal(vals): rawList (fresh), then NewSetFromSlice = NewSet + Add each
  | .setVal g hs => do
    let s ← st.go g
    let cells ← sliceElems st.mem s
    if cells.isEmpty then none
    let (ts, vs) ← splitPairs cells
    let (m0, _) := alloc st.mem .lib (.array vs)        -- rawList
    let (m1, a) := setNew m0 .helper
    let m2 ← setAddAll equivW m1 a vs hs
    pure ((st.withMem (publish m2 a)).pushVal (.tset (elemType ts)) (.set a))
  -- SetValFromValueSet(s): rawVal := s.s.Copy()
  | .setValFromValueSet g => do
    let .pair ety (.set a) ← st.go g | none
    let (m, a') ← setCopy st.mem .helper a
    pure ((st.withMem (publish m a')).pushVal (.tset ety) (.set a'))
  -- AsBigFloat: new(big.Float).Copy(val.v)
  | .asBigFloat v => do
    let (_, .num a) ← st.val v | none
    let x ← floatOf st.mem a
    let (m, a') := alloc st.mem .caller (.bigfloat x)
    pure ((st.withMem m).pushGo (.num a'))
  -- AsValueSlice: nil when empty, else make([]Value, 0, l) + append of every element
  | .asValueSlice v perm => do
    let (t, p) ← st.val v
    let (m0, kes) ← iterElems st.mem t p perm
    if kes.isEmpty then pure ((st.withMem m0).pushGo .null)
    else
      let es := kes.map (·.2)
      let (m, a) := alloc m0 .caller (.array es)
      pure ((st.withMem m).pushGo (.slice a 0 es.length es.length))
  | .asValueMap v => do
    let (t, p) ← st.val v
    let (m0, kes) ← iterElems st.mem t p []
    if kes.isEmpty then pure ((st.withMem m0).pushGo .null)
    else
      let kvs ← kes.mapM fun ke => match ke.1 with
        | .pair _ (.str k) => some (Key.s k, ke.2)
        | _ => none
      let (m, a) := alloc m0 .caller (.gomap kvs)
      pure ((st.withMem m).pushGo (.map a))
  -- AsValueSet: NewValueSet(ety) + Add of every element
  | .asValueSet v hs => do
    let (t, p) ← st.val v
    let ety ← (match t with
      | .tlist e | .tset e | .tmap e => some e
      | _ => none)
    let perm := match p with
      | .set a => List.range ((setMembers st.mem a).getD []).length
      | _ => []
    let (m0, kes) ← iterElems st.mem t p perm
    let (m1, a) := setNew m0 .helper
    let m2 ← setAddAll equivW m1 a (kes.map fun ke => match ke.2 with
      | .pair _ x => x
      | x => x) hs
    pure ((st.withMem m2).pushGo (.pair ety (.set a)))
  -- ElementIterator / ForEachElement: the keys and elements handed out are Values
  -- that SHARE the container's member payloads
  | .elements v perm => do
    let (t, p) ← st.val v
    let (m0, kes) ← iterElems st.mem t p perm
    pure { st with mem := m0, vals := st.vals ++ (kes.map fun ke => [ke.1, ke.2]).flatten }
  | .lengthInt v => do
    let (t, p) ← st.val v
    let n ← lengthOf st.mem t p
    pure (st.pushOut [.i n])
  -- GetAttr: Value{attrType, val.v.(map)[name]} — shares the attribute payload
  | .getAttr v name => do
    let (.tobject (.map ta), p) ← st.val v | none
    let tkvs ← kvsOf st.mem ta
    let aty ← kvLookup (.s name) tkvs
    match p with
    | .map a => do
      let kvs ← kvsOf st.mem a
      pure (st.pushVal aty ((kvLookup (.s name) kvs).getD .null))
    | .marked ms (.map a) => do
      let kvs ← kvsOf st.mem a
      let x := (kvLookup (.s name) kvs).getD .null
      let l ← marksOf st.mem ms
      let (m, ms') := alloc st.mem .lib (.markset (msUnion (valMarks st.mem x) l))
      pure ((st.withMem m).pushVal aty (.marked ms' (unwrap x)))
    | _ => none
  -- Index: shares the element payload
  | .index v k => do
    let (t, p) ← st.val v
    match t, p, k with
    | .tlist e, .slice .., .i n => do
      let xs ← sliceElems st.mem p
      let x ← xs[n.toNat]?
      pure (st.pushVal e x)
    | .ttuple ts, .slice .., .i n => do
      let xs ← sliceElems st.mem p
      let tys ← sliceElems st.mem ts
      let x ← xs[n.toNat]?
      let ty ← tys[n.toNat]?
      pure (st.pushVal ty x)
    | .tmap e, .map a, .s _ => do
      let kvs ← kvsOf st.mem a
      let x ← kvLookup k kvs
      pure (st.pushVal e x)
    | _, _, _ => none
  -- Marks(): a copy
  | .marks v => do
    let (_, p) ← st.val v
    match p with
    | .marked ms _ => do
      let l ← marksOf st.mem ms
      let (m, a) := alloc st.mem .caller (.markset l)
      pure ((st.withMem m).pushGo (.marks a))
    | _ => pure (st.pushGo .null)
  -- Unmark(): Value{ty, realV} + a copy of the marks
  | .unmark v => do
    let (t, p) ← st.val v
    match p with
    | .marked ms r => do
      let l ← marksOf st.mem ms
      let (m, a) := alloc st.mem .caller (.markset l)
      pure (((st.withMem m).pushVal t r).pushGo (.marks a))
    | _ => pure ((st.pushVal t p).pushGo .null)
  -- Mark(m): fresh mark set = old marks + m
  | .mark v mk => do
    let (t, p) ← st.val v
    let (m, a) := alloc st.mem .lib (.markset (msInsert mk (valMarks st.mem p)))
    pure ((st.withMem m).pushVal t (.marked a (unwrap p)))
  -- WithMarks(marks): fresh mark set = own marks ∪ given (the given map is only read)
  | .withMarks v g => do
    let (t, p) ← st.val v
    let given ← (match ← st.go g with
      | .marks a => marksOf st.mem a
      | .null => some []
      | _ => none)
    let all := msUnion (valMarks st.mem p) given
    if all.isEmpty then pure (st.pushVal t p)
    else
      let (m, a) := alloc st.mem .lib (.markset all)
      pure ((st.withMem m).pushVal t (.marked a (unwrap p)))
  -- WithSameMarks(src): fresh mark set = own marks ∪ marks of `src` (its marker is only read)
  | .withSameMarks v w => do
    let (t, p) ← st.val v
    let (_, q) ← st.val w
    let all := msUnion (valMarks st.mem p) (valMarks st.mem q)
    if all.isEmpty then pure (st.pushVal t p)
    else
      let (m, a) := alloc st.mem .lib (.markset all)
      pure ((st.withMem m).pushVal t (.marked a (unwrap p)))
  -- operation methods: read operands, allocate the result
  | .opAdd v w => do
    let (_, .num a) ← st.val v | none
    let (_, .num b) ← st.val w | none
    let x ← floatOf st.mem a
    let y ← floatOf st.mem b
    let (m, c) := alloc st.mem .lib (.bigfloat (x + y))
    pure ((st.withMem m).pushVal tNumber (.num c))
  | .opNegate v => do
    let (_, .num a) ← st.val v | none
    let x ← floatOf st.mem a
    let (m, c) := alloc st.mem .lib (.bigfloat (-x))
    pure ((st.withMem m).pushVal tNumber (.num c))
  | .opEquals v w => do
    let a ← st.vals[v]?
    let b ← st.vals[w]?
    pure (st.pushVal tBool (.bool (equivW st.mem a b)))
  | .opLength v => do
    let (t, p) ← st.val v
    let n ← lengthOf st.mem t p
    let (m, c) := alloc st.mem .lib (.bigfloat n)
    pure ((st.withMem m).pushVal tNumber (.num c))
  -- ValueSet
  | .newValueSet t => do
    let ety ← tySrc st t
    let (m, a) := setNew st.mem .helper
    pure ((st.withMem m).pushGo (.pair ety (.set a)))
  | .vsAdd g v h => do
    let .pair _ (.set a) ← st.go g | none
    let (_, p) ← st.val v
    let m ← setAdd equivW st.mem a p h
    pure (st.withMem m)
  | .vsRemove g v h => do
    let .pair _ (.set a) ← st.go g | none
    let (_, p) ← st.val v
    let m ← setRemove equivW st.mem a p h
    pure (st.withMem m)
  | .vsHas g v h => do
    let .pair _ (.set a) ← st.go g | none
    let (_, p) ← st.val v
    let b ← setHas equivW st.mem a p h
    pure (st.pushOut (boolTok b))
  | .vsCopy g => do
    let .pair ety (.set a) ← st.go g | none
    let (m, a') ← setCopy st.mem .helper a
    pure ((st.withMem m).pushGo (.pair ety (.set a')))
  -- Values(): nil when empty, else a fresh []Value whose elements share the members
  | .vsValues g perm => do
    let .pair ety (.set a) ← st.go g | none
    let xs ← setMembers st.mem a
    let ys ← applyPerm xs perm
    if ys.isEmpty then pure (st.pushGo .null)
    else
      let (m, arr) := alloc st.mem .caller (.array (ys.map (Word.pair ety)))
      pure ((st.withMem m).pushGo (.slice arr 0 ys.length ys.length))
  | .vsLength g => do
    let .pair _ (.set a) ← st.go g | none
    let xs ← setMembers st.mem a
    pure (st.pushOut [.i xs.length])
  -- cty.Tuple(elemTypes): typeTuple{ElemTypes: elemTypes} — retains the slice
  | .tupleType g => do
    let s ← st.go g
    match s with
    | .slice arr _ _ _ => do
      let _ ← cellsOf st.mem arr
      pure ((st.withMem (freezeCaller st.mem arr)).pushVal (.ttuple s) .null)   -- observed through NullVal(type)
    | _ => none
  -- TupleElementTypes(): the internal slice itself
  | .tupleElementTypes v => do
    let (.ttuple ts, _) ← st.val v | none
    match ts with
    | .slice .. | .null => pure (st.pushGo ts)
    | _ => none
  -- cty.Object(attrTypes): copies into attrTypesNorm
  | .objectType g => do
    let .map a ← st.go g | none
    let kvs ← kvsOf st.mem a
    let (m, ta) := alloc st.mem .lib (.gomap kvs)
    pure ((st.withMem m).pushVal (.tobject (.map ta)) .null)
  -- AttributeTypes(): the internal map itself
  | .attributeTypes v => do
    let (.tobject (.map ta), _) ← st.val v | none
    pure (st.pushGo (.map ta))
  -- Path.Index / Path.GetAttr: ret := make(Path, len(p)+1); copy
  | .pathIndex g v => do
    let p ← st.go g
    let steps ← sliceElems st.mem p
    let key ← st.vals[v]?
    let (m, a) := alloc st.mem .caller (.array (steps ++ [key]))
    pure ((st.withMem m).pushGo (.slice a 0 (steps.length + 1) (steps.length + 1)))
  | .pathGetAttr g name => do
    let p ← st.go g
    let steps ← sliceElems st.mem p
    let (m, a) := alloc st.mem .caller (.array (steps ++ [.attr name]))
    pure ((st.withMem m).pushGo (.slice a 0 (steps.length + 1) (steps.length + 1)))
  -- Path.Copy: ret := make(Path, len(p)); copy
  | .pathCopy g => do
    let p ← st.go g
    let steps ← sliceElems st.mem p
    let (m, a) := alloc st.mem .caller (.array steps)
    pure ((st.withMem m).pushGo (.slice a 0 steps.length steps.length))
  | .newPathSet =>
    let (m, a) := setNew st.mem .helper
    some ((st.withMem m).pushGo (.set a))
  -- PathSet.Add(path): s.set.Add(path) — the set keeps the caller's slice header;
  -- ownership of its backing array passes to the library (when the caller had it)
  | .psAdd g p h => do
    let .set a ← st.go g | none
    let pw ← st.go p
    match pw with
    | .slice arr _ _ _ => do
      let _ ← cellsOf st.mem arr          -- Add hashes the path first: it reads every step
      let m ← setAdd equivPath (freezeCaller st.mem arr) a pw h
      pure (st.withMem m)
    | .null => do
      let m ← setAdd equivPath st.mem a pw h
      pure (st.withMem m)
    | _ => none
  -- PathSet.AddAllSteps(path): for i := 1; i <= len(path); i++ { s.Add(path[:i:i]) }
  | .psAddAllSteps g p hs => do
    let .set a ← st.go g | none
    let pw ← st.go p
    match pw with
    | .slice arr off len cap => do
      let _ ← cellsOf st.mem arr
      if len = 0 then (if hs.isEmpty then pure st else none)
      else
        let m ← setAddAll equivPath (freezeCaller st.mem arr) a (pathPrefixes arr off len cap) hs
        pure (st.withMem m)
    | .null => if hs.isEmpty then pure st else none
    | _ => none
  | .psHas g p h => do
    let .set a ← st.go g | none
    let pw ← st.go p
    let b ← setHas equivPath st.mem a pw h
    pure (st.pushOut (boolTok b))
  -- PathSet.Remove(path): s.set.Remove(path) — the path is only read (hashed, compared)
  | .psRemove g p h => do
    let .set a ← st.go g | none
    let pw ← st.go p
    let m ← setRemove equivPath st.mem a pw h
    pure (st.withMem m)
  -- PathSet.List(): a fresh []Path whose elements are the member slices themselves
  | .psList g perm => do
    let .set a ← st.go g | none
    let xs ← setMembers st.mem a
    let ys ← applyPerm xs perm
    if ys.isEmpty then pure (st.pushGo .null)
    else
      let (m, arr) := alloc st.mem .caller (.array ys)
      pure ((st.withMem m).pushGo (.slice arr 0 ys.length ys.length))
  -- Walk(val, cb): cb(nil, val) — the first callback invocation
  | .walkBegin v => do
    let (t, p) ← st.val v
    pure { st with wks := st.wks ++ [⟨some (.null, .pair t p), []⟩], gos := st.gos ++ [.null], vals := st.vals ++ [.pair t p] }
  -- the callback returns: the node's children are enumerated, and the next callback
  -- invocation gets path := append(path, step) — in place when the parent's slice has
  -- spare capacity, i.e. siblings SHARE the buffer
  | .walkNext w => do
    let wk ← st.wks[w]?
    let (m0, frames) := expandPending st.mem wk
    match popFrames frames with
    | [] => pure { st with mem := m0, wks := st.wks.set w ⟨none, []⟩, outs := st.outs ++ [[.o "done", .c]] }
    | ⟨_, []⟩ :: _ => none
    | ⟨path, (step, child) :: todo⟩ :: rest => do
      let (m1, path') ← goAppend m0 .scratch path step
      pure { st with mem := m1, wks := st.wks.set w ⟨some (path', child), ⟨path, todo⟩ :: rest⟩,
                     gos := st.gos ++ [path'], vals := st.vals ++ [child] }

/-! ### caller actions -/

def stepCaller (st : St) : Caller → Option St
  | .newFloat n =>
    let (m, a) := alloc st.mem .caller (.bigfloat n)
    some ((st.withMem m).pushGo (.num a))
  | .newSlice vs cap => do
    let cells ← vs.mapM fun i => st.vals[i]?
    let (m, a) := alloc st.mem .caller (.array (cells ++ List.replicate (cap - cells.length) .null))
    pure ((st.withMem m).pushGo (.slice a 0 cells.length (max cap cells.length)))
  | .newMap kvs => do
    let es ← kvs.mapM fun kv => (st.vals[kv.2]?).map fun w => (Key.s kv.1, w)
    let (m, a) := alloc st.mem .caller (.gomap (es.foldl (fun acc e => kvInsert e.1 e.2 acc) []))
    pure ((st.withMem m).pushGo (.map a))
  | .newMarks ms =>
    let (m, a) := alloc st.mem .caller (.markset (msUnion ms []))
    some ((st.withMem m).pushGo (.marks a))
  | .newTypes ts => do
    let cells ← ts.mapM (tySrc st)
    let (m, a) := alloc st.mem .caller (.array cells)
    pure ((st.withMem m).pushGo (.slice a 0 cells.length cells.length))
  | .newTypeMap kts => do
    let es ← kts.mapM fun kt => (tySrc st kt.2).map fun w => (Key.s kt.1, w)
    let (m, a) := alloc st.mem .caller (.gomap (es.foldl (fun acc e => kvInsert e.1 e.2 acc) []))
    pure ((st.withMem m).pushGo (.map a))
  | .nilPath => some (st.pushGo .null)
  | .elemPath g i => do
    let s ← st.go g
    let cells ← sliceElems st.mem s
    match cells[i]? with
    | some (.slice a o l c) => pure (st.pushGo (.slice a o l c))
    | some .null => pure (st.pushGo .null)
    | _ => none
  | .setFloat g n => do
    let .num a ← st.go g | none
    let _ ← floatOf st.mem a
    pure (st.withMem (setBody st.mem a (.bigfloat n)))
  | .setElem g i v => do
    let .slice arr off len _ ← st.go g | none
    let cells ← cellsOf st.mem arr
    let w ← st.vals[v]?
    if i < len then pure (st.withMem (setBody st.mem arr (.array (cells.set (off + i) w)))) else none
  | .setElemType g i t => do
    let .slice arr off len _ ← st.go g | none
    let cells ← cellsOf st.mem arr
    let w ← tySrc st t
    if i < len then pure (st.withMem (setBody st.mem arr (.array (cells.set (off + i) w)))) else none
  | .setStep g i name => do
    let .slice arr off len _ ← st.go g | none
    let cells ← cellsOf st.mem arr
    if i < len then pure (st.withMem (setBody st.mem arr (.array (cells.set (off + i) (.attr name))))) else none
  | .mapPut g k v => do
    let .map a ← st.go g | none
    let kvs ← kvsOf st.mem a
    let w ← st.vals[v]?
    pure (st.withMem (setBody st.mem a (.gomap (kvInsert (.s k) w kvs))))
  | .mapPutType g k t => do
    let .map a ← st.go g | none
    let kvs ← kvsOf st.mem a
    let w ← tySrc st t
    pure (st.withMem (setBody st.mem a (.gomap (kvInsert (.s k) w kvs))))
  | .mapDelete g k => do
    let .map a ← st.go g | none
    let kvs ← kvsOf st.mem a
    pure (st.withMem (setBody st.mem a (.gomap (kvDelete (.s k) kvs))))
  | .marksAdd g mk => do
    let .marks a ← st.go g | none
    let ms ← marksOf st.mem a
    pure (st.withMem (setBody st.mem a (.markset (msInsert mk ms))))
  | .appendVal g v => do
    let s ← st.go g
    let w ← st.vals[v]?
    let (m, s') ← goAppend st.mem .caller s w
    pure ((st.withMem m).pushGo s')
  | .appendStep g name => do
    let s ← st.go g
    let (m, s') ← goAppend st.mem .caller s (.attr name)
    pure ((st.withMem m).pushGo s')

def step (st : St) : HeapOp → Option St
  | .api c => stepApi st c
  | .caller c => stepCaller st c

/-- a history: a call that does not apply (wrong register kind, …) is skipped -/
def run (st : St) : List HeapOp → St
  | [] => st
  | op :: ops => run ((step st op).getD st) ops

/-- the object a caller action writes in place, if any -/
def callerTarget (st : St) : Caller → Option Addr
  | .setFloat g _ => match st.go g with
    | some (.num a) => some a
    | _ => none
  | .setElem g _ _ | .setElemType g _ _ | .setStep g _ _ => match st.go g with
    | some (.slice arr _ _ _) => some arr
    | _ => none
  | .mapPut g _ _ | .mapPutType g _ _ | .mapDelete g _ => match st.go g with
    | some (.map a) => some a
    | _ => none
  | .marksAdd g _ => match st.go g with
    | some (.marks a) => some a
    | _ => none
  | .appendVal g _ | .appendStep g _ => match st.go g with
    | some (.slice arr _ len cap) => if len < cap then some arr else none
    | _ => none
  | _ => none

/-- the slice `w` (if it is one) is over a backing array owned by `o` -/
def sliceOwned (m : Mem) (o : Owner) : Word → Bool
  | .slice arr _ _ _ => ownerOf m arr == some o
  | _ => true

/-- `a` is the bucket map of a helper set in order: `helper`-owned, and every
bucket is a slice over an array tagged as a bucket of this very map -/
def setOwned (m : Mem) (a : Addr) : Bool :=
  ownerOf m a == some .helper && match kvsOf m a with
    | some kvs => kvs.all fun kv => sliceOwned m (.bucket a) kv.2
    | none => true

/-- the path buffers of a running walk are still the walk's (`scratch`-owned) -/
def walkerOwned (m : Mem) (wk : Walker) : Bool :=
  (match wk.pending with
    | some (p, _) => sliceOwned m .scratch p
    | none => true) && wk.frames.all fun fr => sliceOwned m .scratch fr.path

/-- does the step respect the documented ownership rules?
* a caller action writes only an object the caller still owns;
* `PathSet.Add` / `cty.Tuple` are not handed a slice the library is still writing
  (a walk's path buffer) — copy it first, as the documentation of `Walk` says;
* the receiver of a mutating helper-set method is a helper set in order
  (`setOwned`), and a walk's path buffers are still the walk's (`walkerOwned`).
The last item is never violated by a history that starts from the empty state and
respects the first two (`C20.receivers_in_order`); it is a hypothesis only so that
the frame theorems hold from ANY state. -/
def respectful (st : St) : HeapOp → Bool
  | .caller c => match callerTarget st c with
    | some a => ownerOf st.mem a == some .caller
    | none => true
  | .api (.numberVal g) => match st.go g with
    | some (.num a) => ownerOf st.mem a == some .caller || ownerOf st.mem a == some .lib
    | _ => true
  | .api (.vsAdd g _ _) | .api (.vsRemove g _ _) => match st.go g with
    | some (.pair _ (.set a)) => setOwned st.mem a
    | _ => true
  | .api (.psRemove g _ _) => match st.go g with
    | some (.set a) => setOwned st.mem a
    | _ => true
  | .api (.psAdd g p _) | .api (.psAddAllSteps g p _) =>
    (match st.go g with
      | some (.set a) => setOwned st.mem a
      | _ => true) &&
    (match st.go p with
      | some (.slice arr _ _ _) => ownerOf st.mem arr == some .caller || ownerOf st.mem arr == some .lib
      | _ => true)
  | .api (.tupleType g) => match st.go g with
    | some (.slice arr _ _ _) => ownerOf st.mem arr == some .caller || ownerOf st.mem arr == some .lib
    | _ => true
  | .api (.walkNext w) => match st.wks[w]? with
    | some wk => walkerOwned st.mem wk
    | none => true
  | .api _ => true

/-- the DOCUMENTED part of `respectful` only: what the caller must not do.
* a caller action writes only an object the caller still owns;
* `NumberVal`, `cty.Tuple`, `PathSet.Add` are given an object the caller owns (whose
  ownership they take) or one the library already owns — not a walk's path buffer. -/
def docRespectful (st : St) : HeapOp → Bool
  | .caller c => match callerTarget st c with
    | some a => ownerOf st.mem a == some .caller
    | none => true
  | .api (.numberVal g) => match st.go g with
    | some (.num a) => ownerOf st.mem a == some .caller || ownerOf st.mem a == some .lib
    | _ => true
  | .api (.psAdd _ p _) | .api (.psAddAllSteps _ p _) => match st.go p with
    | some (.slice arr _ _ _) => ownerOf st.mem arr == some .caller || ownerOf st.mem arr == some .lib
    | _ => true
  | .api (.tupleType g) => match st.go g with
    | some (.slice arr _ _ _) => ownerOf st.mem arr == some .caller || ownerOf st.mem arr == some .lib
    | _ => true
  | .api _ => true

def docRespectfulRun : St → List HeapOp → Bool
  | _, [] => true
  | st, op :: ops => docRespectful st op && docRespectfulRun ((step st op).getD st) ops

/-- the objects of the current heap a step may write in place or take ownership of
(`C20.step_writes_only`): the target of a caller action; the big.Float / slice a
documented transfer hands over; the bucket map and bucket arrays of the receiver of
a mutating helper-set method; the path buffers of walks.  Everything else a step
touches is freshly allocated. -/
def wset (st : St) (op : HeapOp) (x : Addr) : Bool :=
  match op with
  | .caller c => callerTarget st c == some x
  | .api (.numberVal g) => st.go g == some (.num x) && ownerOf st.mem x == some .caller
  | .api (.tupleType g) => match st.go g with
    | some (.slice arr _ _ _) => arr == x && ownerOf st.mem x == some .caller
    | _ => false
  | .api (.vsAdd g _ _) | .api (.vsRemove g _ _) => match st.go g with
    | some (.pair _ (.set a)) => x == a || ownerOf st.mem x == some (.bucket a)
    | _ => false
  | .api (.psRemove g _ _) => match st.go g with
    | some (.set a) => x == a || ownerOf st.mem x == some (.bucket a)
    | _ => false
  | .api (.psAdd g p _) | .api (.psAddAllSteps g p _) =>
    (match st.go g with
      | some (.set a) => x == a || ownerOf st.mem x == some (.bucket a)
      | _ => false) ||
    (match st.go p with
      | some (.slice arr _ _ _) => arr == x && ownerOf st.mem x == some .caller
      | _ => false)
  | .api (.walkNext _) => ownerOf st.mem x == some .scratch
  | .api _ => false

/-- the helper set a step mutates through its own methods (Add / Remove), if any -/
def receiver (st : St) : HeapOp → Option Addr
  | .api (.vsAdd g _ _) | .api (.vsRemove g _ _) => match st.go g with
    | some (.pair _ (.set a)) => some a
    | _ => none
  | .api (.psAdd g _ _) | .api (.psRemove g _ _) | .api (.psAddAllSteps g _ _) => match st.go g with
    | some (.set a) => some a
    | _ => none
  | _ => none

/-- no step of the history is a mutating method call on the helper set at `a` -/
def notReceiver (a : Addr) : St → List HeapOp → Bool
  | _, [] => true
  | st, op :: ops => receiver st op != some a && notReceiver a ((step st op).getD st) ops

/-- every step of the history respects the ownership rules in the state it runs in -/
def respectfulRun : St → List HeapOp → Bool
  | _, [] => true
  | st, op :: ops => respectful st op && respectfulRun ((step st op).getD st) ops

end Heap
end CtyModel
