/-
Specification vocabulary for the MessagePack round trip (property C16), written
independently of the encoder's and decoder's control flow:

* `numBack y x` — the number `y` is an acceptable decoding of `x`: numerically
  identical when `x` is whole or an exact float64 (or infinite), Equal in cty's
  own sense (`rawNumberEqual`) otherwise;
* `Weaker t r' r` — on an unknown value of type `t` the refinement `r'` admits
  every concrete value that `r` admits (`Refine.γ`, the specification of C05);
* `Approx t p' p` — the payload `p'` is an acceptable decoding of `p`: the same
  shape, unknown exactly where `p` is, with a weaker-or-equal refinement there that is moreover
  the original one as the wire format keeps it (`RfnKept`, d16Rfn.lean: only a long prefix is cut),
  and `numBack` / equal in every known part (a `Covers`-style relation);
* `Fits E t v` — the decidable hypotheses under which the round trip is proved:
  `v` is unmarked, capsule-free, well-formed, conforms to `t`, and avoids the
  classes of inputs on which the code as it exists does NOT round-trip
  (see `Props/C16.lean`: counterexamples) or on which the model of the
  refinement builder answers `.unmodelled`.

Core Lean only: the driver evaluates `Fits` on the harness' generated inputs.
-/
import CtyModel.Msgpack
import CtyModel.d16Rfn
import CtyModel.TySpec
namespace CtyModel
namespace Msgpack
open Refine

/-! ## Numbers -/

/-- whole, exact float64, or infinite: "comes back numerically identical" -/
def wholeOrF64 (x : Num) : Bool :=
  match x with
  | .inf _ => true
  | _ => x.isInt || (Num.toF64 x).2

/-- `y` is an acceptable decoding of `x` -/
def numBack (y x : Num) : Prop :=
  if wholeOrF64 x then Num.cmp y x = 0 else Num.rawEqual y x = true

instance (y x : Num) : Decidable (numBack y x) := by unfold numBack; exact inferInstance

/-- the shortest decimal text of a number that is NOT whole parses back to a number that is
Equal to it in cty's sense (`rawNumberEqual`) -/
def textBack (x : Num) : Bool :=
  match parseNumber (Num.textF x) with
  | .ok y => Num.rawEqual y x
  | _ => false

/-- the shortest decimal text of `x` parses back to exactly `x` (needed for bounds) -/
def textExact (x : Num) : Bool :=
  match parseNumber (Num.textF x) with
  | .ok y => Num.cmp y x == 0
  | _ => false

/-- the mantissa of a whole number fits the 512 bits `cty.ParseNumberVal` parses at: every
number cty itself produces (`ParseNumberVal`, `NumberIntVal`, `NumberFloatVal`, arithmetic);
only a caller-made `big.Float` of a higher precision handed to `cty.NumberVal` can exceed it -/
def wholeFits (x : Num) : Bool := decide (x.minPrec ≤ 512)

/-- a known number whose encoding is proved to round-trip: every number that travels as an
integer or float item, every whole number beyond int64 (all of its digits are written since
/repo 986ad55) as long as its mantissa fits 512 bits, and the other numbers travelling as
decimal text whose text parses back (math/big's shortest-text formatting is not reasoned about) -/
def numFits (x : Num) : Bool :=
  match route x with
  | .str _ => if x.isInt then wholeFits x else textBack x
  | _ => true

def boundFits : Option Bound → Bool
  | none => true
  | some b =>
    match route b.v with
    | .str _ => if b.v.isInt then wholeFits b.v else textExact b.v
    | _ => true

/-- precision of the number the decoder builds for each encoding -/
def decPrec (x : Num) : Nat :=
  match route x with
  | .int _ => 64
  | .str _ => 512
  | _ => 53

def maxU64 : Int := 18446744073709551615

/-- an item of one of the two integer families -/
def isIntItem : Item → Bool
  | .int _ | .uint _ => true
  | _ => false

/-! ## Refinements -/

/-- `r'` admits everything `r` admits (for unknown values of type `t`) -/
def Weaker (t : Ty) (r' r : Rfn) : Prop := ∀ c : Conc, γ t r c = true → γ t r' c = true

/-- a definitely-not-null collection refinement that `NewValue` leaves unknown -/
def collStaysUnknown (t : Ty) (lo hi : Int) : Bool :=
  lo != hi ||
  (match t with
   | .set _ => lo != 0 && lo != 1
   | .map _ => lo != 0
   | _ => false)

/-- the refinement of an unknown value of type `vt` for which the round trip is proved -/
def rfnOK (E : Ext) (vt : Ty) (r : Rfn) : Bool :=
  kindOk vt r && r.nullness != .t &&
  (match marshalUnknown E vt r with
   | .ok (.ext _ len _ _) => decide (len ≤ maxExtLen)     -- the decoder's limit (unknown.go)
   | _ => false) &&
  (match r with
   | .num n lo hi =>
     boundFits lo && boundFits hi &&
     (match lo, hi with
      | some l, some h =>
        decide (Num.cmp l.v h.v < 0) &&
        (n != .f || !(l.incl && h.incl) || decPrec l.v == decPrec h.v)
      | _, _ => true)
   | .str _ p =>
     E.norm p == p &&
     (if (bytes p).length > maxPrefixLength then
        match E.safePrefix ((bytes p).take (maxPrefixLength - 1)) with
        | some q => E.norm q == q && (bytes q).isPrefixOf (bytes p)
        | none => false
      else true)
   | .coll n lo hi =>
     decide (0 ≤ lo) && decide (lo ≤ hi) && decide (hi ≤ Refine.maxInt) &&
     (n != .f || collStaysUnknown vt lo hi)
   | _ => true)

/-! ## `Approx` -/

mutual
def Approx : Ty → Payload → Payload → Prop
  | t, .unk r', p => (match p with | .unk r => Weaker t r' r ∧ (t.isDyn = true ∨ RfnKept r' r) | _ => False)
  | _, .null, p => (match p with | .null => True | _ => False)
  | t, .b x, p => (match t, p with | .bool, .b y => x = y | _, _ => False)
  | t, .n y, p => (match t, p with | .number, .n x => numBack y x | _, _ => False)
  | t, .s x, p => (match t, p with | .string, .s y => x = y | _, _ => False)
  | t, .seq xs, p =>
    (match t, p with
     | .list e, .seq ys => ApproxAll e xs ys
     | .tuple es, .seq ys => ApproxZip es xs ys
     | _, _ => False)
  | t, .sset _ xs, p =>
    (match t, p with
     | .set e, .sset _ ys => ApproxAll e xs ys
     | _, _ => False)
  | t, .smap ks xs, p =>
    (match t, p with
     | .map e, .smap ls ys => ks = ls ∧ ApproxAll e xs ys
     | .object _ ts _, .smap ls ys => ks = ls ∧ ApproxZip ts xs ys
     | _, _ => False)
  | _, .caps, _ => False
  | _, .marked _ _, _ => False
  | _, .bad _, _ => False
def ApproxAll : Ty → List Payload → List Payload → Prop
  | _, [], ys => ys = []
  | e, x :: xs, ys => (match ys with | y :: ys' => Approx e x y ∧ ApproxAll e xs ys' | [] => False)
def ApproxZip : List Ty → List Payload → List Payload → Prop
  | ts, [], ys => ys = [] ∧ ts = []
  | ts, x :: xs, ys =>
    (match ts, ys with
     | t :: ts', y :: ys' => Approx t x y ∧ ApproxZip ts' xs ys'
     | _, _ => False)
end

/-! `RawEq t p' p`: `Approx` for a wholly known original — the same shape and equal
leaves (numbers: `numBack`), no unknown anywhere: what `Value.RawEquals` demands,
with the property's own reading of "equal" for numbers. -/
mutual
def RawEq : Ty → Payload → Payload → Prop
  | _, .null, p => (match p with | .null => True | _ => False)
  | t, .b x, p => (match t, p with | .bool, .b y => x = y | _, _ => False)
  | t, .n y, p => (match t, p with | .number, .n x => numBack y x | _, _ => False)
  | t, .s x, p => (match t, p with | .string, .s y => x = y | _, _ => False)
  | t, .seq xs, p =>
    (match t, p with
     | .list e, .seq ys => RawEqAll e xs ys
     | .tuple es, .seq ys => RawEqZip es xs ys
     | _, _ => False)
  | t, .sset _ xs, p =>
    (match t, p with
     | .set e, .sset _ ys => RawEqAll e xs ys
     | _, _ => False)
  | t, .smap ks xs, p =>
    (match t, p with
     | .map e, .smap ls ys => ks = ls ∧ RawEqAll e xs ys
     | .object _ ts _, .smap ls ys => ks = ls ∧ RawEqZip ts xs ys
     | _, _ => False)
  | _, .unk _, _ => False
  | _, .caps, _ => False
  | _, .marked _ _, _ => False
  | _, .bad _, _ => False
def RawEqAll : Ty → List Payload → List Payload → Prop
  | _, [], ys => ys = []
  | e, x :: xs, ys => (match ys with | y :: ys' => RawEq e x y ∧ RawEqAll e xs ys' | [] => False)
def RawEqZip : List Ty → List Payload → List Payload → Prop
  | ts, [], ys => ys = [] ∧ ts = []
  | ts, x :: xs, ys =>
    (match ts, ys with
     | t :: ts', y :: ys' => RawEq t x y ∧ RawEqZip ts' xs ys'
     | _, _ => False)
end

/-- value level: the same type, and an acceptable payload -/
def ApproxV (v' v : Value) : Prop := v'.ty = v.ty ∧ Approx v.ty v'.v v.v

/-! ## `Fits` -/

mutual
def tyNamesFixed (norm : String → String) : Ty → Bool
  | .list e | .set e | .map e => tyNamesFixed norm e
  | .tuple es => tyNamesFixedL norm es
  | .object ns ts _ => ns.all (fun n => norm n == n) && tyNamesFixedL norm ts
  | _ => true
def tyNamesFixedL (norm : String → String) : List Ty → Bool
  | [] => true
  | t :: ts => tyNamesFixed norm t && tyNamesFixedL norm ts
end

/-- a type that survives the dynamic wrapper (C07: type JSON round trip; the decoder takes
optional-attribute annotations off the described type, and the type of a value has none) -/
def goodTy (E : Ext) (t : Ty) : Bool := t.wf && !t.hasCapsule && !t.hasOpt && tyNamesFixed E.norm t

def keysOK (E : Ext) (ks : List String) : Bool := Ty.strictAsc ks && ks.all fun k => E.norm k == k

/-! `fitsP E ct vt p`: the payload `p` of a value of type `vt`, encoded against
the constraint `ct` (after the wrapper decision).  Where the decoder takes the
type of the result from the constraint — null, unknown, empty collection — the
constraint must BE the type (`Ty.equals`), see `C16.type_preserved_counterexample`. -/
mutual
def fitsP (E : Ext) (ct vt : Ty) (p : Payload) : Bool :=
  match p with
  | .null => ct.equals vt
  | .unk r => ct.equals vt && (vt.isDyn || rfnOK E vt r)
  | .b _ => ct.isBool && vt.isBool
  | .n x => ct.isNumber && vt.isNumber && numFits x
  | .s s => ct.isString && vt.isString && E.norm s == s
  | .seq vs =>
    (match ct, vt with
     | .list ce, .list ve => if vs.isEmpty then ce.equals ve else fitsAll E ce ve vs
     | .tuple ces, .tuple ves => fitsZip E ces ves vs
     | _, _ => false)
  | .sset _ vs =>
    (match ct, vt with
     | .set ce, .set ve => if vs.isEmpty then ce.equals ve else fitsAll E ce ve vs
     | _, _ => false)
  | .smap ks vs =>
    (match ct, vt with
     | .map ce, .map ve =>
       keysOK E ks && ks.length == vs.length && (if vs.isEmpty then ce.equals ve else fitsAll E ce ve vs)
     | .object cns cts _, .object vns vts vos =>
       keysOK E ks && cns == ks && vns == ks && !(vos.any id) && vos.length == ks.length &&
         fitsZip E cts vts vs
     | _, _ => false)
  | _ => false
def fitsAll (E : Ext) (ce ve : Ty) : List Payload → Bool
  | [] => true
  | p :: ps =>
    (if ce.isDyn && !ve.isDyn then goodTy E ve && fitsP E ve ve p else fitsP E ce ve p) && fitsAll E ce ve ps
def fitsZip (E : Ext) : List Ty → List Ty → List Payload → Bool
  | [], [], [] => true
  | ce :: ces, ve :: ves, p :: ps =>
    (if ce.isDyn && !ve.isDyn then goodTy E ve && fitsP E ve ve p else fitsP E ce ve p) && fitsZip E ces ves ps
  | _, _, _ => false
end

/-- the hypotheses of the round-trip theorems, for a value `v` and a constraint `t`.  The
constraint may carry optional-attribute annotations: `Marshal` does not look at them and
`Unmarshal` takes them off (`Ty.stripOpt`, /repo afdc0a2), so what the decoder's types are
compared with is `t.stripOpt`. -/
def Fits (E : Ext) (t : Ty) (v : Value) : Bool :=
  t.wf && v.ty.wf &&
  (if t.isDyn && !v.ty.isDyn then goodTy E v.ty && fitsP E v.ty v.ty v.v else fitsP E t.stripOpt v.ty v.v)

/-! ## The full-strength hypotheses

`wfP E vt p`: `p` is a well-formed, unmarked, capsule-free payload for the type
`vt` (what every value built through cty's constructors satisfies; normalised
strings and keys, a refinement of the right kind that is neither "known null"
nor collapsible, with ordered bounds).  It does NOT exclude the inputs that
`Fits` excludes; the full statement `C16.RoundtripCovers` over it is false of the
code as it exists. -/

def rfnWF (E : Ext) (vt : Ty) (r : Rfn) : Bool :=
  kindOk vt r && r.nullness != .t &&
  (match r with
   | .num _ lo hi =>
     (match lo, hi with
      | some l, some h => decide (Num.cmp l.v h.v < 0)
      | _, _ => true)
   | .str _ p => E.norm p == p
   | .coll n lo hi =>
     decide (0 ≤ lo) && decide (lo ≤ hi) && decide (hi ≤ Refine.maxInt) && (n != .f || collStaysUnknown vt lo hi)
   | _ => true)

mutual
def wfP (E : Ext) (vt : Ty) (p : Payload) : Bool :=
  match p with
  | .null => true
  | .unk r => vt.isDyn || rfnWF E vt r
  | .b _ => vt.isBool
  | .n _ => vt.isNumber
  | .s s => vt.isString && E.norm s == s
  | .seq vs =>
    (match vt with
     | .list ve => wfAll E ve vs
     | .tuple ves => wfZip E ves vs
     | _ => false)
  | .sset _ vs =>
    (match vt with
     | .set ve => wfAll E ve vs
     | _ => false)
  | .smap ks vs =>
    (match vt with
     | .map ve => keysOK E ks && ks.length == vs.length && wfAll E ve vs
     | .object ns ts os => keysOK E ks && ns == ks && !(os.any id) && wfZip E ts vs
     | _ => false)
  | _ => false
def wfAll (E : Ext) (ve : Ty) : List Payload → Bool
  | [] => true
  | p :: ps => wfP E ve p && wfAll E ve ps
def wfZip (E : Ext) : List Ty → List Payload → Bool
  | [], [] => true
  | t :: ts, p :: ps => wfP E t p && wfZip E ts ps
  | _, _ => false
end

/-- a well-formed unmarked capsule-free value -/
def wfValue (E : Ext) (v : Value) : Bool := goodTy E v.ty && wfP E v.ty v.v

/-! ## Set members -/

mutual
/-- every set node of a payload, at any depth: element type and members -/
def setNodes : Ty → Payload → List (Ty × List Payload)
  | .list e, .seq vs => setNodesAll e vs
  | .tuple es, .seq vs => setNodesZip es vs
  | .set e, .sset _ vs => (e, vs) :: setNodesAll e vs
  | .map e, .smap _ vs => setNodesAll e vs
  | .object _ ts _, .smap _ vs => setNodesZip ts vs
  | _, _ => []
def setNodesAll : Ty → List Payload → List (Ty × List Payload)
  | _, [] => []
  | e, v :: vs => setNodes e v ++ setNodesAll e vs
def setNodesZip : List Ty → List Payload → List (Ty × List Payload)
  | t :: ts, v :: vs => setNodes t v ++ setNodesZip ts vs
  | _, _ => []
end

/-- The law assumed of `cty.SetVal` at one set node (element type, members): rebuilding
the set from acceptable decodings of its members, in iteration order, gives
acceptable decodings of its members, in order. -/
def SetLawAt (E : Ext) (n : Ty × List Payload) : Prop :=
  ∀ ps' : List Payload, ApproxAll n.1 ps' n.2 →
    ∃ ids ps'', E.setOf n.1 ps' = .ok (.sset ids ps'') ∧ ApproxAll n.1 ps'' n.2

/-- … at every set node of `v` (hashing and de-duplication are property C03's; the
hypothesis is vacuous for a value without sets) -/
def SetsRebuild (E : Ext) (v : Value) : Prop := ∀ n ∈ setNodes v.ty v.v, SetLawAt E n

end Msgpack
end CtyModel
