/-
Model of `Type.MarshalJSON` / `Type.UnmarshalJSON` (cty/json.go) at token-tree
level.  `norm` stands for `cty.NormalizeString` (Unicode NFC), an external
function: the harness sends keys already normalised by the real function and
runs the driver with `norm = id`; theorems take "names are fixed points of
`norm`" as an explicit hypothesis.
-/
import CtyModel.Ty
import CtyModel.Json
namespace CtyModel
namespace Ty

/-- names of the optional attributes, in attribute (= sorted) order -/
def optNames : List String → List Bool → List String
  | n :: ns, o :: os => if o then n :: optNames ns os else optNames ns os
  | _, _ => []

mutual
def toJson : Ty → Res Json
  | .bool => .ok (.str "bool")
  | .number => .ok (.str "number")
  | .string => .ok (.str "string")
  | .dyn => .ok (.str "dynamic")
  | .list e => (toJson e).map fun j => .arr [.str "list", j]
  | .set e => (toJson e).map fun j => .arr [.str "set", j]
  | .map e => (toJson e).map fun j => .arr [.str "map", j]
  | .tuple es => (toJsonL es).map fun js => .arr [.str "tuple", .arr js]
  | .object ns ts os =>
    (toJsonL ts).map fun js =>
      if os.any id then .arr [.str "object", .obj ns js, .arr ((optNames ns os).map .str)]
      else .arr [.str "object", .obj ns js]
  | .capsule _ => .err "capsule"
def toJsonL : List Ty → Res (List Json)
  | [] => .ok []
  | t :: ts =>
    match toJson t with
    | .ok j => (toJsonL ts).map (j :: ·)
    | .err c => .err c
    | .panic w => .panic w
    | .unmodelled => .unmodelled
end

/-- insert a field into strictly ascending parallel lists unless the name is
already present (used right-to-left, so the *last* duplicate in document order
wins, as assigning into a Go map does). -/
def insertField (k : String) (t : Ty) : List String → List Ty → List String × List Ty
  | n :: ns, u :: us =>
    if k < n then (k :: n :: ns, t :: u :: us)
    else if k = n then (n :: ns, u :: us)
    else
      let r := insertField k t ns us
      (n :: r.1, u :: r.2)
  | _, _ => ([k], [t])

def buildFields (norm : String → String) : List String → List Ty → List String × List Ty
  | k :: ks, t :: ts =>
    let r := buildFields norm ks ts
    insertField (norm k) t r.1 r.2
  | _, _ => ([], [])

/-- decode a JSON array of strings the way `encoding/json` fills a `[]string`
(`null` elements leave the zero value) -/
def strList : List Json → Option (List String)
  | [] => some []
  | .str s :: rest => (strList rest).map (s :: ·)
  | .null :: rest => (strList rest).map ("" :: ·)
  | _ => none

mutual
def ofJson (norm : String → String) : Json → Res Ty
  | .str s =>
    if s = "bool" then .ok .bool
    else if s = "number" then .ok .number
    else if s = "string" then .ok .string
    else if s = "dynamic" then .ok .dyn
    else .err "name"
  | .arr (.str kind :: rest) =>
    if kind = "list" then
      match rest with
      | [e] => (ofJson norm e).map .list
      | e :: _ => (ofJson norm e).bind fun _ => .err "extra"
      | [] => .err "short"
    else if kind = "set" then
      match rest with
      | [e] => (ofJson norm e).map .set
      | e :: _ => (ofJson norm e).bind fun _ => .err "extra"
      | [] => .err "short"
    else if kind = "map" then
      match rest with
      | [e] => (ofJson norm e).map .map
      | e :: _ => (ofJson norm e).bind fun _ => .err "extra"
      | [] => .err "short"
    else if kind = "tuple" then
      match rest with
      | [] => .err "short"
      | .null :: more => if more.isEmpty then .ok (.tuple []) else .err "extra"
      | .arr es :: more =>
        (ofJsonL norm es).bind fun ts => if more.isEmpty then .ok (.tuple ts) else .err "extra"
      | _ :: _ => .err "shape"
    else if kind = "object" then
      match rest with
      | [] => .err "short"
      | attrs :: more =>
        let fields : Res (List String × List Ty) :=
          match attrs with
          | .null => .ok ([], [])
          | .obj ks vs => (ofJsonL norm vs).map fun ts => buildFields norm ks ts
          | _ => .err "shape"
        fields.bind fun (ns, ts) =>
          match more with
          | [] => .ok (.object ns ts (ns.map fun _ => false))
          | optj :: more' =>
            let optl : Res (List String) :=
              match optj with
              | .null => .ok []
              | .arr xs => match strList xs with
                | some l => .ok l
                | none => .err "shape"
              | _ => .err "shape"
            optl.bind fun optl =>
              let optn := optl.map norm
              if optn.all fun o => ns.contains o then
                if more'.isEmpty then .ok (.object ns ts (ns.map fun n => optn.contains n))
                else .err "extra"
              else .err "optional contains undeclared attribute"
    else .err "kind"
  | .arr _ => .err "kind"
  | _ => .err "shape"
def ofJsonL (norm : String → String) : List Json → Res (List Ty)
  | [] => .ok []
  | j :: js =>
    match ofJson norm j with
    | .ok t => (ofJsonL norm js).map (t :: ·)
    | .err c => .err c
    | .panic w => .panic w
    | .unmodelled => .unmodelled
end

end Ty
end CtyModel
