/-
Walk / Transform / TransformWithTransformer (cty/walk.go) and the two
transformers of cty/marks.go (`UnmarkDeep[WithPaths]`, `MarkWithPaths`).

Transliteration layer: every function follows the Go control flow.

* A callback is a Lean function parameter.  A Go callback is a closure and may
  keep state; a deterministic closure's answer is a function of the calls made
  so far, so a model callback receives that history (`List Visit`, `List Ev`)
  together with the path and the value.  `.err` = non-nil error, `.panic` = the
  callback panicked.
* The functions return the history of callback invocations together with the
  outcome, so that "which members were visited, in which order, with which
  path" is part of what is compared with the implementation.
* `transform`'s object branch ranges over a Go map (`for name := range atys`):
  the order is the schedule parameter `σ` (path of the object ↦ order of its
  attribute names).  `walk` and the other branches iterate in sorted order.
* Sets iterate in the order `X.iter` and are rebuilt by `SetVal` with `X.hash`
  (`SetOracle`, Path.lean); the bucket structure is `SetImpl` (cty/set).
* Recursion is bounded by `fuel` (nesting depth); running out is `.unmodelled`.

The children of a known, non-null, unmarked value are enumerated position-wise
from the parallel lists of type and payload (for every value the public API can
build the payload keys of an object are exactly the attribute names of its type
— `WalkBase.Shaped`).

Core Lean only: the driver links this file.
-/
import CtyModel.Path
import CtyModel.SetImpl
namespace CtyModel
namespace Walk

/-! ### value constructors as `transform` uses them (value_init.go) -/

/-- element type inference shared by `ListVal`, `SetVal`, `MapVal`: the first
non-dynamic type wins, a later different non-dynamic type panics -/
def unifyElemTy : Ty → List Value → Res Ty
  | acc, [] => .ok acc
  | acc, v :: vs =>
    if acc.isDyn then unifyElemTy v.ty vs
    else if !v.ty.isDyn && !(acc.equals v.ty) then .panic "inconsistent element types"
    else unifyElemTy acc vs

/-- `ListVal` -/
def listVal (vs : List Value) : Res Value :=
  if vs.isEmpty then .panic "must not call ListVal with empty slice"
  else (unifyElemTy .dyn vs).map fun e => ⟨.list e, .seq (vs.map (·.v))⟩

/-- `TupleVal` -/
def tupleVal (vs : List Value) : Value := ⟨.tuple (vs.map (·.ty)), .seq (vs.map (·.v))⟩

/-- `MapVal` for a Go map with the given (ascending, normalised) keys.  Go ranges
over the map in arbitrary order; which type is met first does not change the
outcome (one non-dynamic type, or a panic), so the model takes ascending order. -/
def mapVal (ks : List String) (vs : List Value) : Res Value :=
  if vs.isEmpty then .panic "must not call MapVal with empty map"
  else (unifyElemTy .dyn vs).map fun e => ⟨.map e, .smap ks (vs.map (·.v))⟩

/-- `ObjectVal` for a Go map with the given (ascending, normalised) attribute names -/
def objectVal (ks : List String) (vs : List Value) : Value :=
  ⟨.object ks (vs.map (·.ty)) (ks.map fun _ => false), .smap ks (vs.map (·.v))⟩

mutual
/-- a capsule (or an ill-typed payload) somewhere inside -/
def hasCaps : Payload → Bool
  | .caps => true
  | .bad _ => true
  | .marked _ r => hasCaps r
  | .seq vs | .smap _ vs | .sset _ vs => hasCapsL vs
  | _ => false
def hasCapsL : List Payload → Bool
  | [] => false
  | p :: ps => hasCaps p || hasCapsL ps
end

/-- do the payloads stay inside what `Value.equals` models (capsules compare by
their Go pointers, which the wire form does not carry) -/
def modelledL (ps : List Payload) : Bool := !hasCapsL ps

/-- `setRules{e}`: `Hash` from the oracle, `Equivalent` = `Equals` is known true -/
def setRules (X : SetOracle) (e : Ty) : Rules Payload :=
  { hash := X.hash e
    equiv := fun a b => match Value.equalsP e a e b with
      | .ok r => r.isTrue
      | _ => false }

/-- flatten the bucket map into the parallel lists of `Payload.sset` -/
def ofBuckets (bs : List (Int × List Payload)) : List Int × List Payload :=
  (bs.flatMap (fun kv => kv.2.map fun _ => kv.1), bs.flatMap (·.2))

/-- `SetVal`: elements deeply unmarked (their marks go to the set), element type
inferred, `set.NewSetFromSlice`, marks re-applied -/
def setVal (X : SetOracle) (vs : List Value) : Res Value :=
  if vs.isEmpty then .panic "must not call SetVal with empty slice"
  else
    let us := vs.map Value.unmarkDeep
    let marks := vs.foldl (fun acc v => unionMarks acc v.marksDeep) []
    match unifyElemTy .dyn us with
    | .ok e =>
      if !modelledL (us.map (·.v)) then .unmodelled
      else
        let s := SetImpl.fromList (setRules X e) (us.map (·.v))
        let r := ofBuckets s.buckets
        .ok ((⟨.set e, .sset r.1 r.2⟩ : Value).withMarks marks)
    | .err c => .err c
    | .panic w => .panic w
    | .unmodelled => .unmodelled

/-! ### the members of a value, as `ElementIterator` delivers them -/

def seqKids (e : Ty) : Nat → List Payload → List (PathStep × Value)
  | _, [] => []
  | i, v :: vs => (.index (Value.intVal i), ⟨e, v⟩) :: seqKids e (i + 1) vs

def tupKids : Nat → List Ty → List Payload → List (PathStep × Value)
  | i, t :: ts, v :: vs => (.index (Value.intVal i), ⟨t, v⟩) :: tupKids (i + 1) ts vs
  | _, _, _ => []

def mapKids (e : Ty) : List String → List Payload → List (PathStep × Value)
  | k :: ks, v :: vs => (.index (Value.strVal k), ⟨e, v⟩) :: mapKids e ks vs
  | _, _ => []

def objKids : List String → List Ty → List Payload → List (PathStep × Value)
  | n :: ns, t :: ts, v :: vs => (.getAttr n, ⟨t, v⟩) :: objKids ns ts vs
  | _, _, _ => []

def setKids (e : Ty) : List Payload → List (PathStep × Value)
  | [] => []
  | m :: ms => (.index ⟨e, m⟩, ⟨e, m⟩) :: setKids e ms

/-- (step, member) for every member of a known, non-null, unmarked value, in the
order of `ElementIterator`: list/tuple by index, map/object by sorted key, set in
`X.iter` order with the member as its own key -/
def children (X : SetOracle) (v : Value) : List (PathStep × Value) :=
  match v.ty, v.v with
  | .object ns ts _, .smap _ vs => objKids ns ts vs
  | .list e, .seq vs => seqKids e 0 vs
  | .tuple ts, .seq vs => tupKids 0 ts vs
  | .map e, .smap ks vs => mapKids e ks vs
  | .set e, .sset ids vs => setKids e (X.iter e ids vs)
  | _, _ => []

/-! ### Walk -/

/-- one callback invocation of `Walk`: the path and the value it was given -/
abbrev Visit := Path × Value

/-- `func(Path, Value) (bool, error)` with the invocations made so far -/
abbrev WalkCb := List Visit → Path → Value → Res Bool

abbrev WalkRec := List Visit → Path → Value → List Visit × Res Unit

/-- the `for it.Next()` loop of `walk` -/
def walkKids (rec : WalkRec) : List Visit → Path → List (PathStep × Value) → List Visit × Res Unit
  | log, _, [] => (log, .ok ())
  | log, path, (s, c) :: rest =>
    match rec log (path ++ [s]) c with
    | (log', .ok ()) => walkKids rec log' path rest
    | r => r

/-- `walk(path, val, cb)` -/
def walkFuel (X : SetOracle) (cb : WalkCb) : Nat → WalkRec
  | 0, log, _, _ => (log, .unmodelled)
  | fuel + 1, log, path, val =>
    match cb log path val with
    | .ok deeper =>
      let log := log ++ [(path, val)]
      if !deeper then (log, .ok ())
      else if val.isNull || !val.isKnown then (log, .ok ())
      else walkKids (walkFuel X cb fuel) log path (children X val.unmark)
    | .err c => (log ++ [(path, val)], .err c)
    | .panic w => (log ++ [(path, val)], .panic w)
    | .unmodelled => (log ++ [(path, val)], .unmodelled)

/-- `cty.Walk(val, cb)`: the callback invocations and the returned error -/
def walk (X : SetOracle) (cb : WalkCb) (val : Value) : List Visit × Res Unit :=
  walkFuel X cb (val.v.depth + 1) [] [] val

/-- the callback that always descends -/
def descend : WalkCb := fun _ _ _ => .ok true

/-! ### Transform -/

/-- one call of a `Transformer` method -/
inductive Ev where
  | enter (p : Path) (v : Value)
  | exit (p : Path) (v : Value)
  deriving Repr, Inhabited, BEq

def Ev.path : Ev → Path
  | .enter p _ | .exit p _ => p
def Ev.val : Ev → Value
  | .enter _ v | .exit _ v => v
def Ev.isExit : Ev → Bool
  | .exit _ _ => true
  | _ => false

abbrev TCb := List Ev → Path → Value → Res Value

/-- `cty.Transformer` -/
structure Transformer where
  enter : TCb
  exit : TCb

/-- `postorderTransformer{callback}` -/
def postorder (cb : TCb) : Transformer := ⟨fun _ _ v => .ok v, cb⟩

/-- the schedule of `for name := range atys`: path of the object and its sorted
attribute names ↦ the order in which the attributes are visited -/
abbrev Sched := Path → List String → List String

/-- sorted order -/
def Sched.sorted : Sched := fun _ ns => ns

abbrev TRec := List Ev → Path → Value → List Ev × Res Value

/-- the element loops of `transform`: each member in turn, results collected -/
def transformKids (rec : TRec) : List Ev → Path → List (PathStep × Value) → List Ev × Res (List Value)
  | log, _, [] => (log, .ok [])
  | log, path, (s, c) :: rest =>
    match rec log (path ++ [s]) c with
    | (log', .ok nv) =>
      match transformKids rec log' path rest with
      | (log'', .ok nvs) => (log'', .ok (nv :: nvs))
      | r => r
    | (log', .err c) => (log', .err c)
    | (log', .panic w) => (log', .panic w)
    | (log', .unmodelled) => (log', .unmodelled)

def findAttr (n : String) : List (PathStep × Value) → Option (PathStep × Value)
  | [] => none
  | (.getAttr m, c) :: rest => if m = n then some (.getAttr m, c) else findAttr n rest
  | _ :: rest => findAttr n rest

/-- the attributes in schedule order -/
def schedKids (order : List String) (cs : List (PathStep × Value)) : List (PathStep × Value) :=
  order.filterMap fun n => findAttr n cs

def lookupVal (n : String) : List String → List Value → Option Value
  | k :: ks, v :: vs => if k = n then some v else lookupVal n ks vs
  | _, _ => none

/-- `newAVs[name]` for the sorted names, from the results in schedule order -/
def unsched (names order : List String) (nvs : List Value) : List Value :=
  names.filterMap fun n => lookupVal n order nvs

def liftRes {α β} (log : List Ev) : Res α → List Ev × Res β
  | .err c => (log, .err c)
  | .panic w => (log, .panic w)
  | _ => (log, .unmodelled)

/-- the `switch` of `transform`: the new value (before `Exit`) built from the
transformed members, and the history so far.  `rec'` is the recursive call. -/
def rebuild (X : SetOracle) (σ : Sched) (rec' : TRec) (log : List Ev) (path : Path) (val : Value) :
    List Ev × Res Value :=
  let raw := val.unmark
  let marks := val.marks
  let cs := children X raw
  if val.isNull || !val.isKnown then (log, .ok val)
  else match val.ty with
    | .list _ =>
      if cs.isEmpty then (log, .ok val)
      else match transformKids rec' log path cs with
        | (log, .ok elems) => (log, (listVal elems).map (·.withMarks marks))
        | (log, r) => liftRes log r
    | .set _ =>
      if cs.isEmpty then (log, .ok val)
      else match transformKids rec' log path cs with
        | (log, .ok elems) => (log, (setVal X elems).map (·.withMarks marks))
        | (log, r) => liftRes log r
    | .tuple _ =>
      if cs.isEmpty then (log, .ok val)
      else match transformKids rec' log path cs with
        | (log, .ok elems) => (log, .ok ((tupleVal elems).withMarks marks))
        | (log, r) => liftRes log r
    | .map _ =>
      if cs.isEmpty then (log, .ok val)
      else match transformKids rec' log path cs with
        | (log, .ok elems) =>
          (log, (mapVal (match raw.v with | .smap ks _ => ks | _ => []) elems).map (·.withMarks marks))
        | (log, r) => liftRes log r
    | .object ns _ _ =>
      if val.ty.equals (.object [] [] []) then (log, .ok val)
      else
        let order := σ path ns
        match transformKids rec' log path (schedKids order cs) with
        | (log, .ok nvs) => (log, .ok ((objectVal ns (unsched ns order nvs)).withMarks marks))
        | (log, r) => liftRes log r
    | _ => (log, .ok val)

/-- `transform(path, val, t)` -/
def transformFuel (X : SetOracle) (σ : Sched) (t : Transformer) : Nat → TRec
  | 0, log, _, _ => (log, .unmodelled)
  | fuel + 1, log, path, val0 =>
    match t.enter log path val0 with
    | .ok val =>
      match rebuild X σ (transformFuel X σ t fuel) (log ++ [.enter path val0]) path val with
      | (log, .ok newVal) =>
        match t.exit log path newVal with
        | .ok r => (log ++ [.exit path newVal], .ok r)
        | .err c => (log ++ [.exit path newVal], .err c)
        | .panic w => (log ++ [.exit path newVal], .panic w)
        | .unmodelled => (log ++ [.exit path newVal], .unmodelled)
      | r => r
    | .err c => (log ++ [.enter path val0], .err c)
    | .panic w => (log ++ [.enter path val0], .panic w)
    | .unmodelled => (log ++ [.enter path val0], .unmodelled)

/-- `cty.TransformWithTransformer(val, t)`.  The values a transformer's `Enter`
returns are descended into, so the nesting met is not bounded by the input:
`fuel` is a parameter here. -/
def transformWith (X : SetOracle) (σ : Sched) (t : Transformer) (fuel : Nat) (val : Value) :
    List Ev × Res Value :=
  transformFuel X σ t fuel [] [] val

/-- `cty.Transform(val, cb)` -/
def transform (X : SetOracle) (σ : Sched) (cb : TCb) (val : Value) : List Ev × Res Value :=
  transformWith X σ (postorder cb) (val.v.depth + 1) val

/-- the identity callback -/
def idCb : TCb := fun _ _ v => .ok v

/-- the `Exit` calls (for `Transform`: the invocations of the callback) -/
def exits (log : List Ev) : List Visit :=
  log.filterMap fun e => match e with | .exit p v => some (p, v) | _ => none

def enters (log : List Ev) : List Visit :=
  log.filterMap fun e => match e with | .enter p v => some (p, v) | _ => none

/-! ### marks.go: the two transformers -/

/-- `PathValueMarks` -/
abbrev PVM := Path × List String

/-- `unmarkTransformer`: `Enter` strips the marks (and records them), `Exit` is the identity -/
def unmarkT : Transformer := ⟨fun _ _ v => .ok v.unmark, fun _ _ v => .ok v⟩

/-- `unmarkTransformer.pvm` after the run: one entry per `Enter` call that saw marks -/
def pvmOf (log : List Ev) : List PVM :=
  log.filterMap fun e => match e with
    | .enter p v => if v.marks.isEmpty then none else some (p, v.marks)
    | _ => none

/-- `Value.UnmarkDeepWithPaths` (the error of the transform is discarded in Go and
cannot arise: neither method of the transformer fails) -/
def unmarkDeepWithPaths (X : SetOracle) (σ : Sched) (val : Value) : Res (Value × List PVM) :=
  match transformWith X σ unmarkT (val.v.depth + 1) val with
  | (log, .ok r) => .ok (r, pvmOf log)
  | (_, .err _) => .ok (Value.dynVal, [])
  | (_, .panic w) => .panic w
  | (_, .unmodelled) => .unmodelled

/-- `Value.UnmarkDeep` by way of the transformer: value and the union of all marks -/
def unmarkDeepT (X : SetOracle) (σ : Sched) (val : Value) : Res (Value × List String) :=
  (unmarkDeepWithPaths X σ val).map fun r =>
    (r.1, r.2.foldl (fun acc p => unionMarks acc p.2) [])

/-- the first entry whose path `Equals` the current one -/
def findPVM (X : SetOracle) (p : Path) : List PVM → Res (Option (List String))
  | [] => .ok none
  | (q, ms) :: rest =>
    match Path.equals X p q with
    | .ok true => .ok (some ms)
    | .ok false => findPVM X p rest
    | .err c => .err c
    | .panic w => .panic w
    | .unmodelled => .unmodelled

/-- `applyPathValueMarksTransformer` -/
def markT (X : SetOracle) (pvm : List PVM) : Transformer :=
  ⟨fun _ _ v => .ok v,
   fun _ p v => (findPVM X p pvm).map fun
     | some ms => v.withMarks ms
     | none => v⟩

/-- `Value.MarkWithPaths` -/
def markWithPaths (X : SetOracle) (σ : Sched) (val : Value) (pvm : List PVM) : Res Value :=
  match transformWith X σ (markT X pvm) (val.v.depth + 1) val with
  | (_, .ok r) => .ok r
  | (_, .err _) => .ok Value.dynVal
  | (_, .panic w) => .panic w
  | (_, .unmodelled) => .unmodelled

end Walk
end CtyModel
