/-
C01: the decidable side conditions of the Add / Subtract / Multiply soundness
theorems (`C01.sound_add_partial`, `sound_sub_partial`, `sound_mul_partial`) as ONE
executable predicate per operation, evaluated by the driver on every paired run of
the harness (`judge.c01.scope`): a case that is IN SCOPE of a theorem and fails the
search predicate on the real code contradicts the theorem (so the model is not the
code) and must never be matched against a recorded finding.

Core-only copy of the definitions the theorems are stated with (they live in
Lemmas/OpsAddSub.lean, OpsMul.lean, d01Range.lean, d01Mul.lean, which the driver
must not import); `Lemmas/d01Side.lean` proves the copies equal to the originals.
-/
import CtyModel.Covers
namespace CtyModel
namespace D01
open Value

def sgnm (neg : Bool) (m : Nat) : Int := if neg then -(m : Int) else (m : Int)

def isFin : Num → Bool
  | .fin _ _ _ _ => true
  | .inf _ => false

def numBounds (v : Value) : Option (Num × Num) :=
  match v.range with
  | .ok r =>
    (match r.numLower, r.numUpper with
     | .ok (some l), .ok (some h) => some (l, h)
     | _, _ => none)
  | _ => none

def cornerOf (op : Num → Num → Res Num) (x y : Num) : Option Num :=
  match op x y with | .ok r => some r | _ => none

def corners (op : Num → Num → Res Num) (l1 h1 l2 h2 : Num) : List (Option Num) :=
  [cornerOf op l1 l2, cornerOf op l1 h2, cornerOf op h1 l2, cornerOf op h1 h2]

/-- a result range that cty collapses to a known number (its ends are `rawNumberEqual`) is one value -/
def cohOK (op : Num → Num → Res Num) (l1 h1 l2 h2 : Num) : Bool :=
  match mostOf (fun v r => decide (Num.cmp v r < 0)) (corners op l1 h1 l2 h2),
        mostOf (fun v r => decide (Num.cmp v r > 0)) (corners op l1 h1 l2 h2) with
  | some a, some b => !Num.rawEqual a b || Num.cmp a b == 0
  | _, _ => true

def addFitsP (a b : Num) (p : Nat) : Bool :=
  match a, b with
  | .fin na ma ea _, .fin nb mb eb _ =>
    decide (Num.bitlen (Num.scaleTo (sgnm na ma) ea (min ea eb) + Num.scaleTo (sgnm nb mb) eb (min ea eb)).natAbs ≤ p)
  | _, _ => true

def addSafe (u1 u2 x y : Num) : Bool :=
  let pc := max u1.prec u2.prec
  let pz := max x.prec y.prec
  !(isFin u1 && isFin u2 && isFin x && isFin y) ||
    pc == pz || (addFitsP u1 u2 pc && addFitsP u1 u2 pz) || (addFitsP x y pz && addFitsP x y pc) ||
    (addFitsP u1 u2 pc && addFitsP x y pz)

def sideAdd (w₁ w₂ o₁ o₂ : Value) : Bool :=
  match asNum o₁, asNum o₂, numBounds w₁, numBounds w₂ with
  | .ok x, .ok y, some (l1, h1), some (l2, h2) =>
    addSafe l1 l2 x y && addSafe x y h1 h2 && cohOK Num.add l1 h1 l2 h2
  | _, _, _, _ => true

def sideSub (w₁ w₂ o₁ o₂ : Value) : Bool :=
  match asNum o₁, asNum o₂, numBounds w₁, numBounds w₂ with
  | .ok x, .ok y, some (l1, h1), some (l2, h2) =>
    addSafe l1 (Num.neg h2) x (Num.neg y) && addSafe x (Num.neg y) h1 (Num.neg l2) && cohOK Num.sub l1 h1 l2 h2
  | _, _, _, _ => true

def zeroBounded (v : Value) : Bool :=
  match numBounds v with
  | some (l, h) => l.isZero && h.isZero
  | none => false

def zeroBoundsNumber (w o : Value) : Bool :=
  !zeroBounded w || (match asNum o with | .ok _ => true | _ => false)

def sideMul (w₁ w₂ o₁ o₂ : Value) : Bool :=
  (match numBounds w₁, numBounds w₂ with
   | some (l1, h1), some (l2, h2) => cohOK Num.mulCty l1 h1 l2 h2
   | _, _ => true) && zeroBoundsNumber w₁ o₁ && zeroBoundsNumber w₂ o₂

/-- the hypotheses the three theorems share: concrete operands wholly known, all four
operands satisfy the representation invariants, the weakened operands cover the
concrete ones exactly -/
def common (o₁ o₂ w₁ w₂ : Value) : Bool :=
  o₁.whollyKnown && o₂.whollyKnown && o₁.wfc && o₂.wfc && w₁.wfc && w₂.wfc && CoversX w₁ o₁ && CoversX w₂ o₂

/-- is the paired run `op(o₁, o₂)` / `op(w₁, w₂)` in the scope of the soundness
theorem of `op`?  (`none`: no such theorem) -/
def inScope (op : String) (o₁ o₂ w₁ w₂ : Value) : Option Bool :=
  match op with
  | "add" => some (common o₁ o₂ w₁ w₂ && sideAdd w₁.unmark w₂.unmark o₁.unmark o₂.unmark)
  | "sub" => some (common o₁ o₂ w₁ w₂ && sideSub w₁.unmark w₂.unmark o₁.unmark o₂.unmark)
  | "mul" => some (common o₁ o₂ w₁ w₂ && sideMul w₁.unmark w₂.unmark o₁.unmark o₂.unmark)
  | _ => none

/-- copy of `SetCountOK` (Lemmas/d01Len.lean) -/
def setCountOK (w o : Value) : Bool :=
  match w.v, o.v with
  | .sset _ ws, .sset _ vs => !(Payload.whollyKnownL ws) || ws.length == 1 || ws.length == vs.length
  | _, _ => true

/-- every hypothesis of `C01.sound_length_partial` -/
def inScopeLength (o w : Value) : Bool :=
  o.whollyKnown && o.wfc && w.wfc && (!w.ty.isDyn || !w.isKnown) && setCountOK w.unmark o.unmark && CoversX w o

end D01
end CtyModel
