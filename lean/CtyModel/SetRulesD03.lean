/-
Specification vocabulary added by the d03 deepening of C03 (core Lean only: the
driver evaluates these predicates on the values the harness generates, so that
the hypotheses of the d03 theorems are tied to the inputs actually run).
-/
import CtyModel.SetRulesSpec
namespace CtyModel

/-! ### the number leaves of a payload -/

mutual
/-- every number leaf of the payload, in order -/
def Payload.nums : Payload → List Num
  | .n x => [x]
  | .marked _ r => Payload.nums r
  | .seq vs => Payload.numsL vs
  | .smap _ vs => Payload.numsL vs
  | .sset _ vs => Payload.numsL vs
  | _ => []
def Payload.numsL : List Payload → List Num
  | [] => []
  | v :: vs => Payload.nums v ++ Payload.numsL vs
end

/-- every number leaf is an integer (at whatever precision) -/
def Payload.intNums (p : Payload) : Bool := p.nums.all Num.isInt

mutual
/-- every string leaf and every map key has a modelled `%q` form (all runes are in
the part of strconv's printable table the model knows) -/
def Payload.quotable : Payload → Bool
  | .s v => (quote v).isOk
  | .marked _ r => Payload.quotable r
  | .seq vs => Payload.quotableL vs
  | .smap ks vs => ks.all (fun k => (quote k).isOk) && Payload.quotableL vs
  | .sset _ vs => Payload.quotableL vs
  | _ => true
def Payload.quotableL : List Payload → Bool
  | [] => true
  | v :: vs => Payload.quotable v && Payload.quotableL vs
end

/-- string, bool or number -/
def Ty.isPrim : Ty → Bool
  | .string | .bool | .number => true
  | _ => false

/-- `setRules{e}.Less(x, y)` for a primitive `e`, written for proof: a null sorts
after every non-null member, an unknown after every known one, known members by
byte order / false-before-true / exact numeric comparison; raw-equal members are
never ordered -/
def primLessB (e : Ty) (x y : Payload) : Bool :=
  if rawB e x y then false
  else if y.isNull && !x.isNull then true
  else if x.isNull then false
  else if x.isKnown && !y.isKnown then true
  else if !x.isKnown then false
  else match e, x, y with
    | .string, .s a, .s b => bytesLt (strBytes a) (strBytes b)
    | .bool, .b a, .b b => b || !a
    | .number, .n a, .n b => decide (Num.cmp a b < 0)
    | _, _, _ => false

/-- the members `d03` proves the order for: well-formed for `e`, wholly known, no
mark at any depth, every number an integer -/
def Payload.intMember (e : Ty) (p : Payload) : Bool :=
  p.shaped e && p.whollyKnown && !p.containsMarked && p.intNums

/-- the function inside `(ctyRules e).less` -/
def ctyLessB (e : Ty) (a b : Payload) : Bool :=
  match Value.setLess e a b with
  | .ok r => r
  | _ => false

/-- pairwise `rawB` of two lists (the loop of `RawEquals` over `AsValueSlice`) -/
def rawBList (e : Ty) : List Payload → List Payload → Bool
  | x :: xs, y :: ys => rawB e x y && rawBList e xs ys
  | _, _ => true

end CtyModel
