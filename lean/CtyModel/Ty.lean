/-
Model of `cty.Type` (cty/type.go, *_type.go, type_conform.go).

Go's `map[string]Type` of an object type becomes three parallel lists (names,
attribute types, optional flags), names strictly ascending — the order in which
the harness prints a Go map (sorted keys; attribute names are NFC-normalised by
the real constructor before they reach the model).  Capsule identity (pointer
equality in Go) is a number the harness assigns per capsule type.
-/
import CtyModel.Basic
import CtyModel.Sexp
namespace CtyModel

inductive Ty where
  | bool | number | string | dyn
  | list (e : Ty) | set (e : Ty) | map (e : Ty)
  | tuple (es : List Ty)
  | object (names : List String) (tys : List Ty) (opts : List Bool)
  | capsule (id : Nat)
  deriving Repr, Inhabited, BEq

namespace Ty

/-- Position-wise lookup in the parallel lists of an object type: the model of a
Go map lookup `attrs[k]` together with `_, opt := optional[k]`. -/
def find (k : String) : List String → List Ty → List Bool → Option (Ty × Bool)
  | n :: ns, t :: ts, o :: os => if n = k then some (t, o) else find k ns ts os
  | _, _, _ => none

def hasName (k : String) (ns : List String) : Bool := ns.contains k

/-! ### `Type.Equals` — transliteration of the per-kind methods

`typeObject.Equals`: same number of attributes, and every attribute of the
receiver exists in the other with an equal type and the same optional flag.
`typeTuple.Equals`: same length and pointwise equal.  (Go calls
`oty.Equals(ty)` with receiver and argument swapped at each level; the model
recurses with the receiver fixed, which is the same function because `equals`
is symmetric — `C07.equals_symm`.) -/
mutual
def equals : Ty → Ty → Bool
  | .bool, .bool => true
  | .number, .number => true
  | .string, .string => true
  | .dyn, .dyn => true
  | .list a, .list b => equals a b
  | .set a, .set b => equals a b
  | .map a, .map b => equals a b
  | .tuple as, .tuple bs => as.length == bs.length && equalsZip as bs
  | .object n1 t1 o1, .object n2 t2 o2 =>
      t1.length == t2.length && equalsFields n1 t1 o1 n2 t2 o2
  | .capsule a, .capsule b => a == b
  | _, _ => false
def equalsZip : List Ty → List Ty → Bool
  | a :: as, b :: bs => equals a b && equalsZip as bs
  | _, _ => true
def equalsFields : List String → List Ty → List Bool →
    List String → List Ty → List Bool → Bool
  | k :: ks, t :: ts, o :: os, n2, t2, o2 =>
    (match find k n2 t2 o2 with
     | none => false
     | some (oty, oopt) => equals t oty && o == oopt) &&
    equalsFields ks ts os n2 t2 o2
  | _, _, _, _, _, _ => true
end

/-! ### `HasDynamicTypes`, `WithoutOptionalAttributesDeep` -/
mutual
def hasDyn : Ty → Bool
  | .dyn => true
  | .list e | .set e | .map e => hasDyn e
  | .tuple es => hasDynL es
  | .object _ ts _ => hasDynL ts
  | _ => false
def hasDynL : List Ty → Bool
  | [] => false
  | t :: ts => hasDyn t || hasDynL ts
end

mutual
def stripOpt : Ty → Ty
  | .list e => .list (stripOpt e)
  | .set e => .set (stripOpt e)
  | .map e => .map (stripOpt e)
  | .tuple es => .tuple (stripOptL es)
  | .object ns ts os => .object ns (stripOptL ts) (os.map fun _ => false)
  | t => t
def stripOptL : List Ty → List Ty
  | [] => []
  | t :: ts => stripOpt t :: stripOptL ts
end

/-! Does an optional-attribute annotation occur anywhere in the type? -/
mutual
def hasOpt : Ty → Bool
  | .list e | .set e | .map e => hasOpt e
  | .tuple es => hasOptL es
  | .object _ ts os => os.any id || hasOptL ts
  | _ => false
def hasOptL : List Ty → Bool
  | [] => false
  | t :: ts => hasOpt t || hasOptL ts
end

/-! ### `TestConformance` — number of errors appended by `testConformance`

The real function returns the errors in Go-map iteration order for objects; the
*count* is order-independent and is what the model returns. -/
def countMissing (ks : List String) (other : List String) : Nat :=
  (ks.filter fun k => !other.contains k).length

mutual
def conformErrs : (want given : Ty) → Nat
  | .dyn, _ => 0
  | .bool, g => if equals g .bool then 0 else 1
  | .number, g => if equals g .number then 0 else 1
  | .string, g => if equals g .string then 0 else 1
  | .capsule i, g => if equals g (.capsule i) then 0 else 1
  | .list w, g => if equals g (.list w) then 0 else
      match g with
      | .list ge => conformErrs w ge
      | _ => 1
  | .set w, g => if equals g (.set w) then 0 else
      match g with
      | .set ge => conformErrs w ge
      | _ => 1
  | .map w, g => if equals g (.map w) then 0 else
      match g with
      | .map ge => conformErrs w ge
      | _ => 1
  | .tuple ws, g => if equals g (.tuple ws) then 0 else
      match g with
      | .tuple gs => if gs.length != ws.length then 1 else conformZip ws gs
      | _ => 1
  | .object wn wt wo, g => if equals g (.object wn wt wo) then 0 else
      match g with
      | .object gn gt go =>
        countMissing gn wn + countMissing wn gn + conformFields wn wt gn gt go
      | _ => 1
def conformZip : List Ty → List Ty → Nat
  | w :: ws, g :: gs => conformErrs w g + conformZip ws gs
  | _, _ => 0
def conformFields : List String → List Ty → List String → List Ty → List Bool → Nat
  | k :: ks, w :: ws, gn, gt, go =>
    (match find k gn gt go with
     | some (g, _) => conformErrs w g
     | none => 0) + conformFields ks ws gn gt go
  | _, _, _, _, _ => 0
end

/-! ### Well-formedness of a type as the harness delivers it -/
def strictAsc : List String → Bool
  | a :: b :: rest => decide (a < b) && strictAsc (b :: rest)
  | _ => true

mutual
def wf : Ty → Bool
  | .list e | .set e | .map e => wf e
  | .tuple es => wfL es
  | .object ns ts os => ns.length == ts.length && os.length == ts.length && strictAsc ns && wfL ts
  | _ => true
def wfL : List Ty → Bool
  | [] => true
  | t :: ts => wf t && wfL ts
end

/-! ### Kind tests (pattern matches, so that they reduce on constructors) -/
def isDyn : Ty → Bool | .dyn => true | _ => false
def isNumber : Ty → Bool | .number => true | _ => false
def isString : Ty → Bool | .string => true | _ => false
def isBool : Ty → Bool | .bool => true | _ => false

/-! ### Wire codec -/
mutual
partial def toSexp : Ty → Sexp
  | .bool => .atom "B" | .number => .atom "N" | .string => .atom "S" | .dyn => .atom "D"
  | .list e => .list [.atom "L", toSexp e]
  | .set e => .list [.atom "E", toSexp e]
  | .map e => .list [.atom "M", toSexp e]
  | .tuple es => .list (.atom "T" :: es.map toSexp)
  | .object ns ts os => .list (.atom "O" :: fieldsToSexp ns ts os)
  | .capsule i => .list [.atom "C", Sexp.encNat i]
partial def fieldsToSexp : List String → List Ty → List Bool → List Sexp
  | n :: ns, t :: ts, o :: os =>
    .list [Sexp.encStr n, toSexp t, Sexp.encBool o] :: fieldsToSexp ns ts os
  | _, _, _ => []
end

mutual
partial def ofSexp : Sexp → Option Ty
  | .atom "B" => some .bool | .atom "N" => some .number
  | .atom "S" => some .string | .atom "D" => some .dyn
  | .list [.atom "L", e] => (ofSexp e).map .list
  | .list [.atom "E", e] => (ofSexp e).map .set
  | .list [.atom "M", e] => (ofSexp e).map .map
  | .list [.atom "C", i] => (Sexp.decNat i).map .capsule
  | .list (.atom "T" :: es) => (es.mapM ofSexp).map .tuple
  | .list (.atom "O" :: fs) => do
    let parts ← fs.mapM fun f =>
      match f with
      | .list [n, t, o] => do
        let n ← Sexp.decStr n
        let t ← ofSexp t
        let o ← Sexp.decBool o
        pure (n, t, o)
      | _ => none
    pure (.object (parts.map (·.1)) (parts.map (·.2.1)) (parts.map (·.2.2)))
  | _ => none
end

end Ty
end CtyModel
