/-
Model of package `cty/gocty` (in.go `ToCtyValue`, out.go `FromCtyValue`,
type_implied.go `ImpliedType`, helpers.go `structTagIndices`).

The Go code is driven by `reflect`; the model is driven by a first-order
description of Go types (`GoTy`) and Go values (`GoVal`).  What `reflect`
reports about a type is what the constructors say: `Kind()` is the constructor,
`Type().Bits()` is `IntW.bits`, `NumField/Field(i).Tag.Get("cty")` are the
parallel lists of a `struct` (tag `""` = no tag), `big.Int`, `big.Float` and
`cty.Value` are the three struct types the code singles out by identity.
Struct fields are exported (a Go program can not set the others), map keys are
`string`, and there are no interface-typed slots: everything else is outside
the modelled fragment.

Conventions
* A Go panic is `Res.panic`.  Go-map iteration order: `FromCtyValue` into a struct
  takes a schedule parameter (`Sched`, see `combSched`); in `ToCtyValue` and
  `ImpliedType`, where the code loops over a Go map and the outcome could depend
  on the order (one member fails with an error, another one panics), the model
  says `unmodelled` (`combAll`).  Sequential loops (`seqAll`) stop at the first
  failure, as the code does.
* `norm` is `ctystrings.Normalize` (Unicode NFC), an external library: a
  parameter, instantiated by an oracle column in the driver.
* The target of `FromCtyValue` starts out as the zero value of its type (the
  harness always passes `new(T)`); fields the code does not touch keep it.
* Set-typed values are decoded in the iteration order of `set.Set.Values`, a
  stable sort by `setRules.Less`: modelled for element types string, number and
  bool; with two or more members of another element type (ordered by their hash
  bytes, which the model does not have) the result is `unmodelled`.  Capsule-typed
  non-null values are `unmodelled` (their Go payload is opaque to the model).
-/
import CtyModel.Marks
import CtyModel.NumFloat
namespace CtyModel

/-- width of a Go integer type; `wInt` is `int`/`uint` (64 bits on the platforms go-cty is checked on) -/
inductive IntW where
  | w8 | w16 | w32 | w64 | wInt
  deriving Repr, BEq, DecidableEq, Inhabited

/-- `reflect.Type.Bits()` -/
def IntW.bits : IntW → Nat
  | .w8 => 8 | .w16 => 16 | .w32 => 32 | .w64 => 64 | .wInt => 64

inductive GoTy where
  | int (w : IntW) (signed : Bool)
  | float (is32 : Bool)
  | str
  | bool
  | slice (e : GoTy)
  | array (n : Nat) (e : GoTy)
  | map (e : GoTy)                                  -- map[string]e
  | ptr (e : GoTy)
  | struct (tags : List String) (tys : List GoTy)   -- fields in declaration order; tag "" = untagged
  | bigInt
  | bigFloat
  | cval                                            -- cty.Value
  deriving Repr, Inhabited, BEq

inductive GoVal where
  | int (v : Int)
  | flt (v : Num)                                   -- float32/float64, finite or ±Inf, precision 53
  | nan
  | str (s : String)
  | bool (b : Bool)
  | nilSlice
  | slice (vs : List GoVal)
  | arr (vs : List GoVal)
  | nilMap
  | map (keys : List String) (vs : List GoVal)      -- keys ascending
  | nilPtr
  | ptr (v : GoVal)
  | struct (tags : List String) (vs : List GoVal)
  | bigInt (v : Int)
  | bigFloat (v : Num)
  | cval (v : Value)
  | cvalNil                                         -- cty.NilVal, the zero value of cty.Value
  deriving Repr, Inhabited, BEq

namespace Gocty

/-! ### small list utilities (parallel lists instead of Go maps) -/

/-- value stored under key `k` in parallel lists (first occurrence) -/
def lookupKey {α} (k : String) : List String → List α → Option α
  | n :: ns, x :: xs => if n = k then some x else lookupKey k ns xs
  | _, _ => none

/-- `structTagIndices(st)[k]`: only non-empty tags are entered in the Go map -/
def lookupTag {α} (k : String) (tags : List String) (xs : List α) : Option α :=
  if k = "" then none else lookupKey k tags xs

/-- no non-empty tag occurs twice (`structTagIndices` would silently keep the later field) -/
def tagsDistinct : List String → Bool
  | [] => true
  | t :: ts => (t == "" || !ts.contains t) && tagsDistinct ts

/-- no key occurs twice -/
def keysDistinct : List String → Bool
  | [] => true
  | k :: ks => !ks.contains k && keysDistinct ks

/-- `structTagIndices` keeps, of several fields with one tag, the last: the tags with every
earlier duplicate blanked (such a field is as good as untagged) -/
def effTags : List String → List String
  | [] => []
  | t :: ts => (if t != "" && ts.contains t then "" else t) :: effTags ts

/-- insertion into a strictly ascending list of names -/
def insertName (k : String) : List String → List String
  | [] => [k]
  | x :: xs => if k < x then k :: x :: xs else if k = x then x :: xs else x :: insertName k xs

/-- the keys of a Go map, in the order the harness prints them -/
def sortNames (ks : List String) : List String := ks.foldr insertName []

/-- a loop that stops at the first failure -/
def seqAll {α} : List (Res α) → Res (List α)
  | [] => .ok []
  | r :: rs =>
    match r with
    | .ok a =>
      (match seqAll rs with
       | .ok as => .ok (a :: as)
       | .err c => .err c
       | .panic w => .panic w
       | .unmodelled => .unmodelled)
    | .err c => .err c
    | .panic w => .panic w
    | .unmodelled => .unmodelled

def anyErr {α} : List (Res α) → Bool
  | [] => false
  | .err _ :: _ => true
  | _ :: rs => anyErr rs
def anyPanic {α} : List (Res α) → Bool
  | [] => false
  | .panic _ :: _ => true
  | _ :: rs => anyPanic rs
def anyUnmodelled {α} : List (Res α) → Bool
  | [] => false
  | .unmodelled :: _ => true
  | _ :: rs => anyUnmodelled rs
def okVals {α} : List (Res α) → List α
  | [] => []
  | .ok a :: rs => a :: okVals rs
  | _ :: rs => okVals rs

/-- a loop over a Go map that returns at the first failure, in an order the
model does not know: all succeed → the values; only errors → error; only panics
→ panic; errors and panics → order dependent → `unmodelled` -/
def combAll {α} (rs : List (Res α)) : Res (List α) :=
  if anyUnmodelled rs then .unmodelled
  else if anyErr rs && anyPanic rs then .unmodelled
  else if anyPanic rs then .panic "member"
  else if anyErr rs then .err "member"
  else .ok (okVals rs)

/-! ### type_implied.go -/

def isDynTy : Ty → Bool
  | .dyn => true
  | _ => false

/-- the tags of the tagged fields -/
def taggedNames : List String → List String
  | [] => []
  | t :: ts => if t = "" then taggedNames ts else t :: taggedNames ts

/-- `impliedStructType` once the field types are known: `etags` are the effective tags,
`rs` one result per tagged field.  `cty.Object` normalises the attribute names; two tags
with one normal form collide there and Go's map order picks the survivor (`unmodelled`). -/
def impliedStruct (norm : String → String) (etags : List String) (rs : List (Res Ty)) : Res Ty :=
  let ks := taggedNames etags
  if ks.isEmpty then .err "no cty field tags"
  else if !keysDistinct (ks.map norm) then .unmodelled
  else
    match combAll rs with
    | .ok ts =>
      let nks := ks.map norm
      let names := sortNames nks
      .ok (.object names (names.map fun k => (lookupKey k nks ts).getD .dyn) (names.map fun _ => false))
    | .err c => .err c
    | .panic w => .panic w
    | .unmodelled => .unmodelled

mutual
/-- `impliedType`.  With `ext = true` arrays and big numbers are mapped to the
"corresponding list and number types" the property speaks of (`ImpliedType`
itself refuses them: `ext = false`). -/
def impliedG (norm : String → String) (ext : Bool) : GoTy → Res Ty
  | .ptr e => impliedG norm ext e
  | .bool => .ok .bool
  | .int _ _ => .ok .number
  | .float _ => .ok .number
  | .str => .ok .string
  | .slice e =>
    (match impliedG norm ext e with
     | .ok t => .ok (.list t)
     | r => r)
  | .map e =>
    (match impliedG norm ext e with
     | .ok t => .ok (.map t)
     | r => r)
  | .array _ e =>
    if ext then
      (match impliedG norm ext e with
       | .ok t => .ok (.list t)
       | r => r)
    else .err "no cty.Type for array"
  | .bigInt => if ext then .ok .number else .err "no cty field tags"
  | .bigFloat => if ext then .ok .number else .err "no cty field tags"
  | .cval => .ok .dyn
  | .struct tags tys =>
    impliedStruct norm (effTags tags) (impliedFields norm ext (effTags tags) tys)
/-- one result per *tagged* field, in declaration order -/
def impliedFields (norm : String → String) (ext : Bool) : List String → List GoTy → List (Res Ty)
  | t :: tags, T :: tys =>
    if t = "" then impliedFields norm ext tags tys
    else impliedG norm ext T :: impliedFields norm ext tags tys
  | _, _ => []
end

/-- `gocty.ImpliedType` -/
def impliedType (norm : String → String) (T : GoTy) : Res Ty := impliedG norm false T

/-- the type the property converts through: implied type, arrays as lists, big numbers as numbers -/
def bridgeType (norm : String → String) (T : GoTy) : Res Ty := impliedG norm true T

/-! ### the cty constructors `ToCtyValue` calls -/

/-- the element-type loop of `cty.ListVal` / `cty.MapVal` -/
def elemTypeOf : Ty → List Value → Res Ty
  | acc, [] => .ok acc
  | acc, v :: vs =>
    if isDynTy acc then elemTypeOf v.ty vs
    else if !isDynTy v.ty && !Ty.equals acc v.ty then .panic "inconsistent element types"
    else elemTypeOf acc vs

def payloads : List Value → List Payload
  | [] => []
  | v :: vs => v.v :: payloads vs

def tysOf : List Value → List Ty
  | [] => []
  | v :: vs => v.ty :: tysOf vs

/-- `cty.CanListVal` / `CanMapVal`: the element-type loop would not panic -/
def canListVal (ws : List Value) : Bool :=
  match elemTypeOf .dyn ws with
  | .panic _ => false
  | _ => true

def listVal (ws : List Value) : Res Value :=
  if ws.isEmpty then .panic "must not call ListVal with empty slice"
  else
    match elemTypeOf .dyn ws with
    | .ok et => .ok ⟨.list et, .seq (payloads ws)⟩
    | .err c => .err c
    | .panic w => .panic w
    | .unmodelled => .unmodelled

/-- `cty.MapVal` on keys already in ascending order and fixed by `norm` -/
def mapVal (ks : List String) (ws : List Value) : Res Value :=
  if ws.isEmpty then .panic "must not call MapVal with empty map"
  else
    match elemTypeOf .dyn ws with
    | .ok et => .ok ⟨.map et, .smap ks (payloads ws)⟩
    | .err c => .err c
    | .panic w => .panic w
    | .unmodelled => .unmodelled

/-- insertion of a key/value pair into parallel lists sorted by key -/
def insertKV (k : String) (w : Value) : List String → List Value → List String × List Value
  | x :: xs, y :: ys =>
    if k < x then (k :: x :: xs, w :: y :: ys) else ((x :: (insertKV k w xs ys).1), (y :: (insertKV k w xs ys).2))
  | _, _ => ([k], [w])

/-- key/value pairs in ascending key order (how the harness prints a cty map) -/
def sortKV : List String → List Value → List String × List Value
  | k :: ks, w :: ws => insertKV k w (sortKV ks ws).1 (sortKV ks ws).2
  | _, _ => ([], [])

/-- `cty.ObjectVal`: the type is assembled from the *values'* types -/
def objectVal (names : List String) (ws : List Value) : Value :=
  ⟨.object names (tysOf ws) (names.map fun _ => false), .smap names (payloads ws)⟩

def tupleVal (ws : List Value) : Value := ⟨.tuple (tysOf ws), .seq (payloads ws)⟩

/-- `toCtyPassthrough`: `convert.Convert(given, want)`.  Only the two cases that
do not need the conversion machinery (C08) are modelled. -/
def passthrough (v : Value) (want : Ty) : Res Value :=
  if Ty.equals v.ty want.stripOpt then .ok v
  else if isDynTy want then .ok v
  else .unmodelled

/-- `NumberFloatVal`/`SetFloat64`: the canonical float already is the big.Float -/
def fixPrec : Num → Num
  | .fin n m e _ => .fin n m e Num.fprec
  | .inf n => .inf n

/-- per attribute of the wanted object type: the member found in the Go map / struct, or null -/
def attrResults (names : List String) (atys : List Ty) (ks : List String) (rs : List (Res Value)) :
    List (Res Value) :=
  match names, atys with
  | k :: names, aty :: atys =>
    (match lookupKey k ks rs with
     | some r => r
     | none => .ok (Value.null aty)) :: attrResults names atys ks rs
  | _, _ => []

/-- `NumField()` of the three special struct types -/
def specialFieldCount : GoVal → Option Nat
  | .bigInt _ => some 2
  | .bigFloat _ => some 7
  | .cval _ => some 2
  | .cvalNil => some 2
  | _ => none

/-! ### in.go -/

mutual
/-- `toCtyValue`.  `pass = true` at every entry the code makes through
`toCtyValue` itself; `pass = false` after `toCtyUnwrapPointer` stepped through
a pointer (then a `cty.Value` is no longer passed through `convert` but hits
the per-type functions). -/
def toCtyG (norm : String → String) (pass : Bool) : GoVal → Ty → Res Value
  | .nilPtr, ty => .ok (Value.null ty)
  | .ptr v, ty => toCtyG norm false v ty
  | .cvalNil, _ => .unmodelled
  | .cval v, ty =>
    if pass then passthrough v ty
    else
      (match ty with
       | .dyn => .ok v
       | .object names atys _ => .ok (objectVal names (atys.map Value.null))
       | .tuple es => if es.length = 2 then .unmodelled else .err "wrong number of struct fields"
       | .capsule _ => .unmodelled
       | _ => .err "can't convert Go struct")
  | .int v, ty =>
    (match ty with
     | .number => .ok ⟨.number, .n (Num.ofInt v)⟩
     | .capsule _ => .unmodelled
     | _ => .err "can't convert Go int")
  | .flt x, ty =>
    (match ty with
     | .number => .ok ⟨.number, .n (fixPrec x)⟩
     | .capsule _ => .unmodelled
     | _ => .err "can't convert Go float")
  | .nan, ty =>
    (match ty with
     | .number => .panic "NaN"
     | .capsule _ => .unmodelled
     | _ => .err "can't convert Go float")
  | .str s, ty =>
    (match ty with
     | .string => .ok ⟨.string, .s (norm s)⟩
     | .capsule _ => .unmodelled
     | _ => .err "can't convert Go string")
  | .bool b, ty =>
    (match ty with
     | .bool => .ok ⟨.bool, .b b⟩
     | .capsule _ => .unmodelled
     | _ => .err "can't convert Go bool")
  | .bigInt v, ty =>
    (match ty with
     | .number => .ok ⟨.number, .n (Num.ofInt v (max 64 (Num.bitlen v.natAbs)))⟩
     | .object names atys _ => .ok (objectVal names (atys.map Value.null))
     | .tuple es => if es.length = 2 then .unmodelled else .err "wrong number of struct fields"
     | .capsule _ => .unmodelled
     | _ => .err "can't convert Go struct")
  | .bigFloat x, ty =>
    (match ty with
     | .number => .ok ⟨.number, .n x⟩
     | .object names atys _ => .ok (objectVal names (atys.map Value.null))
     | .tuple es => if es.length = 7 then .unmodelled else .err "wrong number of struct fields"
     | .capsule _ => .unmodelled
     | _ => .err "can't convert Go struct")
  | .nilSlice, ty =>
    (match ty with
     | .list _ | .set _ | .tuple _ => .ok (Value.null ty)
     | .capsule _ => .unmodelled
     | _ => .err "can't convert Go slice")
  | .slice vs, ty =>
    (match ty with
     | .list ety =>
       if vs.isEmpty then .ok ⟨.list ety, .seq []⟩
       else
         (match seqAll (toCtyL norm vs ety) with
          | .ok ws => if !canListVal ws then .err "all list elements must have the same type" else listVal ws
          | .err c => .err c
          | .panic w => .panic w
          | .unmodelled => .unmodelled)
     | .set ety => if vs.isEmpty then .ok ⟨.set ety, .sset [] []⟩ else .unmodelled
     | .tuple etys =>
       if vs.length ≠ etys.length then .err "wrong number of elements"
       else
         (match seqAll (toCtyZ norm vs etys) with
          | .ok ws => .ok (tupleVal ws)
          | .err c => .err c
          | .panic w => .panic w
          | .unmodelled => .unmodelled)
     | .capsule _ => .unmodelled
     | _ => .err "can't convert Go slice")
  | .arr vs, ty =>
    (match ty with
     | .list ety =>
       if vs.isEmpty then .ok ⟨.list ety, .seq []⟩
       else
         (match seqAll (toCtyL norm vs ety) with
          | .ok ws => if !canListVal ws then .err "all list elements must have the same type" else listVal ws
          | .err c => .err c
          | .panic w => .panic w
          | .unmodelled => .unmodelled)
     | .set ety => if vs.isEmpty then .ok ⟨.set ety, .sset [] []⟩ else .unmodelled
     | .capsule _ => .unmodelled
     | _ => .err "can't convert Go array")
  | .nilMap, ty =>
    (match ty with
     | .map _ | .object _ _ _ => .ok (Value.null ty)
     | .capsule _ => .unmodelled
     | _ => .err "can't convert Go map")
  | .map ks vs, ty =>
    (match ty with
     | .map ety =>
       if vs.isEmpty then .ok ⟨.map ety, .smap [] []⟩
       else
         (match combAll (toCtyL norm vs ety) with
          | .ok ws =>
            if !canListVal ws then .err "all map elements must have the same type"
            else if ks.map norm != ks then
              -- `cty.MapVal` normalises the keys; two Go keys with one normal form: Go map order decides
              (if !keysDistinct (ks.map norm) then .unmodelled
               else mapVal (sortKV (ks.map norm) ws).1 (sortKV (ks.map norm) ws).2)
            else mapVal ks ws
          | .err c => .err c
          | .panic w => .panic w
          | .unmodelled => .unmodelled)
     | .object names atys _ =>
       if names.isEmpty then .ok (objectVal [] [])
       else
         (match combAll (attrResults names atys ks (toCtyM norm ks vs names atys)) with
          | .ok ws => .ok (objectVal names ws)
          | .err c => .err c
          | .panic w => .panic w
          | .unmodelled => .unmodelled)
     | .capsule _ => .unmodelled
     | _ => .err "can't convert Go map")
  | .struct tags vs, ty =>
    (match ty with
     | .object names atys _ =>
       if names.isEmpty then .ok (objectVal [] [])
       else
         (match combAll (attrResults names atys (taggedNames (effTags tags))
             (toCtyF norm (effTags tags) vs names atys)) with
          | .ok ws => .ok (objectVal names ws)
          | .err c => .err c
          | .panic w => .panic w
          | .unmodelled => .unmodelled)
     | .tuple etys =>
       if vs.length ≠ etys.length then .err "wrong number of struct fields"
       else
         (match seqAll (toCtyZ norm vs etys) with
          | .ok ws => .ok (tupleVal ws)
          | .err c => .err c
          | .panic w => .panic w
          | .unmodelled => .unmodelled)
     | .capsule _ => .unmodelled
     | _ => .err "can't convert Go struct")
/-- every element against the same type -/
def toCtyL (norm : String → String) : List GoVal → Ty → List (Res Value)
  | [], _ => []
  | v :: vs, ety => toCtyG norm true v ety :: toCtyL norm vs ety
/-- position-wise (tuples) -/
def toCtyZ (norm : String → String) : List GoVal → List Ty → List (Res Value)
  | v :: vs, ety :: etys => toCtyG norm true v ety :: toCtyZ norm vs etys
  | _, _ => []
/-- Go map → object: one result per map entry whose key is an attribute of the wanted type -/
def toCtyM (norm : String → String) : List String → List GoVal → List String → List Ty → List (Res Value)
  | k :: ks, v :: vs, names, atys =>
    (match lookupKey k names atys with
     | some aty => toCtyG norm true v aty
     | none => .ok (Value.null .dyn)) :: toCtyM norm ks vs names atys
  | _, _, _, _ => []
/-- struct → object: one result per *tagged* field -/
def toCtyF (norm : String → String) : List String → List GoVal → List String → List Ty → List (Res Value)
  | t :: tags, v :: vs, names, atys =>
    if t = "" then toCtyF norm tags vs names atys
    else
      (match lookupKey t names atys with
       | some aty => toCtyG norm true v aty
       | none => .ok (Value.null .dyn)) :: toCtyF norm tags vs names atys
  | _, _, _, _ => []
end

/-- `gocty.ToCtyValue` -/
def toCty (norm : String → String) (g : GoVal) (ty : Ty) : Res Value := toCtyG norm true g ty

/-! ### out.go: numbers -/

/-- the `min`/`max` switch of `fromCtyNumberInt` (literal values of math.MinIntN/MaxIntN) -/
def intMinMax : Nat → Option (Int × Int)
  | 8 => some (-128, 127)
  | 16 => some (-32768, 32767)
  | 32 => some (-2147483648, 2147483647)
  | 64 => some (-9223372036854775808, 9223372036854775807)
  | _ => none

/-- the `max` switch of `fromCtyNumberUInt` (math.MaxUintN) -/
def uintMax : Nat → Option Int
  | 8 => some 255
  | 16 => some 65535
  | 32 => some 4294967295
  | 64 => some 18446744073709551615
  | _ => none

/-- `bf.Int64()` when its accuracy is `big.Exact`: the number is whole and fits int64 -/
def int64Exact (x : Num) : Option Int :=
  match x.toInt? with
  | some k => if -9223372036854775808 ≤ k ∧ k ≤ 9223372036854775807 then some k else none
  | none => none

/-- `bf.Uint64()` when its accuracy is `big.Exact` — as math/big computes it:
for `1 ≤ x < 2^64` the accuracy is `Exact` as soon as `x.MinPrec() <= 64`
(math/big/float.go: `if x.MinPrec() <= 64 { return u, Exact }`), whether or not
`x` is whole; the value is `trunc(x)`. -/
def uint64Exact (x : Num) : Option Int :=
  match x with
  | .inf _ => none
  | .fin n m0 e0 _ =>
    let me := Num.norm m0 e0
    let m := me.1
    let e := me.2
    if m = 0 then some 0                       -- form zero (either sign)
    else if n then none                        -- x < 0: (0, Above)
    else
      let exp : Int := e + (Num.bitlen m : Int)   -- big.Float's exponent (mantissa in [0.5, 1))
      if exp ≤ 0 then none                     -- 0 < x < 1: (0, Below)
      else if exp ≤ 64 then
        (if Num.bitlen m ≤ 64 then (Num.fin false m e 0).truncInt else none)
      else none                                -- too large

def fromNumInt (x : Num) (bits : Nat) : Res Int :=
  match intMinMax bits with
  | none => .panic "weird number of bits in target int"
  | some (mn, mx) =>
    match int64Exact x with
    | none => .err "whole number"
    | some iv => if iv < mn ∨ iv > mx then .err "whole number" else .ok iv

def fromNumUInt (x : Num) (bits : Nat) : Res Int :=
  match uintMax bits with
  | none => .panic "weird number of bits in target uint"
  | some mx =>
    match uint64Exact x with
    | none => .err "whole number"
    | some iv => if !x.isInt ∨ iv > mx then .err "whole number" else .ok iv

/-- `fromCtyNumberFloat`: `bf.Float64()`, refuse an *inexact infinity*; for a
float32 target also refuse a finite `fv` whose `float32(fv)` is infinite; then
`target.SetFloat(fv)` — which for a float32 target stores Go's `float32(fv)`. -/
def fromNumFloat (x : Num) (is32 : Bool) : Res Num :=
  let r := x.toF64
  if !r.2 && r.1.isInf then .err "value must be between"
  else if is32 && !r.1.isInf && (Num.f64to32 r.1).isInf then .err "value must be between"
  else .ok (if is32 then Num.f64to32 r.1 else r.1)

/-- `fromCtyNumber` on a known, non-null, unmarked number -/
def fromNum (x : Num) : GoTy → Res GoVal
  | .int w true =>
    (match fromNumInt x w.bits with
     | .ok i => .ok (.int i) | .err c => .err c | .panic w => .panic w | .unmodelled => .unmodelled)
  | .int w false =>
    (match fromNumUInt x w.bits with
     | .ok i => .ok (.int i) | .err c => .err c | .panic w => .panic w | .unmodelled => .unmodelled)
  | .float is32 =>
    (match fromNumFloat x is32 with
     | .ok f => .ok (.flt f) | .err c => .err c | .panic w => .panic w | .unmodelled => .unmodelled)
  | .bigFloat => .ok (.bigFloat x)
  | .bigInt =>
    (match x.toInt? with
     | some k => .ok (.bigInt k)
     | none => .err "value must be a whole number")
  | _ => .err "number value is required"      -- likelyRequiredTypesError

/-! ### out.go: structure -/

def _root_.CtyModel.GoTy.depth : GoTy → Nat
  | .ptr e => GoTy.depth e + 1
  | _ => 0

def _root_.CtyModel.GoTy.base : GoTy → GoTy
  | .ptr e => GoTy.base e
  | t => t

def _root_.CtyModel.GoTy.isCval : GoTy → Bool
  | .cval => true
  | _ => false

/-- can `reflect.Zero` of this kind stand for null in `fromCtyObject`'s missing-attribute check -/
def _root_.CtyModel.GoTy.nilableKind : GoTy → Bool
  | .ptr _ | .slice _ | .map _ => true
  | _ => false

def wrapPtr : Nat → GoVal → GoVal
  | 0, g => g
  | k + 1, g => .ptr (wrapPtr k g)

mutual
def zeroVal : GoTy → GoVal
  | .int _ _ => .int 0
  | .float _ => .flt (.fin false 0 0 Num.fprec)
  | .str => .str ""
  | .bool => .bool false
  | .slice _ => .nilSlice
  | .array n e => .arr (List.replicate n (zeroVal e))
  | .map _ => .nilMap
  | .ptr _ => .nilPtr
  | .struct tags tys => .struct tags (zeroValL tys)
  | .bigInt => .bigInt 0
  | .bigFloat => .bigFloat (.fin false 0 0 0)
  | .cval => .cvalNil
def zeroValL : List GoTy → List GoVal
  | [] => []
  | t :: ts => zeroVal t :: zeroValL ts
end

/-- the value `GetAttr`/`Index` hand to the recursive call: the member with the
container's marks (`ms`, empty for an unmarked container) merged in -/
def pushMarks (ms : List String) (p : Payload) : Payload :=
  if ms.isEmpty then p else p.withMarks ms

/-- marks in effect below a marker `m` when `ms` are pushed down from the container -/
def mergeMarks (m ms : List String) : List String :=
  if ms.isEmpty then m else unionMarks m ms

/-- the null test of `fromCtyValue`: null of a type other than list, map, capsule -/
def nullViaPtr : Ty → Bool
  | .list _ | .map _ | .capsule _ => false
  | _ => true

def mapRes {α β} (f : α → β) : Res α → Res β
  | .ok a => .ok (f a)
  | .err c => .err c
  | .panic w => .panic w
  | .unmodelled => .unmodelled

/-- the first failure among the missing-attribute checks of `fromCtyObject` -/
def missingRequired (names : List String) : List String → List GoTy → Bool
  | t :: tags, T :: tys =>
    (t != "" && !names.contains t && !T.nilableKind) || missingRequired names tags tys
  | _, _ => false

/-- the populated struct: per field the decoded attribute of its tag, or the zero value -/
def assemble (names : List String) (gs : List GoVal) : List String → List GoTy → List GoVal
  | t :: tags, T :: tys =>
    (match lookupTag t names gs with
     | some g => g
     | none => zeroVal T) :: assemble names gs tags tys
  | _, _ => []

/-! ### iteration order of a set (`set.Set.Values`: stable sort by `setRules.Less`) -/

/-- element types for which `setRules.Less` is a defined order on known, non-null members -/
def isPrimTy : Ty → Bool
  | .string | .number | .bool => true
  | _ => false

/-- `setRules.Less` for a primitive element type: nulls after non-nulls, unknowns after
knowns, strings by bytes, numbers by value, `false` before `true` -/
def setLess (ety : Ty) (p1 p2 : Payload) : Bool :=
  if p2.isNull && !p1.isNull then true
  else if p1.isNull then false
  else if p1.isKnown && !p2.isKnown then true
  else if !p1.isKnown then false
  else
    match ety, p1, p2 with
    | .string, .s a, .s b => decide (a < b)
    | .number, .n a, .n b => decide (Num.cmp a b < 0)
    | .bool, .b a, .b b => !a && b
    | _, _, _ => false

/-- stable insertion: before the first member that is greater -/
def insertSorted (ety : Ty) (x : Payload × Res GoVal) : List (Payload × Res GoVal) → List (Payload × Res GoVal)
  | [] => [x]
  | y :: ys => if setLess ety x.1 y.1 then x :: y :: ys else y :: insertSorted ety x ys

def zipPR : List Payload → List (Res GoVal) → List (Payload × Res GoVal)
  | c :: cs, r :: rs => (c, r) :: zipPR cs rs
  | _, _ => []

/-- the per-member results `rs` (parallel to the members `cs` as stored) in the order in
which `ForEachElement` visits the members -/
def setOrder (ety : Ty) (cs : List Payload) (rs : List (Res GoVal)) : List (Res GoVal) :=
  ((zipPR cs rs).foldl (fun acc x => insertSorted ety x acc) []).map (·.2)

/-! ### Go-map iteration order in `fromCtyObject`: a schedule

`fromCtyObject` loops `for k := range attrTypes` and returns at the first attribute whose
decoding fails; Go's map order decides which one that is, independently for every object
met.  A schedule `S` gives, for the object being decoded (`S 0 names`) and — shifted — for
the objects nested in it, the order in which the attribute names are visited.  (One order
per nesting depth is as general as one per object: only the path down to the first failing
member matters, and that path meets each depth once.) -/

abbrev Sched := Nat → List String → List String

/-- the schedule of the members of the current object -/
def Sched.next (S : Sched) : Sched := fun n => S (n + 1)

/-- attributes in ascending name order at every depth -/
def idSched : Sched := fun _ names => names

/-- a failure, re-typed -/
def failureOf {α β} : Res α → Option (Res β)
  | .ok _ => none
  | .err c => some (.err c)
  | .panic w => some (.panic w)
  | .unmodelled => some .unmodelled

def firstFailure {α β} : List (Res α) → Option (Res β)
  | [] => none
  | r :: rs =>
    match failureOf r with
    | some f => some f
    | none => firstFailure rs

/-- the per-attribute results `rs` (parallel to `names`) in the order `order` -/
def inOrder {α} (order names : List String) (rs : List (Res α)) : List (Res α) :=
  order.filterMap fun k => lookupKey k names rs

/-- the loop over the attributes in the order `order`: the first failure met; should the order
miss a failing attribute (it is not a permutation of the names), the first one in name order;
all succeeded → the values, in name order -/
def combSched {α} (order names : List String) (rs : List (Res α)) : Res (List α) :=
  if anyUnmodelled rs then .unmodelled
  else
    match firstFailure (inOrder order names rs) with
    | some f => f
    | none =>
      match firstFailure rs with
      | some f => f
      | none => .ok (okVals rs)

mutual
/-- `fromCtyValue(val, target)` where `val = Value{ty, p}` with the marks `ms`
of the containers it was taken from still to be merged in (`pushMarks ms p`),
and `target` is a settable zero of type `T`.  `S` is the schedule: `fromCtyObject` ranges over
the Go map of attribute types, so which failing attribute is met first is Go's choice. -/
def fromCtyP (S : Sched) (ms : List String) (ty : Ty) (p : Payload) (T : GoTy) : Res GoVal :=
  if T.base.isCval then
    -- deepTarget is a cty.Value: pass through as is (the only place unknowns are allowed)
    .ok (wrapPtr T.depth (.cval ⟨ty, pushMarks ms p⟩))
  else
    match p with
    | .marked m r => fromCtyP S (mergeMarks m ms) ty r T
    | .null =>
      if nullViaPtr ty then
        (if T.depth = 0 then .err "null value is not allowed"
         else .ok (wrapPtr (T.depth - 1) .nilPtr))
      else
        (match ty with
         | .list _ =>
           (match T.base with
            | .slice _ => .ok (wrapPtr T.depth .nilSlice)
            | _ => .err "null value is not allowed / list or set value is required")
         | .map _ =>
           (match T.base with
            | .map _ => .ok (wrapPtr T.depth .nilMap)
            | _ => .err "map or object value is required")
         | _ => .err "null value is not allowed")    -- capsule
    | .unk _ => .err "value must be known"
    | .b v =>
      (match ty with
       | .bool =>
         (match T.base with
          | .bool => if !ms.isEmpty then .panic "marked" else .ok (wrapPtr T.depth (.bool v))
          | _ => .err "bool value is required")
       | _ => .unmodelled)
    | .n x =>
      (match ty with
       | .number =>
         if !ms.isEmpty then .panic "marked"      -- val.AsBigFloat() comes before the kind switch
         else mapRes (wrapPtr T.depth) (fromNum x T.base)
       | _ => .unmodelled)
    | .s v =>
      (match ty with
       | .string =>
         (match T.base with
          | .str => if !ms.isEmpty then .panic "marked" else .ok (wrapPtr T.depth (.str v))
          | _ => .err "string value is required")
       | _ => .unmodelled)
    | .seq cs =>
      (match ty with
       | .list ety =>
         (match T.base with
          | .slice E =>
            if !ms.isEmpty then .panic "marked"
            else mapRes (fun gs => wrapPtr T.depth (.slice gs)) (seqAll (fromCtyL S ety cs E))
          | .array n E =>
            if !ms.isEmpty then .panic "marked"
            else if cs.length ≠ n then .err "must be a list of length"
            else mapRes (fun gs => wrapPtr T.depth (.arr gs)) (seqAll (fromCtyL S ety cs E))
          | _ => .err "list or set value is required")
       | .tuple etys =>
         (match T.base with
          | .struct tags tys =>
            if tys.length ≠ etys.length then .err "a tuple of n elements is required"
            else mapRes (fun gs => wrapPtr T.depth (.struct tags gs)) (seqAll (fromCtyZ S ms etys cs tys))
          | .bigInt | .bigFloat =>
            -- big.Int / big.Float have only unexported fields: either the field count
            -- differs or the first positional target is not settable (`!CanSet()`)
            .err "object or tuple value is required"
          | _ => .err "object or tuple value is required")
       | _ => .unmodelled)
    | .smap ks cs =>
      (match ty with
       | .map ety =>
         (match T.base with
          | .map E =>
            if !ms.isEmpty then .panic "marked"
            else mapRes (fun gs => wrapPtr T.depth (.map ks gs)) (seqAll (fromCtyL S ety cs E))
          | _ => .err "map or object value is required")
       | .object names atys _ =>
         if ks != names then .unmodelled
         else
           (match T.base with
            | .struct tags tys =>
              if missingRequired names (effTags tags) tys then .err "missing required attribute"
              else
                mapRes (fun gs => wrapPtr T.depth (.struct tags (assemble names gs (effTags tags) tys)))
                  (combSched (S 0 names) names (fromCtyA S.next ms names atys cs (effTags tags) tys))
            | .bigInt =>
              if names.isEmpty then .ok (wrapPtr T.depth (zeroVal .bigInt)) else .err "unsupported attribute"
            | .bigFloat =>
              if names.isEmpty then .ok (wrapPtr T.depth (zeroVal .bigFloat)) else .err "unsupported attribute"
            | _ => .err "object or tuple value is required")
       | _ => .unmodelled)
    | .sset _ cs =>
      (match ty with
       | .set ety =>
         (match T.base with
          | .slice E =>
            if !ms.isEmpty then .panic "marked"
            else if cs.length ≥ 2 && (!isPrimTy ety || Payload.containsMarkedL cs) then .unmodelled
            else mapRes (fun gs => wrapPtr T.depth (.slice gs)) (seqAll (setOrder ety cs (fromCtyL S ety cs E)))
          | .array n E =>
            if !ms.isEmpty then .panic "marked"
            else if cs.length ≠ n then .err "must be a set of length"
            else if cs.length ≥ 2 && (!isPrimTy ety || Payload.containsMarkedL cs) then .unmodelled
            else mapRes (fun gs => wrapPtr T.depth (.arr gs)) (seqAll (setOrder ety cs (fromCtyL S ety cs E)))
          | _ => .err "list or set value is required")
       | _ => .unmodelled)
    | .caps => .unmodelled
    | .bad _ => .unmodelled
/-- the elements of a list / map / set (the container is unmarked here) -/
def fromCtyL (S : Sched) (ety : Ty) : List Payload → GoTy → List (Res GoVal)
  | [], _ => []
  | c :: cs, E => fromCtyP S [] ety c E :: fromCtyL S ety cs E
/-- tuple elements into struct fields, position-wise; `val.Index(i)` merges the tuple's marks in -/
def fromCtyZ (S : Sched) (ms : List String) : List Ty → List Payload → List GoTy → List (Res GoVal)
  | ety :: etys, c :: cs, T :: tys => fromCtyP S ms ety c T :: fromCtyZ S ms etys cs tys
  | _, _, _ => []
/-- object attributes into the fields carrying their names; `val.GetAttr(k)` merges the object's marks in -/
def fromCtyA (S : Sched) (ms : List String) : List String → List Ty → List Payload → List String → List GoTy →
    List (Res GoVal)
  | k :: names, aty :: atys, c :: cs, tags, tys =>
    (match lookupTag k tags tys with
     | none => .err "unsupported attribute"
     | some T => fromCtyP S ms aty c T) :: fromCtyA S ms names atys cs tags tys
  | _, _, _, _, _ => []
end

/-- `gocty.FromCtyValue(v, new(T))` under the schedule `S`, and what `*T` holds afterwards -/
def fromCtyS (S : Sched) (v : Value) (T : GoTy) : Res GoVal := fromCtyP S [] v.ty v.v T

/-- … under the schedule that visits attributes in name order (for callers outside the C18 slice;
by `C18.schedule_irrelevant_unmarked` the schedule is immaterial for values without marks) -/
def fromCty (v : Value) (T : GoTy) : Res GoVal := fromCtyP idSched [] v.ty v.v T

end Gocty
end CtyModel
