/-
Specification vocabulary for C18 (Go-value bridging), written independently of
the transliteration in `Gocty.lean`: the integer ranges as closed forms, what
it means for a Go value to inhabit a Go type, and the decidable side conditions
under which the round trip is exact.
-/
import CtyModel.Gocty
import CtyModel.Lemmas.ValEqDec
namespace CtyModel
namespace Gocty

/-- least value of a `b`-bit integer type (`s` = signed) -/
def lo (b : Nat) (s : Bool) : Int := if s then -((2 : Int) ^ (b - 1)) else 0

/-- greatest value of a `b`-bit integer type -/
def hi (b : Nat) (s : Bool) : Int := if s then (2 : Int) ^ (b - 1) - 1 else (2 : Int) ^ b - 1

/-! does `cty.Value` occur anywhere in the Go type -/
mutual
def hasCval : GoTy → Bool
  | .cval => true
  | .slice e | .array _ e | .map e | .ptr e => hasCval e
  | .struct _ tys => hasCvalL tys
  | _ => false
def hasCvalL : List GoTy → Bool
  | [] => false
  | t :: ts => hasCval t || hasCvalL ts
end

/-! `hasTy g T`: the Go value `g` is a value of the Go type `T` (what the Go type
checker guarantees of any `g` a program can hand to `ToCtyValue`), NaN excluded. -/
mutual
def hasTy : GoVal → GoTy → Bool
  | .int v, .int w s => decide (lo w.bits s ≤ v ∧ v ≤ hi w.bits s)
  | .flt x, .float is32 => if is32 then x.isF32 else x.isF64
  | .str _, .str => true
  | .bool _, .bool => true
  | .nilSlice, .slice _ => true
  | .slice vs, .slice e => hasTyL vs e
  | .arr vs, .array n e => vs.length == n && hasTyL vs e
  | .nilMap, .map _ => true
  | .map ks vs, .map e => ks.length == vs.length && Ty.strictAsc ks && hasTyL vs e
  | .nilPtr, .ptr _ => true
  | .ptr v, .ptr e => hasTy v e
  | .struct tags vs, .struct tags' tys => tags == tags' && tags.length == vs.length && hasTyZ vs tys
  | .bigInt _, .bigInt => true
  | .bigFloat _, .bigFloat => true
  | .cval _, .cval => true
  | .cvalNil, .cval => true          -- cty.NilVal, the zero value of the struct type cty.Value
  | _, _ => false
def hasTyL : List GoVal → GoTy → Bool
  | [], _ => true
  | v :: vs, e => hasTy v e && hasTyL vs e
def hasTyZ : List GoVal → List GoTy → Bool
  | [], [] => true
  | v :: vs, t :: ts => hasTy v t && hasTyZ vs ts
  | _, _ => false
end

/-- a type to which a nil pointer can point and still come back as a nil pointer:
its own zero can not stand for null, and it is not passed through as a `cty.Value` -/
def plainPointee : GoTy → Bool
  | .ptr _ | .slice _ | .map _ | .array _ _ | .cval => false
  | _ => true

def allTagged : List String → Bool
  | [] => true
  | t :: ts => t != "" && allTagged ts

/-! `isZero g T`: `g` is the zero value of the Go type `T` (what a field that the
bridge does not carry — one without a `cty` tag — must hold to come back unchanged). -/
mutual
def isZero : GoVal → GoTy → Bool
  | .int v, .int _ _ => v == 0
  | .flt x, .float _ => decide (x = .fin false 0 0 Num.fprec)
  | .str s, .str => s == ""
  | .bool b, .bool => !b
  | .nilSlice, .slice _ => true
  | .arr vs, .array n e => vs.length == n && isZeroL vs e
  | .nilMap, .map _ => true
  | .nilPtr, .ptr _ => true
  | .struct tags vs, .struct tags' tys => tags == tags' && isZeroZ vs tys
  | .bigInt v, .bigInt => v == 0
  | .bigFloat x, .bigFloat => decide (x = .fin false 0 0 0)
  | .cvalNil, .cval => true
  | _, _ => false
def isZeroL : List GoVal → GoTy → Bool
  | [], _ => true
  | v :: vs, e => isZero v e && isZeroL vs e
def isZeroZ : List GoVal → List GoTy → Bool
  | [], [] => true
  | v :: vs, t :: ts => isZero v t && isZeroZ vs ts
  | _, _ => false
end

/-! `rtSide norm g T`: the side conditions of the round-trip theorem.
* every string and map key is fixed by the normaliser (`norm s = s`, i.e. is NFC);
* a nil pointer occurs only where the pointee type is `plainPointee`;
* the `cty` tags of a struct are distinct and NFC; a field without a tag is not
  carried by the bridge and holds its zero value;
* no `cty.Value` below a slice, array or map (a cty list/map has one element type),
  and no `cty.NilVal` (the invalid zero `cty.Value`) in a bridged position. -/
/-- d18: the members of a slice / array / map whose element type is `cty.Value` itself are embedded
values all of ONE type, which is not the dynamic pseudo-type (a cty list / map has one element type;
`Ty.same` is structural equality, `t.equals t` holds of every well-formed type) -/
def sameTyCv (t : Ty) : List GoVal → Bool
  | [] => true
  | .cval w :: vs => Ty.same w.ty t && sameTyCv t vs
  | _ :: _ => false

def uniformCv : GoTy → List GoVal → Bool
  | .cval, [] => true
  | .cval, .cval w :: vs => !isDynTy w.ty && Ty.equals w.ty w.ty && sameTyCv w.ty vs
  | _, _ => false

mutual
def rtSide (norm : String → String) : GoVal → GoTy → Bool
  | .str s, _ => norm s == s
  | .slice vs, .slice e => (!hasCval e || uniformCv e vs) && rtSideL norm vs e
  | .arr vs, .array _ e => (!hasCval e || uniformCv e vs) && rtSideL norm vs e
  | .map ks vs, .map e => ks.map norm == ks && (!hasCval e || uniformCv e vs) && rtSideL norm vs e
  | .nilPtr, .ptr e => plainPointee e
  | .ptr v, .ptr e => rtSide norm v e
  | .struct tags vs, .struct _ tys =>
    tagsDistinct tags && (taggedNames tags).map norm == taggedNames tags && rtSideZ norm tags vs tys
  | .cvalNil, _ => false
  | _, _ => true
def rtSideL (norm : String → String) : List GoVal → GoTy → Bool
  | [], _ => true
  | v :: vs, e => rtSide norm v e && rtSideL norm vs e
def rtSideZ (norm : String → String) : List String → List GoVal → List GoTy → Bool
  | t :: tags, v :: vs, T :: tys =>
    (if t = "" then isZero v T else rtSide norm v T) && rtSideZ norm tags vs tys
  | _, _, _ => true
end

/-! ### numbers: the representation invariant of the wire form and "is the integer k" -/

/-- the normal form every `Num` has that the codec delivers and `Num.mk` builds:
odd mantissa, zero as mantissa 0 with exponent 0 (a representation invariant,
not a restriction on the number: see `normal_mk`) -/
def normalNum : Num → Bool
  | .fin _ m e _ => if m = 0 then e == 0 else m % 2 == 1
  | .inf _ => true

/-- `x` is finite and its exact value `±m·2^e` is the integer `k`
(cross-multiplied, so that no fraction is needed) -/
def IsTheInt (x : Num) (k : Int) : Prop :=
  match x with
  | .fin n m e _ => (if n then -(m : Int) else (m : Int)) * 2 ^ e.toNat = k * 2 ^ (-e).toNat
  | .inf _ => False

/-- 2^1024 − 2^970 = (2^54 − 1)·2^970: the midpoint between the largest float64 and 2^1024 -/
def thr64 : Num := .fin false (2 ^ 54 - 1) 970 64

/-! ### shapes (for "shape mismatches are refused") -/

/-- does a known, non-null value of cty type `ty` have a shape the (pointer-stripped)
Go target type accepts at all?  (`cty.Value` accepts everything; big.Int/big.Float
are structs without tagged fields and accept objects, by design of the struct rule) -/
def shapeOK : Ty → GoTy → Bool
  | _, .cval => true
  | .bool, .bool => true
  | .string, .str => true
  | .number, .int _ _ => true
  | .number, .float _ => true
  | .number, .bigInt => true
  | .number, .bigFloat => true
  | .list _, .slice _ => true
  | .list _, .array _ _ => true
  | .set _, .slice _ => true
  | .set _, .array _ _ => true
  | .map _, .map _ => true
  | .object _ _ _, .struct _ _ => true
  | .object _ _ _, .bigInt => true
  | .object _ _ _, .bigFloat => true
  | .tuple _, .struct _ _ => true
  | _, _ => false

/-- the payload is a known, non-null, unmarked one of the kind its type dictates
(what every `cty.Value` satisfies, C06) -/
def kindOK : Ty → Payload → Bool
  | .bool, .b _ => true
  | .number, .n _ => true
  | .string, .s _ => true
  | .list _, .seq _ => true
  | .tuple _, .seq _ => true
  | .map _, .smap _ _ => true
  | .object names _ _, .smap ks _ => ks == names
  | .set _, .sset _ _ => true
  | _, _ => false

/-! ### outcome classes (for "the schedule decides nothing but error versus panic") -/

/-- an outcome with error and panic merged into one failure -/
inductive Cls (α : Type) where
  | ok (a : α)
  | fail
  | unmodelled

def cls {α} : Res α → Cls α
  | .ok a => .ok a
  | .err _ => .fail
  | .panic _ => .fail
  | .unmodelled => .unmodelled

/-- no marker anywhere in the value -/
def unmarkedDeep (v : Value) : Bool := !v.containsMarked

end Gocty
end CtyModel
