/-
C17, MessagePack half — the decoder model the C17 theorems and the C17 correspondence are about.

`D17.unmarshal` is `Msgpack.unmarshal` (CtyModel/Msgpack.lean, shared with C16) brought up to /repo
bb6ac26: the loop over the refinement map carries the three variables `notNull, minLen, maxLen` of
cty/msgpack/unknown.go, and a not-null list whose two length bounds meet is refused BEFORE
`builder.NewValue()` would build a list of that many unknown elements on the word of the input.
Everything else (items, `Ext`, the per-kind functions, the value constructors) is shared with
`Msgpack.lean`; the mutual block is repeated here because the change sits inside the recursion.

Also here: `allocHint` (cty/msgpack/unmarshal.go, /repo 9555bea 12d5e4f) and the allocation
cost model of the decoder (`allocCost…`), which counts the element slots requested by every
`make(…)` of cty/msgpack/unmarshal.go, type_implied.go and unknown.go on the way through a
document — complete (`Item`) or cut off after a length header (`Cut`).

Core Lean only: the driver links this file.
-/
import CtyModel.Msgpack
namespace CtyModel
namespace D17
open Refine Msgpack

/-- `const max = 1024` of `allocHint` -/
def allocHintMax : Nat := 1024
/-- `allocHint(announced)`: what is pre-allocated on the word of a length header -/
def allocHint (announced : Nat) : Nat := if announced > allocHintMax then allocHintMax else announced

def isListTy : Ty → Bool
  | .list _ => true
  | _ => false

/-- the variables `notNull, minLen, maxLen` of the refinement loop (unknown.go, /repo bb6ac26) -/
structure LenSt where
  notNull : Bool
  minLen : Int
  maxLen : Int
  deriving Repr, BEq, DecidableEq

/-- `notNull, minLen, maxLen := false, 0, math.MaxInt` -/
def lenSt0 : LenSt := ⟨false, 0, Refine.maxInt⟩

/-- `if bound > minLen { minLen = bound }` / `if bound < maxLen { maxLen = bound }` -/
def LenSt.bound (st : LenSt) (isMin : Bool) (bound : Int) : LenSt :=
  if isMin then (if bound > st.minLen then { st with minLen := bound } else st)
  else (if bound < st.maxLen then { st with maxLen := bound } else st)

/-! How the refinement builder's `Value.Equals` on numbers is answered is a parameter
(`Refine.EqOracle`): the driver runs the decoder with `textOracle` (what the code does)
and with `partialOracle` (exact, the instance the theorems are stated for). -/
section Oracle
variable [O : EqOracle]

mutual
def unmarshal (E : Ext) (it : Item) (ty : Ty) : Res Value :=
  match it with
  | .ext code len hdr stream =>
    -- unmarshalUnknownValue (under its deferred recover)
    recoverErr
      (if len ≤ 1 then .ok (Value.unknown ty)
       else if code ≠ unknownWithRefinementsExt then .err "unsupported extension type"
       else if len > maxExtLen then .err "oversize unknown value refinement"
       else
         match hdr with
         | .other => .err "not a map"
         | .ext => .unmodelled
         | .nil =>
           if ty.isDyn then .ok (Value.unknown ty)
           else (Refine.init (Value.unknown ty)).bind Refine.newValue
         | .map n =>
           if ty.isDyn then .ok (Value.unknown ty)
           else (Refine.init (Value.unknown ty)).bind fun b =>
             (rfnLoop E ty n stream b lenSt0).bind fun r =>
               -- /repo bb6ac26: a not-null list whose two length bounds meet is not unknown at all
               if r.2.notNull && isListTy ty && r.2.minLen == r.2.maxLen && decide (r.2.minLen > 0) then
                 .err "invalid refinements for unknown value: a list of known length is not unknown"
               else Refine.newValue r.1)
  | .nil => .ok (Value.null ty)          -- also for the placeholder: `DecodeArrayLen` answers -1
  | .bool b =>
    (match ty with
     | .bool => .ok ⟨.bool, .b b⟩
     | .dyn => .err "array"
     | .capsule _ => .err "unsupported type"
     | _ => .err "wrong kind")
  | .int _ | .uint _ | .f32 _ | .f64 _ | .fnan =>
    (match ty with
     | .number => (unmarshalNumber it).map fun x => ⟨.number, .n x⟩
     | .dyn => .err "array"
     | .capsule _ => .err "unsupported type"
     | _ => .err "wrong kind")
  | .str _ | .bin _ | .binj _ =>
    (match ty with
     | .number => (unmarshalNumber it).map fun x => ⟨.number, .n x⟩
     | .string =>
       (match decString it with
        | .ok s => .ok ⟨.string, .s (E.norm s)⟩
        | .err _ => .err "string is required"     -- also bytes that are not UTF-8 (`utf8.ValidString`)
        | .panic w => .panic w
        | .unmodelled => .unmodelled)
     | .dyn => .err "array"
     | .capsule _ => .err "unsupported type"
     | _ => .err "wrong kind")
  | .arr xs =>
    (match ty with
     | .dyn =>
       -- unmarshalDynamic
       (match xs with
        | [tj, body] =>
          let tyr : Res Ty :=
            match tj with
            | .binj j => typeOfJson E j
            | .nil => .err "unexpected end of JSON input"
            | .bin _ | .str _ => .unmodelled      -- JSON lexing of raw bytes is not modelled
            | _ => .err "bytes"
          (match tyr with
           | .ok ty' => unmarshal E body ty'.stripOpt     -- `ty.WithoutOptionalAttributesDeep()`
           | .err e => .err e
           | .panic w => .panic w
           | .unmodelled => .unmodelled)
        | _ => .err "dynamic value array must have exactly two elements")
     | .list e =>
       if xs.isEmpty then .ok ⟨.list e, .seq []⟩
       else (unmarshalAll E xs e).bind listVal
     | .set e =>
       if xs.isEmpty then .ok ⟨.set e, .sset [] []⟩
       else (unmarshalAll E xs e).bind (setVal E)
     | .tuple es =>
       if xs.length ≠ es.length then .err "a tuple of that length is required"
       else if xs.isEmpty then .ok ⟨.tuple [], .seq []⟩
       else (unmarshalZip E xs es).map tupleVal
     | .capsule _ => .err "unsupported type"
     | _ => .err "wrong kind")
  | .map ks vs =>
    (match ty with
     | .map e =>
       if ks.isEmpty then .ok ⟨.map e, .smap [] []⟩
       else (unmarshalEntries E ks vs e [] []).bind fun r => mapVal E r.1 r.2
     | .object ns ts os =>
       if ks.length ≠ ts.length then .err "an object with that many attributes is required"
       else if ks.isEmpty then .ok ⟨.object [] [] [], .smap [] []⟩
       else (unmarshalAttrs E ks vs ns ts os [] []).bind fun r => objectVal E r.1 r.2
     | .dyn => .err "array"
     | .capsule _ => .err "unsupported type"
     | _ => .err "wrong kind")
/-- members of a list or set -/
def unmarshalAll (E : Ext) : List Item → Ty → Res (List Value)
  | [], _ => .ok []
  | x :: xs, e =>
    match unmarshal E x e with
    | .ok v => (unmarshalAll E xs e).map (v :: ·)
    | .err c => .err c
    | .panic w => .panic w
    | .unmodelled => .unmodelled
/-- members of a tuple (lengths already checked) -/
def unmarshalZip (E : Ext) : List Item → List Ty → Res (List Value)
  | x :: xs, e :: es =>
    (match unmarshal E x e with
     | .ok v => (unmarshalZip E xs es).map (v :: ·)
     | .err c => .err c
     | .panic w => .panic w
     | .unmodelled => .unmodelled)
  | _, _ => .ok []
/-- entries of a cty map: `vals[key] = val`, later duplicates overwrite; a key that is
not a string is an error -/
def unmarshalEntries (E : Ext) : List Item → List Item → Ty → List String → List Value →
    Res (List String × List Value)
  | k :: ks, v :: vs, e, accK, accV =>
    (match decString k with
     | .ok key =>
       (match unmarshal E v e with
        | .ok val =>
          let r := insertKV key val accK accV
          unmarshalEntries E ks vs e r.1 r.2
        | .err c => .err c
        | .panic w => .panic w
        | .unmodelled => .unmodelled)
     | .err "utf8" => .unmodelled              -- a key that is not UTF-8 (the model's strings are)
     | .err _ => .err "non-string key in map"
     | .panic w => .panic w
     | .unmodelled => .unmodelled)
  | _, _, _, accK, accV => .ok (accK, accV)
/-- entries of an object -/
def unmarshalAttrs (E : Ext) : List Item → List Item → List String → List Ty → List Bool →
    List String → List Value → Res (List String × List Value)
  | k :: ks, v :: vs, ns, ts, os, accK, accV =>
    (match decString k with
     | .ok key =>
       (match Ty.find key ns ts os with
        | none => .err "unsupported attribute"
        | some (aty, _) =>
          if accK.contains key then .err "duplicate attribute" else
          (match unmarshal E v aty with
           | .ok val =>
             let r := insertKV key val accK accV
             unmarshalAttrs E ks vs ns ts os r.1 r.2
           | .err c => .err c
           | .panic w => .panic w
           | .unmodelled => .unmodelled))
     | .err _ => .err "all keys must be strings"
     | .panic w => .panic w
     | .unmodelled => .unmodelled)
  | _, _, _, _, _, accK, accV => .ok (accK, accV)
/-- the loop over the entries of a refinement map: `n` entries still announced,
`stream` the items not yet consumed.  The value of an unrecognised key is skipped. -/
def rfnLoop (E : Ext) (ty : Ty) : Nat → List Item → Builder → LenSt → Res (Builder × LenSt)
  | 0, _, b, st => .ok (b, st)
  | _ + 1, [], _, _ => .err "non-integer key in map"
  | n + 1, k :: rest, b, st =>
    match decInt64 k with
    | none => .err "non-integer key in map"
    | some key =>
      if key = keyNullness then
        (match rest with
         | [] => .err "null refinement is not boolean"
         | v :: rest' =>
           (match decBool v with
            | none => .err "null refinement is not boolean"
            | some isNull =>
              (match Refine.step b (if isNull then .null else .notNull) with
               | .ok b' => rfnLoop E ty n rest' b' (if isNull then st else { st with notNull := true })
               | .err c => .err c
               | .panic w => .panic w
               | .unmodelled => .unmodelled)))
      else if key = keyStringPrefix then
        if !ty.isString then .err "string prefix refinement for non-string type"
        else
          (match rest with
           | [] => .err "string prefix refinement is not string"
           | v :: rest' =>
             (match decString v with
              | .ok s =>
                (match Refine.step b (.stringPrefixFull (E.norm s)) with
                 | .ok b' => rfnLoop E ty n rest' b' st
                 | .err c => .err c
                 | .panic w => .panic w
                 | .unmodelled => .unmodelled)
              | .unmodelled => .unmodelled
              | _ => .err "string prefix refinement is not string or not valid UTF-8"))
      else if key = keyLengthMin ∨ key = keyLengthMax then
        if !isCollection ty then .err "length bound refinement for non-collection type"
        else
          (match rest with
           | [] => .err "length bound refinement must be integer"
           | v :: rest' =>
             (match decInt64 v with
              | none => .err "length bound refinement must be integer"
              | some bound =>
                (match Refine.step b (if key = keyLengthMin then .lenLower bound else .lenUpper bound) with
                 | .ok b' => rfnLoop E ty n rest' b' (st.bound (key = keyLengthMin) bound)
                 | .err c => .err c
                 | .panic w => .panic w
                 | .unmodelled => .unmodelled)))
      else if key = keyNumberMin ∨ key = keyNumberMax then
        if !ty.isNumber then .err "numeric bound refinement for non-number type"
        else
          (match rest with
           | [] => .err "bound refinement must be [number, bool] array"
           | v :: rest' =>
             (match unmarshal E v boundTy with
              | .ok raw =>
                if raw.isNull || !raw.isKnown then .err "bound refinement must be [number, bool] array"
                else
                  (match raw.v with
                   | .seq [.n x, .b isInc] =>
                     (match Refine.step b (if key = keyNumberMin then .numLower (.known x) isInc
                                           else .numUpper (.known x) isInc) with
                      | .ok b' => rfnLoop E ty n rest' b' st
                      | .err c => .err c
                      | .panic w => .panic w
                      | .unmodelled => .unmodelled)
                   | _ => .err "bound refinement must be [number, bool] array")
              | .err _ => .err "bound refinement must be [number, bool] array"
              | .panic w => .panic w
              | .unmodelled => .unmodelled))
      else
        (match rest with
         | [] => .err "failed to decode msgpack extension body"
         | _ :: rest' => rfnLoop E ty n rest' b st)
end

/-- `Unmarshal(b, ty)`: optional-attribute annotations are taken off the requested type
first (`ty.WithoutOptionalAttributesDeep()`, /repo afdc0a2), so the type of the result
never carries them; `unmarshal` is the unexported recursive function. -/
def Unmarshal (E : Ext) (it : Item) (ty : Ty) : Res Value := unmarshal E it ty.stripOpt

end Oracle


/-! ## Allocation (cty/msgpack/unmarshal.go, unknown.go after /repo 9555bea)

`allocCost hint E it ty` counts the ELEMENT SLOTS requested by the `make(…)` calls the decoder
reaches on the way through the document `it` for the requested type `ty` — `make([]cty.Value, 0,
allocHint(length))` of unmarshalList/Set/Tuple, `make(map[string]cty.Value, allocHint(length))`
of unmarshalMap/Object, `make([]byte, extLen)` of unmarshalUnknownValue — as an UPPER bound: the
walk does not stop at a member that fails to decode (the decoder does, and then allocates less).
`hint` is what is made of an announced length: `allocHint` in the code as it is, `id` before
/repo 9555bea.  What the collections grow to by `append` / map insertion, the library's own
buffers and the value constructors (`len(vals)` of decoded data) are not counted here: they are
measured on the real code by the harness.

A document is either complete (`Item`) or cut off (`Cut`): the bytes end — or stop being
MessagePack — after a length header that announces more than follows.  That is the case the
clamp is for; an item tree has as many members as its header says. -/

mutual
/-- the size of a document in bytes, from below: every item costs at least its header byte and its
payload.  For an extension item the body (`len` bytes) and the items lexed from it (`stream`) are
BOTH counted — the decoder does copy the body (`make([]byte, extLen)`) and then decodes the copy — so
for a lexed tree this is at most `1 + extDepth` times the number of bytes (`extDepth`: how deeply
extension items sit inside extension bodies; every such body is at most `maxExtLen` bytes, or the
item costs nothing).  The harness checks that relation on every tree it lexes (`d17.allocfit`). -/
def wireSize : Item → Nat
  | .nil | .bool _ | .int _ | .uint _ => 1
  | .f32 _ => 5
  | .f64 _ => 9
  | .fnan => 5
  | .str s => 1 + (bytes s).length
  | .bin b => 2 + b.length
  | .binj _ => 2
  | .arr xs => 1 + wireSizeL xs
  | .map ks vs => 1 + wireSizeL ks + wireSizeL vs
  | .ext _ len _ stream => 2 + len + wireSizeL stream
def wireSizeL : List Item → Nat
  | [] => 0
  | x :: xs => wireSize x + wireSizeL xs
end

mutual
/-- how deeply extension items are nested inside extension bodies -/
def extDepth : Item → Nat
  | .arr xs => extDepthL xs
  | .map ks vs => max (extDepthL ks) (extDepthL vs)
  | .ext _ _ _ stream => 1 + extDepthL stream
  | _ => 0
def extDepthL : List Item → Nat
  | [] => 0
  | x :: xs => max (extDepth x) (extDepthL xs)
end

/-- the type a dynamic wrapper announces (`unmarshalDynamic`), as far as the walk needs it -/
def wrapperTy (E : Ext) : Item → Option Ty
  | .binj j => (match typeOfJson E j with | .ok t => some t.stripOpt | _ => none)
  | _ => none

mutual
def allocCost (hint : Nat → Nat) (E : Ext) : Item → Ty → Nat
  | .ext code len _ stream, _ =>
    if len ≤ 1 then len                                       -- `make([]byte, extLen)` under `extLen <= 1`
    else if code ≠ unknownWithRefinementsExt then 0
    else if len > maxExtLen then 0
    else len + allocCostAll hint E stream boundTy             -- the body; every bound `[number, bool]`
  | .arr xs, ty =>
    (match ty with
     | .dyn =>
       (match xs with
        | [tj, body] =>
          (match wrapperTy E tj with
           | some ty' => allocCost hint E body ty'
           | none => 0)
        | _ => 0)
     | .list e => if xs.isEmpty then 0 else hint xs.length + allocCostAll hint E xs e
     | .set e => if xs.isEmpty then 0 else hint xs.length + allocCostAll hint E xs e
     | .tuple es =>
       if xs.length ≠ es.length then 0 else if xs.isEmpty then 0
       else hint xs.length + allocCostZip hint E xs es
     | _ => 0)
  | .map ks vs, ty =>
    (match ty with
     | .map e => if ks.isEmpty then 0 else hint ks.length + allocCostAll hint E vs e
     | .object ns ts os =>
       if ks.length ≠ ts.length then 0 else if ks.isEmpty then 0
       else hint ks.length + allocCostAttrs hint E ks vs ns ts os
     | _ => 0)
  | _, _ => 0
def allocCostAll (hint : Nat → Nat) (E : Ext) : List Item → Ty → Nat
  | [], _ => 0
  | x :: xs, e => allocCost hint E x e + allocCostAll hint E xs e
def allocCostZip (hint : Nat → Nat) (E : Ext) : List Item → List Ty → Nat
  | x :: xs, e :: es => allocCost hint E x e + allocCostZip hint E xs es
  | _, _ => 0
def allocCostAttrs (hint : Nat → Nat) (E : Ext) : List Item → List Item → List String → List Ty → List Bool → Nat
  | k :: ks, v :: vs, ns, ts, os =>
    (match decString k with
     | .ok key =>
       (match Ty.find key ns ts os with
        | some (aty, _) => allocCost hint E v aty + allocCostAttrs hint E ks vs ns ts os
        | none => 0)
     | _ => 0)
  | _, _, _, _, _ => 0
end

/-- a document that is cut off after a length header -/
inductive Cut where
  /-- nothing (usable) where an item is expected -/
  | eof
  /-- an array header announcing `announced` members, `done` complete members, then the cut -/
  | arr (announced : Nat) (done : List Item) (last : Cut)
  /-- a map header, complete entries, the cut where a key is expected -/
  | mapK (announced : Nat) (ks vs : List Item)
  /-- a map header, complete entries, one more key, the cut inside its value -/
  | mapV (announced : Nat) (ks vs : List Item) (key : Item) (last : Cut)
  /-- an extension header whose body is cut short -/
  | ext (code : Int) (len : Nat)
  deriving Repr, Inhabited

def cutSize : Cut → Nat
  | .eof => 0
  | .arr _ done last => 1 + wireSizeL done + cutSize last
  | .mapK _ ks vs => 1 + wireSizeL ks + wireSizeL vs
  | .mapV _ ks vs key last => 1 + wireSizeL ks + wireSizeL vs + wireSize key + cutSize last
  | .ext _ _ => 2

def allocCostCut (hint : Nat → Nat) (E : Ext) : Cut → Ty → Nat
  | .eof, _ => 0
  | .ext code len, _ =>
    if len ≤ 1 then len else if code ≠ unknownWithRefinementsExt then 0 else if len > maxExtLen then 0 else len
  | .arr n done last, ty =>
    (match ty with
     | .dyn =>
       if n ≠ 2 then 0
       else (match done with
         | [tj] => (match wrapperTy E tj with
           | some ty' => allocCostCut hint E last ty'
           | none => 0)
         | _ => 0)                                   -- the cut is inside the type description
     | .list e => if n = 0 then 0 else hint n + allocCostAll hint E done e + allocCostCut hint E last e
     | .set e => if n = 0 then 0 else hint n + allocCostAll hint E done e + allocCostCut hint E last e
     | .tuple es =>
       if n ≠ es.length then 0 else if n = 0 then 0
       else hint n + allocCostZip hint E done es +
         (match es.drop done.length with
          | e :: _ => allocCostCut hint E last e
          | [] => 0)
     | _ => 0)
  | .mapK n ks vs, ty =>
    (match ty with
     | .map e => if n = 0 then 0 else hint n + allocCostAll hint E vs e
     | .object ns ts os =>
       if n ≠ ts.length then 0 else if n = 0 then 0 else hint n + allocCostAttrs hint E ks vs ns ts os
     | _ => 0)
  | .mapV n ks vs key last, ty =>
    (match ty with
     | .map e => if n = 0 then 0 else hint n + allocCostAll hint E vs e + allocCostCut hint E last e
     | .object ns ts os =>
       if n ≠ ts.length then 0 else if n = 0 then 0
       else hint n + allocCostAttrs hint E ks vs ns ts os +
         (match decString key with
          | .ok k =>
            (match Ty.find k ns ts os with
             | some (aty, _) => allocCostCut hint E last aty
             | none => 0)
          | _ => 0)
     | _ => 0)

end D17
end CtyModel
