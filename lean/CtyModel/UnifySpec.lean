/-
Specification vocabulary for C09, written without reference to the control flow
of unify.go: the Bool-valued predicates of the property clauses.  The theorems of
`Props/C09.lean` are about these predicates; the harness evaluates the same
definitions (through the driver's `un.judge*`) on the outputs of the real
`convert.Unify` / `UnifyUnsafe` and of the conversions they return.
-/
import CtyModel.Unify
import CtyModel.ConvertSpec
namespace CtyModel
namespace Unify
open Convert

/-- clause "the result is a single type [with one conversion slot per input]" -/
def slotsOk (types : List Ty) (convs : List α) : Bool := convs.length == types.length

/-- clause "the conversion is absent exactly when the input already equals the
result", for one input; demanded of every input type that is not the placeholder
itself (`unifyAllAsDynamic` hands a conversion to DynamicPseudoType inputs too) -/
def nilIffEqualAt (ty result : Ty) (isNil : Bool) : Bool :=
  ty.isDyn || (isNil == ty.equals result)

/-- … for the whole slice (`isNil[i]` = `convs[i] == nil`) -/
def nilIffEqual (result : Ty) : List Ty → List Bool → Bool
  | ty :: tys, b :: bs => nilIffEqualAt ty result b && nilIffEqual result tys bs
  | _, _ => true

/-- which entries of a returned slice are nil -/
def nilFlags (convs : Convs) : List Bool := convs.map Option.isNone

/-- clause "each returned conversion applied to any value of its input type yields a
value of the unified type": the type of the outcome conforms to the unified type
(it IS the unified type when that has no placeholder) and carries no
optional-attribute annotation -/
def yieldsUnified (result : Ty) (r : Value) : Bool := conformsTo result r && noOptional r

/-- what "a slot filled the direct way" is: nil when the input type `Equals` the result,
else the conversion `GetConversion[Unsafe](ty, result)` offers; outer `none` = there is
no such conversion -/
def slotOf (E : Env) (uns : Bool) (result ty : Ty) : Option (Option UConv) :=
  if ty.equals result then some none else (getConv E ty result uns).map fun p => some (.plan p)

/-- a tuple among lists / an object among maps: `ty` is the tuple (object) type, `mid`
the list (map) type the tuples (objects) unify to on their own, `t` the unified type -/
def structColl (ty mid t : Ty) : Bool :=
  (isTupleTy ty && isListTy mid && isListTy t) || (isObjectTy ty && isMapTy mid && isMapTy t)

/-- How one slot `c` of the returned slice relates to its input type `ty` and the unified
type `t` — every slot `unify` can return is of one of these five forms
(`Lemmas/UnifySlots.lean`): -/
inductive SlotRel (E : Env) (uns : Bool) (t ty : Ty) : Option UConv → Prop
  /-- filled the direct way -/
  | direct {c : Option UConv} : slotOf E uns t ty = some c → SlotRel E uns t ty c
  /-- the chosen candidate of the preference loop itself -/
  | self : ty = t → SlotRel E uns t ty none
  /-- unifyAllAsDynamic -/
  | allDyn : t = .dyn → SlotRel E uns t ty (some .constDyn)
  /-- a tuple among lists (object among maps) whose own list (map) type already is the
  result: the first step alone -/
  | viaEq {mid : Ty} {p : Plan} : structColl ty mid t = true → (mid.equals t = true ∨ mid = t) →
      getConv E ty mid uns = some p → SlotRel E uns t ty (some (.plan p))
  /-- … or differs from it: the composed closure -/
  | composed {mid : Ty} {p q : Plan} : structColl ty mid t = true → mid.equals t = false →
      getConv E ty mid uns = some p → getConv E mid t uns = some q →
      SlotRel E uns t ty (some (.andThen (some (.plan p)) (.plan q)))

/-- the target types of the steps a returned conversion is made of: the `out` of every
`getConversion(in, out)` closure at its top (one for a slot filled the direct way, two
for a composed closure) -/
def stepTargets : UConv → List Ty
  | .plan (.wrap out _) => [out]
  | .plan _ => []
  | .constDyn => []
  | .andThen (some f) s => stepTargets f ++ stepTargets s
  | .andThen none s => stepTargets s

/-- … for the whole slice -/
def SlotsRel (E : Env) (uns : Bool) (t : Ty) (types : List Ty) (cs : Convs) : Prop :=
  cs.length = types.length ∧
    ∀ (i : Nat) (ty : Ty), types[i]? = some ty → ∃ c, cs[i]? = some c ∧ SlotRel E uns t ty c

/-- the outcome of an applied conversion never is a value of another type:
`ok` of the unified type, or an error (or the model ran out of fuel) -/
def outcomeOk (result : Ty) : Res Value → Bool
  | .ok r => yieldsUnified result r
  | .err _ => true
  | .unmodelled => true
  | .panic _ => false

/-- the input types and the value a `_partial` theorem speaks about:
well-formed, annotation-free, placeholder-free types -/
def plainTy (t : Ty) : Bool := t.wf && !t.hasOpt && !t.hasDyn

/-- "`tys[i]` is preferred to `tys[j]`" as sortTypes reads it — an edge `i → j` of its
graph: `compareTypes` is called once per pair, with the lower index first -/
def prefers (tys : List Ty) (i j : Nat) : Bool :=
  match tys[i]?, tys[j]? with
  | some a, some b =>
    (decide (i < j) && decide (compareTypes a b < 0)) || (decide (j < i) && decide (compareTypes b a > 0))
  | _, _ => false

/-- the nodes sortTypes actually visits, in visiting order (`result` up to the end of
the queue window; the rest of the `result` array keeps its zero value) -/
def sortVisited (tys : List Ty) : List Nat :=
  let l := tys.length
  let edges := (List.range l).map (edgesOf tys)
  let deg := (List.range l).map fun j => (edges.map fun outs => (outs.filter (· == j)).length).sum
  let queue := (List.range l).filter fun i => deg.getD i 1 = 0
  sortLoop edges (l + 1) queue deg []

/-- the kinds of the list send `unify` straight to the general path (the preference
loop): none of the cases of its `switch` applies -/
def generalKinds (types : List Ty) : Bool :=
  let mapCt := count isMapTy types
  let listCt := count isListTy types
  let setCt := count isSetTy types
  let objectCt := count isObjectTy types
  let tupleCt := count isTupleTy types
  let dynamicCt := count Ty.isDyn types
  let n := types.length
  !types.isEmpty &&
  !(mapCt > 0 && mapCt + dynamicCt == n) && !(mapCt > 0 && mapCt + objectCt + dynamicCt == n) &&
  !(listCt > 0 && listCt + dynamicCt == n) && !(listCt > 0 && listCt + tupleCt + dynamicCt == n) &&
  !(setCt > 0 && setCt + dynamicCt == n) && !(objectCt > 0 && objectCt + dynamicCt == n) &&
  !(tupleCt > 0 && tupleCt + dynamicCt == n) && !(objectCt > 0 && tupleCt > 0)

/-- the order is a permutation of `0 … len-1` -/
def isPermutation (n : Nat) (order : List Nat) : Bool :=
  order.length == n && (List.range n).all fun i => order.contains i

end Unify
end CtyModel
