/-
Specification vocabulary for C09, written without reference to the control flow
of unify.go: the Bool-valued predicates of the property clauses.  The theorems of
`Props/C09.lean` are about these predicates; the harness evaluates the same
definitions (through the driver's `un.judge*`) on the outputs of the real
`convert.Unify` / `UnifyUnsafe` and of the conversions they return.
-/
import CtyModel.Unify
import CtyModel.ConvertSpec
namespace CtyModel
namespace Unify
open Convert

/-- clause "the result is a single type [with one conversion slot per input]" -/
def slotsOk (types : List Ty) (convs : List α) : Bool := convs.length == types.length

/-- clause "the conversion is absent exactly when the input already equals the
result", for one input; demanded of every input type that is not the placeholder
itself (`unifyAllAsDynamic` hands a conversion to DynamicPseudoType inputs too) -/
def nilIffEqualAt (ty result : Ty) (isNil : Bool) : Bool :=
  ty.isDyn || (isNil == ty.equals result)

/-- … for the whole slice (`isNil[i]` = `convs[i] == nil`) -/
def nilIffEqual (result : Ty) : List Ty → List Bool → Bool
  | ty :: tys, b :: bs => nilIffEqualAt ty result b && nilIffEqual result tys bs
  | _, _ => true

/-- which entries of a returned slice are nil -/
def nilFlags (convs : Convs) : List Bool := convs.map Option.isNone

/-- clause "each returned conversion applied to any value of its input type yields a
value of the unified type": the type of the outcome conforms to the unified type
(it IS the unified type when that has no placeholder) and carries no
optional-attribute annotation -/
def yieldsUnified (result : Ty) (r : Value) : Bool := conformsTo result r && noOptional r

/-- clause "safe unification never relies on an unsafe conversion", for one slot:
a plan that `GetConversion(input, result)` — safe mode — offers, or the two closures
that involve no conversion table at all -/
def safePlanAt (E : Env) (ty result : Ty) : UConv → Bool
  | .plan p => getConv E ty result false == some p
  | .constDyn => true
  | .thenOrig _ _ => false

/-- the types a composed closure was built from: `mid` is the list / map type the
tuples / objects unified to on their own -/
def safeComposedAt (E : Env) (ty mid result : Ty) : UConv → Bool
  | .thenOrig (some (.plan p)) (.plan q) =>
    getConv E ty mid false == some p && getConv E mid result false == some q
  | _ => false

/-- the outcome of an applied conversion never is a value of another type:
`ok` of the unified type, or an error (or the model ran out of fuel) -/
def outcomeOk (result : Ty) : Res Value → Bool
  | .ok r => yieldsUnified result r
  | .err _ => true
  | .unmodelled => true
  | .panic _ => false

/-- the input types and the value a `_partial` theorem speaks about:
well-formed, annotation-free, placeholder-free types -/
def plainTy (t : Ty) : Bool := t.wf && !t.hasOpt && !t.hasDyn

/-- for sortTypes: position of an index in the returned order -/
def posOf (order : List Nat) (i : Nat) : Option Nat :=
  let p := order.findIdx (· == i)
  if p < order.length then some p else none

/-- "more general than" as sortTypes reads it: `compareTypes(tys[i], tys[j]) < 0` -/
def prefers (tys : List Ty) (i j : Nat) : Bool :=
  match tys[i]?, tys[j]? with
  | some a, some b => decide (compareTypes a b < 0)
  | _, _ => false

/-- the order respects every preference between two of its members:
whenever `i` is preferred to `j`, `i` stands before `j` -/
def respectsPrefs (tys : List Ty) (order : List Nat) : Bool :=
  (List.range tys.length).all fun i => (List.range tys.length).all fun j =>
    !(prefers tys i j) ||
      (match posOf order i, posOf order j with
       | some pi, some pj => decide (pi < pj)
       | _, _ => false)

/-- the order is a permutation of `0 … len-1` -/
def isPermutation (n : Nat) (order : List Nat) : Bool :=
  order.length == n && (List.range n).all fun i => order.contains i

end Unify
end CtyModel
