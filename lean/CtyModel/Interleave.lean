/-
C20 — threads over a memory: the executable definitions of the generic interleaving
semantics (theorems: `Lemmas/HeapInterleave.lean`).  Core Lean only (the driver runs
`exec` for the heap model: `CtyModel/HeapConc.lean`).
-/
namespace CtyModel
namespace Interleave

variable {V R : Type}

/-- a memory -/
abbrev Memory (V : Type) := Nat → V

/-- a step: transforms the memory and returns a result -/
structure Act (V R : Type) where
  run : Memory V → Memory V × R

/-- running a list of steps alone -/
def solo (m : Memory V) : List (Act V R) → Memory V × List R
  | [] => (m, [])
  | a :: as =>
    let r := a.run m
    let rest := solo r.1 as
    (rest.1, r.2 :: rest.2)

/-- configuration of a concurrent run: memory, what each thread still has to do,
what each thread has got back so far -/
structure Cfg (V R : Type) where
  mem : Memory V
  todo : Nat → List (Act V R)
  out : Nat → List R

def upd {α : Type} (f : Nat → α) (i : Nat) (x : α) : Nat → α := fun j => if j = i then x else f j

/-- the scheduler picks thread `i` -/
def tick (c : Cfg V R) (i : Nat) : Cfg V R :=
  match c.todo i with
  | [] => c
  | a :: rest =>
    let r := a.run c.mem
    { mem := r.1, todo := upd c.todo i rest, out := upd c.out i (c.out i ++ [r.2]) }

/-- a schedule is the list of the scheduler's picks -/
def exec (c : Cfg V R) : List Nat → Cfg V R
  | [] => c
  | i :: s => exec (tick c i) s

/-- the initial configuration -/
def start (prog : Nat → List (Act V R)) (m0 : Memory V) : Cfg V R := ⟨m0, prog, fun _ => []⟩

end Interleave
end CtyModel
