/-
Model of the function-call protocol (cty/function/function.go, argument.go,
error.go): `Function.ReturnTypeForValues` and `Function.Call`.

The two callbacks of a `function.Spec` (`Type`, `Impl`) are FUNCTION PARAMETERS
of the model (`TypeFn`, `ImplFn`): total functions into `Res`, so "the callback
returns an error" and "the callback panics" are ordinary values.  The optional
`RefineResult` callback is a field of `Spec` (`RefineFn`).

`returnTypeForValues` and `call` follow the Go control flow branch for branch
(this is what the correspondence harness diffs against /repo); they also return
the *trace* of callback invocations, in order, with the exact argument lists the
callbacks were handed.  The specification vocabulary (`Spec.expand`,
`firstFail`, …) and the lemmas relating the two live in `Lemmas/FnCall.lean`;
the property theorems in `Props/C10.lean`.
-/
import CtyModel.Marks
namespace CtyModel

namespace Payload
/-! Marker layers as cty's constructors build them: never an empty mark set, never a marker
directly inside a marker (`Mark`/`WithMarks` merge into the existing layer).  A
representation invariant of Go values that some C10 theorems assume (`C10.ArgsWF`); the
driver checks it on every value the harness sends (`fn.*` ops answer `marker-wf-violation`). -/
mutual
def markerWF : Payload → Bool
  | .marked ms r => !ms.isEmpty && !r.isMarked && markerWF r
  | .seq vs | .smap _ vs | .sset _ vs => markerWFL vs
  | _ => true
def markerWFL : List Payload → Bool
  | [] => true
  | v :: vs => markerWF v && markerWFL vs
end
end Payload

namespace Fn

/-- `function.Parameter` (Name and Description play no role in the protocol). -/
structure Param where
  ty : Ty
  allowNull : Bool := false
  allowUnknown : Bool := false
  allowDynamic : Bool := false
  allowMarked : Bool := false
  deriving Repr, BEq, Inhabited

/-- `Spec.Type` -/
abbrev TypeFn := List Value → Res Ty
/-- `Spec.Impl` -/
abbrev ImplFn := List Value → Ty → Res Value

/-- `Spec.RefineResult`, seen through `Value.RefineWith`: the callback receives a
`*cty.RefinementBuilder` for the (shallowly unmarked) result and must hand back
the same builder (`RefineWith` panics otherwise), so all it can do is (a) make
the builder panic — `none` — or (b) determine the payload of
`builder.NewValue()`, whose type is always the builder's own — `some payload`. -/
abbrev RefineFn := Value → Option Payload

/-- `function.Spec` without its two main callbacks. -/
structure Spec where
  params : List Param
  varParam : Option Param := none
  refine : Option RefineFn := none

/-- The errors `Call` / `ReturnTypeForValues` can return, by kind. -/
inductive CallErr where
  | argCount                   -- plain error "wrong number of arguments"
  | arg (index : Nat)          -- `function.ArgError{Index: index}`
  | callback (cls : String)    -- the error a callback returned, handed through unchanged
  | panicError (why : String)  -- `function.PanicError`
  deriving Repr, BEq, DecidableEq

/-- Outcome of a protocol entry point.  `panic` is a Go panic escaping the call. -/
inductive Out (α : Type) where
  | ok (a : α)
  | err (e : CallErr)
  | panic (why : String)
  | unmodelled                 -- a callback answered `.unmodelled`
  deriving Repr

namespace Out
def isPanic {α} : Out α → Bool
  | .panic _ => true
  | _ => false
def isOk {α} : Out α → Bool
  | .ok _ => true
  | _ => false
/-- the index carried by an `ArgError`, if the outcome is one -/
def argIndex? {α} : Out α → Option Nat
  | .err (.arg i) => some i
  | _ => none
end Out

/-- One callback invocation. -/
inductive Event where
  | type (args : List Value)
  | impl (args : List Value) (retTy : Ty)
  | refine (v : Value)          -- the value the refinement builder was created for
  deriving Repr

/-- Why the per-argument checks of `returnTypeForValues` stop at an argument. -/
inductive ArgFail where
  | null | dynamic | nonconforming
  deriving Repr, DecidableEq

namespace Param

/-- The argument the `Type` callback sees:
```go
if val.ContainsMarked() && !spec.AllowMarked {
    unmarked, _ := val.UnmarkDeep(); … newArgs[i] = unmarked
```
-/
def typeArg (p : Param) (v : Value) : Value :=
  if v.containsMarked && !p.allowMarked then v.unmarkDeep else v

/-- The checks of one loop iteration of `returnTypeForValues`, in source order:
```go
if val.IsNull() && !spec.AllowNull { return …, NewArgErrorf(…) }
if val.Type() == cty.DynamicPseudoType {
    if !spec.AllowDynamicType { return cty.DynamicPseudoType, true, nil }
} else if errs := val.Type().TestConformance(spec.Type); errs != nil { return …, NewArgError(…) }
```
-/
def check (p : Param) (v : Value) : Option ArgFail :=
  if v.isNull && !p.allowNull then some .null
  else if v.ty.isDyn then
    if !p.allowDynamic then some .dynamic else none
  else if Ty.conformErrs p.ty v.ty != 0 then some .nonconforming
  else none

/-- The argument the `Impl` callback sees, and the marks set aside for the result:
```go
if !spec.AllowMarked {
    unwrappedVal, marks := val.UnmarkDeep()
    if len(marks) > 0 { … newArgs[i] = unwrappedVal; resultMarks = append(resultMarks, marks) … }
}
```
-/
def callArg (p : Param) (v : Value) : Value × List (List String) :=
  if !p.allowMarked then
    if v.marksDeep.length > 0 then (v.unmarkDeep, [v.marksDeep]) else (v, [])
  else (v, [])

/-- `if !val.IsKnown() && !spec.AllowUnknown { returnUnknown = true }` -/
def blocksUnknown (p : Param) (v : Value) : Bool := !v.isKnown && !p.allowUnknown

end Param

/-- State of the argument loops of `returnTypeForValues`. -/
inductive Pass1 where
  | countErr
  | argErr (i : Nat)
  | dyn                          -- `return cty.DynamicPseudoType, true, nil`
  | ok (typeArgs : List Value)   -- the (partly unmarked) copy of `args`
  deriving Repr

/-- One argument loop of `returnTypeForValues`, loop variable `i`.  Go writes the
loop body twice (positional parameters, then the variadic tail); the two copies
differ only in their index expressions: the positional loop reports `i`
(`off = 0`), the variadic loop reports `realI = i + len(posArgs)`
(`off = len(posArgs)`) in both of its error branches. -/
def checkLoop : List Param → List Value → (i off : Nat) → Pass1
  | p :: ps, v :: vs, i, off =>
    match p.check v with
    | some .null => .argErr (i + off)
    | some .dynamic => .dyn
    | some .nonconforming => .argErr (i + off)
    | none =>
      match checkLoop ps vs (i + 1) off with
      | .ok rest => .ok (p.typeArg v :: rest)
      | e => e
  | _, _, _, _ => .ok []

/-- Argument count check and both argument loops of `returnTypeForValues`. -/
def pass1 (spec : Spec) (args : List Value) : Pass1 :=
  let n := spec.params.length
  match spec.varParam with
  | none =>
    if args.length != n then .countErr
    else checkLoop spec.params args 0 0                     -- posArgs = args; varArgs = nil
  | some vp =>
    if args.length < n then .countErr
    else
      let posArgs := args.take n
      let varArgs := args.drop n
      match checkLoop spec.params posArgs 0 0 with
      | .ok pos =>
        match checkLoop (List.replicate varArgs.length vp) varArgs 0 n with
        | .ok var => .ok (pos ++ var)
        | e => e
      | e => e

/-- `Function.returnTypeForValues`: `(ty, dynTypedArgs, err)` and the trace.  The
deferred `recover` turns a panic of the `Type` callback into a `PanicError`. -/
def returnTypeForValues (spec : Spec) (tf : TypeFn) (args : List Value) :
    Out (Ty × Bool) × List Event :=
  match pass1 spec args with
  | .countErr => (.err .argCount, [])
  | .argErr i => (.err (.arg i), [])
  | .dyn => (.ok (.dyn, true), [])
  | .ok targs =>
    match tf targs with
    | .ok ty => (.ok (ty, false), [.type targs])
    | .err c => (.err (.callback c), [.type targs])
    | .panic w => (.err (.panicError w), [.type targs])
    | .unmodelled => (.unmodelled, [.type targs])

/-- `Function.ReturnTypeForValues` -/
def returnTypeForValuesPub (spec : Spec) (tf : TypeFn) (args : List Value) : Out Ty × List Event :=
  match returnTypeForValues spec tf args with
  | (.ok (ty, _), tr) => (.ok ty, tr)
  | (.err e, tr) => (.err e, tr)
  | (.panic w, tr) => (.panic w, tr)
  | (.unmodelled, tr) => (.unmodelled, tr)

/-- `Function.ReturnType`: `ReturnTypeForValues` of unknown values of the given types. -/
def returnType (spec : Spec) (tf : TypeFn) (argTys : List Ty) : Out Ty × List Event :=
  returnTypeForValuesPub spec tf (argTys.map Value.unknown)

/-- union of a list of mark sets -/
def unionAll (mss : List (List String)) : List String := mss.foldr unionMarks []

/-- `val.WithMarks(marks...)` for a slice of mark sets (`len(marks) == 0` returns `val`) -/
def withMarkSets (v : Value) (mss : List (List String)) : Value :=
  if mss.length == 0 then v else v.withMarks (unionAll mss)

/-- State of the argument loops of `Call`. -/
structure Pass2 where
  args : List Value              -- the (partly unmarked) copy of `args`
  marks : List (List String)     -- `resultMarks`
  unknown : Bool                 -- contribution to `returnUnknown`
  deriving Repr

/-- One argument loop of `Call` (the same body for the positional parameters and
for the variadic tail). -/
def pass2 : List Param → List Value → Pass2
  | p :: ps, v :: vs =>
    let r := pass2 ps vs
    { args := (p.callArg v).1 :: r.args
      marks := (p.callArg v).2 ++ r.marks
      unknown := p.blocksUnknown v || r.unknown }
  | _, _ => ⟨[], [], false⟩

/-- `Call` after `returnTypeForValues` succeeded and the `RefineResult` defer has
been registered, up to (not including) the deferred refinement.  The deferred
`recover` covers the `Impl` callback *and* the final conformance assertion
(`defer` is function-scoped in Go), so both come back as `PanicError`. -/
def callBody (spec : Spec) (impl : ImplFn) (args : List Value) (expectedType : Ty)
    (dynTypeArgs : Bool) : Out Value × List Event :=
  let n := spec.params.length
  let posArgs := args.take n
  let varArgs := args.drop n
  let pos := pass2 spec.params posArgs
  let var : Pass2 :=
    match spec.varParam with
    | some vp => pass2 (List.replicate varArgs.length vp) varArgs
    | none => ⟨varArgs, [], false⟩
  let callArgs := pos.args ++ var.args
  let resultMarks := pos.marks ++ var.marks
  let returnUnknown := dynTypeArgs || pos.unknown || var.unknown
  if returnUnknown then
    (.ok (withMarkSets (Value.unknown expectedType) resultMarks), [])
  else
    match impl callArgs expectedType with
    | .panic w => (.err (.panicError w), [.impl callArgs expectedType])
    | .err c => (.err (.callback c), [.impl callArgs expectedType])
    | .unmodelled => (.unmodelled, [.impl callArgs expectedType])
    | .ok retVal =>
      let retVal := if resultMarks.length > 0 then withMarkSets retVal resultMarks else retVal
      if Ty.conformErrs expectedType retVal.ty != 0 then
        (.err (.panicError "result does not conform"), [.impl callArgs expectedType])
      else
        (.ok retVal, [.impl callArgs expectedType])

/-- `val.RefineWith(refineResult)`: builder for the shallowly unmarked value; the
result has the builder's type and gets the original marks back
(`NewValue`: `ret = ret.WithMarks(b.marks)`). -/
def refineWith (r : RefineFn) (val : Value) : Out Value :=
  match r val.unmark with
  | none => .panic "refinement builder"
  | some p => .ok ((⟨val.ty, p⟩ : Value).withMarks val.marks)

/-- The deferred function registered by `Call` when `RefineResult != nil`:
```go
if val != cty.NilVal {
    if val.IsKnown() || val.Type() != cty.DynamicPseudoType { val = val.RefineWith(refineResult) }
}
```
It runs after the `recover` defer, so nothing recovers a panic raised here. -/
def deferredRefine (r : RefineFn) (o : Out Value × List Event) : Out Value × List Event :=
  match o.1 with
  | .ok val =>
    if val.isKnown || !val.ty.isDyn then
      (refineWith r val, o.2 ++ [.refine val.unmark])
    else o
  | _ => o

/-- `Function.Call` -/
def call (spec : Spec) (tf : TypeFn) (impl : ImplFn) (args : List Value) :
    Out Value × List Event :=
  match returnTypeForValues spec tf args with
  | (.err e, tr) => (.err e, tr)
  | (.panic w, tr) => (.panic w, tr)
  | (.unmodelled, tr) => (.unmodelled, tr)
  | (.ok (expectedType, dynTypeArgs), tr) =>
    let body := callBody spec impl args expectedType dynTypeArgs
    let o : Out Value × List Event := (body.1, tr ++ body.2)
    match spec.refine with
    | some r => if !dynTypeArgs then deferredRefine r o else o
    | none => o

/-- `Function.Proxy()(args...)`: `return f.Call(args)` -/
def proxy (spec : Spec) (tf : TypeFn) (impl : ImplFn) (args : List Value) : Out Value × List Event :=
  call spec tf impl args

/-- `Function.WithNewDescriptions(funcDesc, paramDescs)`: a copy of the spec with the
descriptions replaced.  Descriptions play no role in the protocol (the model's `Param` has
none), so the new function has the same `Spec`; what is modelled is the documented panic
when `len(paramDescs)` is neither the number of positional parameters nor (for a variadic
function) that number plus one. -/
def Spec.withNewDescriptions (spec : Spec) (nDescs : Nat) : Out Spec :=
  match spec.varParam with
  | some _ =>
    if nDescs != spec.params.length + 1 && nDescs != spec.params.length then .panic "paramDescs length"
    else .ok spec
  | none =>
    if nDescs != spec.params.length then .panic "paramDescs length" else .ok spec

/-- The same call with the `RefineResult` declaration removed: what `Call`
returns before the deferred refinement runs. -/
def callUnrefined (spec : Spec) (tf : TypeFn) (impl : ImplFn) (args : List Value) :
    Out Value × List Event :=
  call { spec with refine := none } tf impl args

end Fn
end CtyModel
