/-
The Lean side of the Go→Lean translation of cty/function/function.go done by
`extract/translate_fn.go` (output: `Generated/FnCall.lean`).

The translator rewrites the bodies of `Function.returnTypeForValues`,
`Function.ReturnTypeForValues`, `Function.ReturnType` and `Function.Call`
statement by statement.  What it cannot take from the source is *how Go data of
packages cty / function is read as model data* and *what the callees outside the
translated fragment do*; that is fixed here, once, as the GIVEN API:

* a Go function `(T…, error)` is a computation `M (T × …)`: an outcome
  (`Fn.Out`: values with a nil error | a non-nil error, read as a `Fn.CallErr` |
  a Go panic | unmodelled) together with the trace of callback invocations.
  Results that accompany a non-nil error are not modelled (the translator
  refuses code that reads them);
* `f.spec` is a `Fn.Spec`; `Spec.Type` / `Spec.Impl` are the parameters `tf` /
  `impl` (total functions into `Res`: answer, error, panic), every invocation is
  one trace event; a `*Parameter` / a func value that may be nil is an `Option`;
* `[]T` is a `List T` plus — where the source compares a slice with `nil` — a
  `Bool` "is nil" (a nil slice is empty: hypothesis `nil = true → xs = []` of the
  tie theorems); `make([]T, n)` is a `List (Option T)` (`none` = zero value) that
  must be fully assigned before it is handed on (`done`); slices have no spare
  capacity (`x[a:b]` panics for `b > len x`);
* `[]error` is the number of errors (the error values are not evaluated);
* a Go panic is the outcome `.panic`; the two `defer func(){ if r := recover(); … }()`
  wrappers are `deferRecover` (given: a panic of the wrapped code becomes what the
  handler assigns); a deferred closure without `recover` is `deferRun` — it is NOT
  modelled on the panic path (`.unmodelled`; the tie theorems show the code it
  wraps cannot panic);
* `cty.Value` methods and constructors, `Type.TestConformance`, `Value.RefineWith`,
  the error constructors: the hand-written model's functions (table below).

Core only (imported by the generated file).
-/
import CtyModel.Function
namespace CtyModel
namespace FnGo
open Fn

/-- a Go function with an `error` result: outcome and trace of callback invocations -/
abbrev M (α : Type) := Out α × List Event

/-- `return v…, nil` -/
def ret {α} (a : α) : M α := (.ok a, [])
/-- `return zero…, err` with `err != nil` -/
def fail {α} (e : CallErr) : M α := (.err e, [])
/-- `panic(…)` -/
def goPanic {α} (w : String) : M α := (.panic w, [])
def unmodelled {α} : M α := (.unmodelled, [])

/-- the events so far, then `m` -/
def after {α} (tr : List Event) (m : M α) : M α := (m.1, tr ++ m.2)

/-- an operation without callbacks that may panic (index, slice, nil dereference …) -/
def op {α β} (r : Res α) (k : α → M β) : M β :=
  match r with
  | .ok a => k a
  | .panic w => goPanic w
  | _ => unmodelled

/-- `x…, err := g(…)`: continue according to whether `err` is nil -/
def call {α β} (m : M α) (kOk : α → M β) (kErr : CallErr → M β) : M β :=
  match m with
  | (.ok a, tr) => after tr (kOk a)
  | (.err e, tr) => after tr (kErr e)
  | (.panic w, tr) => (.panic w, tr)
  | (.unmodelled, tr) => (.unmodelled, tr)

/-- a callee without an `error` result that may invoke a callback -/
def seq {α β} (m : M α) (k : α → M β) : M β := call m k (fun _ => unmodelled)

/-- GIVEN: `defer func() { if r := recover(); r != nil { …handler… } }()` in front of `rest`:
a panic of `rest` becomes what the handler makes the function return. -/
def deferRecover {α} (handler : String → M α) (rest : M α) : M α :=
  match rest with
  | (.panic w, tr) => after tr (handler w)
  | o => o

/-- `defer func() { …body… }()` (no `recover`) in front of `rest`: the body runs on the
results `rest` returns.  On the panic path it is not modelled. -/
def deferRun {α} (kOk : α → M α) (kErr : CallErr → M α) (rest : M α) : M α :=
  match rest with
  | (.ok a, tr) => after tr (kOk a)
  | (.err e, tr) => after tr (kErr e)
  | (.panic _, tr) => (.unmodelled, tr)
  | (.unmodelled, tr) => (.unmodelled, tr)

/-! ### slices and pointers -/

/-- `xs[i]` -/
def index {α} (xs : List α) (i : Nat) : Res α :=
  match xs[i]? with
  | some a => .ok a
  | none => .panic "index out of range"

/-- `xs[lo:hi]` (`xs[lo:]`: `hi = len xs`, `xs[:hi]`: `lo = 0`) -/
def slice {α} (xs : List α) (lo hi : Nat) : Res (List α) :=
  if lo ≤ hi ∧ hi ≤ xs.length then .ok ((xs.take hi).drop lo) else .panic "slice bounds out of range"

/-- `make([]T, n)` -/
def make {α} (n : Nat) : List (Option α) := List.replicate n none

/-- `copy(dst, src)` -/
def copy {α} (dst : List (Option α)) (src : List α) : List (Option α) :=
  (src.take dst.length).map some ++ dst.drop src.length

/-- `xs[i] = v` -/
def setIdx {α} (xs : List (Option α)) (i : Nat) (v : α) : Res (List (Option α)) :=
  if i < xs.length then .ok (xs.set i (some v)) else .panic "index out of range"

/-- a constructed slice is handed on: every element must have been assigned -/
def done {α} : List (Option α) → Res (List α)
  | [] => .ok []
  | some a :: r =>
    match done r with
    | .ok as => .ok (a :: as)
    | _ => .unmodelled
  | none :: _ => .unmodelled

/-- `errs[i]` for `errs : []error` (only the bounds check is modelled) -/
def errIndex (n i : Nat) : Res Unit := if i < n then .ok () else .panic "index out of range"

/-- `p.Field` through a pointer -/
def deref {α} : Option α → Res α
  | some a => .ok a
  | none => .panic "nil pointer dereference"

/-! ### the given API of packages cty and function -/

/-- `given.TestConformance(want)`: number of errors (`Ty.conformErrs`, C07; its own
regenerated definition is `Generated.TyFns.conformErrs`) -/
def testConformance (given want : Ty) : Nat := Ty.conformErrs want given

/-- `f.spec.Type(args)` -/
def callType (tf : TypeFn) (args : List Value) : M Ty :=
  (match tf args with
   | .ok t => .ok t
   | .err c => .err (.callback c)
   | .panic w => .panic w
   | .unmodelled => .unmodelled, [.type args])

/-- `f.spec.Impl(args, retType)` -/
def callImpl (impl : ImplFn) (args : List Value) (retType : Ty) : M Value :=
  (match impl args retType with
   | .ok v => .ok v
   | .err c => .err (.callback c)
   | .panic w => .panic w
   | .unmodelled => .unmodelled, [.impl args retType])

/-- `val.RefineWith(refineResult)`: invokes the callback on a builder for the unmarked value -/
def refineWith (r : Option RefineFn) (val : Value) : M Value :=
  match r with
  | some r => (Fn.refineWith r val, [.refine val.unmark])
  | none => goPanic "call of a nil func"

/-- `fmt.Errorf(…)` as an error value: a plain error.  The only one the protocol builds is
the argument-count error, hence the model's name for it. -/
def plainError : CallErr := .argCount
/-- `NewArgErrorf(i, …)`, `NewArgError(i, err)` -/
def argError (i : Nat) : CallErr := .arg i
/-- `errorForPanic(r)` -/
def errorForPanic (r : String) : CallErr := .panicError r
/-- a panic VALUE built by `fmt.Errorf(format, …)`.  Panic values are not modelled (nothing
compares them): every such value is read as the model's one why-string. -/
def panicValue (_format : String) : String := "result does not conform"

end FnGo
end CtyModel
