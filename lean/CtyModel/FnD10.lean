/-
C10, slice d10: the WRAPPERS around a `function.Function` and all of its entry points.

`function.Function` is a pointer to a `Spec`; the model's `Func` is the part of the spec the
protocol reads (`Fn.Spec`: parameters, variadic parameter, `RefineResult`) together with the
two callbacks `Type` and `Impl`.  Three constructors make a new function from an old one
(cty/function/function.go `WithNewDescriptions`, cty/function/unpredictable.go `Unpredictable`);
`Proxy()` is an entry point.  Each follows its Go text:

```go
func Unpredictable(f Function) Function {
	newSpec := *f.spec // shallow copy
	newSpec.Impl = unpredictableImpl
	return New(&newSpec)
}
func unpredictableImpl(args []cty.Value, retType cty.Type) (cty.Value, error) {
	return cty.UnknownVal(retType), nil
}
func (f Function) Proxy() ProxyFunc {
	return func(args ...cty.Value) (cty.Value, error) { return f.Call(args) }
}
```

`run f e args` is entry point `e` of function `f` on `args` (`ReturnType` is handed the TYPES of
`args`).  The driver op `fn.wrap` runs `wrap` then `run`; the harness does the same on the real code
(harness/c10_d10.go).

Also here (moved from the driver so that theorems can talk about it): the `RefineResult` menu of
the C10 harness — `b.NotNull()` as the builder performs it, and a callback that panics.

Core only (imported by the driver).
-/
import CtyModel.Function
namespace CtyModel
namespace Fn
namespace D10

/-- `function.Function`: what `f.spec` holds -/
structure Func where
  spec : Spec
  tf : TypeFn
  impl : ImplFn

/-- `unpredictableImpl` -/
def unpredictableImpl : ImplFn := fun _ retType => .ok (Value.unknown retType)

/-- `Unpredictable(f)`: a shallow copy of the spec with `Impl` replaced -/
def Func.unpredictable (f : Func) : Func := { f with impl := unpredictableImpl }

/-- `f.WithNewDescriptions(_, paramDescs)` with `len(paramDescs) = nDescs`: a shallow copy of the
spec (same callbacks) with other descriptions — or the documented panic -/
def Func.withNewDescriptions (f : Func) (nDescs : Nat) : Out Func :=
  match f.spec.withNewDescriptions nDescs with
  | .ok s => .ok { f with spec := s }
  | .err e => .err e
  | .panic w => .panic w
  | .unmodelled => .unmodelled

/-- a constructor of a new function from an old one -/
inductive Wrapper where
  | redesc (nDescs : Nat)      -- `WithNewDescriptions`
  | unpredictable              -- `Unpredictable`
  deriving Repr, DecidableEq

/-- apply the wrappers left to right; a panic of a constructor ends it -/
def wrap (f : Func) : List Wrapper → Out Func
  | [] => .ok f
  | .unpredictable :: ws => wrap f.unpredictable ws
  | .redesc n :: ws =>
    match f.withNewDescriptions n with
    | .ok f' => wrap f' ws
    | o => o

/-- the public entry points that run the protocol -/
inductive Entry where
  | call       -- `f.Call(args)`
  | proxy      -- `f.Proxy()(args...)`
  | rtfv       -- `f.ReturnTypeForValues(args)`
  | rt         -- `f.ReturnType(types of args)`
  deriving Repr, DecidableEq

/-- what an entry point returns: a value or a type -/
inductive Ans where
  | val (v : Value)
  | ty (t : Ty)
  deriving Repr

def mapOut {α β} (g : α → β) : Out α × List Event → Out β × List Event
  | (.ok a, tr) => (.ok (g a), tr)
  | (.err e, tr) => (.err e, tr)
  | (.panic w, tr) => (.panic w, tr)
  | (.unmodelled, tr) => (.unmodelled, tr)

/-- the arguments entry point `e` checks: `ReturnType` makes unknown values of the types -/
def Entry.argsSeen (e : Entry) (args : List Value) : List Value :=
  match e with
  | .rt => (args.map (·.ty)).map Value.unknown
  | _ => args

/-- entry point `e` of `f` on `args` -/
def run (f : Func) (e : Entry) (args : List Value) : Out Ans × List Event :=
  match e with
  | .call => mapOut .val (call f.spec f.tf f.impl args)
  | .proxy => mapOut .val (proxy f.spec f.tf f.impl args)
  | .rtfv => mapOut .ty (returnTypeForValuesPub f.spec f.tf args)
  | .rt => mapOut .ty (returnType f.spec f.tf (args.map (·.ty)))

/-- wrappers, then an entry point; a constructor's panic is a Go panic with no callback invoked -/
def wrapRun (f : Func) (ws : List Wrapper) (e : Entry) (args : List Value) : Out Ans × List Event :=
  match wrap f ws with
  | .ok f' => run f' e args
  | .err er => (.err er, [])
  | .panic w => (.panic w, [])
  | .unmodelled => (.unmodelled, [])

/-! ### the `RefineResult` menu of the C10 harness -/

/-- refinement record a fresh builder starts from (`Value.Refine`), by type -/
def freshRfn : Ty → Rfn
  | .string => .str .u ""
  | .number => .num .u none none
  | .list _ | .set _ | .map _ => .coll .u 0 9223372036854775807
  | _ => .nullable .u

def setNotNull : Rfn → Rfn
  | .unref => .unref
  | .nullable _ => .nullable .f
  | .str _ p => .str .f p
  | .num _ lo hi => .num .f lo hi
  | .coll _ lo hi => .coll .f lo hi

/-- the work-in-progress refinement `Value.Refine()` starts from -/
def wipOf (t : Ty) : Rfn → Rfn
  | .unref => freshRfn t
  | r => r

/-- `NewValue()` for an unknown value of type `t` whose refinement `w` says "not null": the collapse
rules (a number range of one point, a collection of known length); `.unmodelled` = the one-element-set
collapse, whose bucket id needs the value hash -/
def newValueNN (t : Ty) : Rfn → Res Payload
  | .num n (some lo) (some hi) =>
    if lo.incl && hi.incl && Num.cmp lo.v hi.v == 0 then .ok (.n lo.v)
    else .ok (.unk (.num n (some lo) (some hi)))
  | .coll n lo hi =>
    if lo == hi then
      match t with
      | .list _ => .ok (.seq (List.replicate lo.toNat (.unk .unref)))
      | .set _ => if lo == 0 then .ok (.sset [] []) else if lo == 1 then .unmodelled else .ok (.unk (.coll n lo hi))
      | .map _ => if lo == 0 then .ok (.smap [] []) else .ok (.unk (.coll n lo hi))
      | _ => .ok (.unk (.coll n lo hi))
    else .ok (.unk (.coll n lo hi))
  | w => .ok (.unk w)

/-- `func(b) { return b.NotNull() }` followed by `NewValue()`, on a shallowly
unmarked value: `.ok payload`, `.panic` (the builder panics), `.unmodelled`. -/
def notNull (v : Value) : Res Payload :=
  match v.v with
  | .null => .panic "refining null value as non-null"
  | .unk r =>
    if v.ty.isDyn then .ok (.unk r)                       -- DynamicVal: silently ignored
    else if (wipOf v.ty r).nullness == .t then .panic "refining null value as non-null"
    else newValueNN v.ty (setNotNull (wipOf v.ty r))
  | p => .ok p

/-- a `RefineResult` callback that panics itself -/
def refinePanics : Value → Res Payload := fun _ => .panic "refine callback"

/-- the model's `RefineFn` of a refiner: a panic of the builder (or of the callback) is `none` -/
def toRefineFn (r : Value → Res Payload) : RefineFn := fun v =>
  match r v with
  | .ok p => some p
  | _ => none

end D10
end Fn
end CtyModel
