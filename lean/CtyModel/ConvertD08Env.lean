/-
The environment the C08 correspondence driver runs (`Driver/HConvert.lean`), as a
definition the theorems can name: the concrete set parameters of ConvertSet.lean
(`setRules.Hash / Equivalent / Less`) and `Unify.unifyTy`, the transliteration of
the type result of `convert.unify` with its fuel computed from the argument
(`Unify.fuelFor`, three nested calls per level of type nesting).

`Props/C08.lean` proves `UnifyLaws driverEnv` and `SetLaws driverEnv`, so every
C08 theorem that assumes the laws applies to exactly the environment that is
diffed against the Go code on every run (`…_driver` corollaries).
Core Lean only: the driver links this file.
-/
import CtyModel.ConvertSet
import CtyModel.Unify
namespace CtyModel
namespace Convert

/-- the environment of the C08 correspondence driver -/
def driverEnv : Env := Env.concrete Unify.unifyTy

end Convert
end CtyModel
