/-
The set constructor the MessagePack driver runs for `Ext.setOf` (property C16), as a TOTAL
function (it replaces the non-total `equivP` of Driver/HMsgpack.lean), and the decidable
per-value condition `setsApart` under which the law assumed of `cty.SetVal` (`SetsRebuild`,
MsgpackSpec.lean) is PROVED of this constructor (Lemmas/d16SetLemmas.lean:
`setsRebuild_of_apart`).

* `equivF` / `equivP` — `setRules.Equivalent` on decoded members (`Equals` known and true),
  fuel-indexed by the depth of the first argument; numbers are compared in normal form
  (`renorm`: a `big.Float` is always normalised, a wire number may not be);
* `dedupP` / `setOfDedup` — keep the first of equivalent members, in the order they come;
* `apart` — a syntactic sufficient condition on two ORIGINAL members for "no acceptable
  decodings (`Approx`) of them are equivalent"; `setsApart` demands it pairwise at every set node.

Core Lean only, structural / fuel recursion only: linked into the compiled driver.
-/
import CtyModel.MsgpackSpec
namespace CtyModel
namespace Msgpack

/-- a big.Float is always in normal form; the wire may not be -/
def renorm : Num → Num
  | .fin n m e p => Num.mk n m e p
  | x => x

mutual
/-- nesting depth: 1 for a leaf, 1 + the deepest member for a collection -/
def pdepth : Payload → Nat
  | .seq vs => 1 + pdepthL vs
  | .smap _ vs => 1 + pdepthL vs
  | .sset _ vs => 1 + pdepthL vs
  | .marked _ p => 1 + pdepth p
  | _ => 1
def pdepthL : List Payload → Nat
  | [] => 0
  | v :: vs => max (pdepth v) (pdepthL vs)
end

/-- `setRules.Equivalent` as far as `cty.SetVal`'s de-duplication of DECODED members needs it:
`Equals` is known and true (never for a member holding an unknown); fuel-indexed, fuel 0 answers
false.  Any fuel ≥ `pdepth` of the first argument gives the same answer (`equivF_stable`). -/
def equivF : Nat → Payload → Payload → Bool
  | 0, _, _ => false
  | f + 1, a, b =>
    match a, b with
    | .null, .null => true
    | .b x, .b y => x == y
    | .s x, .s y => x == y
    | .n x, .n y => Num.rawEqual (renorm x) (renorm y)
    | .seq xs, .seq ys => xs.length == ys.length && (xs.zip ys).all fun p => equivF f p.1 p.2
    | .smap ks xs, .smap ls ys => ks == ls && xs.length == ys.length && (xs.zip ys).all fun p => equivF f p.1 p.2
    | .sset _ xs, .sset _ ys => xs.length == ys.length && xs.all fun x => ys.any fun y => equivF f x y
    | _, _ => false

/-- … with enough fuel: satisfies the equations of the recursive definition (`equivP_eq`) -/
def equivP (a b : Payload) : Bool := equivF (pdepth a) a b

/-- keep the first of equivalent members (what `set.Add` does) -/
def dedupP : List Payload → List Payload → List Payload
  | [], acc => acc.reverse
  | x :: xs, acc => if acc.any (equivP · x) then dedupP xs acc else dedupP xs (x :: acc)

/-- the set constructor of the driver: members without equivalent duplicates, in the order they
come (the harness compares sets up to order; bucket order is property C03's) -/
def setOfDedup : Ty → List Payload → Res Payload := fun _ vs => .ok (.sset [] (dedupP vs []))

/-- two whole numbers with different values -/
def numApart (x y : Num) : Bool :=
  match x.toInt?, y.toInt? with
  | some i, some j => i != j
  | _, _ => false

mutual
/-- `apart a b`: a SYNTACTIC sufficient condition on two ORIGINAL members for "no acceptable
decodings of them are equivalent": one of them is unknown (an unknown is never Equal-known to
anything), or they have different constructors, or differ in a leaf (bools, strings, whole numbers
with different values), or have different lengths / keys, or some pair of corresponding members is
apart.  For two sets: only different lengths.  (Two capsules, two marked values, two ill-kinded
payloads are never apart; none of them has an acceptable decoding anyway.) -/
def apart : Payload → Payload → Bool
  | .unk _, _ => true
  | .null, q => (match q with | .null => false | _ => true)
  | .b x, q => (match q with | .b y => x != y | _ => true)
  | .s x, q => (match q with | .s y => x != y | _ => true)
  | .n x, q => (match q with | .n y => numApart x y | _ => true)
  | .seq xs, q => (match q with | .seq ys => xs.length != ys.length || apartAny xs ys | _ => true)
  | .smap ks xs, q =>
    (match q with | .smap ls ys => ks != ls || xs.length != ys.length || apartAny xs ys | _ => true)
  | .sset _ xs, q => (match q with | .sset _ ys => xs.length != ys.length | _ => true)
  | .caps, q => (match q with | .caps => false | _ => true)
  | .marked _ _, q => (match q with | .marked _ _ => false | _ => true)
  | .bad _, q => (match q with | .bad _ => false | _ => true)
/-- some position `i` with `apart xs[i] ys[i]` -/
def apartAny : List Payload → List Payload → Bool
  | [], _ => false
  | x :: xs, ys => (match ys with | y :: ys' => apart x y || apartAny xs ys' | [] => false)
end

/-- every member is apart from every later one -/
def pairwiseApart : List Payload → Bool
  | [] => true
  | x :: xs => xs.all (apart x) && pairwiseApart xs

/-- the decidable per-value condition: at every set node, at any depth, the members are pairwise apart -/
def setsApart (t : Ty) (p : Payload) : Bool := (setNodes t p).all fun n => pairwiseApart n.2

end Msgpack
end CtyModel
