/-
cty's own membership rules for sets of values (cty/set_internals.go), raw
equality (cty/value_ops.go `RawEquals`), and the cty-level set constructors and
`ValueSet` (cty/value_init.go `SetVal`, cty/set_helper.go) as instances of the
generic `SetImpl`.

  * `crc32`                 `hash/crc32.ChecksumIEEE` (bitwise, reflected 0xEDB88320)
  * `quote`                 `fmt.Sprintf("%q", s)` = `strconv.Quote`; the printable-rune
                            table of `strconv` is an external library table: the model
                            knows it for Latin-1 and for a few ranges and answers
                            `.unmodelled` for a string with any other rune
  * `hashS`                 `appendSetHashBytes`, every kind of value
  * `rawS`                  `Value.RawEquals`
  * `Lvl.less`              `setRules.Less`
  * `Lvl.iter`              `set.Set.Values()` of a set-typed value: bucket order, then
                            `sort.SliceStable` by `Less`
  * `ctyRules`              `setRules{ety}` as a `Rules Payload`
  * `mkSetVal`, `ValueSet.*`  `cty.SetVal`, `cty.ValueSet` methods

`appendSetHashBytes` and `RawEquals` recurse structurally except at a set-typed
value, where they iterate the set in `Less` order — and `Less` itself calls
`RawEquals` and `makeSetHashBytes` on the members.  The model mirrors that: the
functions `hashS`/`rawS` are structural and take the treatment of a nested set
as a parameter; `lvl n` ties the knot with `n` levels of set nesting.

Core Lean only: the driver links this file.
-/
import CtyModel.Ops2
import CtyModel.SetImpl
import CtyModel.TySpec
namespace CtyModel

abbrev Bytes := List UInt8

/-! ### CRC-32 / IEEE -/

def crcBit (c : Nat) : Nat := if c % 2 = 1 then (c / 2) ^^^ 0xEDB88320 else c / 2

def crcByte (c : Nat) (b : UInt8) : Nat :=
  crcBit (crcBit (crcBit (crcBit (crcBit (crcBit (crcBit (crcBit (c ^^^ b.toNat))))))))

/-- `crc32.ChecksumIEEE` -/
def crc32 (bs : Bytes) : Nat := (bs.foldl crcByte 0xFFFFFFFF) ^^^ 0xFFFFFFFF

/-- `bytes.Compare(a, b) < 0` -/
def bytesLt : Bytes → Bytes → Bool
  | [], [] => false
  | [], _ :: _ => true
  | _ :: _, [] => false
  | a :: as, b :: bs => if a < b then true else if b < a then false else bytesLt as bs

def strBytes (s : String) : Bytes := s.toUTF8.toList

/-! ### `strconv.Quote` -/

/-- `strconv.IsPrint` where the model knows it (`none` elsewhere) -/
def isPrintKnown (c : Nat) : Option Bool :=
  if c < 0x20 then some false
  else if c < 0x7F then some true
  else if c < 0xA1 then some false
  else if c ≤ 0xFF then some (c != 0xAD)
  else if c ≤ 0x377 then some true
  else if 0x1100 ≤ c ∧ c ≤ 0x11FF then some true
  else if 0x2000 ≤ c ∧ c ≤ 0x200F then some false
  else if 0x2010 ≤ c ∧ c ≤ 0x2027 then some true
  else if 0x2028 ≤ c ∧ c ≤ 0x202F then some false
  else if 0x2100 ≤ c ∧ c ≤ 0x213F then some true
  else if 0xAC00 ≤ c ∧ c ≤ 0xD7A3 then some true
  else if 0xFB00 ≤ c ∧ c ≤ 0xFB06 then some true
  else if c = 0xFFFD then some true
  else if 0x1F1E6 ≤ c ∧ c ≤ 0x1F1FF then some true
  else if 0x1F300 ≤ c ∧ c ≤ 0x1F64F then some true
  else none

/-- `n` as exactly `w` lower-case hex digits -/
def hexFixed : Nat → Nat → List Char
  | 0, _ => []
  | w + 1, n => hexFixed w (n / 16) ++ [Sexp.hexDigit (n % 16)]

/-- `appendEscapedRune(buf, r, '"', false, false)` -/
def quoteChar (c : Char) : Option (List Char) :=
  if c = '"' ∨ c = '\\' then some ['\\', c]
  else match isPrintKnown c.toNat with
    | none => none
    | some true => some [c]
    | some false =>
      some (match c.toNat with
        | 7 => ['\\', 'a'] | 8 => ['\\', 'b'] | 12 => ['\\', 'f'] | 10 => ['\\', 'n']
        | 13 => ['\\', 'r'] | 9 => ['\\', 't'] | 11 => ['\\', 'v']
        | n =>
          if n < 0x20 ∨ n = 0x7F then '\\' :: 'x' :: hexFixed 2 n
          else if n < 0x10000 then '\\' :: 'u' :: hexFixed 4 n
          else '\\' :: 'U' :: hexFixed 8 n)

def quoteChars : List Char → Option (List Char)
  | [] => some []
  | c :: cs =>
    match quoteChar c, quoteChars cs with
    | some a, some b => some (a ++ b)
    | _, _ => none

/-- `fmt.Sprintf("%q", s)`; `.unmodelled` when the printable-rune table is not known -/
def quote (s : String) : Res Bytes :=
  match quoteChars s.toList with
  | some cs => .ok (strBytes (String.ofList ('"' :: cs ++ ['"'])))
  | none => .unmodelled

/-! ### hash bytes -/

/-- the text hashed for a number: `"0"` for either zero, else `bf.String()` -/
def numHashText (x : Num) : String := if x.sign == 0 then "0" else Num.textG10 x

/-- how a nested set-typed value is hashed: element type, bucket ids, members -/
abbrev SetHashRec := Ty → List Int → List Payload → Res Bytes

def Res.app (a b : Res Bytes) : Res Bytes :=
  match a, b with
  | .ok x, .ok y => .ok (x ++ y)
  | .ok _, r => r
  | r, _ => r

def semi : Bytes := [59]     -- ';'

mutual
/-- `appendSetHashBytes(Value{t, p})` -/
def hashS (sh : SetHashRec) : Ty → Payload → Res Bytes
  | t, .marked _ r => hashS sh t r
  | _, .unk _ => .ok [63]                          -- '?'
  | _, .null => .ok [126]                          -- '~'
  | .number, .n x => .ok (strBytes (numHashText x))
  | .bool, .b v => .ok (if v then [84] else [70])  -- 'T' / 'F'
  | .string, .s v => quote v
  | .map e, .smap ks vs => Res.app (.ok [123]) (Res.app (hashMapS sh e ks vs) (.ok [125]))      -- { }
  | .list e, .seq vs => Res.app (.ok [91]) (Res.app (hashAllS sh e vs) (.ok [93]))             -- [ ]
  | .set e, .sset ids vs => sh e ids vs
  | .object _ ts _, .smap _ vs => Res.app (.ok [60]) (Res.app (hashZipS sh ts vs) (.ok [62]))  -- < >
  | .tuple ts, .seq vs => Res.app (.ok [60]) (Res.app (hashZipS sh ts vs) (.ok [62]))
  | .capsule _, .caps => .ok (strBytes "«?»")      -- a capsule type without `HashKey`
  | _, _ => .panic "payload does not match type"
termination_by structural _ p => p
def hashAllS (sh : SetHashRec) : Ty → List Payload → Res Bytes
  | _, [] => .ok []
  | e, v :: vs => Res.app (hashS sh e v) (Res.app (.ok semi) (hashAllS sh e vs))
def hashZipS (sh : SetHashRec) : List Ty → List Payload → Res Bytes
  | t :: ts, v :: vs => Res.app (hashS sh t v) (Res.app (.ok semi) (hashZipS sh ts vs))
  | _, _ => .ok []
def hashMapS (sh : SetHashRec) : Ty → List String → List Payload → Res Bytes
  | e, k :: ks, v :: vs =>
    Res.app (quote k) (Res.app (.ok [58]) (Res.app (hashS sh e v) (Res.app (.ok semi) (hashMapS sh e ks vs))))
  | _, _, _ => .ok []
end

/-! ### RawEquals -/

/-- `unknownValRefinement.rawEqual`, both refinements present or both absent -/
def rfnBoundRawEq : Option Bound → Option Bound → Bool
  | none, none => true
  | some a, some b => Num.rawEqual a.v b.v
  | _, _ => false

def rfnRawEq : Rfn → Rfn → Bool
  | .unref, .unref => true
  | .nullable a, .nullable b => a == b
  | .str a p, .str b q => a == b && p == q
  | .num a lo hi, .num b lo' hi' =>
    a == b && rfnBoundRawEq lo lo' && rfnBoundRawEq hi hi' &&
      ((lo.map (·.incl)).getD false == (lo'.map (·.incl)).getD false) &&
      ((hi.map (·.incl)).getD false == (hi'.map (·.incl)).getD false)
  | .coll a lo hi, .coll b lo' hi' => a == b && lo == lo' && hi == hi'
  | _, _ => false

/-- `val.HasSameMarks(other)` -/
def sameMarks (a b : Payload) : Bool :=
  match a, b with
  | .marked m _, .marked m' _ => m == m'
  | .marked _ _, _ => false
  | _, .marked _ _ => false
  | _, _ => true

/-- how two set-typed values are compared: element type, members of either -/
abbrev SetRawRec := Ty → List Payload → List Payload → Res Bool

def Res.andThen (a : Res Bool) (b : Unit → Res Bool) : Res Bool :=
  match a with
  | .ok true => b ()
  | r => r

/-- `val.Equals(other).True()` on unmarked known non-null values of a primitive type -/
def primRawEq (t : Ty) (a b : Payload) : Res Bool :=
  match Value.equalsP t a t b with
  | .ok v => if v.isKnown && !v.isMarked then .ok v.isTrue else .panic "True on unknown or marked"
  | .err c => .err c
  | .panic w => .panic w
  | .unmodelled => .unmodelled

/-- the part of `RawEquals` below the marks / unknown / null tests that does not
recurse: `ty == DynamicPseudoType`, the primitive types, capsules; any other
combination of type and payload kinds is a failed Go type assertion -/
def rawLeaf (t : Ty) (a b : Payload) : Res Bool :=
  match t, a, b with
  | .dyn, _, _ => .ok true
  | .number, a, b => primRawEq .number a b
  | .bool, a, b => primRawEq .bool a b
  | .string, a, b => primRawEq .string a b
  | .capsule _, .caps, .caps => .unmodelled
  | _, _, _ => .panic "payload does not match type"

/-- the tests on the right operand when the left one is unmarked, known and not null -/
def rawRhs (b : Payload) (k : Payload → Res Bool) : Res Bool :=
  match b with
  | .marked _ _ => .ok false
  | .unk _ => .ok false
  | .null => .ok false
  | b => k b

mutual
/-- `Value{t, a}.RawEquals(Value{t, b})` once the types are known to be equal.
`HasSameMarks` followed by `unmarkForce` on both sides is the first two rows.
(Go re-tests `ty.Equals` at every level with the very same `Type` on both
sides; that nested test is not repeated here.) -/
def rawK (sr : SetRawRec) (t : Ty) : Payload → Payload → Res Bool
  | .marked m a, .marked m' b => if m == m' then rawK sr t a b else .ok false
  | .marked _ _, _ => .ok false
  | .unk r, b => match b with
    | .unk r' => .ok (rfnRawEq r r')
    | _ => .ok false
  | .null, b => match b with
    | .null => .ok true
    | _ => .ok false
  | .seq xs, b => rawRhs b fun b =>
    match t, b with
    | .tuple ts, .seq ys => rawZip sr ts xs ys
    | .list e, .seq ys => if xs.length == ys.length then rawAll sr e xs ys else .ok false
    | t, b => rawLeaf t (.seq xs) b
  | .smap kx xs, b => rawRhs b fun b =>
    match t, b with
    | .object _ ts _, .smap _ ys => rawZip sr ts xs ys
    | .map e, .smap ky ys => if xs.length == ys.length then rawMap sr e kx xs ky ys else .ok false
    | t, b => rawLeaf t (.smap kx xs) b
  | .sset ix xs, b => rawRhs b fun b =>
    match t, b with
    | .set e, .sset _ ys => sr e xs ys
    | t, b => rawLeaf t (.sset ix xs) b
  | a, b => rawRhs b fun b => rawLeaf t a b
termination_by structural a => a
def rawZip (sr : SetRawRec) : List Ty → List Payload → List Payload → Res Bool
  | t :: ts, x :: xs, y :: ys => Res.andThen (rawK sr t x y) fun _ => rawZip sr ts xs ys
  | [], _, _ => .ok true
  | _ :: _, _, _ => .panic "index out of range"
def rawAll (sr : SetRawRec) : Ty → List Payload → List Payload → Res Bool
  | e, x :: xs, y :: ys => Res.andThen (rawK sr e x y) fun _ => rawAll sr e xs ys
  | _, _, _ => .ok true
def rawMap (sr : SetRawRec) : Ty → List String → List Payload → List String → List Payload → Res Bool
  | e, k :: ks, x :: xs, ky, ys =>
    match Value.lookupKey k ky ys with
    | none => .ok false
    | some y => Res.andThen (rawK sr e x y) fun _ => rawMap sr e ks xs ky ys
  | _, _, _, _, _ => .ok true
end

/-- `Value{ta, a}.RawEquals(Value{tb, b})` -/
def rawS (sr : SetRawRec) (ta : Ty) (a : Payload) (tb : Ty) (b : Payload) : Res Bool :=
  if !(ta.equals tb) then .ok false else rawK sr ta a b

/-! ### one level of set nesting: `Less`, iteration order -/

/-- the functions available for the members of a set -/
structure Lvl where
  hb : Ty → Payload → Res Bytes
  raw : Ty → Payload → Ty → Payload → Res Bool

namespace Lvl

/-- `setRules{e}.Less(x, y)` -/
def less (L : Lvl) (e : Ty) (x y : Payload) : Res Bool := do
  if ← L.raw e x e y then return false
  if y.isNull && !x.isNull then return true
  if x.isNull then return false
  if x.isKnown && !y.isKnown then return true
  if !x.isKnown then return false
  match e, x, y with
  | .string, .s a, .s b => return bytesLt (strBytes a) (strBytes b)
  | .bool, .b a, .b b => return (b || !a)
  | .number, .n a, .n b => return (Num.cmp a b < 0)
  | .string, _, _ | .bool, _, _ | .number, _, _ => .panic "payload does not match type"
  | _, _, _ =>
    let hx ← L.hb e x
    let hy ← L.hb e y
    return bytesLt hx hy

def lessB (L : Lvl) (e : Ty) (x y : Payload) : Bool :=
  match L.less e x y with
  | .ok b => b
  | _ => false

/-- inner loop of Go's `insertionSort` with a `Less` that may panic
(`SetImpl.insertBack` in the `Res` monad) -/
def insertBackM (less : Payload → Payload → Res Bool) (x : Payload) : List Payload → Res (List Payload)
  | [] => .ok [x]
  | y :: ys =>
    match less x y with
    | .ok true =>
      (match insertBackM less x ys with
        | .ok r => .ok (y :: r)
        | r => r)
    | .ok false => .ok (x :: y :: ys)
    | .err c => .err c
    | .panic w => .panic w
    | .unmodelled => .unmodelled

def sortAuxM (less : Payload → Payload → Res Bool) : List Payload → List Payload → Res (List Payload)
  | acc, [] => .ok acc.reverse
  | acc, x :: xs =>
    match insertBackM less x acc with
    | .ok acc' => sortAuxM less acc' xs
    | r => r

/-- `set.Set.Values()` for cty's rules: members in bucket order (`vs`), then
`sort.SliceStable` by `Less` — Go's insertion sort, exactly the same `Less`
calls in the same order, for up to 20 members (one block); a panicking `Less`
call propagates. -/
def iter (L : Lvl) (e : Ty) (vs : List Payload) : Res (List Payload) :=
  sortAuxM (L.less e) [] vs

def hashAll (L : Lvl) (e : Ty) : List Payload → Res Bytes
  | [] => .ok []
  | v :: vs => Res.app (L.hb e v) (Res.app (.ok semi) (hashAll L e vs))

/-- hash bytes of a set-typed value whose members live at level `L` -/
def setHash (L : Lvl) : SetHashRec := fun e _ vs =>
  match L.iter e vs with
  | .ok ord => Res.app (.ok [91]) (Res.app (L.hashAll e ord) (.ok [93]))
  | .err c => .err c
  | .panic w => .panic w
  | .unmodelled => .unmodelled

def rawAllL (L : Lvl) (e : Ty) : List Payload → List Payload → Res Bool
  | x :: xs, y :: ys => Res.andThen (L.raw e x e y) fun _ => rawAllL L e xs ys
  | _, _ => .ok true

/-- RawEquals of two set-typed values: `AsValueSlice` of both, same length, pairwise -/
def setRaw (L : Lvl) : SetRawRec := fun e xs ys =>
  match L.iter e xs, L.iter e ys with
  | .ok l1, .ok l2 => if l1.length != l2.length then .ok false else L.rawAllL e l1 l2
  | .ok _, .err c => .err c
  | .ok _, .panic w => .panic w
  | .ok _, .unmodelled => .unmodelled
  | .err c, _ => .err c
  | .panic w, _ => .panic w
  | .unmodelled, _ => .unmodelled

end Lvl

/-- the functions for values with at most `n` levels of set nesting -/
def lvl : Nat → Lvl
  | 0 => ⟨fun _ _ => .unmodelled, fun _ _ _ _ => .unmodelled⟩
  | n + 1 =>
    let L := lvl n
    ⟨hashS L.setHash, rawS L.setRaw⟩

namespace Value

/-- `makeSetHashBytes(Value{t, p})` (the bytes; marks are dropped on the way) -/
def hashBytesP (t : Ty) (p : Payload) : Res Bytes := (lvl (p.depth + 1)).hb t p

def hashBytes (v : Value) : Res Bytes := hashBytesP v.ty v.v

/-- `Value.Hash()` -/
def hash (v : Value) : Res Int :=
  match hashBytes v with
  | .ok bs => if v.containsMarked then .panic "hash of marked value" else .ok (crc32 bs)
  | .err c => .err c
  | .panic w => .panic w
  | .unmodelled => .unmodelled

def rawEqP (ta : Ty) (a : Payload) (tb : Ty) (b : Payload) : Res Bool :=
  (lvl (max a.depth b.depth + 1)).raw ta a tb b

/-- `Value.RawEquals` -/
def rawEq (a b : Value) : Res Bool := rawEqP a.ty a.v b.ty b.v

/-- the level at which members of depth ≤ `d` are handled completely -/
def memberLvl (d : Nat) : Lvl := lvl (d + 1)

/-- `setRules{e}.Less` on two members -/
def setLess (e : Ty) (x y : Payload) : Res Bool := (lvl (max x.depth y.depth + 1)).less e x y

/-- iteration order (`ElementIterator`, `AsValueSlice`) of a set-typed value's members -/
def setIter (e : Ty) (vs : List Payload) : Res (List Payload) :=
  (lvl (Payload.depthL vs + 1)).iter e vs

end Value

/-! ### `setRules{e}` as `Rules` for the generic set -/

/-- `setRules{e}.Hash`, `.Equivalent`, `.Less` on raw member payloads.  A call that
does not return normally is mapped to a default (0 / false); `ctyRulesOk` says
when that does not happen. -/
def ctyRules (e : Ty) : Rules Payload where
  hash := fun p => match Value.hash ⟨e, p⟩ with | .ok h => h | _ => 0
  equiv := fun a b =>
    match Value.equals ⟨e, a⟩ ⟨e, b⟩ with
    | .ok v => !v.isMarked && v.isTrue
    | _ => false
  less := some fun a b => match Value.setLess e a b with | .ok r => r | _ => false

/-- the model decides `Hash` and `Equivalent` on these members: no capsule type
(`Ty.hasCapsule`: `Equals` on capsules — pointer identity or the type's own
`Equals` operation — is outside the model),
and every hash is computed (no rune outside the known part of the printable table) -/
def ctyRulesOk (e : Ty) (ms : List Payload) : Bool :=
  !e.hasCapsule && ms.all (fun p => (Value.hash ⟨e, p⟩).isOk)

/-- …and every `Less` call -/
def ctyLessOk (e : Ty) (ms : List Payload) : Bool :=
  ms.all (fun a => ms.all fun b => (Value.setLess e a b).isOk)

/-- `(bucket id, member)` pairs of a set in layout order → the payload of a set-typed value -/
def setPayload (s : SetImpl Payload) : Payload :=
  .sset (s.buckets.flatMap fun kv => kv.2.map fun _ => kv.1) (SetImpl.values s)

/-- the bucket map of a set-typed value's payload (ids ascending, members in slice order) -/
def bucketsOf : List Int → List Payload → List (Int × List Payload)
  | i :: is, v :: vs =>
    match bucketsOf is vs with
    | (j, b) :: rest => if i = j then (j, v :: b) :: rest else (i, [v]) :: (j, b) :: rest
    | [] => [(i, [v])]
  | _, _ => []

namespace Value

/-- `ValueSet.requireElementType` -/
def requireElementType (e : Ty) (v : Value) : Res Unit :=
  if v.isMarked then .panic "cannot store marked value directly in a set"
  else if !(v.ty.equals e) then .panic "wrong element type"
  else .ok ()

/-- element type unification of `SetVal` -/
def setValElemTy : Ty → List Value → Res Ty
  | t, [] => .ok t
  | t, v :: vs =>
    if t.isDyn then setValElemTy v.ty vs
    else if !v.ty.isDyn && !(t.equals v.ty) then .panic "inconsistent set element types"
    else setValElemTy t vs

def marksOfAll : List Value → List String
  | [] => []
  | v :: vs => unionMarks v.marksDeep (marksOfAll vs)

/-- `cty.SetVal(vals)` -/
def mkSetVal (vals : List Value) : Res Value :=
  if vals.isEmpty then .panic "must not call SetVal with empty slice"
  else
    match setValElemTy .dyn vals with
    | .ok e =>
      let raw := vals.map fun v => v.v.stripMarks
      if !ctyRulesOk e raw then .unmodelled
      else
        let s := SetImpl.fromList (ctyRules e) raw
        .ok ((⟨.set e, setPayload s⟩ : Value).withMarks (marksOfAll vals))
    | .err c => .err c
    | .panic w => .panic w
    | .unmodelled => .unmodelled

end Value

end CtyModel
