/-
C01 (slice d01b): the hypotheses of `C01.sound_hasElement_members_partial` as ONE
executable predicate, evaluated by the driver on every paired HasElement run of the
harness whose needle is kept (`judge.c01.scopeHas`): a run that is IN SCOPE and fails the
search predicate on the real code contradicts the theorem and is never matched with a
recorded finding.

Core-only: `eqTyC`, `wtC` … are copies of the fragment predicates of
Lemmas/OpsEquals.lean (which the driver must not import); Lemmas/d01bSide.lean proves
the copies equal to the originals.  `hashCoh` is defined here and used by the lemmas.
-/
import CtyModel.Covers
namespace CtyModel
namespace D01b
open Value

/-- hashing respects `Equals`, as far as this needle and this set go: a member that
`Equals` the needle sits in the bucket `h` the needle hashes to -/
def hashCoh (e : Ty) (x : Payload) (h : Int) : List Int → List Payload → Bool
  | j :: js, y :: ys =>
    (match equalsP e x e y with
     | .ok v => !v.isTrue || j == h
     | _ => true) && hashCoh e x h js ys
  | _, _ => true

mutual
def eqTyC : Ty → Bool
  | .bool | .number | .string => true
  | .list e => eqTyC e
  | .tuple es => eqTyLC es
  | _ => false
def eqTyLC : List Ty → Bool
  | [] => true
  | t :: ts => eqTyC t && eqTyLC ts
end

def kindOKC (t : Ty) (r : Rfn) : Bool :=
  match r with
  | .unref => true
  | .nullable _ => (match t with | .bool | .tuple _ => true | _ => false)
  | .str _ _ => (match t with | .string => true | _ => false)
  | .num _ lo hi => (match t with | .number => true | _ => false) &&
      (match lo with | some b => b.v.isInt | none => true) && (match hi with | some b => b.v.isInt | none => true)
  | .coll _ _ _ => (match t with | .list _ => true | _ => false)

mutual
def wtC : Ty → Payload → Bool
  | _, .null => true
  | t, .unk r => kindOKC t r
  | t, .b _ => (match t with | .bool => true | _ => false)
  | t, .n x => (match t with | .number => x.isInt | _ => false)
  | t, .s _ => (match t with | .string => true | _ => false)
  | t, .seq vs => (match t with | .list e => wtAllC e vs | .tuple es => wtZipC es vs | _ => false)
  | _, _ => false
def wtAllC : Ty → List Payload → Bool
  | _, [] => true
  | e, v :: vs => wtC e v && wtAllC e vs
def wtZipC : List Ty → List Payload → Bool
  | [], [] => true
  | t :: ts, v :: vs => wtC t v && wtZipC ts vs
  | _, _ => false
end

/-- every hypothesis of `C01.sound_hasElement_members_partial` (the set `s`, the needle
`el` with its hash `eh`, the weakened set `ws`) -/
def inScopeHasMembers (s el ws : Value) (eh : Option Int) : Bool :=
  match s.unmark.ty, s.unmark.v, ws.unmark.v, eh with
  | .set e, .sset ids vs, .sset ids' wvs, some h =>
    Ty.equals ws.unmark.ty (.set e) && ws.unmark.ty.wf && Ty.equals el.ty e && el.ty.wf &&
    eqTyC e && wtAllC e vs && wtAllC e wvs && wtC e el.v.stripMarks && el.v.stripMarks.whollyKnown &&
    Payload.whollyKnownL vs && ids.length == vs.length && ids'.length == wvs.length && CoversX ws s &&
    hashCoh e el.v.stripMarks h ids vs && hashCoh e el.v.stripMarks h ids' wvs
  | _, _, _, _ => false

end D01b
end CtyModel
