/-
`cty.ParseNumberVal` = `big.ParseFloat(s, 10, 512, big.ToNearestEven)` (math/big
floatconv.go `Float.Parse`/`Float.scan`, natconv.go `nat.scan`, ratconv.go
`scanExponent`, ftoa `pow5`), transliterated.

Grammar accepted for base 10 (whole string must be consumed):
  `[+-]? digits* ('.' digits*)? ([eEpP] [+-]? digits+)?`  with at least one mantissa digit,
  or `[+-]?(Inf|inf)`.

Value: the decimal mantissa is read exactly as a natural number `mant`; with
`d` digits after the point and exponent `x`: `exp5 = x - d`, `exp2 = x - d` for an
`e` exponent, `exp2 = x - d`, `exp5 = -d` for a `p` exponent.  Then
  exp5 = 0 : round₅₁₂(mant) · 2^exp2
  exp5 > 0 : round₅₁₂(mant · P) · 2^exp2   where P = pow5(exp5)
  exp5 < 0 : round₅₁₂(mant / P) · 2^exp2   where P = pow5(-exp5)
and `pow5 n` is math/big's repeated squaring with a 576-bit accumulator and a
640-bit square — NOT the exact power for n > 248, so the result is math/big's
answer, not necessarily the nearest 512-bit number.  This file follows the
library; it does not "fix" it.

Errors as in the library: an exponent that does not fit int64 (`strconv.ParseInt` in
`scanExponent`, before the zero-mantissa shortcut), and "exponent overflow" when the binary
exponent leaves the int32 range (before any power of 5 is computed).
`.unmodelled`: in-range exponents or digit counts above `parseBound` (math/big computes
them; the model does not try).
-/
import CtyModel.Num
namespace CtyModel
namespace Num

def parseBound : Nat := 20000

/-- longest prefix of decimal digits: (value, number of digits, rest) -/
def scanDigits : List Char → Nat → Nat → Nat × Nat × List Char
  | [], acc, cnt => (acc, cnt, [])
  | c :: cs, acc, cnt =>
    if c.isDigit then scanDigits cs (acc * 10 + (c.toNat - 48)) (cnt + 1) else (acc, cnt, c :: cs)

/-- a scanned literal -/
structure Lit where
  neg : Bool
  mant : Nat
  /-- digits after the point -/
  frac : Nat
  /-- exponent is binary (`p`) rather than decimal (`e`) -/
  bin : Bool
  exp : Int
  deriving Repr, BEq, DecidableEq

/-- `scanSign` -/
def scanSign : List Char → Bool × List Char
  | '-' :: cs => (true, cs)
  | '+' :: cs => (false, cs)
  | cs => (false, cs)

/-- `Float.scan` + the end-of-string check of `Float.Parse`; `none` = error -/
def scanLit (s : String) : Option Lit :=
  match s.toList with
  | [] => none                                   -- scanSign: EOF
  | cs0 =>
  let (neg, cs) := scanSign cs0
  let (ip, n1, cs) := scanDigits cs 0 0
  let (mant, n2, cs) : Nat × Nat × List Char :=
    match cs with
    | '.' :: cs' =>
      let (m, k, r) := scanDigits cs' ip 0
      (m, k, r)
    | _ => (ip, 0, cs)
  if n1 + n2 = 0 then none                       -- errNoDigits
  else
    match cs with
    | [] => some ⟨neg, mant, n2, false, 0⟩
    | c :: cs' =>
      if c = 'e' ∨ c = 'E' ∨ c = 'p' ∨ c = 'P' then
        let (eneg, cs'') : Bool × List Char :=
          match cs' with
          | '-' :: r => (true, r)
          | '+' :: r => (false, r)
          | r => (false, r)
        let (x, k, rest) := scanDigits cs'' 0 0
        if k = 0 then none                       -- errNoDigits
        else if !rest.isEmpty then none          -- expected end of string
        else some ⟨neg, mant, n2, c = 'p' ∨ c = 'P', if eneg then -(x : Int) else x⟩
      else none                                  -- expected end of string

/-- the loop of `(*Float).pow5`: `z` at 576 bits, `f` at 640 bits -/
def pow5Loop : Nat → Nat → Nat × Int → Nat × Int → Nat × Int
  | 0, _, z, _ => z
  | fuel + 1, n, z, f =>
    if n = 0 then z
    else
      let z' := if n % 2 = 1 then roundME (z.1 * f.1) (z.2 + f.2) 576 else z
      let f' := roundME (f.1 * f.1) (f.2 + f.2) 640
      pow5Loop fuel (n / 2) z' f'

/-- `p.pow5(n)` for `p` of precision 576: (mantissa, binary exponent) -/
def pow5 (n : Nat) : Nat × Int :=
  if n ≤ 27 then (5 ^ n, 0)
  else pow5Loop (n.log2 + 2) (n - 27) (5 ^ 27, 0) (5, 0)

/-- correctly rounded quotient `a / b` (b > 0) at `p` bits, times `2^e` -/
def quoRound (neg : Bool) (a b : Nat) (e : Int) (p : Nat) : Num :=
  let s := (p + 3 + bitlen b) - bitlen a
  let num := a <<< s
  let q := num / b
  let r := num % b
  let m2 := 2 * q + (if r = 0 then 0 else 1)
  round neg m2 (e - s - 1) p

/-- `big.ParseFloat(s, 10, 512, ToNearestEven)` -/
def parse512 (s : String) : Res Num :=
  if s = "Inf" ∨ s = "inf" ∨ s = "+Inf" ∨ s = "+inf" then .ok (.inf false)
  else if s = "-Inf" ∨ s = "-inf" then .ok (.inf true)
  else
    match scanLit s with
    | none => .err "a number is required"
    | some l =>
      -- scanExponent: strconv.ParseInt(digits, 10, 64) — an exponent outside int64 is an
      -- error whatever the mantissa is
      if l.exp < -9223372036854775808 ∨ l.exp > 9223372036854775807 then .err "a number is required"
      -- Float.scan: a zero mantissa returns ±0 before the exponent is looked at again
      else if l.mant = 0 then .ok (.fin l.neg 0 0 512)
      -- "exponent overflow": the binary exponent (mantissa bits + radix-point shift + exponent)
      -- must fit big.MinExp..big.MaxExp (int32); checked before any power of 5 is computed
      else if (bitlen l.mant : Int) + l.exp - l.frac < -2147483648 ∨
          (bitlen l.mant : Int) + l.exp - l.frac > 2147483647 then .err "a number is required"
      else if l.frac > parseBound ∨ l.exp.natAbs > parseBound then .unmodelled
      else
        let d : Int := l.frac
        let exp2 : Int := l.exp - d
        let exp5 : Int := if l.bin then -d else l.exp - d
        if exp5 = 0 then .ok (round l.neg l.mant exp2 512)
        else if exp5 > 0 then
          let P := pow5 exp5.toNat
          .ok (round l.neg (l.mant * P.1) (exp2 + P.2) 512)
        else
          let P := pow5 (-exp5).toNat
          .ok (quoRound l.neg l.mant P.1 (exp2 - P.2) 512)

end Num
end CtyModel
