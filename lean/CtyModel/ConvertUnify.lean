/-
The *type* result of `convert.unify(types, unsafe)` (cty/convert/unify.go,
sort_types.go, compare_types.go), as far as package convert's conversion files
need it: it is the instance of `Convert.Env.unify` the correspondence driver
uses (through `Unify.unifyTy`, which computes the fuel from its argument:
`Convert.driverEnv`).  The C08 theorems quantify over every `Env` satisfying
`UnifyLaws`; `Lemmas/UnifyTyLaws.lean` proves it of `unifyTy` (`C08.unifyLaws_driver`).
The conversions `unify` also returns, and the theorems about it, are C09's.

`unify` and `getConversion` call each other (`unify` asks whether a conversion
exists; `conversionTupleToList` etc. ask `unify` for an element type), so the
function is indexed by fuel: `unifyTyF (n+1)` uses `unifyTyF n` for every nested
call, through `Env`.  Out of fuel answers `none` (NilType); the driver's fuel
(`Unify.fuelFor`: 3 × nesting depth + 8) is exercised up to depth 18 by harness/c08_d08.go.

Where the Go code collects attribute types by ranging over a Go map
(`unifyObjectTypesToMap`), the model uses ascending attribute-name order.
-/
import CtyModel.Convert
namespace CtyModel
namespace Convert

/-! ### compareTypes (compare_types.go) -/
mutual
def compareTypes : Ty → Ty → Int
  | a, b =>
    if a.isDyn || b.isDyn then
      (if !a.isDyn then -1 else if !b.isDyn then 1 else 0)
    else if isPrim a && isPrim b && (a.isString || b.isString) then
      (if !a.isString then 1 else if !b.isString then -1 else 0)
    else
      match a, b with
      | .list ae, .list be => compareTypes ae be
      | .set ae, .set be => compareTypes ae be
      | .map ae, .map be => compareTypes ae be
      -- the four swapped pairs, then the three optimistic answers
      | .tuple _, .list _ => 1
      | .object _ _ _, .map _ => 1
      | .set _, .tuple _ => 1
      | .set _, .list _ => 1
      | .tuple _, .set _ => -1
      | .list _, .set _ => -1
      | .list _, .tuple _ => -1
      | .map _, .object _ _ _ => -1
      | .object an at_ ao, .object bn bt bo =>
        if at_.length != bt.length then 0
        else if !(an.all fun k => bn.contains k) then 0
        else
          let flags := cmpFields an at_ ao bn bt bo
          if flags.1 && flags.2 then 0 else if flags.1 then -1 else if flags.2 then 1 else 0
      | .tuple as, .tuple bs =>
        if as.length != bs.length then 0
        else
          let flags := cmpZip as bs
          if flags.1 && flags.2 then 0 else if flags.1 then -1 else if flags.2 then 1 else 0
      | _, _ => 0
termination_by structural a => a
/-- (hasASuper, hasBSuper) over corresponding tuple elements -/
def cmpZip : List Ty → List Ty → Bool × Bool
  | a :: as, b :: bs =>
    let c := compareTypes a b
    let r := cmpZip as bs
    (r.1 || decide (c < 0), r.2 || decide (c > 0))
  | _, _ => (false, false)
termination_by structural as => as
/-- (hasASuper, hasBSuper) over the attributes of a, looked up in b -/
def cmpFields : List String → List Ty → List Bool → List String → List Ty → List Bool → Bool × Bool
  | k :: ks, t :: ts, _ :: os, bn, bt, bo =>
    let r := cmpFields ks ts os bn bt bo
    match Ty.find k bn bt bo with
    | none => r
    | some (bty, _) =>
      let c := compareTypes t bty
      (r.1 || decide (c < 0), r.2 || decide (c > 0))
  | _, _, _, _, _, _ => (false, false)
termination_by structural _ ts => ts
end

/-! ### sortTypes (sort_types.go) -/

/-- `edges[k]`: first the `i < k` appended while the outer loop was at `i`
(`cmp(i,k) > 0`), then the `j > k` appended at outer index `k` (`cmp(k,j) < 0`) -/
def edgesOf (tys : List Ty) (k : Nat) : List Nat :=
  match tys[k]? with
  | none => []
  | some tk =>
    ((List.range k).filter fun i => match tys[i]? with
      | some ti => decide (compareTypes ti tk > 0)
      | none => false) ++
    ((List.range tys.length).filter fun j => j > k && (match tys[j]? with
      | some tj => decide (compareTypes tk tj < 0)
      | none => false))

def decAt (deg : List Nat) (j : Nat) : List Nat :=
  deg.mapIdx fun i d => if i = j then d - 1 else d

/-- the visiting loop: `queue` is the window of pending nodes -/
def sortLoop (edges : List (List Nat)) : Nat → List Nat → List Nat → List Nat → List Nat
  | 0, _, _, visited => visited
  | _ + 1, [], _, visited => visited
  | fuel + 1, i :: queue, deg, visited =>
    let step := (edges.getD i []).foldl (fun (st : List Nat × List Nat) j =>
      let deg' := decAt st.2 j
      if deg'.getD j 1 = 0 then (st.1 ++ [j], deg') else (st.1, deg')) (queue, deg)
    sortLoop edges fuel step.1 step.2 (visited ++ [i])

def sortTypes (tys : List Ty) : List Nat :=
  let l := tys.length
  let edges := (List.range l).map (edgesOf tys)
  let deg := (List.range l).map fun j => (edges.map fun outs => (outs.filter (· == j)).length).sum
  let queue := (List.range l).filter fun i => deg.getD i 1 = 0
  let visited := sortLoop edges (l + 1) queue deg []
  -- the result slice has length l; slots never written stay 0
  visited ++ List.replicate (l - visited.length) 0

/-! ### unify (unify.go), type result only -/

/-- an `Env` that only carries `unify` (conversion *existence* needs nothing else) -/
def Env.ofUnify (U : Bool → List Ty → Option Ty) : Env :=
  { unify := U, hash := fun _ _ => .unmodelled, equiv := fun _ _ _ => .unmodelled, less := fun _ _ _ => false }

def isListTy : Ty → Bool | .list _ => true | _ => false
def isSetTy : Ty → Bool | .set _ => true | _ => false
def isMapTy : Ty → Bool | .map _ => true | _ => false
def isTupleTy : Ty → Bool | .tuple _ => true | _ => false
def isObjectTy : Ty → Bool | .object _ _ _ => true | _ => false

def count (p : Ty → Bool) (ts : List Ty) : Nat := (ts.filter p).length

def elemTyD : Ty → Ty
  | .list e | .set e | .map e => e
  | t => t
def tupleEtysD : Ty → List Ty
  | .tuple es => es
  | _ => []
def attrTysD : Ty → List Ty
  | .object _ ts _ => ts
  | _ => []
def attrNamesD : Ty → List String
  | .object ns _ _ => ns
  | _ => []

section
variable (U : Bool → List Ty → Option Ty) (uns : Bool)

/-- `ty.Equals(retTy)` or a conversion `ty → retTy` exists -/
def convOk (ty retTy : Ty) : Bool :=
  ty.equals retTy || (getConv (Env.ofUnify U) ty retTy uns).isSome

def unifyG' (ts : List Ty) : Option Ty := if ts.isEmpty then none else U uns ts

def unifyCollectionTypes (mk : Ty → Ty) (types : List Ty) (hasDynamic : Bool) : Option Ty :=
  if hasDynamic then some .dyn
  else match unifyG' U uns (types.map elemTyD) with
    | none => none
    | some e =>
      let retTy := mk e
      if types.all fun ty => convOk U uns ty retTy then some retTy else none

def unifyObjectTypesToMap (types : List Ty) : Option Ty :=
  match unifyG' U uns (types.flatMap attrTysD) with
  | none => none
  | some e =>
    let retTy := Ty.map e
    if types.all fun ty => convOk U uns ty retTy then some retTy else none

def unifyTupleTypesToList (types : List Ty) : Option Ty :=
  match unifyG' U uns (types.flatMap tupleEtysD) with
  | none => none
  | some e =>
    let retTy := Ty.list e
    if types.all fun ty => convOk U uns ty retTy then some retTy else none

/-- unify the i-th column; `none` if some column does not unify -/
def unifyColumns : List (List Ty) → Option (List Ty)
  | [] => some []
  | col :: cols =>
    match unifyG' U uns col with
    | none => none
    | some t => (unifyColumns cols).map (t :: ·)

def unifyObjectTypes (types : List Ty) (hasDynamic : Bool) : Option Ty :=
  if hasDynamic then some .dyn
  else
    let first := attrNamesD (types.headD .dyn)
    if !(types.all fun ty => (attrNamesD ty).length == first.length && (attrNamesD ty).all fun n => first.contains n) then
      unifyObjectTypesToMap U uns types
    else
      -- same attribute names everywhere (ascending), so column i is attribute i
      let cols := (List.range first.length).map fun i => types.map fun ty => (attrTysD ty).getD i .dyn
      match unifyColumns U uns cols with
      | none => none
      | some atys =>
        let retTy := Ty.object first atys (atys.map fun _ => false)
        if types.all fun ty => convOk U uns ty retTy then some retTy
        else unifyObjectTypesToMap U uns types

def unifyTupleTypes (types : List Ty) (hasDynamic : Bool) : Option Ty :=
  if hasDynamic then some .dyn
  else
    let n := (tupleEtysD (types.headD .dyn)).length
    if !(types.all fun ty => (tupleEtysD ty).length == n) then unifyTupleTypesToList U uns types
    else
      let cols := (List.range n).map fun i => types.map fun ty => (tupleEtysD ty).getD i .dyn
      match unifyColumns U uns cols with
      | none => none
      | some etys =>
        let retTy := Ty.tuple etys
        if types.all fun ty => convOk U uns ty retTy then some retTy
        else unifyTupleTypesToList U uns types

/-- unifyTuplesAsList: `none` = "did not produce a list type" -/
def unifyTuplesAsList (types : List Ty) : Option Ty :=
  match unifyTupleTypesToList U uns (types.filter isTupleTy) with
  | some (.list e) =>
    match unifyG' U uns (types.map fun t => if isTupleTy t then Ty.list e else t) with
    | some (.list e') => some (.list e')
    | _ => none
  | _ => none

def unifyObjectsAsMaps (types : List Ty) : Option Ty :=
  match unifyObjectTypesToMap U uns (types.filter isObjectTy) with
  | some (.map e) =>
    match unifyG' U uns (types.map fun t => if isObjectTy t then Ty.map e else t) with
    | some (.map e') => some (.map e')
    | _ => none
  | _ => none

/-- the preference loop -/
def unifyGeneral (types : List Ty) : Option Ty :=
  (sortTypes types).findSome? fun wantIdx =>
    match types[wantIdx]? with
    | none => none
    | some want =>
      if (List.range types.length).all fun i =>
          i == wantIdx || (match types[i]? with
            | some t => convOk U uns t want
            | none => true)
      then some want else none

/-- one level of `unify`; `U` answers the nested calls -/
def unifyStep (types : List Ty) : Option Ty :=
  if types.isEmpty then none
  else
    let mapCt := count isMapTy types
    let listCt := count isListTy types
    let setCt := count isSetTy types
    let objectCt := count isObjectTy types
    let tupleCt := count isTupleTy types
    let dynamicCt := count Ty.isDyn types
    let n := types.length
    if mapCt > 0 && mapCt + dynamicCt == n then unifyCollectionTypes U uns .map types (dynamicCt > 0)
    else if mapCt > 0 && mapCt + objectCt + dynamicCt == n then
      match unifyObjectsAsMaps U uns types with
      | some t => some t
      | none => unifyGeneral U uns types
    else if listCt > 0 && listCt + dynamicCt == n then unifyCollectionTypes U uns .list types (dynamicCt > 0)
    else if listCt > 0 && listCt + tupleCt + dynamicCt == n then
      match unifyTuplesAsList U uns types with
      | some t => some t
      | none => unifyGeneral U uns types
    else if setCt > 0 && setCt + dynamicCt == n then unifyCollectionTypes U uns .set types (dynamicCt > 0)
    else if objectCt > 0 && objectCt + dynamicCt == n then unifyObjectTypes U uns types (dynamicCt > 0)
    else if tupleCt > 0 && tupleCt + dynamicCt == n then unifyTupleTypes U uns types (dynamicCt > 0)
    else if objectCt > 0 && tupleCt > 0 then none
    else unifyGeneral U uns types
end

/-- `unify(types, unsafe)`, type result, nesting bounded by fuel -/
def unifyTyF : Nat → Bool → List Ty → Option Ty
  | 0, _, _ => none
  | fuel + 1, uns, types => unifyStep (unifyTyF fuel) uns types

end Convert
end CtyModel
