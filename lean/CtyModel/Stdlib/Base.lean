/-
Shared vocabulary of the stdlib function models (cty/function/stdlib): the
`cty.Value` methods the `Type`/`Impl` callbacks of the collection, sequence and
set functions are written in (`LengthInt`, `ElementIterator`/`AsValueSlice`,
`AsString`, `True`, `Unmark`/`WithMarks`, the constructors), and the `Env` of
things the callbacks obtain from OTHER packages, which are parameters of the
model, never axioms:

* `convert.UnifyUnsafe` and `convert.Convert` (properties C08/C09 model them);
* `Value.Hash()` of a prospective set member (crc32 of `makeSetHashBytes`) and
  the byte-order of two such hash strings (`setRules.Less` for element types
  that are not primitive).

The driver instantiates `Env` from oracle columns the harness computes with the
real library; theorems quantify over every `Env`.

Core Lean only: the driver links this file.
-/
import CtyModel.Ops2
import CtyModel.Function
import CtyModel.Gocty
import CtyModel.SetImpl
import CtyModel.Refine
import CtyModel.SetRules
namespace CtyModel
namespace Stdlib

/-- answers of other packages / of the hash function, as parameters -/
structure Env where
  /-- `convert.UnifyUnsafe(types)`: `.ok none` is `cty.NilType` (no common type) -/
  unify : List Ty → Res (Option Ty) := fun _ => .unmodelled
  /-- `convert.Convert(v, ty)`: `.err` is a conversion error -/
  convert : Value → Ty → Res Value := fun _ _ => .unmodelled
  /-- `Value{ety, p}.Hash()` -/
  hash : Ty → Payload → Option Int := fun _ _ => none
  /-- `bytes.Compare(makeSetHashBytes(a), makeSetHashBytes(b)) < 0` -/
  bytesLess : Ty → Payload → Payload → Bool := fun _ _ _ => false

/-- `convert.Convert(in, want)`: its first statement returns `in` itself when the
type already is the wanted one; everything else is the environment's answer -/
def convertTo (E : Env) (v : Value) (want : Ty) : Res Value :=
  if v.ty.equals want.stripOpt then .ok v else E.convert v want

/-! ### small constructors -/
def strVal (s : String) : Value := ⟨.string, .s s⟩
def emptyTuple : Value := ⟨.tuple [], .seq []⟩
def listEmpty (e : Ty) : Value := ⟨.list e, .seq []⟩
def mapEmpty (e : Ty) : Value := ⟨.map e, .smap [] []⟩
def setEmpty (e : Ty) : Value := ⟨.set e, .sset [] []⟩

/-- propagate a failure to another result type -/
def Res.cast {α β} : Res α → Res β
  | .ok _ => .unmodelled
  | .err c => .err c
  | .panic w => .panic w
  | .unmodelled => .unmodelled

/-- `val.Unmark()` -/
def unmarkPair (v : Value) : Value × List String := (v.unmark, v.marks)

/-- `val.WithMarks(markses...)` -/
abbrev withMarkSets := Fn.withMarkSets

/-- `retType.ElementType()` -/
def elementTypeOf : Ty → Res Ty
  | .list e | .set e | .map e => .ok e
  | _ => .panic "not a collection type"

def isListTy : Ty → Bool | .list _ => true | _ => false
def isSetTy : Ty → Bool | .set _ => true | _ => false
def isMapTy : Ty → Bool | .map _ => true | _ => false
def isTupleTy : Ty → Bool | .tuple _ => true | _ => false
def isObjectTy : Ty → Bool | .object _ _ _ => true | _ => false

/-- pair per-position types with payloads (tuple elements, object attributes) -/
def zipTV : List Ty → List Payload → List Value
  | t :: ts, p :: ps => ⟨t, p⟩ :: zipTV ts ps
  | _, _ => []

/-- `val.True()` -/
def boolTrue (v : Value) : Res Bool :=
  if v.isMarked then .panic "value is marked"
  else if !v.ty.isBool then .panic "not bool"
  else match v.v with
    | .b x => .ok x
    | _ => .panic "interface conversion: not bool"

/-- `val.AsString()` -/
def asString (v : Value) : Res String :=
  if v.isMarked then .panic "value is marked"
  else if !v.ty.isString then .panic "not a string"
  else match v.v with
    | .null => .panic "value is null"
    | .unk _ => .panic "value is unknown"
    | .s x => .ok x
    | _ => .panic "interface conversion: not string"

/-- `val.LengthInt()` -/
def lengthInt (v : Value) : Res Nat :=
  if v.isMarked then .panic "value is marked" else
  match v.ty with
  | .tuple ts => .ok ts.length
  | .object ns _ _ => .ok ns.length
  | t =>
    match v.v with
    | .unk _ => .panic "value is not known"
    | .null => .panic "value is null"
    | p =>
      match t, p with
      | .list _, .seq vs => .ok vs.length
      | .set _, .sset _ vs => .ok vs.length
      | .map _, .smap _ vs => .ok vs.length
      | _, _ => .panic "value is not a collection"

/-! ### `setRules.Less` and the iteration order of a set -/

/-- `v1.RawEquals(v2)`, the first test of `setRules.Less` (the RawEquals model of
SetRules.lean; structural identity is its reflexive case, kept as a shortcut).
Two members of one set CAN be RawEquals: two numbers that are `Equals`-equal by their
shortest decimal text but hash into different buckets (C03 hash-coherence finding) —
then `Less` answers false both ways and the stable sort keeps the bucket order. -/
def setRawEq (ety : Ty) (a b : Payload) : Bool :=
  a == b || (match Value.rawEqP ety a ety b with
    | .ok r => r
    | _ => false)

/-- `setRules{ety}.Less(a, b)` on mark-free member payloads. -/
def setLess (E : Env) (ety : Ty) (a b : Payload) : Bool :=
  if setRawEq ety a b then false
  else if b.isNull && !a.isNull then true
  else if a.isNull then false
  else if a.isKnown && !b.isKnown then true
  else if !a.isKnown then false
  else match ety with
    | .string => (match a, b with
      | .s x, .s y => decide (x < y)
      | _, _ => false)
    | .bool => (match a, b with
      | .b x, .b y => y || !x
      | _, _ => false)
    | .number => (match a, b with
      | .n x, .n y => decide (Num.cmp x y < 0)
      | _, _ => false)
    | _ => E.bytesLess ety a b

/-- members of a set payload in `ElementIterator` order: `set.Values()` = bucket
order (the wire order) then `sort.SliceStable` by `Less` -/
def setIter (E : Env) (ety : Ty) (vs : List Payload) : List Payload :=
  SetImpl.sortStable (setLess E ety) vs

/-- the values an `ElementIterator` yields, in order (`AsValueSlice` for a
non-empty value) -/
def elems (E : Env) (v : Value) : Res (List Value) :=
  match v.ty, v.v with
  | _, .marked _ _ => .panic "value is marked"
  | _, .unk _ => .panic "can't use ElementIterator on unknown value"
  | _, .null => .panic "can't use ElementIterator on null value"
  | .list e, .seq vs => .ok (vs.map (⟨e, ·⟩))
  | .map e, .smap _ vs => .ok (vs.map (⟨e, ·⟩))
  | .set e, .sset _ vs => .ok ((setIter E e vs).map (⟨e, ·⟩))
  | .tuple ts, .seq vs => .ok (zipTV ts vs)
  | .object _ ts _, .smap _ vs => .ok (zipTV ts vs)
  | _, _ => .panic "cannot iterate this value"

/-- the keys an `ElementIterator` over a map or object yields -/
def elemKeys (v : Value) : Res (List String) :=
  match v.ty, v.v with
  | _, .marked _ _ => .panic "value is marked"
  | _, .unk _ => .panic "can't use ElementIterator on unknown value"
  | _, .null => .panic "can't use ElementIterator on null value"
  | .map _, .smap ks _ => .ok ks
  | .object ns _ _, .smap _ _ => .ok ns
  | _, _ => .panic "no string keys"

/-- `val.AsValueSlice()` (`LengthInt` first: a zero-length tuple type gives `nil`
even for an unknown value) -/
def asValueSlice (E : Env) (v : Value) : Res (List Value) :=
  match lengthInt v with
  | .ok 0 => .ok []
  | .ok _ => elems E v
  | r => Res.cast r

/-- `gocty.FromCtyValue(v, &i)` for `var i int` -/
def fromCtyInt (v : Value) : Res Int :=
  match Gocty.fromCty v (.int .wInt true) with
  | .ok (.int i) => .ok i
  | .ok _ => .panic "not an int"
  | .err c => .err c
  | .panic w => .panic w
  | .unmodelled => .unmodelled

/-- Go's `a % b` on `int` (remainder of truncated division) -/
def goMod (a b : Int) : Int := Int.tmod a b

/-! ### constructors that build sets -/

/-- regroup a flat `(id, member)` listing into the bucket map of `SetImpl` -/
def toBuckets : List Int → List Payload → List (Int × List Payload)
  | i :: is, v :: vs =>
    match toBuckets is vs with
    | (j, b) :: rest => if i == j then (j, v :: b) :: rest else (i, [v]) :: (j, b) :: rest
    | [] => [(i, [v])]
  | _, _ => []

def bucketIds (bs : List (Int × List Payload)) : List Int :=
  bs.flatMap fun kv => kv.2.map fun _ => kv.1
def bucketVals (bs : List (Int × List Payload)) : List Payload :=
  bs.flatMap fun kv => kv.2

/-- `setRules{ety}` as `set.Rules`: hash from the environment, `Equivalent` is
`Equals(...) == true`, ordered by `Less` -/
def setRules (E : Env) (ety : Ty) : Rules Payload :=
  { hash := fun p => (E.hash ety p).getD 0
    equiv := fun a b => match Value.equalsP ety a ety b with
      | .ok v => v.isTrue
      | _ => false
    less := some (setLess E ety) }

/-- a `SetImpl` as a set value of element type `ety` -/
def ofSetImpl (ety : Ty) (s : SetImpl Payload) : Value :=
  ⟨.set ety, .sset (bucketIds s.buckets) (bucketVals s.buckets)⟩

/-- `cty.SetVal(vals)` for a non-empty slice -/
def setVal (E : Env) (ws : List Value) : Res Value :=
  if ws.isEmpty then .panic "must not call SetVal with empty slice" else
  let markSets := (ws.filter fun w => w.marksDeep.length > 0).map (·.marksDeep)
  let ws := ws.map fun w => if w.marksDeep.length > 0 then w.unmarkDeep else w
  match Gocty.elemTypeOf .dyn ws with
  | .ok et =>
    if (Gocty.payloads ws).any fun p => (E.hash et p).isNone then .unmodelled
    else .ok (withMarkSets (ofSetImpl et (SetImpl.fromList (setRules E et) (Gocty.payloads ws))) markSets)
  | r => Res.cast r

/-! ### `refineNonNull` (general.go): `RefineResult: func(b) { return b.NotNull() }` -/
def refineNN : Fn.RefineFn := fun v =>
  match Refine.refine v [.notNull] with
  | .ok r => some r.v
  | _ => none

/-- does `refineNN` leave the modelled fragment on this value? -/
def refineNNUnmodelled (v : Value) : Bool :=
  match Refine.refine v [.notNull] with
  | .unmodelled => true
  | _ => false

end Stdlib
end CtyModel
