/-
Library glue of the stdlib string / regexp / date / CSV functions
(cty/function/stdlib/string.go, string_replace.go, regexp.go, datetime.go,
csv.go): each `Impl` is `post ∘ library`.  The Go standard library is the
parameter `L : Lib` — one field per library function the code calls, taking the
arguments in the order the code passes them.  What is modelled is what cty does
around the call: which call, argument order, NFC re-normalisation by
`cty.StringVal`, list / tuple / object construction, capture groups → result
type, duplicate CSV headers, error mapping.  `formatdate` is modelled completely
(tokenizer and verbs) on top of the parsed timestamp.
-/
import CtyModel.Stdlib.Strings
namespace CtyModel
namespace StdNum

/-- a parsed timestamp, as the accessors of `time.Time` report it -/
structure Time where
  year : Nat
  month : Nat       -- 1..12
  day : Nat
  weekday : Nat     -- 0 = Sunday
  hour : Nat
  minute : Nat
  second : Nat
  offset : Int      -- zone offset in seconds east of UTC
  deriving Repr, BEq, DecidableEq, Inhabited

/-- what `csv.Reader.Read` in a loop delivers: the records read before the first
error (or EOF), and whether it ended in an error -/
structure CsvRead where
  records : List (List String)
  failed : Bool
  deriving Repr, BEq, Inhabited

/-- the Go standard library (and x/text, textseg) as far as these functions call it -/
structure Lib where
  nfc : String → String                                   -- norm.NFC.String (inside cty.StringVal / cty.Object)
  clusters : String → List String                         -- textseg.ScanGraphemeClusters, iterated
  toUpper : String → String
  toLower : String → String
  title : String → String
  trimSpace : String → String
  trim : String → String → String                         -- strings.Trim(str, cutset)
  trimPrefix : String → String → String                   -- strings.TrimPrefix(str, prefix)
  trimSuffix : String → String → String
  replaceAll : String → String → String → String          -- strings.Replace(str, old, new, -1)
  split : String → String → List String                   -- strings.Split(str, sep)
  regexCompile : String → Option (List String)            -- regexp.Compile(p): none = error, else SubexpNames()[1:]
  regexReplaceAll : String → String → String → String     -- Compile(p).ReplaceAllString(str, repl), as (p, str, repl)
  regexFind : String → String → Option (List Int)         -- Compile(p).FindStringSubmatchIndex(str)
  regexFindAll : String → String → List (List Int)        -- Compile(p).FindAllStringSubmatchIndex(str, -1)
  parseTimestamp : String → Option Time                   -- strict RFC 3339
  parseDuration : String → Bool                           -- time.ParseDuration(d) succeeds
  timeAdd : String → String → String                      -- ts.Add(d).Format(time.RFC3339)
  csvHeader : String → Option (Option (List String))      -- first Read(): none = io.EOF, some none = error, some (some h)
  csvAll : String → Nat → CsvRead                         -- every Read() with FieldsPerRecord = n (header first)
  fmtInt : String → Int → String                          -- fmt.Sprintf(verb, *big.Int)
  fmtFloat : String → Num → String                        -- fmt.Sprintf(verb, *big.Float)
  textG : Num → String                                    -- bf.Text('g', -1)
  jsonStr : String → String                               -- cty/json.Marshal(cty.StringVal(s), cty.String)

/-! ### one-call functions -/

def upperImpl (L : Lib) (args : List Value) : Res Value := do
  let s ← asString (← arg args 0)
  pure (stringVal L.nfc (L.toUpper s))

def lowerImpl (L : Lib) (args : List Value) : Res Value := do
  let s ← asString (← arg args 0)
  pure (stringVal L.nfc (L.toLower s))

def titleImpl (L : Lib) (args : List Value) : Res Value := do
  let s ← asString (← arg args 0)
  pure (stringVal L.nfc (L.title s))

def trimSpaceImpl (L : Lib) (args : List Value) : Res Value := do
  let s ← asString (← arg args 0)
  pure (stringVal L.nfc (L.trimSpace s))

def trimImpl (L : Lib) (args : List Value) : Res Value := do
  let str ← asString (← arg args 0)
  let cutset ← asString (← arg args 1)
  pure (stringVal L.nfc (L.trim str cutset))

def trimPrefixImpl (L : Lib) (args : List Value) : Res Value := do
  let str ← asString (← arg args 0)
  let pfx ← asString (← arg args 1)
  pure (stringVal L.nfc (L.trimPrefix str pfx))

def trimSuffixImpl (L : Lib) (args : List Value) : Res Value := do
  let str ← asString (← arg args 0)
  let sfx ← asString (← arg args 1)
  pure (stringVal L.nfc (L.trimSuffix str sfx))

def replaceImpl (L : Lib) (args : List Value) : Res Value := do
  let str ← asString (← arg args 0)
  let substr ← asString (← arg args 1)
  let repl ← asString (← arg args 2)
  pure (stringVal L.nfc (L.replaceAll str substr repl))

def regexReplaceImpl (L : Lib) (args : List Value) : Res Value := do
  let str ← asString (← arg args 0)
  let pat ← asString (← arg args 1)
  let repl ← asString (← arg args 2)
  match L.regexCompile pat with
  | none => .err "regexp.Compile"
  | some _ => pure (stringVal L.nfc (L.regexReplaceAll pat str repl))

/-! ### split, join -/

def splitImpl (L : Lib) (args : List Value) : Res Value := do
  let sep ← asString (← arg args 0)
  let str ← asString (← arg args 1)
  let elems := L.split str sep
  pure ⟨.list .string, .seq (elems.map fun s => .s (L.nfc s))⟩

/-- the element loop of `JoinFunc` over one list: `none` = a null element -/
def joinItems : List Payload → Option (List String)
  | [] => some []
  | .s x :: rest => (joinItems rest).map (x :: ·)
  | _ :: _ => none

def joinCollect : List Value → Res (List String)
  | [] => .ok []
  | l :: rest =>
    match l.v with
    | .seq ps =>
      match joinItems ps with
      | none => .err "element is null; cannot concatenate null values"
      | some xs => (joinCollect rest).map (xs ++ ·)
    | _ => .unmodelled

def joinImpl (L : Lib) (args : List Value) : Res Value := do
  let sep ← asString (← arg args 0)
  let lists := args.drop 1
  if lists.length < 1 then .err "at least one list is required"
  else if lists.any (fun l => !l.whollyKnown || l.isNull) then .unmodelled
  else
    let items ← joinCollect lists
    pure (stringVal L.nfc (sep.intercalate items))

/-! ### regex, regexall -/

/-- `regexPatternResultType` from `re.SubexpNames()[1:]`; attribute names of the
object type are a Go map: sorted, duplicates collapse -/
def regexResultType (names : List String) : Res Ty :=
  let unnamed := (names.filter (· == "")).length
  let named := names.filter (· != "")
  if unnamed == 0 && named.isEmpty then .ok .string
  else if unnamed > 0 && !named.isEmpty then .err "cannot mix both named and unnamed capture groups"
  else if unnamed > 0 then .ok (.tuple (List.replicate unnamed .string))
  else
    let ns := Gocty.sortNames named
    .ok (.object ns (ns.map fun _ => .string) (ns.map fun _ => false))

/-- Go's `str[start:end]` on the UTF-8 bytes; out-of-range bounds panic -/
def sliceBytes (s : String) (a b : Int) : Res String :=
  if a < 0 ∨ b < a ∨ b > s.utf8ByteSize then .panic "slice bounds out of range"
  else match String.fromUTF8? (s.toUTF8.extract a.toNat b.toNat) with
    | some t => .ok t
    | none => .unmodelled      -- cut inside a code point: not a cty string

/-- `captureIdxs[i]` -/
def idxAt (idxs : List Int) (i : Nat) : Res Int :=
  match idxs[i]? with
  | some v => .ok v
  | none => .panic "index out of range"

/-- value of capture group `i` (0-based after the whole-match pair was skipped) -/
def captureVal (L : Lib) (str : String) (idxs : List Int) (i : Nat) : Res Payload := do
  let a ← idxAt idxs (i * 2)
  let b ← idxAt idxs (i * 2 + 1)
  if a < 0 ∨ b < 0 then pure .null
  else pure (.s (L.nfc (← sliceBytes str a b)))

def captureVals (L : Lib) (str : String) (idxs : List Int) : List Nat → Res (List Payload)
  | [] => .ok []
  | i :: rest => do
    let v ← captureVal L str idxs i
    let vs ← captureVals L str idxs rest
    pure (v :: vs)

/-- last binding of `k` in the parallel lists (a Go map assignment loop) -/
def lastBinding (k : String) : List String → List Payload → Option Payload
  | n :: ns, v :: vs =>
    match lastBinding k ns vs with
    | some r => some r
    | none => if n = k then some v else none
  | _, _ => none

/-- `regexPatternResult` -/
def regexResult (L : Lib) (names : List String) (str : String) (idxs : List Int) (retTy : Ty) : Res Value :=
  match retTy with
  | .string => do
    let a ← idxAt idxs 0
    let b ← idxAt idxs 1
    pure (stringVal L.nfc (← sliceBytes str a b))
  | .tuple _ => do
    let rest := idxs.drop 2
    let vs ← captureVals L str rest (List.range (rest.length / 2))
    pure ⟨.tuple (vs.map fun _ => .string), .seq vs⟩
  | .object ns _ _ => do
    let rest := idxs.drop 2
    let vs ← captureVals L str rest (List.range names.length)
    let attrs := ns.map fun k => (lastBinding k names vs).getD .null
    pure ⟨.object ns (ns.map fun _ => .string) (ns.map fun _ => false), .smap ns attrs⟩
  | _ => .panic "invalid return type"

def regexImpl (L : Lib) (args : List Value) : Res Value := do
  let pat ← asString (← arg args 0)
  let str ← asString (← arg args 1)
  match L.regexCompile pat with
  | none => .err "invalid regexp pattern"                 -- the Type callback
  | some names =>
    let retTy ← regexResultType names
    match L.regexFind pat str with
    | none => .err "pattern did not match any part of the given string"
    | some idxs => regexResult L names str idxs retTy

def regexAllElems (L : Lib) (names : List String) (str : String) (ety : Ty) : List (List Int) → Res (List Payload)
  | [] => .ok []
  | idxs :: rest => do
    let v ← regexResult L names str idxs ety
    let vs ← regexAllElems L names str ety rest
    pure (v.v :: vs)

/-- type of the value `regexResult` builds for result type `ety`, given the number
of index pairs after the first -/
def regexElemTy (ety : Ty) (idxs : List Int) : Ty :=
  match ety with
  | .tuple _ => .tuple (List.replicate ((idxs.drop 2).length / 2) .string)
  | t => t

def regexAllImpl (L : Lib) (args : List Value) : Res Value := do
  let pat ← asString (← arg args 0)
  let str ← asString (← arg args 1)
  match L.regexCompile pat with
  | none => .err "invalid regexp pattern"
  | some names =>
    let ety ← regexResultType names
    let all := L.regexFindAll pat str
    if all.length == 0 then pure ⟨.list ety, .seq []⟩
    else
      let elems ← regexAllElems L names str ety all
      -- cty.ListVal: the element type is that of the first element, all must agree
      let t0 := regexElemTy ety (all.headD [])
      if all.all (fun idxs => (regexElemTy ety idxs).equals t0) then pure ⟨.list t0, .seq elems⟩
      else .panic "inconsistent list element types"

/-! ### formatdate -/

def isVerbStart (c : Char) : Bool := ('a' ≤ c && c ≤ 'z') || ('A' ≤ c && c ≤ 'Z')

/-- quoted-literal scan of `splitDateFormat`, starting after the opening quote:
returns (token body including the closing quote if found, rest) -/
def quotedScan : List Char → List Char → List Char × List Char
  | [], acc => (acc.reverse, [])
  | c :: rest, acc =>
    if c == '\'' then
      match rest with
      | [] => ((c :: acc).reverse, [])                     -- quote is the last byte: token is everything
      | d :: rest' =>
        if d == '\'' then quotedScan rest' (d :: c :: acc)  -- doubled quote: escape
        else ((c :: acc).reverse, d :: rest')
    else quotedScan rest (c :: acc)

/-- one step of `splitDateFormat` on non-empty input: (token, rest) -/
def nextToken : List Char → List Char × List Char
  | [] => ([], [])
  | c :: rest =>
    if c == '\'' then
      match rest with
      | d :: rest' =>
        if d == '\'' then (['\'', '\''], rest')
        else let r := quotedScan rest []; (c :: r.1, r.2)
      | [] => ([c], [])
    else if isVerbStart c then
      let run := rest.takeWhile (· == c)
      (c :: run, rest.drop run.length)
    else
      let lit := rest.takeWhile (fun d => !(d == '\'' || isVerbStart d))
      (c :: lit, rest.drop lit.length)

def tokenize : Nat → List Char → List (List Char)
  | 0, _ => []
  | _, [] => []
  | fuel + 1, cs =>
    let r := nextToken cs
    r.1 :: tokenize fuel r.2

/-- the body of a quoted literal: a quote skips the byte after it -/
def unquoteAux : List Char → Bool → List Char
  | [], _ => []
  | c :: rest, skip =>
    if skip then unquoteAux rest false
    else if c == '\'' then c :: unquoteAux rest true
    else c :: unquoteAux rest false

def unquote (cs : List Char) : List Char := unquoteAux cs false

def pad2 (n : Nat) : String := (if n < 10 then "0" else "") ++ toString n
def pad4 (n : Nat) : String :=
  (if n < 10 then "000" else if n < 100 then "00" else if n < 1000 then "0" else "") ++ toString n

def monthName (m : Nat) : String :=
  ["January", "February", "March", "April", "May", "June", "July", "August", "September", "October",
   "November", "December"].getD (m - 1) ("%!Month(" ++ toString m ++ ")")
def dayName (d : Nat) : String :=
  ["Sunday", "Monday", "Tuesday", "Wednesday", "Thursday", "Friday", "Saturday"].getD d ("%!Weekday(" ++ toString d ++ ")")

/-- `t.Format("-0700")` / `"-07:00"` -/
def zoneNum (off : Int) (colon : Bool) : String :=
  let a := off.natAbs / 60
  (if off < 0 then "-" else "+") ++ pad2 (a / 60) ++ (if colon then ":" else "") ++ pad2 (a % 60)

/-- one verb token (a run of one letter) -/
def verbText (t : Time) (c : Char) (n : Nat) : Res String :=
  match c with
  | 'Y' => if n == 2 then .ok (pad2 (t.year % 100)) else if n == 4 then .ok (pad4 t.year) else .err "year"
  | 'M' => if n == 1 then .ok (toString t.month) else if n == 2 then .ok (pad2 t.month)
           else if n == 3 then .ok (String.ofList ((monthName t.month).toList.take 3)) else if n == 4 then .ok (monthName t.month) else .err "month"
  | 'D' => if n == 1 then .ok (toString t.day) else if n == 2 then .ok (pad2 t.day) else .err "day"
  | 'E' => if n == 3 then .ok (String.ofList ((dayName t.weekday).toList.take 3)) else if n == 4 then .ok (dayName t.weekday) else .err "weekday"
  | 'h' => if n == 1 then .ok (toString t.hour) else if n == 2 then .ok (pad2 t.hour) else .err "hour"
  | 'H' =>
    let h := if t.hour % 12 == 0 then 12 else t.hour % 12
    if n == 1 then .ok (toString h) else if n == 2 then .ok (pad2 h) else .err "hour"
  | 'A' => if n != 2 then .err "AA" else .ok (if t.hour / 12 == 0 then "AM" else if t.hour / 12 == 1 then "PM" else "")
  | 'a' => if n != 2 then .err "aa" else .ok (if t.hour / 12 == 0 then "am" else if t.hour / 12 == 1 then "pm" else "")
  | 'm' => if n == 1 then .ok (toString t.minute) else if n == 2 then .ok (pad2 t.minute) else .err "minute"
  | 's' => if n == 1 then .ok (toString t.second) else if n == 2 then .ok (pad2 t.second) else .err "second"
  | 'Z' =>
    if n == 1 then .ok (if t.offset == 0 then "Z" else zoneNum t.offset true)
    else if n == 3 then .ok (if zoneNum t.offset false == "+0000" then "UTC" else zoneNum t.offset false)
    else if n == 4 then .ok (zoneNum t.offset false)
    else if n == 5 then .ok (zoneNum t.offset true)
    else .err "timezone"
  | _ => .err "invalid date format verb"

def tokenText (t : Time) (tok : List Char) : Res String :=
  match tok with
  | [] => .ok ""
  | c :: rest =>
    if c == '\'' then
      if tok.getLast? != some '\'' || tok.length == 1 then .err "unterminated literal '"
      else if tok.length == 2 then .ok "'"
      else .ok (String.ofList (unquote (rest.take (rest.length - 1))))
    else if isVerbStart c then verbText t c tok.length
    else .ok (String.ofList tok)

def formatTokens (t : Time) : List (List Char) → String → Res String
  | [], buf => .ok buf
  | tok :: rest, buf => do
    let s ← tokenText t tok
    formatTokens t rest (buf ++ s)

def formatDateImpl (L : Lib) (args : List Value) : Res Value := do
  let format ← asString (← arg args 0)
  let timeStr ← asString (← arg args 1)
  match L.parseTimestamp timeStr with
  | none => .err "not a valid RFC3339 timestamp"
  | some t =>
    let out ← formatTokens t (tokenize (format.length + 1) format.toList) ""
    pure (stringVal L.nfc out)

/-! ### timeadd -/

def timeAddImpl (L : Lib) (args : List Value) : Res Value := do
  let ts ← asString (← arg args 0)
  let dur ← asString (← arg args 1)
  match L.parseTimestamp ts with
  | none => .err "not a valid RFC3339 timestamp"
  | some _ =>
    if !L.parseDuration dur then .err "time.ParseDuration"
    else pure (stringVal L.nfc (L.timeAdd ts dur))

/-! ### csvdecode -/

def hasDup : List String → Bool
  | [] => false
  | x :: xs => xs.contains x || hasDup xs

/-- one data row: `vals[headers[i]] = StringVal(col)`, then `ObjectVal(vals)` over
the attribute names `ns` of the result type -/
def csvRow (L : Lib) (ns : List String) (headers cols : List String) : Res Payload :=
  if cols.length > headers.length then .panic "index out of range"      -- headers[i]
  else
    let vals := cols.map fun c => Payload.s (L.nfc c)
    .ok (.smap ns (ns.map fun k => (lastBinding k (headers.map L.nfc) vals).getD .null))

def csvRows (L : Lib) (ns : List String) (headers : List String) : List (List String) → Res (List Payload)
  | [] => .ok []
  | cols :: rest => do
    let r ← csvRow L ns headers cols
    let rs ← csvRows L ns headers rest
    pure (r :: rs)

def csvDecodeImpl (L : Lib) (args : List Value) : Res Value := do
  let str ← asString (← arg args 0)
  -- Type callback
  match L.csvHeader str with
  | none => .err "missing header line"
  | some none => .err "csv parse error"
  | some (some headers) =>
    if hasDup headers then .err "duplicate column name"
    else
      -- cty.Object normalises attribute names; the Go map collapses names that become equal
      let ns := Gocty.sortNames (headers.map L.nfc)
      let ety : Ty := .object ns (ns.map fun _ => .string) (ns.map fun _ => false)
      -- Impl: FieldsPerRecord = len(atys)
      let rd := L.csvAll str ns.length
      match rd.records with
      | [] => .err "csv: header"                           -- the header Read() itself failed
      | hdr :: rows =>
        if rd.failed then .err "csv parse error"
        else do
          let ps ← csvRows L ns hdr rows
          pure ⟨.list ety, .seq ps⟩

/-- dispatch by the name the harness uses -/
def glueImpl (name : String) : Option (Lib → List Value → Res Value) :=
  match name with
  | "upper" => some upperImpl | "lower" => some lowerImpl | "title" => some titleImpl
  | "trimspace" => some trimSpaceImpl | "trim" => some trimImpl
  | "trimprefix" => some trimPrefixImpl | "trimsuffix" => some trimSuffixImpl
  | "replace" => some replaceImpl | "regexreplace" => some regexReplaceImpl
  | "split" => some splitImpl | "join" => some joinImpl
  | "regex" => some regexImpl | "regexall" => some regexAllImpl
  | "formatdate" => some formatDateImpl | "timeadd" => some timeAddImpl
  | "csvdecode" => some csvDecodeImpl
  | "strlen" => some fun L => strlenImpl L.clusters
  | "reverse" => some fun L => reverseImpl L.nfc L.clusters
  | "substr" => some fun L => substrImpl L.nfc L.clusters
  | "chomp" => some fun L => chompImpl L.nfc
  | "indent" => some fun L => indentImpl L.nfc
  | _ => none

end StdNum
end CtyModel
