/-
Stdlib number / bool / general functions (cty/function/stdlib/number.go, bool.go,
general.go, bytes.go): the `Impl` callbacks AS WRITTEN, on the argument lists
`Function.Call` hands them (unmarked where the parameter does not allow marks,
known where it does not allow unknowns, non-null).  An `Impl` is a function
`List Value → Res Value`:

  `.ok v`     the callback returned `v, nil`
  `.err _`    it returned an error
  `.panic _`  it panicked — `Function.Call` hands that back as a `function.PanicError`

`math.Log` / `math.Pow` are not modelled: `log` and `pow` take the library's answer
(a float64, possibly NaN) as an argument.
-/
import CtyModel.Ops2
import CtyModel.Gocty
namespace CtyModel
namespace StdNum

/-- `args[i]` of a Go slice -/
def arg (args : List Value) (i : Nat) : Res Value :=
  match args[i]? with
  | some v => .ok v
  | none => .panic "index out of range"

/-- `val.AsBigFloat()` -/
def asBigFloat (v : Value) : Res Num :=
  if v.isMarked then .panic "value is marked"
  else if !v.ty.isNumber then .panic "not a number"
  else match v.v with
    | .n x => .ok x
    | .null => .panic "value is null"
    | .unk _ => .panic "value is unknown"
    | _ => .panic "payload is not a number"

/-- `val.AsString()` -/
def asString (v : Value) : Res String :=
  if v.isMarked then .panic "value is marked"
  else if !v.ty.isString then .panic "not a string"
  else match v.v with
    | .s x => .ok x
    | .null => .panic "value is null"
    | .unk _ => .panic "value is unknown"
    | _ => .panic "payload is not a string"

/-- `gocty.FromCtyValue(v, &i)` with `var i int`, for the values an `Impl` can be handed -/
def fromCtyInt (v : Value) : Res Int :=
  match v.ty, v.v with
  | .number, .n x => Gocty.fromNumInt x 64
  | .number, .null => .err "null value is not allowed"
  | _, .unk _ => .err "value must be known"
  | .string, .s _ | .bool, .b _ => .err "number value is required"
  | _, _ => .unmodelled

/-- `gocty.FromCtyValue(v, &f)` with `var f float64` (result: a 53-bit `Num` or ±Inf) -/
def fromCtyFloat (v : Value) : Res Num :=
  match v.ty, v.v with
  | .number, .n x => Gocty.fromNumFloat x false
  | .number, .null => .err "null value is not allowed"
  | _, .unk _ => .err "value must be known"
  | .string, .s _ | .bool, .b _ => .err "number value is required"
  | _, _ => .unmodelled

/-- `gocty.FromCtyValue(v, &s)` with `var s string` -/
def fromCtyString (v : Value) : Res String :=
  match v.ty, v.v with
  | .string, .s x => .ok x
  | .string, .null => .err "null value is not allowed"
  | _, .unk _ => .err "value must be known"
  | .number, .n _ | .bool, .b _ => .err "string value is required"
  | _, _ => .unmodelled

/-! ### Arithmetic wrappers: the operation method under a deferred `recover()` that turns a
`big.ErrNaN` panic into an error and re-panics anything else -/

def recoverNaN (r : Res Value) : Res Value :=
  match r with
  | .panic why => if why == "ErrNaN" then .err "NaN" else .panic why
  | r => r

def absoluteImpl (args : List Value) : Res Value := do Value.abs (← arg args 0)
def negateImpl (args : List Value) : Res Value := do Value.neg (← arg args 0)
def addImpl (args : List Value) : Res Value := recoverNaN (do Value.add (← arg args 0) (← arg args 1))
def subtractImpl (args : List Value) : Res Value := recoverNaN (do Value.sub (← arg args 0) (← arg args 1))
def multiplyImpl (args : List Value) : Res Value := recoverNaN (do Value.mul (← arg args 0) (← arg args 1))
def divideImpl (args : List Value) : Res Value := recoverNaN (do Value.div (← arg args 0) (← arg args 1))
def moduloImpl (args : List Value) : Res Value := recoverNaN (do Value.mod (← arg args 0) (← arg args 1))

/-! ### Comparison wrappers -/

/-- `val.LessThan(other).Or(val.Equals(other))` -/
def lessThanOrEqualTo (a b : Value) : Res Value := do
  let lt ← Value.lessThan a b
  let eq ← Value.equals a b
  Value.or lt eq

/-- `val.GreaterThan(other).Or(val.Equals(other))` -/
def greaterThanOrEqualTo (a b : Value) : Res Value := do
  let gt ← Value.greaterThan a b
  let eq ← Value.equals a b
  Value.or gt eq

def lessThanImpl (args : List Value) : Res Value := do Value.lessThan (← arg args 0) (← arg args 1)
def greaterThanImpl (args : List Value) : Res Value := do Value.greaterThan (← arg args 0) (← arg args 1)
def lessThanOrEqualToImpl (args : List Value) : Res Value := do lessThanOrEqualTo (← arg args 0) (← arg args 1)
def greaterThanOrEqualToImpl (args : List Value) : Res Value := do greaterThanOrEqualTo (← arg args 0) (← arg args 1)

/-! ### bool.go, general.go -/
def notImpl (args : List Value) : Res Value := do Value.not (← arg args 0)
def andImpl (args : List Value) : Res Value := do Value.and (← arg args 0) (← arg args 1)
def orImpl (args : List Value) : Res Value := do Value.or (← arg args 0) (← arg args 1)
def equalImpl (args : List Value) : Res Value := do Value.equals (← arg args 0) (← arg args 1)
def notEqualImpl (args : List Value) : Res Value := do Value.not (← Value.equals (← arg args 0) (← arg args 1))

/-- `val.True()`: `val.Equals(True).v.(bool)` on an unmarked bool -/
def isTrueV (v : Value) : Res Bool :=
  if v.isMarked then .panic "value is marked"
  else if !v.ty.isBool then .panic "not bool"
  else match v.v with
    | .b x => .ok x
    | _ => .panic "interface conversion"

/-- the loop of `MinFunc` -/
def minLoop : List Value → Value → Res Value
  | [], m => .ok m
  | num :: rest, m => do
    if ← isTrueV (← Value.lessThan num m) then minLoop rest num else minLoop rest m

/-- the loop of `MaxFunc` -/
def maxLoop : List Value → Value → Res Value
  | [], m => .ok m
  | num :: rest, m => do
    if ← isTrueV (← Value.greaterThan num m) then maxLoop rest num else maxLoop rest m

def minImpl (args : List Value) : Res Value :=
  if args.length == 0 then .err "must pass at least one number" else minLoop args Value.posInf
def maxImpl (args : List Value) : Res Value :=
  if args.length == 0 then .err "must pass at least one number" else maxLoop args Value.negInf

/-- `coalesce` on arguments that all have the same type `t` (so that `UnifyUnsafe`
answers `t` and `convert.Convert(v, t)` is the identity); other argument lists
are outside the modelled fragment -/
def coalesceLoop (retTy : Ty) : List Value → Res Value
  | [] => .err "no non-null arguments"
  | v :: rest =>
    if !v.isKnown then .ok (Value.unknown retTy)
    else if v.isNull then coalesceLoop retTy rest
    else .ok v

def coalesceImpl (args : List Value) : Res Value :=
  match args with
  | [] => .err "all arguments must have the same type"      -- UnifyUnsafe(nil) = NilType (Type callback)
  | v :: rest =>
    if v.ty.hasDyn || !(rest.all fun w => w.ty.equals v.ty) then .unmodelled
    else coalesceLoop v.ty args

/-! ### int, ceil, floor -/

/-- accuracy reported by `x.Int(nil)` for a finite `x`: the truncation is below a
positive non-integer and above a negative one -/
inductive Acc where
  | below | exact | above
  deriving Repr, BEq, DecidableEq

def intAcc (x : Num) : Acc :=
  if x.isInt || x.isZero then .exact else if x.signbit then .above else .below

/-- `IntFunc` (as of /repo f991adf): the error documented for `Int` on ANY infinity
(`bf.IsInf()`, not a comparison with the two package-level values); identity on
integers; otherwise `bf.Int(nil)` into a fresh `big.Float` (`bf.Int(nil)` would be a
nil `*big.Int` only for ±Inf, which no longer gets there). -/
def intImpl (args : List Value) : Res Value := do
  let a ← arg args 0
  let bf ← asBigFloat a
  if bf.isInf then .err "can't truncate infinity to an integer"
  else if bf.isInt then pure a
  else match bf.truncInt with
    | none => .panic "nil pointer dereference"
    | some i => pure (Value.numVal (Num.setIntP i 0))

/-- `CeilFunc`: `f.SetInt(i)` re-uses the copy of the argument as receiver, so the
result has the argument's precision -/
def ceilImpl (args : List Value) : Res Value := do
  let a ← arg args 0
  let f ← asBigFloat a
  if f.isInf then pure (Value.numVal f)
  else match f.truncInt with
    | none => .panic "nil pointer dereference"
    | some i =>
      let i' := match intAcc f with
        | .exact | .above => i
        | .below => i + 1
      pure (Value.numVal (Num.setIntP i' f.prec))

def floorImpl (args : List Value) : Res Value := do
  let a ← arg args 0
  let f ← asBigFloat a
  if f.isInf then pure (Value.numVal f)
  else match f.truncInt with
    | none => .panic "nil pointer dereference"
    | some i =>
      let i' := match intAcc f with
        | .exact | .below => i
        | .above => i - 1
      pure (Value.numVal (Num.setIntP i' f.prec))

/-- `SignumFunc`: `cty.NumberIntVal(int64(args[0].AsBigFloat().Sign()))` -/
def signumImpl (args : List Value) : Res Value := do
  let a ← arg args 0
  let bf ← asBigFloat a
  pure (Value.intVal bf.sign)

/-! ### log, pow: `cty.NumberFloatVal(<library answer>)` -/

/-- a Go float64 as the library returns it -/
inductive F64 where
  | nan
  | num (x : Num)      -- finite (precision 53) or ±Inf
  deriving Repr, BEq, DecidableEq

/-- `cty.NumberFloatVal(v)` = `NumberVal(new(big.Float).SetFloat64(v))`, which panics
with `big.ErrNaN` for a NaN -/
def numberFloatVal : F64 → Res Value
  | .nan => .panic "ErrNaN"
  | .num x => .ok (Value.numVal x)

/-- `LogFunc`; `lib num base` stands for `math.Log(num) / math.Log(base)` -/
def logImpl (lib : Num → Num → F64) (args : List Value) : Res Value := do
  let num ← fromCtyFloat (← arg args 0)
  let base ← fromCtyFloat (← arg args 1)
  match lib num base with
  | .nan => .err "the logarithm is not a real number"        -- `if math.IsNaN(result)`
  | result => numberFloatVal result

/-- `PowFunc`; `lib num power` stands for `math.Pow(num, power)` -/
def powImpl (lib : Num → Num → F64) (args : List Value) : Res Value := do
  let num ← fromCtyFloat (← arg args 0)
  let power ← fromCtyFloat (← arg args 1)
  match lib num power with
  | .nan => .err "the power is not a real number"            -- `if math.IsNaN(result)`
  | result => numberFloatVal result

/-! ### parseint: `(&big.Int{}).SetString(numstr, base)` for 2 ≤ base ≤ 62 -/

/-- digit value of a character as `nat.scan` computes it (`MaxBase + 1 = 63` for a
character that is no digit in any base) -/
def digitVal (base : Nat) (c : Char) : Nat :=
  if '0' ≤ c ∧ c ≤ '9' then c.toNat - 48
  else if 'a' ≤ c ∧ c ≤ 'z' then c.toNat - 97 + 10
  else if 'A' ≤ c ∧ c ≤ 'Z' then (if base ≤ 36 then c.toNat - 65 + 10 else c.toNat - 65 + 36)
  else 63

/-- the digit loop of `nat.scan`: value so far, number of digits, and the input
left over at the first character that is not a digit of the base -/
def scanDigits (base : Nat) : List Char → Nat → Nat → Nat × Nat × List Char
  | [], acc, cnt => (acc, cnt, [])
  | c :: cs, acc, cnt =>
    if digitVal base c ≥ base then (acc, cnt, c :: cs)
    else scanDigits base cs (acc * base + digitVal base c) (cnt + 1)

/-- optional sign (`scanSign`) -/
def scanSign : List Char → Bool × List Char
  | '-' :: r => (true, r)
  | '+' :: r => (false, r)
  | r => (false, r)

/-- `(&big.Int{}).SetString(s, base)`: `none` when it reports failure (no digits,
or input left over) -/
def setString (s : List Char) (base : Nat) : Option Int :=
  let sg := scanSign s
  let r := scanDigits base sg.2 0 0
  if r.2.1 = 0 then none
  else if !r.2.2.isEmpty then none
  else some (if sg.1 then -(r.1 : Int) else (r.1 : Int))

def parseIntImpl (args : List Value) : Res Value := do
  let a0 ← arg args 0
  let a1 ← arg args 1
  if !a0.ty.isString then .err "first argument must be a string"     -- the Type callback
  else
    let numstr ← fromCtyString a0
    let base ← fromCtyInt a1
    if base < 2 ∨ base > 62 then .err "base must be a whole number between 2 and 62 inclusive"
    else match setString numstr.toList base.toNat with
      | none => .err "cannot parse"
      | some v => pure (Value.numVal (Num.setIntP v 0))

/-! ### bytes.go, on the length of the buffer (the capsule's content plays no role) -/

/-- `BytesSliceFunc`: `.ok (offset, end)` are the bounds of the sub-slice.  The range
check is `length > len - offset` (which cannot overflow, `offset ≤ len` having been
established), so `offset + length ≤ len` when the slice expression is reached. -/
def bytesSliceImpl (bufLen : Nat) (offsetV lengthV : Value) : Res (Int × Int) := do
  let offset ← fromCtyInt offsetV
  let length ← fromCtyInt lengthV
  if offset < 0 ∨ length < 0 then .err "offset and length must be non-negative"
  else if offset > bufLen then .err "offset is greater than total buffer length"
  else if length > (bufLen : Int) - offset then .err "offset + length is greater than total buffer length"
  else pure (offset, offset + length)

/-- dispatch by the name the harness uses -/
def numImpl (name : String) : Option (List Value → Res Value) :=
  match name with
  | "abs" => some absoluteImpl | "neg" => some negateImpl
  | "add" => some addImpl | "sub" => some subtractImpl | "mul" => some multiplyImpl
  | "div" => some divideImpl | "mod" => some moduloImpl
  | "lt" => some lessThanImpl | "gt" => some greaterThanImpl
  | "le" => some lessThanOrEqualToImpl | "ge" => some greaterThanOrEqualToImpl
  | "not" => some notImpl | "and" => some andImpl | "or" => some orImpl
  | "equal" => some equalImpl | "notequal" => some notEqualImpl
  | "min" => some minImpl | "max" => some maxImpl | "coalesce" => some coalesceImpl
  | "int" => some intImpl | "ceil" => some ceilImpl | "floor" => some floorImpl
  | "signum" => some signumImpl | "parseint" => some parseIntImpl
  | _ => none

end StdNum
end CtyModel
