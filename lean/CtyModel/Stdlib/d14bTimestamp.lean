/-
d14b — `parseRFC3339` of cty/function/stdlib/datetime_rfc3339.go (the strict parser that decides
whether `formatdate` / `timeadd` accept a timestamp) transliterated, together with the calendar
facts `daysIn` / `isLeap` of the same file; the weekday that `time.Time.Weekday` reports is
computed from the date.  The fractional second is scanned but not kept (`Time` has no such
field: it is visible only through the library's `timeAdd` answer).  The fallback through
`time.Parse` in `parseStrictRFC3339` only builds error values; it is not modelled, so an input
that the fallback lets through would show as a correspondence mismatch.
Positions are code points here and bytes in Go: every position the code inspects must hold an
ASCII digit or separator, so a non-ASCII character makes both reject.
-/
import CtyModel.Stdlib.d14bDuration
namespace CtyModel
namespace StdNum
namespace D14b

def digitsVal (s : List Char) : Nat := s.foldl (fun a c => a * 10 + (c.toNat - 48)) 0

/-- the closure `parseUint`: `none` stands for "ok = false" (sticky in Go: every later result is discarded) -/
def parseUint (s : List Char) (lo hi : Nat) : Option Nat :=
  if s.all isDig then (if digitsVal s < lo ∨ hi < digitsVal s then none else some (digitsVal s)) else none

def isLeap (y : Nat) : Bool := y % 4 == 0 && (y % 100 != 0 || y % 400 == 0)

def daysBefore : List Nat := [0, 31, 59, 90, 120, 151, 181, 212, 243, 273, 304, 334, 365]

def daysIn (m y : Nat) : Nat :=
  if m == 2 && isLeap y then 29 else daysBefore.getD m 0 - daysBefore.getD (m - 1) 0

/-- day of the week (0 = Sunday) of a proleptic Gregorian date, years 0..9999 -/
def weekdayOf (y m d : Nat) : Nat :=
  let y' := y + 400 - (if m < 3 then 1 else 0)
  (y' + y' / 4 - y' / 100 + y' / 400 + [0, 3, 2, 5, 0, 3, 5, 1, 4, 6, 2, 4].getD (m - 1) 0 + d) % 7

def sub2 (s : List Char) (i : Nat) : List Char := (s.drop i).take 2

/-- "Parse the fractional second": `.` and at least one digit are consumed, anything else is left -/
def skipFraction (rest : List Char) : List Char :=
  match rest with
  | '.' :: c :: r => if isDig c then r.dropWhile isDig else rest
  | _ => rest

/-- "Parse the time zone": the offset in seconds east of UTC -/
def parseZone (rest : List Char) : Option Int :=
  if rest == ['Z'] then some 0
  else if rest.length != 6 then none
  else do
    let hr ← parseUint (sub2 rest 1) 0 23
    let mm ← parseUint (sub2 rest 4) 0 59
    if !((rest[0]? == some '-' || rest[0]? == some '+') && rest[3]? == some ':') then none
    else
      let off : Int := ((hr * 60 + mm) * 60 : Nat)
      some (if rest[0]? == some '-' then -off else off)

/-- `parseRFC3339` -/
def goParseRFC3339 (s : List Char) : Option Time :=
  if s.length < 19 then none
  else do
    let year ← parseUint (s.take 4) 0 9999
    let month ← parseUint (sub2 s 5) 1 12
    let day ← parseUint (sub2 s 8) 1 (daysIn month year)
    let hour ← parseUint (sub2 s 11) 0 23
    let min ← parseUint (sub2 s 14) 0 59
    let sec ← parseUint (sub2 s 17) 0 59
    if !(s[4]? == some '-' && s[7]? == some '-' && s[10]? == some 'T' && s[13]? == some ':' && s[16]? == some ':') then none
    else do
      let off ← parseZone (skipFraction (s.drop 19))
      some ⟨year, month, day, weekdayOf year month day, hour, min, sec, off⟩

/-- the library with the timestamp parser and the duration verdict transliterated as well -/
def refLibTs (L : Lib) : Lib :=
  { refLibDur L with parseTimestamp := fun s => goParseRFC3339 s.toList }

end D14b
end StdNum
end CtyModel
