/-
The stdlib functions as protocol instances: the parameter tables that are
REGENERATED from the built go-cty code on every check (`Generated.stdlibSpecs`,
read through `Function.Params()` / `VarParam()`) turned into `Fn.Spec`s, and the
protocol-level classification of a call that the correspondence harness compares
with what the real function did (driver op `fn.std`).
-/
import CtyModel.Function
import CtyModel.Generated.StdlibSpecs
import CtyModel.Generated.StdlibSyntax
namespace CtyModel
namespace Std
open Fn

/-- the protocol part of a stdlib function's spec, with the given `RefineResult` -/
def toSpec (s : Generated.StdSpec) (refine : Option RefineFn := none) : Spec :=
  { params := s.params, varParam := s.varParam, refine := refine }

def find? (var : String) : Option Generated.StdSpec :=
  Generated.stdlibSpecs.find? (fun s => s.var == var)

def syntax? (var : String) : Option Generated.StdSyntax :=
  Generated.stdlibSyntax.find? (fun s => s.var == var)

/-- what the argument loops of `ReturnTypeForValues` and `Call` decide before any
callback result matters -/
inductive Class where
  | argCount | argErr (i : Nat) | dyn | unknownShort | reachesImpl
  deriving Repr, DecidableEq

def classify (spec : Spec) (args : List Value) : Class :=
  match pass1 spec args with
  | .countErr => .argCount
  | .argErr i => .argErr i
  | .dyn => .dyn
  | .ok _ =>
    let n := spec.params.length
    let pos := pass2 spec.params (args.take n)
    let var : Pass2 :=
      match spec.varParam with
      | some vp => pass2 (List.replicate (args.drop n).length vp) (args.drop n)
      | none => ⟨args.drop n, [], false⟩
    if pos.unknown || var.unknown then .unknownShort else .reachesImpl

/-- Is an observation of the real call (`E<i>` ArgError with index i, `E` other
error, `D` unknown of unknown type, `U` other unknown, `K` known value, `P` Go
panic) consistent with the classification?  The callbacks may answer anything
once they are reached (`Type` runs before the unknown short-circuit and may
return an error, including an ArgError, or DynamicPseudoType). -/
def Class.consistent : Class → String → Bool
  | .argCount, o => o == "E"
  | .argErr i, o => o == "E" ++ toString i
  | .dyn, o => o == "D"
  | .unknownShort, o => o != "K"
  | .reachesImpl, _ => true

end Std
end CtyModel
