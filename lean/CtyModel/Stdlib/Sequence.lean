/-
The `Type` and `Impl` callbacks of cty/function/stdlib/sequence.go (`concat`,
`range`), transliterated.
-/
import CtyModel.Stdlib.Collection
namespace CtyModel
namespace Stdlib
open Value

/-! ### `concat` -/

def concatSpec : Fn.Spec :=
  { params := [], varParam := some { ty := .dyn, allowMarked := true }, refine := some refineNN }

/-- `tys[i] = ty` for every argument, or `nil` as soon as one is not a list -/
def concatListTypes : List Value → Option (List Ty)
  | [] => some []
  | v :: rest =>
    if !isListTy v.ty then none
    else (concatListTypes rest).map (v.ty :: ·)

/-- the tuple-type loop: element types of every argument; `.ok none` = dynamic -/
def concatElemTypes : List Value → Res (Option (List Ty))
  | [] => .ok (some [])
  | val0 :: rest =>
    let val := val0.unmarkDeep
    let here : Res (Option (List Ty)) :=
      match val.ty with
      | .tuple ts => .ok (some ts)
      | .list subEty =>
        if !val.isKnown then .ok none
        else (lengthInt val).map fun l => some (List.replicate l subEty)
      | _ => .err "all arguments must be lists or tuples"
    match here with
    | .ok none => .ok none
    | .ok (some ts) =>
      (match concatElemTypes rest with
       | .ok (some more) => .ok (some (ts ++ more))
       | r => r)
    | r => r

def concatType (E : Env) : Fn.TypeFn := fun args =>
  match args with
  | [] => .err "at least one argument is required"
  | a0 :: _ =>
    let tupleWay : Res Ty :=
      match concatElemTypes args with
      | .ok none => .ok .dyn
      | .ok (some etys) => .ok (.tuple etys)
      | r => Res.cast r
    if isListTy a0.ty then
      match concatListTypes args with
      | some tys =>
        (match E.unify tys with
         | .ok (some commonType) => .ok commonType
         | .ok none => tupleWay
         | r => Res.cast r)
      | none => tupleWay
    else tupleWay

/-- list branch of `Impl`: convert, unmark, append the elements -/
def concatListLoop (E : Env) (retTy : Ty) : List Value → List Value → List (List String) →
    Res (List Value × List (List String))
  | [], vals, markses => .ok (vals, markses)
  | list0 :: rest, vals, markses =>
    match convertTo E list0 retTy with
    | .err _ => .err "conversion failed"
    | .ok list1 =>
      let list := list1.unmark
      let markses := if list1.marks.length > 0 then markses ++ [list1.marks] else markses
      (match elems E list with
       | .ok es => concatListLoop E retTy rest (vals ++ es) markses
       | r => Res.cast r)
    | r => Res.cast r

/-- tuple branch of `Impl` -/
def concatTupleLoop (E : Env) : List Value → List Value → List (List String) →
    Res (List Value × List (List String))
  | [], vals, markses => .ok (vals, markses)
  | seq0 :: rest, vals, markses =>
    let seq := seq0.unmark
    let markses := if seq0.marks.length > 0 then markses ++ [seq0.marks] else markses
    match elems E seq with
    | .ok es => concatTupleLoop E rest (vals ++ es) markses
    | r => Res.cast r

def concatImpl (E : Env) : Fn.ImplFn := fun args retTy =>
  match retTy with
  | .list e =>
    (match concatListLoop E retTy args [] [] with
     | .ok (vals, markses) =>
       if vals.length == 0 then .ok (withMarkSets (listEmpty e) markses)
       else (Gocty.listVal vals).map (withMarkSets · markses)
     | r => Res.cast r)
  | .tuple _ =>
    (match concatTupleLoop E args [] [] with
     | .ok (vals, markses) => .ok (withMarkSets (Gocty.tupleVal vals) markses)
     | r => Res.cast r)
  | _ => .panic "unsupported return type"

/-! ### `range` -/

def rangeSpec : Fn.Spec := { params := [], varParam := some { ty := .number }, refine := some refineNN }
def rangeType : Fn.TypeFn := fun _ => .ok (.list .number)

/-- `cty.Zero` (a 53-bit zero) -/
def zero : Value := numVal (.fin false 0 0 53)

/-- `a.LessThanOrEqualTo(b)` = `a.LessThan(b).Or(a.Equals(b))` -/
def lte (a b : Value) : Res Value := do
  let l ← Value.lessThan a b
  let e ← Value.equals a b
  Value.or l e
/-- `a.GreaterThanOrEqualTo(b)` -/
def gte (a b : Value) : Res Value := do
  let g ← Value.greaterThan a b
  let e ← Value.equals a b
  Value.or g e

/-- `x.True()` of an operation result -/
def isTrueR (r : Res Value) : Res Bool :=
  match r with
  | .ok v => boolTrue v
  | r => Res.cast r

/-- the generating loop.  It runs at most 1025 times (the 1025th iteration either
stops or reports the limit); `fuel` makes that bound structural. -/
def rangeLoop (down : Bool) (stop step : Value) : Nat → Value → List Value → Res (List Value)
  | 0, _, _ => .unmodelled
  | fuel + 1, num, vals =>
    match isTrueR (if down then lte num stop else gte num stop) with
    | .ok true => .ok vals
    | .ok false =>
      if vals.length ≥ 1024 then .err "more than 1024 values were generated"
      else
        (match Value.add num step with
         | .ok next => rangeLoop down stop step fuel next (vals ++ [num])
         | r => Res.cast r)
    | r => Res.cast r

/-- `step.RawEquals(cty.PositiveInfinity) || step.RawEquals(cty.NegativeInfinity)` on a
known, unmarked number -/
def isInfNum (v : Value) : Bool :=
  match v.v with
  | .n (.inf _) => true
  | _ => false

/-- `step.RawEquals(cty.Zero)` on a known, unmarked number: `Equals(...).True()`, i.e.
`rawNumberEqual` with the 53-bit zero (true for every zero, of either sign) -/
def isZeroNum (v : Value) : Bool :=
  match v.v with
  | .n x => Num.rawEqual x (.fin false 0 0 53)
  | _ => false

def rangeImpl (_E : Env) : Fn.ImplFn := fun args _ =>
  let sel : Res (Value × Value × Value) :=
    match args with
    | [a] =>
      (match isTrueR (Value.lessThan a zero) with
       | .ok true => .ok (zero, a, intVal (-1))
       | .ok false => .ok (zero, a, intVal 1)
       | r => Res.cast r)
    | [a, b] =>
      (match isTrueR (Value.lessThan b a) with
       | .ok true => .ok (a, b, intVal (-1))
       | .ok false => .ok (a, b, intVal 1)
       | r => Res.cast r)
    | [a, b, c] => .ok (a, b, c)
    | _ => .err "must have one, two, or three arguments"
  match sel with
  | .ok (start, stop, step) =>
    if isZeroNum step then .err "step must not be zero"
    else if isInfNum step then .err "step must be finite"
    else
      (match isTrueR (Value.lessThan step zero) with
       | .ok down =>
         let dirOk : Res Bool :=
           if down then (isTrueR (Value.greaterThan stop start)).map (!·)
           else (isTrueR (Value.lessThan stop start)).map (!·)
         (match dirOk with
          | .ok false => .err "end must be on the side of start that step points to"
          | .ok true =>
            (match rangeLoop down stop step 1025 start [] with
             | .ok vals => if vals.length == 0 then .ok (listEmpty .number) else Gocty.listVal vals
             | r => Res.cast r)
          | r => Res.cast r)
       | r => Res.cast r)
  | r => Res.cast r

end Stdlib
end CtyModel
