/-
d14b — `time.ParseDuration` as far as `timeadd` depends on it: WHICH strings are durations
(grammar `[-+]?([0-9]*(\.[0-9]*)?[a-z]+)+`, the unit table, the special case "0", and every
overflow test of the Go code), transliterated from time/format.go (ParseDuration, leadingInt,
leadingFraction, unitMap).  The value is tracked as an interval: the fractional part goes
through float64 in Go (`uint64(float64(f) * (float64(unit)/scale))`), whose result is the
exact quotient rounded down give or take one; when an overflow test would come out
differently at the two ends of the interval the model says `none` (not modelled) instead of
guessing — this needs a sum within a few nanoseconds of 2^63 together with a fraction.
The scan is over code points; every character the code tests for is ASCII, and the two
non-ASCII unit names are compared whole, so bytes and code points agree.
-/
import CtyModel.Stdlib.d14bRef
namespace CtyModel
namespace StdNum
namespace D14b

def two63 : Nat := 9223372036854775808

def isDig (c : Char) : Bool := '0' ≤ c && c ≤ '9'

/-- `leadingInt`: `none` = errLeadingInt (overflow) -/
def leadingInt : List Char → Nat → Option (Nat × List Char)
  | [], x => some (x, [])
  | c :: cs, x =>
    if !isDig c then some (x, c :: cs)
    else if x > two63 / 10 then none
    else
      let x' := x * 10 + (c.toNat - 48)
      if x' > two63 then none else leadingInt cs x'

/-- `leadingFraction`: digits value and scale (a power of ten); stops accumulating on overflow -/
def leadingFraction : List Char → Nat → Nat → Bool → Nat × Nat × List Char
  | [], x, sc, _ => (x, sc, [])
  | c :: cs, x, sc, ov =>
    if !isDig c then (x, sc, c :: cs)
    else if ov then leadingFraction cs x sc true
    else if x > (two63 - 1) / 10 then leadingFraction cs x sc true
    else
      let y := x * 10 + (c.toNat - 48)
      if y > two63 then leadingFraction cs x sc true else leadingFraction cs y (sc * 10) false

/-- `unitMap` (nanoseconds) -/
def unitOf (u : List Char) : Option Nat :=
  if u = ['n', 's'] then some 1
  else if u = ['u', 's'] ∨ u = ['µ', 's'] ∨ u = ['μ', 's'] then some 1000
  else if u = ['m', 's'] then some 1000000
  else if u = ['s'] then some 1000000000
  else if u = ['m'] then some 60000000000
  else if u = ['h'] then some 3600000000000
  else none

/-- outcome of an overflow test `x > bound` on an interval -/
def gtBoth (lo hi bound : Nat) : Option Bool :=
  if lo > bound then some true else if hi ≤ bound then some false else none

/-- the `for s != ""` loop; `dlo..dhi` encloses `d`.  Result: `none` = not modelled (see header),
`some none` = error, `some (some (lo, hi))` = accepted with `d` in the interval -/
def durLoop : Nat → List Char → Nat → Nat → Option (Option (Nat × Nat))
  | 0, _, _, _ => none
  | _ + 1, [], dlo, dhi => some (some (dlo, dhi))
  | fuel + 1, c :: cs, dlo, dhi =>
    if !(c == '.' || isDig c) then some none
    else
      match leadingInt (c :: cs) 0 with
      | none => some none
      | some (v, s1) =>
        let pre := s1.length != (c :: cs).length
        let (f, scale, s2, post) :=
          match s1 with
          | '.' :: r =>
            let fr := leadingFraction r 0 1 false
            (fr.1, fr.2.1, fr.2.2, fr.2.2.length != r.length)
          | _ => (0, 1, s1, false)
        if !pre && !post then some none
        else
          let u := s2.takeWhile fun c => !(c == '.' || isDig c)
          let s3 := s2.dropWhile fun c => !(c == '.' || isDig c)
          if u.isEmpty then some none
          else
            match unitOf u with
            | none => some none
            | some unit =>
              if v > two63 / unit then some none
              else
                let v := v * unit
                let q := f * unit / scale
                let (vlo, vhi) := if f > 0 then (v + (q - 1), v + (q + 1)) else (v, v)
                match (if f > 0 then gtBoth vlo vhi two63 else some false) with
                | none => none
                | some true => some none
                | some false =>
                  match gtBoth (dlo + vlo) (dhi + vhi) two63 with
                  | none => none
                  | some true => some none
                  | some false => durLoop fuel s3 (dlo + vlo) (dhi + vhi)

/-- `[-+]?` -/
def durSign : List Char → Bool × List Char
  | '-' :: r => (true, r)
  | '+' :: r => (false, r)
  | s => (false, s)

/-- does `time.ParseDuration(s)` succeed?  (`none`: not modelled) -/
def durAccepts (s : List Char) : Option Bool :=
  let neg := (durSign s).1
  let s1 := (durSign s).2
  if s1 = ['0'] then some true
  else if s1.isEmpty then some false
  else
    match durLoop (s1.length + 1) s1 0 0 with
    | none => none
    | some none => some false
    | some (some (lo, hi)) =>
      if neg then some true
      else (gtBoth lo hi (two63 - 1)).map (!·)

/-- `refLib` with `time.ParseDuration`'s verdict from the transliteration as well -/
def refLibDur (L : Lib) : Lib :=
  { L with parseDuration := fun s => (durAccepts s.toList).getD false }

end D14b
end StdNum
end CtyModel
