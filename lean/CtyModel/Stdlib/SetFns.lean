/-
The `Type` and `Impl` callbacks of cty/function/stdlib/set.go, transliterated:
`sethaselement` and the four set-algebra functions, which unify the element
types, convert every argument to the unified set type, and run the generic
`cty/set` operations (`SetImpl`, property C03) under `setRules{ety}`.
-/
import CtyModel.Stdlib.Sequence
namespace CtyModel
namespace Stdlib
open Value

def setHasElementSpec : Fn.Spec :=
  { params := [{ ty := .set .dyn, allowDynamic := true }, { ty := .dyn, allowDynamic := true }],
    refine := some refineNN }
def setHasElementType : Fn.TypeFn := fun _ => .ok .bool
def setHasElementImpl (E : Env) : Fn.ImplFn
  | s :: e :: _, _ => Value.hasElement s e (E.hash e.ty e.v)
  | _, _ => oob

/-- parameters of `setunion`, `setintersection`, `setsymmetricdifference` -/
def setOpSpec : Fn.Spec :=
  { params := [{ ty := .set .dyn, allowDynamic := true }],
    varParam := some { ty := .set .dyn, allowDynamic := true }, refine := some refineNN }
/-- parameters of `setsubtract` -/
def setSubtractSpec : Fn.Spec :=
  { params := [{ ty := .set .dyn, allowDynamic := true }, { ty := .set .dyn, allowDynamic := true }],
    refine := some refineNN }

/-- the loop of `setOperationReturnType` collecting `etys`; `.ok none` is the early
`return cty.DynamicPseudoType, nil` taken at the first argument whose type is the
dynamic pseudo-type (`arg.Type() == cty.DynamicPseudoType`; since /repo 8027069 — before
that `ElementType()` panicked on it) -/
def setOpElemTypes : List Value → Res (Option (List Ty))
  | [] => .ok (some [])
  | arg :: rest =>
    if arg.ty.isDyn then .ok none
    else
    match elementTypeOf arg.ty with
    | .ok ty =>
      let skip : Res Bool :=
        if !arg.isKnown then .ok false
        else
          match lengthInt arg with
          | .ok l => .ok (l == 0 && ty.equals .dyn)
          | r => Res.cast r
      (match skip, setOpElemTypes rest with
       | .ok _, .ok none => .ok none
       | .ok true, .ok (some ts) => .ok (some ts)
       | .ok false, .ok (some ts) => .ok (some (ty :: ts))
       | .ok _, r => r
       | r, _ => Res.cast r)
    | r => Res.cast r

def setOpType (E : Env) : Fn.TypeFn := fun args =>
  match setOpElemTypes args with
  | .ok none => .ok .dyn
  | .ok (some []) => .ok (.set .dyn)
  | .ok (some etys) =>
    (match E.unify etys with
     | .ok (some newEty) => .ok (.set newEty)
     | .ok none => .err "given sets must all have compatible element types"
     | r => Res.cast r)
  | r => Res.cast r

/-- `val.AsValueSet()`: a fresh set receiving the elements in iteration order -/
def asValueSet (E : Env) (v : Value) : Res (Ty × SetImpl Payload) :=
  if v.isMarked then .panic "value is marked" else
  match elementTypeOf v.ty with
  | .ok ety =>
    (match elems E v with
     | .ok es =>
       if es.any fun e => (E.hash ety e.v).isNone then .unmodelled
       else .ok (ety, SetImpl.fromList (setRules E ety) (es.map (·.v)))
     | r => Res.cast r)
  | r => Res.cast r

inductive SetOpKind where
  | union | intersection | subtract | symmetricDifference
  deriving Repr, DecidableEq

/-- the `cty/set` method each function passes to `setOperationImpl` -/
def SetOpKind.run (k : SetOpKind) (R : Rules Payload) (s1 s2 : SetImpl Payload) : SetImpl Payload :=
  match k with
  | .union => SetImpl.union R s1 s2
  | .intersection => SetImpl.intersection R s1 s2
  | .subtract => SetImpl.subtract R s1 s2
  | .symmetricDifference => SetImpl.symmetricDifference R s1 s2

def SetOpKind.allowUnknowns : SetOpKind → Bool
  | .union => true
  | _ => false

/-- `for i, arg := range args[1:]`; `.ok none` = `return cty.UnknownVal(retType), nil` -/
def setOpLoop (E : Env) (k : SetOpKind) (retTy ety : Ty) : List Value → SetImpl Payload →
    Res (Option (SetImpl Payload))
  | [], set => .ok (some set)
  | arg0 :: rest, set =>
    match convertTo E arg0 retTy with
    | .err _ => .err "conversion failed"
    | .ok arg =>
      if !k.allowUnknowns && !arg.whollyKnown then .ok none
      else
        (match asValueSet E arg with
         | .ok (ety', argSet) =>
           -- `mustHaveSameRules`: `setRules{ety}.SameRules(setRules{ety'})` is `ety.Equals(ety')`
           if !(ety.equals ety') then .panic "incompatible set rules"
           else setOpLoop E k retTy ety rest (k.run (setRules E ety) set argSet)
         | r => Res.cast r)
    | r => Res.cast r

def setOpImpl (E : Env) (k : SetOpKind) : Fn.ImplFn := fun args retTy =>
  -- `if retType == cty.DynamicPseudoType { return cty.DynamicVal, nil }` (before `args[0]`)
  if retTy.isDyn then .ok Value.dynVal
  else
  match args with
  | first0 :: rest =>
    (match convertTo E first0 retTy with
     | .err _ => .err "conversion failed"
     | .ok first =>
       if !k.allowUnknowns && !first.whollyKnown then .ok (Value.unknown retTy)
       else
         (match asValueSet E first with
          | .ok (ety, set) =>
            (match setOpLoop E k retTy ety rest set with
             | .ok none => .ok (Value.unknown retTy)
             | .ok (some s) => .ok (ofSetImpl ety (SetImpl.copy s))
             | r => Res.cast r)
          | r => Res.cast r)
     | r => Res.cast r)
  | [] => oob

end Stdlib
end CtyModel
