/-
Stdlib string functions that count positions in grapheme clusters
(cty/function/stdlib/string.go: StrlenFunc, ReverseFunc, SubstrFunc) and the two
functions whose whole effect is a character loop (ChompFunc, IndentFunc).

Segmentation (`textseg.ScanGraphemeClusters`) and NFC normalisation
(`cty.StringVal` → `x/text/unicode/norm`) are external libraries: the functions
take them as parameters `clusters : String → List String` and `nfc : String →
String`; the driver instantiates them from oracle columns computed by the real
libraries.  The loops over the cluster list are modelled as written.
-/
import CtyModel.Stdlib.Number
namespace CtyModel
namespace StdNum

/-- `cty.StringVal(s)`: the string enters the value NFC-normalised -/
def stringVal (nfc : String → String) (s : String) : Value := ⟨.string, .s (nfc s)⟩

/-! ### strlen -/

/-- `graphemeClusterCount`: one `l++` per scanned cluster -/
def countLoop : List String → Nat → Nat
  | [], l => l
  | _ :: rest, l => countLoop rest (l + 1)

def strlenClusters (cs : List String) : Nat := countLoop cs 0

/-- `StrlenFunc` on a known string (the unknown-prefix branch belongs to C12) -/
def strlenImpl (clusters : String → List String) (args : List Value) : Res Value := do
  let a ← arg args 0
  if !a.isKnown then .unmodelled
  else
    let s ← asString a
    pure (Value.intVal (strlenClusters (clusters s)))

/-! ### reverse -/

/-- the copy loop of `ReverseFunc`: every cluster is copied in front of what has
been written so far (`pos -= len(cluster); copy(out[pos:], cluster)`); `acc` is the
written part of `out` as a list of clusters -/
def reverseLoop : List String → List String → List String
  | [], acc => acc
  | c :: rest, acc => reverseLoop rest (c :: acc)

def reverseImpl (nfc : String → String) (clusters : String → List String) (args : List Value) : Res Value := do
  let s ← asString (← arg args 0)
  pure (stringVal nfc (String.join (reverseLoop (clusters s) [])))

/-! ### substr -/

/-- first loop of `SubstrFunc` (entered when `offset > 0`): skip clusters until
`pos == offset`; `none` is the early `return cty.StringVal("")` taken when the
input is used up first.  `pos` is the number of clusters consumed so far. -/
def skipLoop (offset : Int) : List String → Int → Option (List String)
  | [], _ => some []
  | _ :: rest, pos =>
    if pos + 1 == offset then some rest
    else if rest.isEmpty then none
    else skipLoop offset rest (pos + 1)

/-- second loop of `SubstrFunc`: keep clusters until `pos == length`, tested after
the increment (`length = 0` returns early before the loops) -/
def takeLoop (length : Int) : List String → Int → List String
  | [], _ => []
  | c :: rest, pos => if pos + 1 == length then [c] else c :: takeLoop length rest (pos + 1)

/-- `SubstrFunc` on the cluster list of its first argument -/
def substrClusters (cs : List String) (offset length : Int) : List String :=
  let offset' := if offset < 0 then offset + (strlenClusters cs : Int) else offset
  if length = 0 then []
  else
    match (if offset' > 0 then skipLoop offset' cs 0 else some cs) with
    | none => []
    | some sub => if length < 0 then sub else takeLoop length sub 0

def substrImpl (nfc : String → String) (clusters : String → List String) (args : List Value) : Res Value := do
  let a ← arg args 0
  let s ← asString a
  let offset ← fromCtyInt (← arg args 1)
  let length ← fromCtyInt (← arg args 2)
  pure (stringVal nfc (String.join (substrClusters (clusters s) offset length)))

/-! ### chomp: `regexp.MustCompile("(?:\r\n?|\n)*\z").ReplaceAllString(s, "")` removes the
maximal trailing run of CR / LF characters -/

def isNewline (c : Char) : Bool := c == '\r' || c == '\n'

def chompChars (cs : List Char) : List Char := (cs.reverse.dropWhile isNewline).reverse

def chompImpl (nfc : String → String) (args : List Value) : Res Value := do
  let s ← asString (← arg args 0)
  pure (stringVal nfc (String.ofList (chompChars s.toList)))

/-! ### indent: `strings.Replace(data, "\n", "\n"+strings.Repeat(" ", spaces), -1)` -/

def indentChars (n : Nat) : List Char → List Char
  | [] => []
  | c :: rest => if c == '\n' then '\n' :: (List.replicate n ' ' ++ indentChars n rest) else c :: indentChars n rest

/-- `strings.Count(data, "\n")` -/
def countNewlines (cs : List Char) : Nat := (cs.filter (· == '\n')).length

/-- `math.MaxInt32` -/
def goMaxInt32 : Int := 2147483647

/-- `IndentFunc` (since /repo d4d90b0): a string without line breaks comes back as it is,
whatever the count; a padding that would make the result longer than `math.MaxInt32`
bytes is refused; Go's `/` on `int` truncates toward zero (`Int.tdiv`) -/
def indentImpl (nfc : String → String) (args : List Value) : Res Value := do
  let spaces ← fromCtyInt (← arg args 0)
  if spaces < 0 then .err "the number of spaces must not be negative"
  else
    let data ← asString (← arg args 1)
    let lines := countNewlines data.toList
    if lines == 0 then pure (stringVal nfc data)
    else if spaces > Int.tdiv (goMaxInt32 - (data.utf8ByteSize : Int)) (lines : Int) then
      .err "the number of spaces is too large: the resulting string would be too long"
    else pure (stringVal nfc (String.ofList (indentChars spaces.toNat data.toList)))

end StdNum
end CtyModel
