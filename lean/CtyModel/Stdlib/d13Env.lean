/-
`modelEnv`: the `Env` of the stdlib function models with NOTHING left to an
oracle — what the collection / sequence / set callbacks obtain from other
packages is computed by the models of those packages:

* `convert.UnifyUnsafe`  — `Convert.unifyTyF` (ConvertUnify.lean, property C09)
* `convert.Convert`      — `Convert.convert` (Convert.lean, property C08)
* `Value.Hash`           — `Value.hash` (SetRules.lean, property C03: crc32 of
                           `appendSetHashBytes`)
* byte order of two hash strings (`setRules.Less` on non-primitive element types)
                         — `bytesLt` of `Value.hashBytesP`

The driver op `std.callm` runs `XFunc.Call` under this environment and the
harness compares the answer with the real call (no oracle column), so the
theorems of `Props/C13` stated for `modelEnv` speak about an instance the
correspondence actually runs.  `.unmodelled` wherever one of the models leaves its
fragment (a rune outside the known part of `strconv`'s printable table, fuel).

Core Lean only: the driver links this file.
-/
import CtyModel.Stdlib.Funcs
import CtyModel.ConvertSet
import CtyModel.ConvertUnify
import CtyModel.SetRules
namespace CtyModel
namespace Stdlib

def d13UnifyFuel : Nat := 48
def d13ApplyFuel : Nat := 64

/-- the environment of the conversion model (as the C08 driver instantiates it) -/
def d13CvEnv : Convert.Env := Convert.Env.concrete (Convert.unifyTyF d13UnifyFuel)

/-- `Value{ety, p}.Hash()` by the hash model; `none` where it does not answer -/
def modelHash (ety : Ty) (p : Payload) : Option Int :=
  match Value.hash ⟨ety, p⟩ with
  | .ok h => some h
  | _ => none

def modelBytesLess (ety : Ty) (a b : Payload) : Bool :=
  match Value.hashBytesP ety a, Value.hashBytesP ety b with
  | .ok x, .ok y => bytesLt x y
  | _, _ => false

def modelEnv : Env :=
  { unify := fun tys => .ok (d13CvEnv.unifyG true tys)
    convert := fun v ty =>
      if !Convert.stringsModelled v.v then .unmodelled else Convert.convert d13CvEnv d13ApplyFuel v ty
    hash := modelHash
    bytesLess := modelBytesLess }

mutual
/-- every string in the payload (values and map keys) lies inside the part of
`strconv`'s printable-rune table both hash models know -/
def d13StringsKnown : Payload → Bool
  | .s s => (quoteChars s.toList).isSome
  | .seq vs | .sset _ vs => d13StringsKnownL vs
  | .smap ks vs => ks.all (fun k => (quoteChars k.toList).isSome) && d13StringsKnownL vs
  | .marked _ r => d13StringsKnown r
  | _ => true
def d13StringsKnownL : List Payload → Bool
  | [] => true
  | v :: vs => d13StringsKnown v && d13StringsKnownL vs
end

/-- the arguments stay inside the fragment `modelEnv` answers for -/
def modelEnvCovers (args : List Value) : Bool :=
  args.all fun a => d13StringsKnown a.v && Convert.stringsModelled a.v

end Stdlib
end CtyModel
