/-
The modelled stdlib functions as a table: `function.Spec` (parameters, flags,
`RefineResult`) with its `Type` and `Impl` callbacks, and `XFunc.Call(args)` as
the generic call protocol (`Fn.call`, property C10) applied to them.
-/
import CtyModel.Stdlib.SetFns
namespace CtyModel
namespace Stdlib

structure Func where
  spec : Fn.Spec
  tf : Env → Fn.TypeFn
  impl : Env → Fn.ImplFn

def byName : String → Option Func
  | "length" => some ⟨lengthSpec, fun _ => lengthType, fun _ => lengthImpl⟩
  | "hasindex" => some ⟨hasIndexSpec, fun _ => hasIndexType, fun _ => hasIndexImpl⟩
  | "index" => some ⟨indexSpec, fun _ => indexType, fun _ => indexImpl⟩
  | "element" => some ⟨elementSpec, fun _ => elementType, fun _ => elementImpl⟩
  | "coalescelist" => some ⟨coalesceListSpec, fun _ => coalesceListType, fun _ => coalesceListImpl⟩
  | "coalesce" => some ⟨coalesceSpec, coalesceType, coalesceImpl⟩
  | "compact" => some ⟨compactSpec, fun _ => compactType, compactImpl⟩
  | "contains" => some ⟨containsSpec, fun _ => containsType, containsImpl⟩
  | "distinct" => some ⟨distinctSpec, fun _ => distinctType, distinctImpl⟩
  | "chunklist" => some ⟨chunklistSpec, fun _ => chunklistType, chunklistImpl⟩
  | "flatten" => some ⟨flattenSpec, flattenType, flattenImpl⟩
  | "keys" => some ⟨keysSpec, fun _ => keysType, fun _ => keysImpl⟩
  | "values" => some ⟨valuesSpec, fun _ => valuesType, valuesImpl⟩
  | "lookup" => some ⟨lookupSpec, lookupType, lookupImpl⟩
  | "merge" => some ⟨mergeSpec, fun _ => mergeType, mergeImpl⟩
  | "reverse" => some ⟨reverseSpec, fun _ => reverseType, reverseImpl⟩
  | "slice" => some ⟨sliceSpec, fun _ => sliceType, sliceImpl⟩
  | "zipmap" => some ⟨zipmapSpec, zipmapType, zipmapImpl⟩
  | "sort" => some ⟨sortSpec, fun _ => sortType, sortImpl⟩
  | "setproduct" => some ⟨setProductSpec, setProductType, setProductImpl⟩
  | "concat" => some ⟨concatSpec, concatType, concatImpl⟩
  | "range" => some ⟨rangeSpec, fun _ => rangeType, rangeImpl⟩
  | "sethaselement" => some ⟨setHasElementSpec, fun _ => setHasElementType, setHasElementImpl⟩
  | "setunion" => some ⟨setOpSpec, setOpType, fun E => setOpImpl E .union⟩
  | "setintersection" => some ⟨setOpSpec, setOpType, fun E => setOpImpl E .intersection⟩
  | "setsubtract" => some ⟨setSubtractSpec, setOpType, fun E => setOpImpl E .subtract⟩
  | "setsymmetricdifference" => some ⟨setOpSpec, setOpType, fun E => setOpImpl E .symmetricDifference⟩
  | _ => none

def names : List String :=
  ["length", "hasindex", "index", "element", "coalescelist", "coalesce", "compact", "contains",
   "distinct", "chunklist", "flatten", "keys", "values", "lookup", "merge", "reverse", "slice",
   "zipmap", "sort", "setproduct", "concat", "range", "sethaselement", "setunion",
   "setintersection", "setsubtract", "setsymmetricdifference"]

/-- `XFunc.Call(args)` -/
def Func.call (f : Func) (E : Env) (args : List Value) : Fn.Out Value :=
  (Fn.call f.spec (f.tf E) (f.impl E) args).1

/-- `XFunc.ReturnTypeForValues(args)` -/
def Func.returnType (f : Func) (E : Env) (args : List Value) : Fn.Out Ty :=
  (Fn.returnTypeForValuesPub f.spec (f.tf E) args).1

end Stdlib
end CtyModel
