/-
Specification vocabulary for the C14 functions, in plain integer / list terms
(nothing here follows the Go control flow).  A finite number `.fin n m e p` has
the exact value `sval n m · 2^e`.
-/
import CtyModel.Stdlib.Glue
namespace CtyModel
namespace StdNum

/-- signed mantissa -/
def sval (n : Bool) (m : Nat) : Int := if n then -(m : Int) else (m : Int)

/-- the form every `*big.Float` that reaches the model has (the wire form): the
mantissa is odd — or the number is zero with exponent 0 — and fits the precision -/
def Normal : Num → Prop
  | .fin _ m e p => ((m = 0 ∧ e = 0) ∨ m % 2 = 1) ∧ Num.bitlen m ≤ p
  | .inf _ => True

/-- value of a digit string in `base`, most significant digit first -/
def digitsVal (base : Nat) (ds : List Char) : Nat := ds.foldl (fun acc c => acc * base + digitVal base c) 0

/-- `substr` in list vocabulary: a negative offset counts from the end (clamped at
the start), a negative length means "to the end" -/
def substrSpec (cs : List String) (offset length : Int) : List String :=
  let start : Int := if offset < 0 then max 0 (offset + (cs.length : Int)) else offset
  let rest := cs.drop start.toNat
  if length < 0 then rest else rest.take length.toNat

/-- a known string argument -/
abbrev sv (s : String) : Value := ⟨.string, .s s⟩

end StdNum
end CtyModel
