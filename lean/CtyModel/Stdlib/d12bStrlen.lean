/-
d12b — `strlen` (cty/function/stdlib/string.go, StrlenFunc) INCLUDING its unknown branch, following the Go
control flow: the parameter says `AllowUnknown` and `AllowDynamicType`; an unknown argument whose range has the
type constraint `cty.String` gives `UnknownVal(Number)` refined `NumberRangeLowerBound(n, true)` with `n` the
number of grapheme clusters of the range's string PREFIX; a dynamically typed unknown gives the unrefined
unknown number; the function-wide `RefineResult` adds `NotNull().NumberRangeLowerBound(0, true)`.
Segmentation (`textseg`) is a parameter (`clusters`), instantiated from an oracle column by the driver.
Core Lean only (the driver links this file).
-/
import CtyModel.Stdlib.Base
namespace CtyModel
namespace Stdlib

/-- `graphemeClusterCount`: one `l++` per scanned cluster -/
def clusterCountLoop : List String → Nat → Nat
  | [], l => l
  | _ :: rest, l => clusterCountLoop rest (l + 1)
def clusterCount (cs : List String) : Nat := clusterCountLoop cs 0

/-- `RefineResult: b.NotNull().NumberRangeLowerBound(cty.NumberIntVal(0), true)` -/
def strlenRefine : Fn.RefineFn := fun v =>
  match Refine.refine v [.notNull, .numLower (.known (Num.ofInt 0 64)) true] with
  | .ok r => some r.v
  | _ => none

def strlenSpec : Fn.Spec :=
  { params := [{ ty := .string, allowUnknown := true, allowDynamic := true }], refine := some strlenRefine }
def strlenType : Fn.TypeFn := fun _ => .ok .number

def strlenImplU (clusters : String → List String) : Fn.ImplFn
  | a :: _, _ =>
    if !a.isKnown then
      let ret := Value.unknown .number
      match Refine.range a with
      | .ok inRng =>
        (match inRng.ty with
         | .string =>
           (match Refine.ValueRange.stringPrefix inRng with
            | .ok pfx =>
              Refine.refine ret [.numLower (.known (Num.ofInt (clusterCount (clusters pfx)) 64)) true]
            | r => Res.cast r)
         | _ => .ok ret)
      | r => Res.cast r
    else
      match asString a with
      | .ok s => .ok (Value.intVal (clusterCount (clusters s)))
      | r => Res.cast r
  | _, _ => .panic "index out of range"

/-- `StrlenFunc.Call` -/
def strlenCall (clusters : String → List String) (args : List Value) : Fn.Out Value :=
  (Fn.call strlenSpec strlenType (strlenImplU clusters) args).1

end Stdlib
end CtyModel
