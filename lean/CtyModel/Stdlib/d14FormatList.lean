/-
d14 — `formatlist` (cty/function/stdlib/format.go, FormatListFunc.Impl) on wholly known
arguments, following the Go control flow: no arguments → `Format` wrapped in a one-element
list; first loop → which arguments are iterated (non-null lists, sets, tuples) and the
length rule; `iterLen == 0` → empty list WITHOUT looking at the format string; no sequence
at all → one iteration; second loop → `formatFSM` once per index on the i-th members /
the single values, the first error ends the call; `cty.ListVal` of the `cty.StringVal`s.
The unknown branches belong to C12 (`.unmodelled` here).  Core Lean only (driver).
-/
import CtyModel.Stdlib.Format
import CtyModel.JsonVal
namespace CtyModel
namespace StdNum

/-- the members an argument is iterated over (`ElementIterator` order: list / tuple order; a
set in `Values()` order, a stable sort by `setRules.Less` — modelled for primitive element
types, see `flSetOK`); `none` = a single value -/
def flSeq (a : Value) : Option (List Value) :=
  match a.ty, a.v with
  | .list e, .seq ps => some (ps.map fun p => ⟨e, p⟩)
  | .set e, .sset _ ps => some ((JsonVal.sortStable (JsonVal.primLess e) ps).map fun p => ⟨e, p⟩)
  | .tuple es, .seq ps => some (List.zipWith Value.mk es ps)
  | _, _ => none

/-- a set argument must have a primitive element type for its iteration order to be modelled -/
def flSetOK (a : Value) : Bool :=
  match a.ty, a.v with
  | .set e, .sset _ _ => JsonVal.isPrimTy e
  | _, _ => true

/-- first loop: `iterLen` (`none` = −1) or the inconsistent-length error -/
def flLen : List Value → Option Nat → Res (Option Nat)
  | [], it => .ok it
  | a :: rest, it =>
    match flSeq a with
    | some els =>
      match it with
      | none => flLen rest (some els.length)
      | some n => if els.length != n then .err "inconsistent argument lengths" else flLen rest it
    | none => flLen rest it

/-- `fmtArgs` of iteration `i` -/
def flArgsAt (args : List Value) (i : Nat) : List Value :=
  args.map fun a => match flSeq a with
    | some els => (els[i]?).getD a
    | none => a

/-- second loop over the iteration indices -/
def flIter (L : Lib) (fs : String) (args : List Value) : List Nat → Res (List Payload)
  | [] => .ok []
  | i :: is =>
    match fsmLoop L (flArgsAt args i) (fs.length + 1) fs.toList 0 1 0 "" with
    | .ok s =>
      match flIter L fs args is with
      | .ok ps => .ok (.s (L.nfc s) :: ps)
      | .err e => .err e
      | .panic w => .panic w
      | .unmodelled => .unmodelled
    | .err _ => .err "error on format iteration"
    | .panic w => .panic w
    | .unmodelled => .unmodelled

def formatListImpl (L : Lib) (args : List Value) : Res Value := do
  let f ← arg args 0
  let rest := args.drop 1
  if rest.any (fun a => !a.whollyKnown || a.containsMarked || !flSetOK a) then .unmodelled
  else if rest.length == 0 then
    match formatImpl L [f] with
    | .ok r => .ok ⟨.list .string, .seq [r.v]⟩
    | .err e => .err e
    | .panic w => .panic w
    | .unmodelled => .unmodelled
  else
    let fs ← asString f
    match flLen rest none with
    | .ok it =>
      if it == some 0 then .ok ⟨.list .string, .seq []⟩
      else
        match flIter L fs rest (List.range (it.getD 1)) with
        | .ok ps => .ok ⟨.list .string, .seq ps⟩
        | .err e => .err e
        | .panic w => .panic w
        | .unmodelled => .unmodelled
    | .err e => .err e
    | .panic w => .panic w
    | .unmodelled => .unmodelled

end StdNum
end CtyModel
