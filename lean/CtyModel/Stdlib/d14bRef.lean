/-
d14b — reference models of the Go standard-library calls behind `split`, `trimprefix`,
`trimsuffix`, `trimspace`, `trim` (package strings), and the NaN domain of
`math.Log(num)/math.Log(base)` and `math.Pow` behind `log` and `pow`.

Until now these were oracle columns of `Lib` (the harness recorded the library's
answer and the model only did the glue).  Here the library function itself is
transliterated (strings.Index, strings.genSplit / explode, strings.TrimPrefix,
TrimSuffix, TrimFunc with unicode.IsSpace, Trim with a cutset) on the code points of
the string.  cty strings are valid UTF-8, and UTF-8 is self-synchronising, so the
byte-wise search of the Go code and the code-point-wise search here find the same
positions; the correspondence op `std.glue.ref` diffs `SplitFunc`, `TrimPrefixFunc`, …
of /repo against the `Impl` models instantiated with THESE functions (`refLib`), with
no oracle column for them (only NFC stays an oracle).  `std.dom` diffs the ok/err class
of `LogFunc` / `PowFunc` against `logNaN` / `powNaN` with no oracle at all.
-/
import CtyModel.Stdlib.Glue
namespace CtyModel
namespace StdNum
namespace D14b

/-! ### package strings -/

/-- `strings.Index(s, sep)`: position of the first occurrence (`none` = -1) -/
def goIndex (sep : List Char) : List Char → Option Nat
  | [] => if sep.isEmpty then some 0 else none
  | c :: rest => if sep.isPrefixOf (c :: rest) then some 0 else (goIndex sep rest).map (· + 1)

/-- the loop of `strings.genSplit` (sepSave = 0, no count limit):
`m := Index(s, sep); if m < 0 {break}; a[i] = s[:m]; s = s[m+len(sep):]`, then `a[i] = s`.
Go bounds the loop by `Count(s, sep)`; the fuel here is any bound above `len(s)`
(`D14b.splitLoop_fuel`: the value does not depend on it). -/
def splitLoop (sep : List Char) : Nat → List Char → List (List Char)
  | 0, s => [s]
  | f + 1, s =>
    match goIndex sep s with
    | none => [s]
    | some i => s.take i :: splitLoop sep f (s.drop (i + sep.length))

/-- `strings.explode(s, -1)` on valid UTF-8: one string per code point -/
def explode (s : List Char) : List (List Char) := s.map ([·])

/-- `strings.Split(s, sep)` = `genSplit(s, sep, 0, -1)` -/
def goSplit (s sep : List Char) : List (List Char) :=
  if sep.isEmpty then explode s else splitLoop sep (s.length + 1) s

/-- `strings.Join(elems, sep)` -/
def goJoin (sep : List Char) : List (List Char) → List Char
  | [] => []
  | [a] => a
  | a :: b :: rest => a ++ sep ++ goJoin sep (b :: rest)

/-- `strings.TrimPrefix`: `if HasPrefix(s, prefix) { return s[len(prefix):] }; return s` -/
def goTrimPrefix (s p : List Char) : List Char := if p.isPrefixOf s then s.drop p.length else s

/-- `strings.TrimSuffix`: `if HasSuffix(s, suffix) { return s[:len(s)-len(suffix)] }; return s` -/
def goTrimSuffix (s p : List Char) : List Char := if p.isSuffixOf s then s.take (s.length - p.length) else s

/-- `unicode.IsSpace`: the White_Space property (Latin-1 fast path + the `White_Space` range table) -/
def goIsSpace (c : Char) : Bool :=
  let n := c.toNat
  n == 0x09 || n == 0x0A || n == 0x0B || n == 0x0C || n == 0x0D || n == 0x20 || n == 0x85 || n == 0xA0 ||
  n == 0x1680 || (0x2000 ≤ n && n ≤ 0x200A) || n == 0x2028 || n == 0x2029 || n == 0x202F || n == 0x205F || n == 0x3000

/-- `strings.TrimFunc(s, f)` = `TrimRightFunc(TrimLeftFunc(s, f), f)` -/
def trimBoth (f : Char → Bool) (s : List Char) : List Char :=
  ((s.dropWhile f).reverse.dropWhile f).reverse

/-- `strings.TrimSpace` -/
def goTrimSpace (s : List Char) : List Char := trimBoth goIsSpace s

/-- `strings.Trim(s, cutset)`: `if s == "" || cutset == "" { return s }`, else both ends
are cut while the code point occurs in the cutset -/
def goTrim (s cutset : List Char) : List Char :=
  if s.isEmpty || cutset.isEmpty then s else trimBoth (fun c => cutset.contains c) s

/-- the library with the five calls above answered by the transliterations -/
def refLib (L : Lib) : Lib :=
  { L with
    split := fun s sep => (goSplit s.toList sep.toList).map String.ofList
    trimPrefix := fun s p => String.ofList (goTrimPrefix s.toList p.toList)
    trimSuffix := fun s p => String.ofList (goTrimSuffix s.toList p.toList)
    trimSpace := fun s => String.ofList (goTrimSpace s.toList)
    trim := fun s c => String.ofList (goTrim s.toList c.toList) }

/-- the functions whose library call `refLib` answers -/
def refImpl (name : String) : Option (Lib → List Value → Res Value) :=
  match name with
  | "split" => some fun L => splitImpl (refLib L)
  | "trimprefix" => some fun L => trimPrefixImpl (refLib L)
  | "trimsuffix" => some fun L => trimSuffixImpl (refLib L)
  | "trimspace" => some fun L => trimSpaceImpl (refLib L)
  | "trim" => some fun L => trimImpl (refLib L)
  | _ => none

/-! ### package math: where the answer is NaN -/

def isOne (x : Num) : Bool := Num.cmp x (Num.ofInt 1) == 0

/-- `math.Log(x)` is ±Inf exactly for `x = 0` and `x = +Inf` -/
def logInfinite (x : Num) : Bool := x.isZero || (x.isInf && !x.signbit)

/-- `math.IsNaN(math.Log(num) / math.Log(base))` for float64 arguments (never NaN
themselves): `Log` of a negative number is NaN; `0/0` arises for `num = base = 1`
(`Log x = 0` only at 1); `Inf/Inf` for both in `{0, +Inf}`. -/
def logNaN (num base : Num) : Bool :=
  num.sign == -1 || base.sign == -1 || (isOne num && isOne base) || (logInfinite num && logInfinite base)

/-- `math.IsNaN(math.Pow(x, y))` for non-NaN arguments: the only NaN case in the
special-case table is "finite x < 0 and finite non-integer y". -/
def powNaN (x y : Num) : Bool :=
  x.sign == -1 && !x.isInf && !y.isInf && !y.isInt

/-- a math library that is only asked whether the answer is a number -/
def domLib (nan : Num → Num → Bool) (a b : Num) : F64 := if nan a b then .nan else .num (Num.zero 53)

/-- ok/err class of `log` / `pow` by the domain rule alone -/
def domClass (name : String) (args : List Value) : Option String :=
  let cls (r : Res Value) : String :=
    match r with
    | .ok _ => "ok" | .err _ => "err" | .panic _ => "panicerr" | .unmodelled => "unmodelled"
  match name with
  | "log" => some (cls (logImpl (domLib logNaN) args))
  | "pow" => some (cls (powImpl (domLib powNaN) args))
  | _ => none

end D14b
end StdNum
end CtyModel
