/-
SPECIFICATIONS of the collection, sequence and set functions, in plain `List`
vocabulary — written without reference to the Go control flow (no loops with
counters, no `%` of truncated division, no odometer, no accumulators).
`Props/C13.lean` states `model = spec`.

Core Lean only, no imports from the model.
-/
namespace CtyModel
namespace Stdlib
namespace Spec

variable {α β : Type}

/-! ### index arithmetic -/

/-- `element`: wrap-around indexing, `l[i mod len]` with the Euclidean remainder
(always in `0 … len-1`, also for negative `i`); undefined on the empty list -/
def element? (l : List α) (i : Int) : Option α :=
  if l.length = 0 then none else l[(i % (l.length : Int)).toNat]?

/-- `slice`: the elements at positions `a ≤ p < b` -/
def slice (l : List α) (a b : Nat) : List α := (l.drop a).take (b - a)

/-- the documented domain of `slice` -/
def sliceDomain (len : Nat) (a b : Int) : Prop := 0 ≤ a ∧ a ≤ b ∧ b ≤ len

/-- `chunklist`: `cs` cuts `l` into consecutive non-empty pieces, every piece but
the last of length exactly `n`, the last of length at most `n` -/
def IsChunking (n : Nat) (l : List α) (cs : List (List α)) : Prop :=
  cs.flatten = l ∧ (∀ c ∈ cs, c ≠ []) ∧ (∀ c ∈ cs.dropLast, c.length = n) ∧ (∀ c ∈ cs, c.length ≤ n)

/-! ### duplicates, filtering, order -/

/-- first occurrences: an element is kept iff NO earlier element of the input
(kept or not) is equal to it; order preserved.  `before` is the input so far. -/
def firstOccsFrom (eqv : α → α → Bool) : List α → List α → List α
  | _, [] => []
  | before, x :: xs =>
    if before.any (fun y => eqv y x) then firstOccsFrom eqv (before ++ [x]) xs
    else x :: firstOccsFrom eqv (before ++ [x]) xs

def firstOccs (eqv : α → α → Bool) (l : List α) : List α := firstOccsFrom eqv [] l

/-- `sort`: `r` is the ascending arrangement of `l` -/
def IsSortOf (le : α → α → Prop) (l r : List α) : Prop := r.Perm l ∧ r.Pairwise le

/-! ### maps: a list of bindings read with "last wins" -/

/-- the value the LAST binding of `k` in `pairs` gives it -/
def lastBinding (k : String) (pairs : List (String × β)) : Option β :=
  (pairs.reverse.find? (fun p => p.1 == k)).map (·.2)

/-- lookup in an association list -/
def assoc (k : String) (m : List (String × β)) : Option β :=
  (m.find? (fun p => p.1 == k)).map (·.2)

/-- `m` is the map denoted by the binding sequence `pairs`: keys strictly
ascending (so each key once), every key bound to its last binding -/
def IsMapOf (pairs m : List (String × β)) : Prop :=
  (m.map (·.1)).Pairwise (· < ·) ∧ ∀ k, assoc k m = lastBinding k pairs

/-! ### products and progressions -/

/-- row-major Cartesian product: the first list varies slowest -/
def cartesian : List (List α) → List (List α)
  | [] => [[]]
  | l :: ls => l.flatMap fun x => (cartesian ls).map (x :: ·)

/-- `x, f x, f (f x), …` (`n` terms) -/
def iterate (f : α → α) : Nat → α → List α
  | 0, _ => []
  | n + 1, x => x :: iterate f n (f x)

/-- the `k`-th term -/
def iterNth (f : α → α) : Nat → α → α
  | 0, x => x
  | k + 1, x => iterNth f k (f x)

/-- `range`: `vals` is the progression from `start` by `next` up to (excluding)
the first term that satisfies `stop` -/
def IsProgression (next : α → α) (stop : α → Bool) (start : α) (vals : List α) : Prop :=
  vals = iterate next vals.length start ∧
  (∀ k, k < vals.length → stop (iterNth next k start) = false) ∧
  stop (iterNth next vals.length start) = true

/-! ### sets as lists up to an equivalence -/

/-- `x` is represented in `l` -/
def memBy (eqv : α → α → Bool) (l : List α) (x : α) : Prop := ∃ y ∈ l, eqv x y = true

end Spec
end Stdlib
end CtyModel
