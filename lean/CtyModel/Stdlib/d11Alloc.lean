/-
C11, allocation drivers: the places of cty/function/stdlib where a number the CALLER controls
becomes the size of an allocation, modelled with Go's `int` arithmetic (64-bit, wrapping) and the
Go runtime's refusal of requests beyond the address space, following the Go control flow:

* `indent`      string.go:   `gocty.FromCtyValue(args[0], &spaces)`; `spaces < 0` → error;
                             `strings.Repeat(" ", spaces)` — before the string is looked at;
* `format`      format_fsm.rl: `verb.Width = (10 * verb.Width) + digit` (likewise `Prec`), no
                             overflow check; format.go `formatPadWidth`: `Width < 0` → no padding;
                             `givenLen >= wantLen` → no padding; `strings.Repeat(pad, wantLen-givenLen)`;
* `setproduct`  collection.go: `total *= arg.LengthInt()`, no overflow check; `total == 0` →
                             empty result; `make([][]cty.Value, total)`; `make([]cty.Value, total*len(args))`.

`strings.Repeat` (Go 1.23): negative count panics; `len(s)*count` overflowing `int` panics;
`Builder.Grow(n)` → `bytealg.MakeNoZero(n)` panics with "makeslice: len out of range" when
`n > maxAlloc`.  `runtime.makeslice` panics when `len < 0` or `len*elemsize > maxAlloc`.
`maxAlloc` is 2^48 on linux/amd64 (the platform the harness runs on): a parameter of the
definitions below.  Between what the machine has and `maxAlloc` the request is a real allocation
(the model answers `.ok`; the harness never runs it: generated sizes are capped at 10^6).

Core Lean only: the driver links this file (op `c11.alloc`, Driver/HD11.lean).
-/
import CtyModel.Stdlib.Base
namespace CtyModel
namespace D11
open Stdlib

/-- largest Go `int` -/
def maxInt64 : Int := 9223372036854775807

/-- Go `int` arithmetic wraps around modulo 2^64 into [-2^63, 2^63) -/
def wrap64 (x : Int) : Int := (x + 9223372036854775808) % 18446744073709551616 - 9223372036854775808

/-- `runtime.maxAlloc` on linux/amd64 -/
def maxAlloc : Int := 281474976710656

/-- `make([]T, n)` for an element size of `esz` bytes -/
def makeslice (n esz : Int) : Res Unit :=
  if n < 0 ∨ n * esz > maxAlloc then .panic "makeslice: len out of range" else .ok ()

/-- `strings.Repeat(s, count)` for `len(s) = slen`: the length of the result -/
def goRepeat (slen count : Int) : Res Int :=
  if count < 0 then .panic "strings: negative Repeat count"
  else if slen * count > maxInt64 then .panic "strings: Repeat output length overflow"
  else if slen * count > maxAlloc then .panic "makeslice: len out of range"
  else .ok (slen * count)

/-! ### indent -/

/-- `IndentFunc`'s Impl up to and including `pad := strings.Repeat(" ", spaces)`: the length of
the padding -/
def indentPad (spaces : Value) : Res Int :=
  match fromCtyInt spaces with
  | .ok k => if k < 0 then .err "the number of spaces must not be negative" else goRepeat 1 k
  | .err c => .err c
  | .panic w => .panic w
  | .unmodelled => .unmodelled

/-! ### format: width / precision digits and `formatPadWidth` -/

/-- the scanner's actions 13/14 (16/17): `Width = 0`, then `Width = (10 * Width) + digit` per digit -/
def accDigits (ds : List Nat) : Int := ds.foldl (fun (n : Int) (d : Nat) => wrap64 (10 * n + (d : Int))) 0

/-- the number the digits spell -/
def litValue (ds : List Nat) : Int := ds.foldl (fun (n : Int) (d : Nat) => 10 * n + (d : Int)) 0

/-- `formatPadWidth(verb, fmted)` with `verb.Width = width` and `givenLen` grapheme clusters in
`fmted` (pad characters are one byte): the number of pad bytes -/
def formatPad (width givenLen : Int) : Res Int :=
  if width < 0 then .ok 0
  else if givenLen ≥ width then .ok 0
  else goRepeat 1 (width - givenLen)

/-- a `%<digits>s`-style verb applied to a text of `givenLen` clusters -/
def formatPadOfDigits (ds : List Nat) (givenLen : Int) : Res Int := formatPad (accDigits ds) givenLen

/-! ### setproduct -/

/-- `total := 1; for … { total *= arg.LengthInt() }` -/
def totalLen (ls : List Int) : Int := ls.foldl (fun t l => wrap64 (t * l)) 1

/-- the mathematical product -/
def prodLen (ls : List Int) : Int := ls.foldl (fun t l => t * l) 1

/-- `SetProductFunc`'s Impl from `total` to the two `make` calls (all arguments of known length):
the number of tuples; 24 = size of a slice header, 32 = size of a `cty.Value` -/
def setProductAlloc (ls : List Int) : Res Int :=
  let total := totalLen ls
  if total == 0 then .ok 0
  else match makeslice total 24 with
    | .ok _ =>
      (match makeslice (wrap64 (total * ls.length)) 32 with
       | .ok _ => .ok total
       | .err c => .err c
       | .panic w => .panic w
       | .unmodelled => .unmodelled)
    | .err c => .err c
    | .panic w => .panic w
    | .unmodelled => .unmodelled

end D11
end CtyModel
