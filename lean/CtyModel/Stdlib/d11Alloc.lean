/-
C11, allocation drivers: the places of cty/function/stdlib where a number the CALLER controls
becomes the size of an allocation, modelled with Go's `int` arithmetic (64-bit, wrapping) and the
Go runtime's refusal of requests beyond the address space, following the Go control flow
(as of /repo 490ecb9, d4d90b0, 84cbc5e, which repaired the three defects this file first exhibited):

* `indent`      string.go:   `gocty.FromCtyValue(args[0], &spaces)`; `spaces < 0` → error;
                             `lines := strings.Count(data, "\n")`; `lines == 0` → the string as it is;
                             `spaces > (math.MaxInt32-len(data))/lines` → error;
                             `strings.Repeat(" ", spaces)`;
* `format`      format_fsm.rl: `verb.Width = formatArgNumAppendDigit(verb.Width, digit)` (likewise
                             `Prec`): saturates at the largest `int`; format.go `formatAppend`:
                             `HasWidth && Width > formatMaxWidthPrec` → error (likewise `Prec`);
                             `formatPadWidth`: `Width < 0` → no padding; `givenLen >= wantLen` → no
                             padding; `strings.Repeat(pad, wantLen-givenLen)`;
* `setproduct`  collection.go: `maxTotal := math.MaxInt32`, divided by `len(args)` when that is > 1;
                             per argument `l == 0` → `total = 0`; `total != 0 && total > maxTotal/l`
                             → `tooMany = true`; else `total *= l`; `total != 0 && tooMany` → error;
                             `total == 0` → empty result; `make([][]cty.Value, total)`;
                             `make([]cty.Value, total*len(args))`.

`strings.Repeat` (Go 1.23): negative count panics; `len(s)*count` overflowing `int` panics;
`Builder.Grow(n)` → `bytealg.MakeNoZero(n)` panics with "makeslice: len out of range" when
`n > maxAlloc`.  `runtime.makeslice` panics when `len < 0` or `len*elemsize > maxAlloc`.
`maxAlloc` is 2^48 on linux/amd64 (the platform the harness runs on): a parameter of the
definitions below.  Go's `/` on `int` truncates toward zero: `Int.tdiv`.

Core Lean only: the driver links this file (op `c11.alloc`, Driver/HD11.lean).
-/
import CtyModel.Stdlib.Base
namespace CtyModel
namespace D11
open Stdlib

/-- an ordinary error (not a panic) -/
def isErr {α} : Res α → Bool
  | .err _ => true
  | _ => false

/-- largest Go `int` -/
def maxInt64 : Int := 9223372036854775807

/-- `math.MaxInt32` -/
def maxInt32 : Int := 2147483647

/-- Go `int` arithmetic wraps around modulo 2^64 into [-2^63, 2^63) -/
def wrap64 (x : Int) : Int := (x + 9223372036854775808) % 18446744073709551616 - 9223372036854775808

/-- `runtime.maxAlloc` on linux/amd64 -/
def maxAlloc : Int := 281474976710656

/-- `make([]T, n)` for an element size of `esz` bytes -/
def makeslice (n esz : Int) : Res Unit :=
  if n < 0 ∨ n * esz > maxAlloc then .panic "makeslice: len out of range" else .ok ()

/-- `strings.Repeat(s, count)` for `len(s) = slen`: the length of the result -/
def goRepeat (slen count : Int) : Res Int :=
  if count < 0 then .panic "strings: negative Repeat count"
  else if slen * count > maxInt64 then .panic "strings: Repeat output length overflow"
  else if slen * count > maxAlloc then .panic "makeslice: len out of range"
  else .ok (slen * count)

/-! ### indent -/

/-- `IndentFunc`'s Impl up to and including `pad := strings.Repeat(" ", spaces)`, for a string of
`dataLen` bytes holding `lines` line breaks: the length of the padding (0 when none is built) -/
def indentPad (spaces : Value) (dataLen lines : Int) : Res Int :=
  match fromCtyInt spaces with
  | .ok k =>
    if k < 0 then .err "the number of spaces must not be negative"
    else if lines == 0 then .ok 0
    else if k > Int.tdiv (maxInt32 - dataLen) lines then .err "the number of spaces is too large"
    else goRepeat 1 k
  | .err c => .err c
  | .panic w => .panic w
  | .unmodelled => .unmodelled

/-! ### format: width / precision digits and `formatPadWidth` -/

/-- `formatMaxWidthPrec` -/
def formatMaxWidthPrec : Int := 1000000

/-- `(maxInt-9)/10` -/
def satThreshold : Int := 922337203685477579

/-- `formatArgNumAppendDigit(n, digit)` -/
def appendDigit (n : Int) (d : Nat) : Int := if n > satThreshold then maxInt64 else 10 * n + (d : Int)

/-- the scanner's actions 13/14 (16/17): `Width = 0`, then `Width = formatArgNumAppendDigit(Width, digit)` per digit -/
def accDigits (ds : List Nat) : Int := ds.foldl appendDigit 0

/-- the number the digits spell -/
def litValue (ds : List Nat) : Int := ds.foldl (fun (n : Int) (d : Nat) => 10 * n + (d : Int)) 0

/-- `formatPadWidth(verb, fmted)` with `verb.Width = width` and `givenLen` grapheme clusters in
`fmted` (pad characters are one byte): the number of pad bytes -/
def formatPad (width givenLen : Int) : Res Int :=
  if width < 0 then .ok 0
  else if givenLen ≥ width then .ok 0
  else goRepeat 1 (width - givenLen)

/-- a `%<digits>s`-style verb applied to a text of `givenLen` clusters: `formatAppend`'s width
guard, then `formatPadWidth` -/
def formatPadOfDigits (ds : List Nat) (givenLen : Int) : Res Int :=
  if accDigits ds > formatMaxWidthPrec then .err "unsupported width" else formatPad (accDigits ds) givenLen

/-! ### setproduct -/

/-- `maxTotal := math.MaxInt32; if len(args) > 1 { maxTotal /= len(args) }` -/
def spMaxTotal (n : Nat) : Int := if n > 1 then Int.tdiv maxInt32 (n : Int) else maxInt32

/-- one round of the loop over the arguments (all of known length): `(total, tooMany)` -/
def spStep (maxTotal : Int) (st : Int × Bool) (l : Int) : Int × Bool :=
  if l == 0 then (0, st.2)
  else if st.1 != 0 && st.1 > Int.tdiv maxTotal l then (st.1, true)
  else (wrap64 (st.1 * l), st.2)

/-- `total`, `tooMany` after the loop -/
def spLoop (ls : List Int) : Int × Bool := ls.foldl (spStep (spMaxTotal ls.length)) (1, false)

/-- the mathematical product -/
def prodLen (ls : List Int) : Int := ls.foldl (fun t l => t * l) 1

/-- `SetProductFunc`'s Impl from `total` to the two `make` calls (all arguments of known length):
the number of tuples; 24 = size of a slice header, 32 = size of a `cty.Value` -/
def setProductAlloc (ls : List Int) : Res Int :=
  let st := spLoop ls
  if st.1 != 0 && st.2 then .err "too many combinations"
  else if st.1 == 0 then .ok 0
  else match makeslice st.1 24 with
    | .ok _ =>
      (match makeslice (wrap64 (st.1 * ls.length)) 32 with
       | .ok _ => .ok st.1
       | .err c => .err c
       | .panic w => .panic w
       | .unmodelled => .unmodelled)
    | .err c => .err c
    | .panic w => .panic w
    | .unmodelled => .unmodelled

end D11
end CtyModel
