/-
Slice d11b (C11, second deepening): the statically typed number / bool functions of
cty/function/stdlib/number.go and bool.go as PROTOCOL INSTANCES — `function.Spec` (parameter
declarations as in the regenerated table, `RefineResult: refineNonNull`), the constant `Type`
callback `function.StaticReturnType(T)`, and the `Impl` callbacks already modelled for C14
(`Stdlib/Number.lean`, namespace `StdNum`) — so that `XFunc.Call(args)` is `Fn.call` applied to
them, for ANY argument list.  Tied to the code by the `d11b.call` correspondence (harness/c11_d11b.go)
and to the regenerated tables by `C11.d11b_specs_are_table_entries`.

Core Lean only: the driver links this file.
-/
import CtyModel.Stdlib.Funcs
import CtyModel.Stdlib.Number
import CtyModel.Stdlib.Glue
import CtyModel.Stdlib.Specs
namespace CtyModel
namespace D11b
open Stdlib

def pNum : Fn.Param := { ty := .number }
def pNumD : Fn.Param := { ty := .number, allowDynamic := true }
def pNumDM : Fn.Param := { ty := .number, allowDynamic := true, allowMarked := true }
def pBoolDM : Fn.Param := { ty := .bool, allowDynamic := true, allowMarked := true }

def spec1 (p : Fn.Param) : Fn.Spec := { params := [p], refine := some refineNN }
def spec2 (p q : Fn.Param) : Fn.Spec := { params := [p, q], refine := some refineNN }
def specVar (vp : Fn.Param) : Fn.Spec := { params := [], varParam := some vp, refine := some refineNN }

/-- `function.StaticReturnType(T)` -/
def staticTf (T : Ty) : Fn.TypeFn := fun _ => .ok T

/-- an `Impl` that ignores the return type it is handed -/
def implOf (f : List Value → Res Value) : Fn.ImplFn := fun as _ => f as

def mk (spec : Fn.Spec) (T : Ty) (f : List Value → Res Value) : Func := ⟨spec, fun _ => staticTf T, fun _ => implOf f⟩

def signumF : Func := mk (spec1 pNum) .number StdNum.signumImpl
def ceilF : Func := mk (spec1 pNum) .number StdNum.ceilImpl
def floorF : Func := mk (spec1 pNum) .number StdNum.floorImpl
def intF : Func := mk (spec1 pNumD) .number StdNum.intImpl
def absF : Func := mk (spec1 pNumDM) .number StdNum.absoluteImpl
def negF : Func := mk (spec1 pNumDM) .number StdNum.negateImpl
def minF : Func := mk (specVar pNumD) .number StdNum.minImpl
def maxF : Func := mk (specVar pNumD) .number StdNum.maxImpl
def notF : Func := mk (spec1 pBoolDM) .bool StdNum.notImpl
def andF : Func := mk (spec2 pBoolDM pBoolDM) .bool StdNum.andImpl
def orF : Func := mk (spec2 pBoolDM pBoolDM) .bool StdNum.orImpl
def addF : Func := mk (spec2 pNumD pNumD) .number StdNum.addImpl
def subF : Func := mk (spec2 pNumD pNumD) .number StdNum.subtractImpl
def mulF : Func := mk (spec2 pNumD pNumD) .number StdNum.multiplyImpl
def divF : Func := mk (spec2 pNumD pNumD) .number StdNum.divideImpl
def modF : Func := mk (spec2 pNumD pNumD) .number StdNum.moduloImpl

/-- (name used by the harness, Go variable, declared static type as the source prints it, model) -/
def table : List (String × String × String × Func) :=
  [("signum", "SignumFunc", "cty.Number", signumF), ("ceil", "CeilFunc", "cty.Number", ceilF),
   ("floor", "FloorFunc", "cty.Number", floorF), ("int", "IntFunc", "cty.Number", intF),
   ("abs", "AbsoluteFunc", "cty.Number", absF), ("neg", "NegateFunc", "cty.Number", negF),
   ("min", "MinFunc", "cty.Number", minF), ("max", "MaxFunc", "cty.Number", maxF),
   ("not", "NotFunc", "cty.Bool", notF), ("and", "AndFunc", "cty.Bool", andF), ("or", "OrFunc", "cty.Bool", orF),
   ("add", "AddFunc", "cty.Number", addF), ("sub", "SubtractFunc", "cty.Number", subF),
   ("mul", "MultiplyFunc", "cty.Number", mulF), ("div", "DivideFunc", "cty.Number", divF),
   ("mod", "ModuloFunc", "cty.Number", modF)]

/-! ### `assertnotnull` (conversion.go): `Type` answers the argument's type, `Impl` the argument -/

def assertNotNullType : Fn.TypeFn
  | a :: _ => .ok a.ty
  | _ => .panic "index out of range"
def assertNotNullImpl : Fn.ImplFn
  | a :: _, _ => .ok a
  | _, _ => .panic "index out of range"
def assertNotNullF : Func := ⟨spec1 { ty := .dyn }, fun _ => assertNotNullType, fun _ => assertNotNullImpl⟩

/-- (harness name, Go variable, model) of dynamically typed functions modelled in this slice -/
def dynTable : List (String × String × Func) := [("assertnotnull", "AssertNotNullFunc", assertNotNullF)]

def byName (name : String) : Option Func :=
  match (table.find? fun e => e.1 == name).map (·.2.2.2) with
  | some f => some f
  | none => (dynTable.find? fun e => e.1 == name).map (·.2.2)


/-! ### the string functions that are `cty.StringVal ∘ library` (string.go, string_replace.go): the
Go standard library, x/text and textseg are the parameter `L : StdNum.Lib` (Stdlib/Glue.lean) -/

def pStr : Fn.Param := { ty := .string }
def pStrD : Fn.Param := { ty := .string, allowDynamic := true }
def spec3 (p q r : Fn.Param) : Fn.Spec := { params := [p, q, r], refine := some refineNN }
/-- two parameters, no `RefineResult` -/
def spec2n (p q : Fn.Param) : Fn.Spec := { params := [p, q] }

/-- (harness name, Go variable, declared static type, model for a given library) -/
def glueTable : List (String × String × String × (StdNum.Lib → Func)) :=
  [("upper", "UpperFunc", "cty.String", fun L => mk (spec1 pStrD) .string (StdNum.upperImpl L)),
   ("lower", "LowerFunc", "cty.String", fun L => mk (spec1 pStrD) .string (StdNum.lowerImpl L)),
   ("strreverse", "ReverseFunc", "cty.String", fun L => mk (spec1 pStrD) .string (StdNum.reverseImpl L.nfc L.clusters)),
   ("title", "TitleFunc", "cty.String", fun L => mk (spec1 pStr) .string (StdNum.titleImpl L)),
   ("trimspace", "TrimSpaceFunc", "cty.String", fun L => mk (spec1 pStr) .string (StdNum.trimSpaceImpl L)),
   ("chomp", "ChompFunc", "cty.String", fun L => mk (spec1 pStr) .string (StdNum.chompImpl L.nfc)),
   ("trim", "TrimFunc", "cty.String", fun L => mk (spec2 pStr pStr) .string (StdNum.trimImpl L)),
   ("trimprefix", "TrimPrefixFunc", "cty.String", fun L => mk (spec2 pStr pStr) .string (StdNum.trimPrefixImpl L)),
   ("trimsuffix", "TrimSuffixFunc", "cty.String", fun L => mk (spec2 pStr pStr) .string (StdNum.trimSuffixImpl L)),
   ("replace", "ReplaceFunc", "cty.String", fun L => mk (spec3 pStr pStr pStr) .string (StdNum.replaceImpl L)),
   ("regexreplace", "RegexReplaceFunc", "cty.String", fun L => mk (spec3 pStr pStr pStr) .string (StdNum.regexReplaceImpl L)),
   ("split", "SplitFunc", "cty.List(cty.String)", fun L => mk (spec2 pStr pStr) (.list .string) (StdNum.splitImpl L)),
   ("indent", "IndentFunc", "cty.String", fun L => mk (spec2 pNum pStr) .string (StdNum.indentImpl L.nfc)),
   ("substr", "SubstrFunc", "cty.String", fun L => mk (spec3 pStrD pNumD pNumD) .string (StdNum.substrImpl L.nfc L.clusters)),
   ("timeadd", "TimeAddFunc", "cty.String", fun L => mk (spec2n pStr pStr) .string (StdNum.timeAddImpl L))]

def glueByName (name : String) : Option (StdNum.Lib → Func) :=
  (glueTable.find? fun e => e.1 == name).map (·.2.2.2)

/-- a library to instantiate the table with when only the specs are looked at -/
def idLib : StdNum.Lib :=
  { nfc := id, clusters := fun s => s.toList.map (·.toString), toUpper := id, toLower := id, title := id, trimSpace := id,
    trim := fun s _ => s, trimPrefix := fun s _ => s, trimSuffix := fun s _ => s, replaceAll := fun s _ _ => s,
    split := fun s _ => [s], regexCompile := fun _ => none, regexReplaceAll := fun _ s _ => s, regexFind := fun _ _ => none,
    regexFindAll := fun _ _ => [], parseTimestamp := fun _ => none, parseDuration := fun _ => false, timeAdd := fun s _ => s,
    csvHeader := fun _ => none, csvAll := fun _ _ => ⟨[], false⟩, fmtInt := fun _ _ => "", fmtFloat := fun _ _ => "",
    textG := fun _ => "", jsonStr := id }

/-! ### `log`, `pow` (number.go): `math.Log` / `math.Pow` are the parameter `lib` (its float64 answer, possibly NaN) -/

/-- (harness name, Go variable, model for a given math library) -/
def mathTable : List (String × String × ((Num → Num → StdNum.F64) → Func)) :=
  [("log", "LogFunc", fun lib => mk (spec2 pNum pNum) .number (StdNum.logImpl lib)),
   ("pow", "PowFunc", fun lib => mk (spec2 pNum pNum) .number (StdNum.powImpl lib))]

def mathByName (name : String) : Option ((Num → Num → StdNum.F64) → Func) :=
  (mathTable.find? fun e => e.1 == name).map (·.2.2)

/-- the collection functions proved total end to end, by the names of `Stdlib.byName`, with their Go variables -/
def collTable : List (String × String) :=
  [("hasindex", "HasIndexFunc"), ("keys", "KeysFunc"), ("values", "ValuesFunc"), ("reverse", "ReverseListFunc"),
   ("coalescelist", "CoalesceListFunc"), ("compact", "CompactFunc"), ("range", "RangeFunc"),
   ("chunklist", "ChunklistFunc"), ("index", "IndexFunc")]

/-- one parameter declaration as comparable data -/
def paramKey (p : Fn.Param) : Ty × List Bool := (p.ty, [p.allowNull, p.allowUnknown, p.allowDynamic, p.allowMarked])

/-- do the parameter declarations of a model spec agree with an entry of the regenerated parameter table? -/
def specMatches (spec : Fn.Spec) (s : Generated.StdSpec) : Bool :=
  let same (p q : Fn.Param) : Bool :=
    p.ty.equals q.ty && q.ty.equals p.ty && (paramKey p).2 == (paramKey q).2
  spec.params.length == s.params.length && (spec.params.zip s.params).all (fun pq => same pq.1 pq.2) &&
  (match spec.varParam, s.varParam with
   | none, none => true
   | some p, some q => same p q
   | _, _ => false)

end D11b
end CtyModel
