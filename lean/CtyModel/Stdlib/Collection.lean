/-
The `Type` and `Impl` callbacks of the collection functions of
cty/function/stdlib/collection.go (and `SortFunc` of string.go, `CoalesceFunc`
of general.go), transliterated: same checks in the same order, Go's `%` on
negative numbers, the chunk loop, the odometer of `setproduct`, `sliceIndexes`,
the unknown / mark short-circuits inside the callbacks.  A Go panic is `.panic`;
what a callback obtains from `convert` or from the set hash function comes from
`Env` (Base.lean).

`args[i]` on the argument slice is a pattern `a :: b :: _`; the call protocol
(`Fn.call`, property C10) guarantees the slice is long enough, the fall-through
arm is the index-out-of-range panic Go would raise.

Specifications of what these functions should compute are in
`Stdlib/CollectionSpec.lean`; theorems relating the two in `Props/C13.lean`.
-/
import CtyModel.Stdlib.Base
namespace CtyModel
namespace Stdlib
open Value

def oob {α} : Res α := .panic "index out of range"

/-! ### `length`, `hasindex`, `index` — wrappers of the C02 operations -/

def lengthSpec : Fn.Spec :=
  { params := [{ ty := .dyn, allowDynamic := true, allowUnknown := true, allowMarked := true }],
    refine := some refineNN }
def lengthType : Fn.TypeFn
  | c :: _ =>
    match c.ty with
    | .tuple _ | .list _ | .map _ | .set _ | .dyn => .ok .number
    | _ => .err "collection must be a list, a map or a tuple"
  | _ => oob
def lengthImpl : Fn.ImplFn
  | c :: _, _ => Value.length c
  | _, _ => oob

def hasIndexSpec : Fn.Spec :=
  { params := [{ ty := .dyn, allowDynamic := true }, { ty := .dyn, allowDynamic := true }],
    refine := some refineNN }
def hasIndexType : Fn.TypeFn
  | c :: _ =>
    match c.ty with
    | .tuple _ | .list _ | .map _ | .dyn => .ok .bool
    | _ => .err "collection must be a list, a map or a tuple"
  | _ => oob
def hasIndexImpl : Fn.ImplFn
  | c :: k :: _, _ => Value.hasIndex c k
  | _, _ => oob

def indexSpec : Fn.Spec :=
  { params := [{ ty := .dyn }, { ty := .dyn, allowDynamic := true }] }
def indexType : Fn.TypeFn
  | c :: key :: _ =>
    match c.ty with
    | .tuple etys =>
      if !key.ty.isNumber && !key.ty.isDyn then .err "key for tuple must be number"
      else if !key.isKnown then .ok .dyn
      else
        match fromCtyInt key with
        | .ok idx =>
          if idx ≥ etys.length || idx < 0 then .err "key must be between 0 and len inclusive"
          else (match etys[idx.toNat]? with
            | some t => .ok t
            | none => oob)
        | .err _ => .err "invalid key for tuple"
        | r => Res.cast r
    | .list e =>
      if !key.ty.isNumber && !key.ty.isDyn then .err "key for list must be number" else .ok e
    | .map e =>
      if !key.ty.isString && !key.ty.isDyn then .err "key for map must be string" else .ok e
    | _ => .err "collection must be a list, a map or a tuple"
  | _ => oob
/-- `HasIndex(args[0], args[1])` is `HasIndexFunc.Call`, a nested protocol call -/
def indexImpl : Fn.ImplFn
  | c :: key :: _, _ =>
    match (Fn.call hasIndexSpec hasIndexType hasIndexImpl [c, key]).1 with
    | .ok has =>
      (match boolTrue has with
       | .ok true => Value.index c key
       | .ok false => .err "invalid index"
       | r => Res.cast r)
    | .err _ => .err "hasindex failed"
    | .panic w => .panic w
    | .unmodelled => .unmodelled
  | _, _ => oob

/-! ### `element` -/

def elementSpec : Fn.Spec :=
  { params := [{ ty := .dyn, allowMarked := true }, { ty := .number }] }

/-- `index = index % l; if index < 0 { index += l }` -/
def wrapIndex (index : Int) (l : Nat) : Int :=
  let i := goMod index l
  if i < 0 then i + l else i

def elementType : Fn.TypeFn
  | list :: idx :: _ =>
    match list.ty with
    | .list e => .ok e
    | .tuple etys =>
      if !idx.isKnown then .ok .dyn
      else
        match fromCtyInt idx with
        | .err _ => .err "invalid index"
        | .ok index =>
          if etys.length == 0 then .err "cannot use element function with an empty list"
          else (match etys[(wrapIndex index etys.length).toNat]? with
            | some t => .ok t
            | none => oob)
        | r => Res.cast r
    | _ => .err "cannot read elements from this type"
  | _ => oob

def elementImpl : Fn.ImplFn
  | list :: idx :: _, retTy =>
    match fromCtyInt idx with
    | .err _ => .err "invalid index"
    | .ok index =>
      let input := list.unmark
      let marks := list.marks
      if !input.isKnown then .ok (Value.unknown retTy)
      else
        match lengthInt input with
        | .ok l =>
          if l == 0 then .err "cannot use element function with an empty list"
          else (Value.index input (intVal (wrapIndex index l))).map (withMarkSets · [marks])
        | r => Res.cast r
    | r => Res.cast r
  | _, _ => oob

/-! ### `coalescelist`, `coalesce` -/

def coalesceListSpec : Fn.Spec :=
  { params := [],
    varParam := some { ty := .dyn, allowUnknown := true, allowDynamic := true, allowNull := true },
    refine := some refineNN }

/-- the first loop of the `Type` callback: `none` = `return cty.DynamicPseudoType, nil` -/
def coalesceListArgTypes : List Value → Res (Option (List Ty))
  | [] => .ok (some [])
  | arg :: rest =>
    if !arg.isKnown then .ok none
    else if !isListTy arg.ty && !isTupleTy arg.ty then .err "coalescelist arguments must be lists or tuples"
    else
      match coalesceListArgTypes rest with
      | .ok (some ts) => .ok (some (arg.ty :: ts))
      | r => r

def coalesceListType : Fn.TypeFn := fun args =>
  if args.length == 0 then .err "at least one argument is required"
  else
    match coalesceListArgTypes args with
    | .ok none => .ok .dyn
    | .ok (some (last :: rest)) => if rest.all (fun next => next.equals last) then .ok last else .ok .dyn
    | .ok (some []) => oob
    | r => Res.cast r

def coalesceListLoop (retTy : Ty) : List Value → Res Value
  | [] => .err "no non-null arguments"
  | arg :: rest =>
    if !arg.isKnown then .ok (Value.unknown retTy)
    else if arg.isNull then coalesceListLoop retTy rest
    else
      match lengthInt arg with
      | .ok l => if l > 0 then .ok arg else coalesceListLoop retTy rest
      | r => Res.cast r

def coalesceListImpl : Fn.ImplFn := fun args retTy => coalesceListLoop retTy args

def coalesceSpec : Fn.Spec :=
  { params := [],
    varParam := some { ty := .dyn, allowUnknown := true, allowDynamic := true, allowNull := true },
    refine := some refineNN }
def coalesceType (E : Env) : Fn.TypeFn := fun args =>
  match E.unify (args.map (·.ty)) with
  | .ok (some t) => .ok t
  | .ok none => .err "all arguments must have the same type"
  | r => Res.cast r
def coalesceLoop (E : Env) (retTy : Ty) : List Value → Res Value
  | [] => .err "no non-null arguments"
  | arg :: rest =>
    if !arg.isKnown then .ok (Value.unknown retTy)
    else if arg.isNull then coalesceLoop E retTy rest
    else convertTo E arg retTy
def coalesceImpl (E : Env) : Fn.ImplFn := fun args retTy => coalesceLoop E retTy args

/-! ### `compact` -/

def compactSpec : Fn.Spec := { params := [{ ty := .list .string }], refine := some refineNN }
def compactType : Fn.TypeFn := fun _ => .ok (.list .string)

def compactLoop : List Value → Res (List Value)
  | [] => .ok []
  | v :: rest =>
    if v.isNull then compactLoop rest
    else
      match asString v with
      | .ok s =>
        if s == "" then compactLoop rest
        else (match compactLoop rest with
          | .ok out => .ok (v :: out)
          | r => r)
      | r => Res.cast r

def compactImpl (E : Env) : Fn.ImplFn
  | listVal :: _, retTy =>
    if !listVal.whollyKnown then .ok (Value.unknown retTy)
    else
      match elems E listVal with
      | .ok es =>
        (match compactLoop es with
         | .ok out => if out.length == 0 then .ok (listEmpty .string) else Gocty.listVal out
         | r => Res.cast r)
      | r => Res.cast r
  | _, _ => oob

/-! ### `contains` -/

def containsSpec : Fn.Spec := { params := [{ ty := .dyn }, { ty := .dyn }], refine := some refineNN }
def containsType : Fn.TypeFn := fun _ => .ok .bool

/-- the search loop: `.ok (some true)` found, `.ok (some false)` not found,
`.ok none` not found but some comparison was unknown -/
def containsLoop (needle : Value) : List Value → Bool → Res (Option Bool)
  | [], sawUnknown => .ok (if sawUnknown then none else some false)
  | v :: rest, sawUnknown =>
    match Value.equals needle v with
    | .ok eq =>
      if !eq.isKnown then containsLoop needle rest true
      else (match boolTrue eq with
        | .ok true => .ok (some true)
        | .ok false => containsLoop needle rest sawUnknown
        | r => Res.cast r)
    | r => Res.cast r

def containsImpl (E : Env) : Fn.ImplFn
  | arg :: needle :: _, _ =>
    if !isListTy arg.ty && !isTupleTy arg.ty && !isSetTy arg.ty then .err "argument must be list, tuple, or set"
    else if arg.isNull then .err "cannot search a nil list or set"
    else
      match lengthInt arg with
      | .ok l =>
        if l == 0 then .ok (boolVal false)
        else if !arg.isKnown || !needle.isKnown then .ok (Value.unknown .bool)
        else
          (match elems E arg with
           | .ok es =>
             (match containsLoop needle es false with
              | .ok (some b) => .ok (boolVal b)
              | .ok none => .ok (Value.unknown .bool)
              | r => Res.cast r)
           | r => Res.cast r)
      | r => Res.cast r
  | _, _ => oob

/-! ### `distinct` -/

def distinctSpec : Fn.Spec := { params := [{ ty := .list .dyn }], refine := some refineNN }
def distinctType : Fn.TypeFn
  | l :: _ => .ok l.ty
  | _ => oob

/-- `Equal(a, b)` = `EqualFunc.Call`.  Both operands are mark-free and wholly known
here (the `list` parameter of `distinct` does not allow marks, and the callback
checks `IsWhollyKnown` first), every flag of `EqualFunc`'s parameters is on and
its result type is static, so the call is `a.Equals(b)`; `refineNonNull` leaves a
known `Bool` — and the non-null unknown `Bool` of `Equals` — as it is. -/
def equalCall (a b : Value) : Res Value := Value.equals a b

/-- `appendIfMissing`'s scan: is an `Equal` element already in the slice? -/
def isMissing (element : Value) : List Value → Res Bool
  | [] => .ok true
  | ele :: rest =>
    match equalCall ele element with
    | .ok eq =>
      (match boolTrue eq with
       | .ok true => .ok false
       | .ok false => isMissing element rest
       | r => Res.cast r)
    | r => Res.cast r

def appendIfMissing (slice : List Value) (element : Value) : Res (List Value) :=
  match isMissing element slice with
  | .ok true => .ok (slice ++ [element])
  | .ok false => .ok slice
  | r => Res.cast r

def distinctLoop : List Value → List Value → Res (List Value)
  | list, [] => .ok list
  | list, v :: rest =>
    match appendIfMissing list v with
    | .ok list' => distinctLoop list' rest
    | r => r

def distinctImpl (E : Env) : Fn.ImplFn
  | listVal :: _, retTy =>
    if !listVal.whollyKnown then .ok (Value.unknown retTy)
    else
      match elems E listVal with
      | .ok es =>
        (match distinctLoop [] es with
         | .ok list =>
           if list.length == 0 then (elementTypeOf retTy).map listEmpty
           else Gocty.listVal list
         | r => Res.cast r)
      | r => Res.cast r
  | _, _ => oob

/-! ### `chunklist` -/

def chunklistSpec : Fn.Spec :=
  { params := [{ ty := .list .dyn, allowMarked := true }, { ty := .number, allowMarked := true }],
    refine := some refineNN }
def chunklistType : Fn.TypeFn
  | l :: _ => .ok (.list l.ty)
  | _ => oob

/-- the chunk loop: `i` counts elements consumed, `chunk` and `output` grow by
`append`; a chunk is closed when `(i+1)%size == 0 || (i+1) == l` -/
def chunkLoop (size l : Nat) : Nat → List Value → List Value → List Value → Res (List Value)
  | _, _, output, [] => .ok output
  | i, chunk, output, v :: rest =>
    let chunk := chunk ++ [v]
    if (i + 1) % size == 0 || (i + 1) == l then
      match Gocty.listVal chunk with
      | .ok c => chunkLoop size l (i + 1) [] (output ++ [c]) rest
      | r => Res.cast r
    else chunkLoop size l (i + 1) chunk output rest

def chunklistImpl (E : Env) : Fn.ImplFn
  | listVal0 :: sizeVal0 :: _, _ =>
    let listVal := listVal0.unmark
    let sizeVal := sizeVal0.unmark
    let retMarks := unionMarks listVal0.marks sizeVal0.marks
    match fromCtyInt sizeVal with
    | .err _ => .err "invalid size"
    | .ok size =>
      if size < 0 then .err "the size argument must be positive"
      else
        match lengthInt listVal with
        | .ok l =>
          if l == 0 then .ok (withMarkSets (listEmpty listVal.ty) [retMarks])
          else if size == 0 then (Gocty.listVal [listVal]).map (withMarkSets · [retMarks])
          else
            (match elems E listVal with
             | .ok es =>
               (match chunkLoop size.toNat l 0 [] [] es with
                | .ok output => (Gocty.listVal output).map (withMarkSets · [retMarks])
                | r => Res.cast r)
             | r => Res.cast r)
        | r => Res.cast r
    | r => Res.cast r
  | _, _ => oob

/-! ### `flatten` -/

def flattenSpec : Fn.Spec := { params := [{ ty := .dyn, allowMarked := true }], refine := some refineNN }

def isSeqTy : Ty → Bool
  | .list _ | .set _ | .tuple _ => true
  | _ => false

/-- what `flattener` returns: `(out, markses, isKnown)` -/
structure Flat where
  out : List Value
  markses : List (List String)
  known : Bool

/-- the element loop of `flattener`; `rec` is the recursive call -/
def flatLoop (rec : Value → Res Flat) : List Value → List Value → List (List String) → Bool → Res Flat
  | [], out, markses, isKnown => .ok ⟨out, markses, isKnown⟩
  | val :: rest, out, markses, isKnown =>
    let isKnown := if Refine.isDynVal val then false else isKnown
    if !val.isNull && isSeqTy val.ty then
      if !val.isKnown then flatLoop rec rest out (markses ++ [val.marks]) false
      else
        match rec val with
        | .ok r =>
          flatLoop rec rest (if r.known then out ++ r.out else out) (markses ++ r.markses) (isKnown && r.known)
        | r => r
    else flatLoop rec rest (out ++ [val]) markses isKnown

/-- `flattener`; `fuel` bounds the nesting depth -/
def flattenerFuel (E : Env) : Nat → Value → Res Flat
  | 0, _ => .unmodelled
  | fuel + 1, fl0 =>
    let markses := if fl0.marks.length > 0 then [fl0.marks] else []
    let fl := fl0.unmark
    match Value.length fl with
    | .ok len =>
      if !len.isKnown then .ok ⟨[], markses, false⟩
      else
        (match elems E fl with
         | .ok es => flatLoop (flattenerFuel E fuel) es [] markses true
         | r => Res.cast r)
    | r => Res.cast r

def flattener (E : Env) (v : Value) : Res Flat := flattenerFuel E (v.v.depth + 1) v

def flattenType (E : Env) : Fn.TypeFn
  | arg :: _ =>
    if !arg.whollyKnown then .ok .dyn
    else if !isSeqTy arg.ty then .err "can only flatten lists, sets and tuples"
    else
      match flattener E arg with
      | .ok r => if !r.known then .ok .dyn else .ok (.tuple (r.out.map (·.ty)))
      | r => Res.cast r
  | _ => oob

def flattenImpl (E : Env) : Fn.ImplFn
  | inputList :: _, retTy =>
    match lengthInt inputList.unmark with
    | .ok l =>
      if l == 0 then .ok (withMarkSets emptyTuple [inputList.marks])
      else
        (match flattener E inputList with
         | .ok r =>
           if !r.known then .ok (withMarkSets (Value.unknown retTy) r.markses)
           else .ok (withMarkSets (Gocty.tupleVal r.out) r.markses)
         | r => Res.cast r)
    | r => Res.cast r
  | _, _ => oob

/-! ### `keys`, `values` -/

def keysSpec : Fn.Spec :=
  { params := [{ ty := .dyn, allowUnknown := true, allowMarked := true }], refine := some refineNN }
def keysType : Fn.TypeFn
  | m :: _ =>
    match m.ty with
    | .map _ => .ok (.list .string)
    | .object ns _ _ => .ok (.tuple (ns.map fun _ => .string))
    | _ => .err "must have map or object type"
  | _ => oob
def keysImpl : Fn.ImplFn
  | arg :: _, retTy =>
    let m := arg.unmark
    let marks := arg.marks
    match m.ty with
    | .object ns _ _ =>
      -- names of the type, sorted: `ns` is ascending already
      if ns.length == 0 then .ok (withMarkSets emptyTuple [marks])
      else .ok (withMarkSets (Gocty.tupleVal (ns.map strVal)) [marks])
    | _ =>
      if !m.isKnown then .ok (withMarkSets (Value.unknown retTy) [marks])
      else
        match elemKeys m with
        | .ok ks =>
          if ks.length == 0 then .ok (withMarkSets (listEmpty .string) [marks])
          else (Gocty.listVal (ks.map strVal)).map (withMarkSets · [marks])
        | r => Res.cast r
  | _, _ => oob

def valuesSpec : Fn.Spec := { params := [{ ty := .dyn, allowMarked := true }], refine := some refineNN }
def valuesType : Fn.TypeFn
  | m :: _ =>
    match m.ty with
    | .map e => .ok (.list e)
    | .object _ ts _ => .ok (.tuple ts)
    | _ => .err "values() requires a map as the first argument"
  | _ => oob
def valuesImpl (E : Env) : Fn.ImplFn
  | arg :: _, retTy =>
    let mapVar := arg.unmark
    let marks := arg.marks
    match elems E mapVar with
    | .ok values =>
      if isTupleTy retTy then .ok (withMarkSets (Gocty.tupleVal values) [marks])
      else if values.length == 0 then (elementTypeOf retTy).map fun e => withMarkSets (listEmpty e) [marks]
      else (Gocty.listVal values).map (withMarkSets · [marks])
    | r => Res.cast r
  | _, _ => oob

/-! ### `lookup` -/

def lookupSpec : Fn.Spec :=
  { params := [{ ty := .dyn, allowMarked := true }, { ty := .string, allowMarked := true },
               { ty := .dyn, allowMarked := true }] }

def lookupType (E : Env) : Fn.TypeFn
  | m :: key :: rest =>
    match m.ty with
    | .object ns ts os =>
      if !key.isKnown then .ok .dyn
      else
        match asString key.unmark with
        | .ok k =>
          if ns.contains k then (Value.getAttr m k).map (·.ty)
          else (match rest with
            | [d] => .ok d.ty
            | _ => .err "the given object has no attribute")
        | r => Res.cast r
    | .map e =>
      (match rest with
       | [d] =>
         (match convertTo E d e with
          | .ok _ => .ok e
          | .err _ => .err "the default value must have the same type as the map elements"
          | r => Res.cast r)
       | _ => .ok e)
    | _ => .err "lookup() requires a map as the first argument"
  | _ => oob

def lookupImpl (E : Env) : Fn.ImplFn
  | m :: key :: defaultVal :: _, retTy =>
    let mapVar := m.unmark
    let markses := [m.marks] ++ (if key.marks.length > 0 then [key.marks] else [])
    match asString key.unmark with
    | .ok lookupKey =>
      if !mapVar.whollyKnown then .ok (withMarkSets (Value.unknown retTy) markses)
      else
        let dflt : Res Value := (convertTo E defaultVal retTy).map (withMarkSets · markses)
        (match mapVar.ty with
         | .object ns _ _ =>
           if ns.contains lookupKey then (Value.getAttr mapVar lookupKey).map (withMarkSets · markses)
           else dflt
         | _ =>
           (match Value.hasIndex mapVar (strVal lookupKey) with
            | .ok h =>
              if h.ty.isBool && (match h.v with | .b true => true | _ => false) then
                (Value.index mapVar (strVal lookupKey)).map (withMarkSets · markses)
              else dflt
            | r => Res.cast r))
    | r => Res.cast r
  | _, _ => oob

/-! ### `merge`

A Go `map[string]T` under construction is an association list ascending by key;
assignment `m[k] = v` is `amInsert` (replace or insert). -/

def amInsert {α} (k : String) (v : α) : List (String × α) → List (String × α)
  | [] => [(k, v)]
  | (k', v') :: rest =>
    if k < k' then (k, v) :: (k', v') :: rest
    else if k = k' then (k, v) :: rest
    else (k', v') :: amInsert k v rest

/-- `for i := range ks { m[ks[i]] = vs[i] }` -/
def amInsertAll {α} : List String → List α → List (String × α) → List (String × α)
  | k :: ks, v :: vs, m => amInsertAll ks vs (amInsert k v m)
  | _, _, m => m

def mergeSpec : Fn.Spec :=
  { params := [],
    varParam := some { ty := .dyn, allowDynamic := true, allowNull := true, allowMarked := true },
    refine := some refineNN }

structure MergeTy where
  attrs : List (String × Ty)
  first : Ty
  matching : Bool
  attrsKnown : Bool

/-- the `switch` of the `Type` callback's loop body: what one (unmarked) argument adds to `attrs` -/
def mergeTypeStep (st : MergeTy) (ty : Ty) (arg : Value) : Res MergeTy :=
  match ty with
  | .object ns ts _ =>
    if !arg.isNull then .ok { st with attrs := amInsertAll ns ts st.attrs } else .ok st
  | .map ety =>
    if arg.isNull then .ok st
    else if arg.isKnown then
      (match elemKeys arg with
       | .ok ks => .ok { st with attrs := amInsertAll ks (ks.map fun _ => ety) st.attrs }
       | r => Res.cast r)
    else .ok { st with attrsKnown := false }
  | _ => .ok st

/-- the argument loop of the `Type` callback; `.ok none` = `return cty.DynamicPseudoType, nil` -/
def mergeTypeLoop : List Value → Nat → MergeTy → Res (Option MergeTy)
  | [], _, st => .ok (some st)
  | arg0 :: rest, i, st =>
    let ty := arg0.ty
    if ty.equals .dyn then .ok none
    else if !isMapTy ty && !isObjectTy ty then .err "arguments must be maps or objects"
    else
      let arg := arg0.unmark
      match mergeTypeStep st ty arg with
      | .ok st =>
        if i == 0 then mergeTypeLoop rest (i + 1) { st with first := arg.ty }
        else mergeTypeLoop rest (i + 1) { st with matching := st.matching && ty.equals st.first }
      | r => Res.cast r

def mergeType : Fn.TypeFn := fun args =>
  if args.length == 0 then .ok (.object [] [] [])
  else
    match mergeTypeLoop args 0 ⟨[], .dyn, true, true⟩ with
    | .ok none => .ok .dyn
    | .ok (some st) =>
      if st.matching then .ok st.first
      else if !st.attrsKnown then .ok .dyn
      else .ok (.object (st.attrs.map (·.1)) (st.attrs.map (·.2)) (st.attrs.map fun _ => false))
    | r => Res.cast r

/-- the argument loop of `Impl`: `outputMap` and `markses` -/
def mergeLoop (E : Env) : List Value → List (String × Value) → List (List String) →
    Res (List (String × Value) × List (List String))
  | [], out, markses => .ok (out, markses)
  | arg0 :: rest, out, markses =>
    if arg0.isNull then mergeLoop E rest out markses
    else
      let arg := arg0.unmark
      let markses := if arg0.marks.length > 0 then markses ++ [arg0.marks] else markses
      match elemKeys arg, elems E arg with
      | .ok ks, .ok vs => mergeLoop E rest (amInsertAll ks vs out) markses
      | .ok _, r => Res.cast r
      | r, _ => Res.cast r

def mergeImpl (E : Env) : Fn.ImplFn := fun args retTy =>
  match mergeLoop E args [] [] with
  | .ok (out, markses) =>
    let ks := out.map (·.1)
    let vs := out.map (·.2)
    (match retTy with
     | .map e =>
       if out.length == 0 then .ok (withMarkSets (mapEmpty e) markses)
       else (Gocty.mapVal ks vs).map (withMarkSets · markses)
     | .object _ _ _ | .dyn => .ok (withMarkSets (Gocty.objectVal ks vs) markses)
     | _ => .panic "unexpected return type")
  | r => Res.cast r

/-! ### `reverse` -/

def reverseSpec : Fn.Spec := { params := [{ ty := .dyn, allowMarked := true }], refine := some refineNN }
def reverseType : Fn.TypeFn
  | arg :: _ =>
    match arg.ty with
    | .tuple ts => .ok (.tuple ts.reverse)
    | .list e | .set e => .ok (.list e)
    | _ => .err "can only reverse list or tuple values"
  | _ => oob

/-- `outVals[len(outVals)-i-1] = v` for `i, v := range inVals`: written back to
front.  The model builds the same slice by prepending. -/
def reverseLoop : List Value → List Value → List Value
  | [], out => out
  | v :: rest, out => reverseLoop rest (v :: out)

def reverseImpl (E : Env) : Fn.ImplFn
  | arg :: _, retTy =>
    let inV := arg.unmark
    let marks := arg.marks
    if isSetTy inV.ty && !inV.whollyKnown then .ok (withMarkSets (Value.unknown retTy) [marks])
    else
    match asValueSlice E inV with
    | .ok inVals =>
      let outVals := reverseLoop inVals []
      if isTupleTy retTy then .ok (withMarkSets (Gocty.tupleVal outVals) [marks])
      else if outVals.length == 0 then (elementTypeOf retTy).map fun e => withMarkSets (listEmpty e) [marks]
      else (Gocty.listVal outVals).map (withMarkSets · [marks])
    | r => Res.cast r
  | _, _ => oob

/-! ### `slice` -/

def sliceSpec : Fn.Spec :=
  { params := [{ ty := .dyn, allowMarked := true }, { ty := .number }, { ty := .number }],
    refine := some refineNN }

structure SliceIdx where
  start : Int
  stop : Int
  known : Bool
  deriving Repr, DecidableEq

/-- `sliceIndexes(args)`; every error it returns is an `ArgError` -/
def sliceIndexes : List Value → Res SliceIdx
  | a0 :: a1 :: a2 :: _ =>
    let list := a0.unmark
    let lenKnown : Res (Option Nat) :=
      if isTupleTy list.ty then (lengthInt list).map some
      else if !list.isKnown then .ok none
      else
        match Value.length list with
        | .ok len => if len.isKnown then (lengthInt list).map some else .ok none
        | r => Res.cast r
    match lenKnown with
    | .ok len =>
      let startR : Res (Option Int) :=
        if a1.isKnown then
          match fromCtyInt a1 with
          | .err _ => .err "invalid start index"
          | .ok s =>
            if s < 0 then .err "start index must not be less than zero"
            else if (match len with | some l => decide (s > l) | none => false) then
              .err "start index must not be greater than the length of the list"
            else .ok (some s)
          | r => Res.cast r
        else .ok none
      (match startR with
       | .ok start =>
         let stopR : Res (Option Int) :=
           if a2.isKnown then
             match fromCtyInt a2 with
             | .err _ => .err "invalid end index"
             | .ok e =>
               if e < 0 then .err "end index must not be less than zero"
               else if (match len with | some l => decide (e > l) | none => false) then
                 .err "end index must not be greater than the length of the list"
               else .ok (some e)
             | r => Res.cast r
           else .ok none
         (match stopR with
          | .ok stop =>
            (match start, stop with
             | some s, some e =>
               if s > e then .err "start index must not be greater than end index"
               else .ok ⟨s, e, true⟩
             | _, _ => .ok ⟨start.getD 0, stop.getD 0, false⟩)
          | r => Res.cast r)
       | r => Res.cast r)
    | r => Res.cast r
  | _ => oob

/-- Go's `s[a:b]` on a slice of length (= capacity) `n` -/
def goSlice {α} (l : List α) (a b : Int) : Res (List α) :=
  if a < 0 || b < a || b > l.length then .panic "slice bounds out of range"
  else .ok ((l.drop a.toNat).take (b - a).toNat)

def sliceType : Fn.TypeFn
  | args@(arg :: _) =>
    if isSetTy arg.ty then .err "cannot slice a set"
    else if !isListTy arg.ty && !isTupleTy arg.ty then .err "must be a list or tuple value"
    else
      match sliceIndexes args with
      | .ok idx =>
        (match arg.ty with
         | .tuple ts =>
           if !idx.known then .ok .dyn
           else (goSlice ts idx.start idx.stop).map .tuple
         | t => .ok t)
      | r => Res.cast r
  | _ => oob

def sliceImpl (E : Env) : Fn.ImplFn
  | args@(a0 :: _), retTy =>
    let inputList := a0.unmark
    let marks := a0.marks
    if retTy.isDyn then .ok (withMarkSets Value.dynVal [marks])
    else
      match sliceIndexes args with
      | .ok idx =>
        if idx.stop - idx.start == 0 then
          if isTupleTy retTy then .ok (withMarkSets emptyTuple [marks])
          else (elementTypeOf retTy).map fun e => withMarkSets (listEmpty e) [marks]
        else
          (match asValueSlice E inputList with
           | .ok vs =>
             (match goSlice vs idx.start idx.stop with
              | .ok out =>
                if isTupleTy retTy then .ok (withMarkSets (Gocty.tupleVal out) [marks])
                else (Gocty.listVal out).map (withMarkSets · [marks])
              | r => Res.cast r)
           | r => Res.cast r)
      | r => Res.cast r
  | _, _ => oob

/-! ### `zipmap` -/

def zipmapSpec : Fn.Spec :=
  { params := [{ ty := .list .string, allowMarked := true }, { ty := .dyn, allowMarked := true }],
    refine := some refineNN }

/-- the key loop of the `Type` callback (tuple case): `atys[key] = valueTypesRaw[i]` -/
def zipmapTypeLoop : List Value → List Ty → List (String × Ty) → Res (List (String × Ty))
  | keyVal :: ks, t :: ts, atys =>
    let keyVal := keyVal.unmark
    if keyVal.isNull then .err "keys list has null value"
    else
      match asString keyVal with
      | .ok key => zipmapTypeLoop ks ts (amInsert key t atys)
      | r => Res.cast r
  | _, _, atys => .ok atys

def zipmapType (E : Env) : Fn.TypeFn
  | keys :: values :: _ =>
    match values.ty with
    | .list e => .ok (.map e)
    | .tuple valueTypesRaw =>
      if !keys.whollyKnown then .ok .dyn
      else
        match asValueSlice E keys.unmark with
        | .ok keysRaw =>
          if keysRaw.length != valueTypesRaw.length then .err "number of keys does not match number of values"
          else
            (match zipmapTypeLoop keysRaw valueTypesRaw [] with
             | .ok atys => .ok (.object (atys.map (·.1)) (atys.map (·.2)) (atys.map fun _ => false))
             | r => Res.cast r)
        | r => Res.cast r
    | _ => .err "values argument must be a list or tuple value"
  | _ => oob

/-- the key loop of `Impl`: `output[v.AsString()] = values.Index(i)`, key marks
accumulated into `retMarks` -/
def zipmapLoop (values : Value) : List Value → Nat → List (String × Value) → List String →
    Res (List (String × Value) × List String)
  | [], _, output, retMarks => .ok (output, retMarks)
  | v0 :: rest, i, output, retMarks =>
    let v := v0.unmark
    if v.isNull then .err "keys list has null value"
    else
      match Value.index values (intVal i) with
      | .ok val =>
        (match asString v with
         | .ok k => zipmapLoop values rest (i + 1) (amInsert k val output) (unionMarks retMarks v0.marks)
         | r => Res.cast r)
      | r => Res.cast r

def zipmapImpl (E : Env) : Fn.ImplFn
  | keys0 :: values0 :: _, retTy =>
    let keys := keys0.unmark
    let values := values0.unmark
    let retMarks := unionMarks keys0.marks values0.marks
    if !keys.whollyKnown then .ok (withMarkSets (Value.unknown retTy) [retMarks])
    else
      match lengthInt keys, lengthInt values with
      | .ok lk, .ok lv =>
        if lk != lv then .err "number of keys does not match number of values"
        else
          (match elems E keys with
           | .ok ks =>
             (match zipmapLoop values ks 0 [] retMarks with
              | .ok (output, retMarks) =>
                let oks := output.map (·.1)
                let ovs := output.map (·.2)
                (match retTy with
                 | .map e =>
                   if output.length == 0 then .ok (withMarkSets (mapEmpty e) [retMarks])
                   else (Gocty.mapVal oks ovs).map (withMarkSets · [retMarks])
                 | .object _ _ _ => .ok (withMarkSets (Gocty.objectVal oks ovs) [retMarks])
                 | _ => .err "internally selected incorrect result type")
              | r => Res.cast r)
           | r => Res.cast r)
      | .ok _, r => Res.cast r
      | r, _ => Res.cast r
  | _, _ => oob

/-! ### `sort` (string.go) -/

def sortSpec : Fn.Spec := { params := [{ ty := .list .string, allowUnknown := true }], refine := some refineNN }
def sortType : Fn.TypeFn := fun _ => .ok (.list .string)

/-- insertion into an ascending list of strings (duplicates kept) -/
def insertStr (s : String) : List String → List String
  | [] => [s]
  | x :: xs => if s ≤ x then s :: x :: xs else x :: insertStr s xs

/-- `sort.Strings`: the library's algorithm is not modelled, only its contract —
byte-wise `<` is a total order on strings and equal strings are
indistinguishable, so the ascending arrangement of a list is unique and any
correct sort returns this one (insertion sort). -/
def sortStrings (l : List String) : List String := l.foldr insertStr []

def sortCollect : List Value → Res (List String)
  | [] => .ok []
  | v :: rest =>
    if v.isNull then .err "given list element is null; a null string cannot be sorted"
    else
      match asString v, sortCollect rest with
      | .ok s, .ok l => .ok (s :: l)
      | .ok _, r => r
      | r, _ => Res.cast r

def sortImpl (E : Env) : Fn.ImplFn
  | listVal :: _, retTy =>
    if !listVal.whollyKnown then
      -- UnknownVal(retType) refined with the length bounds of the argument's range
      match listVal.ty with
      | .list _ =>
        (match Refine.range listVal with
         | .ok rng =>
           (match Refine.ValueRange.lengthLowerBound rng, Refine.ValueRange.lengthUpperBound rng with
            | .ok lo, .ok hi => Refine.refine (Value.unknown retTy) [.lenLower lo, .lenUpper hi]
            | .ok _, r => Res.cast r
            | r, _ => Res.cast r)
         | r => Res.cast r)
      | _ => .ok (Value.unknown retTy)
    else
      match lengthInt listVal with
      | .ok l =>
        if l == 0 then .ok listVal
        else
          (match elems E listVal with
           | .ok es =>
             (match sortCollect es with
              | .ok list => Gocty.listVal ((sortStrings list).map strVal)
              | r => Res.cast r)
           | r => Res.cast r)
      | r => Res.cast r
  | _, _ => oob

/-! ### `setproduct` -/

def setProductSpec : Fn.Spec :=
  { params := [], varParam := some { ty := .dyn, allowMarked := true, allowUnknown := true },
    refine := some refineNN }

/-- the argument loop of the `Type` callback: element types and `listCount`;
errors are `ArgError`s -/
def setProductTypeLoop (E : Env) : List Value → Res (List Ty × Nat)
  | [] => .ok ([], 0)
  | arg :: rest =>
    let here : Res (Ty × Nat) :=
      match arg.ty with
      | .set e => .ok (e, 0)
      | .list e => .ok (e, 1)
      | .tuple allEtys =>
        if allEtys.length == 0 then .ok (.dyn, 1)
        else
          (match E.unify allEtys with
           | .ok (some ety) => .ok (ety, 1)
           | .ok none => .err "all elements must be of the same type"
           | r => Res.cast r)
      | _ => .err "a set or a list is required"
    match here with
    | .ok (t, c) =>
      (match setProductTypeLoop E rest with
       | .ok (ts, n) => .ok (t :: ts, c + n)
       | r => r)
    | r => Res.cast r

def setProductType (E : Env) : Fn.TypeFn := fun args =>
  if args.length < 2 then .err "at least two arguments are required"
  else
    match setProductTypeLoop E args with
    | .ok (elemTys, listCount) =>
      if listCount == args.length then .ok (.list (.tuple elemTys)) else .ok (.set (.tuple elemTys))
    | r => Res.cast r

/-- the odometer step: `for j := len(n)-1; j >= 0; j-- { n[j]++; if n[j] < len(argVals[j]) { break }; n[j] = 0 }`.
Returns the carry out of the leftmost digit and the new counters. -/
def odoInc : List Nat → List Nat → Bool × List Nat
  | l :: ls, x :: xs =>
    let r := odoInc ls xs
    if r.1 then (if x + 1 < l then (false, (x + 1) :: r.2) else (true, 0 :: r.2))
    else (false, x :: r.2)
  | _, _ => (true, [])

/-- one row: `argVals[j][n[j]]`, converted to `subEtys[j]` when its type differs -/
def productRow (E : Env) : List (List Value) → List Nat → List Ty → Res (List Value)
  | vals :: argVals, n :: ns, ty :: tys =>
    match vals[n]? with
    | none => oob
    | some val =>
      let conv : Res Value :=
        if !(val.ty.equals ty) then
          (match E.convert val ty with
           | .ok v => .ok v
           | .err _ => .err "failed to convert; this is a bug in cty"
           | r => r)
        else .ok val
      (match conv, productRow E argVals ns tys with
       | .ok v, .ok row => .ok (v :: row)
       | .ok _, r => r
       | r, _ => Res.cast r)
  | _, _, _ => .ok []

/-- `for i := range product { … }`: `total` rows, the counters stepping after each -/
def productLoop (E : Env) (argVals : List (List Value)) (tys : List Ty) : Nat → List Nat → Res (List (List Value))
  | 0, _ => .ok []
  | k + 1, n =>
    match productRow E argVals n tys with
    | .ok row =>
      (match productLoop E argVals tys k (odoInc (argVals.map (·.length)) n).2 with
       | .ok rows => .ok (row :: rows)
       | r => r)
    | r => Res.cast r

/-- the first argument loop of `Impl`: `retMarks`, `total`, `hasUnknownLength` -/
def setProductScan : List Value → List String → Nat → Bool → Res (List String × Nat × Bool)
  | [], marks, total, unk => .ok (marks, total, unk)
  | arg0 :: rest, marks, total, unk =>
    let arg := arg0.unmark
    let marks := unionMarks marks arg0.marks
    let lenKnown : Res Bool :=
      if !arg.isKnown then .ok false
      else (Value.length arg).map (·.isKnown)
    match lenKnown with
    | .ok false => setProductScan rest marks total true
    | .ok true =>
      (match lengthInt arg with
       | .ok l => setProductScan rest marks (total * l) unk
       | r => Res.cast r)
    | r => Res.cast r

def argSlices (E : Env) : List Value → Res (List (List Value))
  | [] => .ok []
  | arg :: rest =>
    match asValueSlice E arg.unmark, argSlices E rest with
    | .ok s, .ok ss => .ok (s :: ss)
    | .ok _, r => r
    | r, _ => Res.cast r

/-- the `hasUnknownLength` branch: an unknown of the result type whose length is
bounded by the product of the arguments' length upper bounds (≤ 1024 each,
≤ 2048 together), `none` = return the unrefined unknown -/
def setProductMaxLen : List Value → Nat → Res (Option Nat)
  | [], maxLength => .ok (some maxLength)
  | arg0 :: rest, maxLength =>
    let arg := arg0.unmark
    match Refine.range arg with
    | .ok rng =>
      let argMaxLen : Res (Option Int) :=
        match rng.ty with
        | .list _ | .set _ | .map _ => (Refine.ValueRange.lengthUpperBound rng).map some
        | .tuple ts => .ok (some ts.length)
        | _ => .ok none
      (match argMaxLen with
       | .ok none => .ok none
       | .ok (some m) =>
         if m > 1024 then .ok none
         else
           let ml : Int := maxLength * m
           if ml > 2048 then .ok none
           else if ml < 0 then .ok none
           else setProductMaxLen rest ml.toNat
       | r => Res.cast r)
    | r => Res.cast r

def setProductImpl (E : Env) : Fn.ImplFn := fun args retTy =>
  match elementTypeOf retTy with
  | .ok ety =>
    (match setProductScan args [] 1 false with
     | .ok (retMarks, total, hasUnknownLength) =>
       if hasUnknownLength then
         let ret := Value.unknown retTy
         (match setProductMaxLen args 1 with
          | .ok none => .ok (withMarkSets ret [retMarks])
          | .ok (some 0) => (Refine.refine ret [.collectionLength 0]).map (withMarkSets · [retMarks])
          | .ok (some maxLength) =>
            (Refine.refine ret [.lenLower 1, .lenUpper maxLength]).map (withMarkSets · [retMarks])
          | r => Res.cast r)
       else if total == 0 then
         if isListTy retTy then .ok (withMarkSets (listEmpty ety) [retMarks])
         else .ok (withMarkSets (setEmpty ety) [retMarks])
       else
         (match ety with
          | .tuple subEtys =>
            (match argSlices E args with
             | .ok argVals =>
               (match productLoop E argVals subEtys total (args.map fun _ => 0) with
                | .ok product =>
                  let productVals := product.map Gocty.tupleVal
                  if isListTy retTy then (Gocty.listVal productVals).map (withMarkSets · [retMarks])
                  else (setVal E productVals).map (withMarkSets · [retMarks])
                | r => Res.cast r)
             | r => Res.cast r)
          | _ => .panic "TupleElementTypes on non-tuple")
     | r => Res.cast r)
  | r => Res.cast r

end Stdlib
end CtyModel
