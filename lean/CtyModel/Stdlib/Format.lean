/-
`format` (cty/function/stdlib/format.go, format_fsm.rl): the verb scanner, the
argument-index bookkeeping, `%%`, the per-verb dispatch of `formatAppend`, and
the width / precision handling of strings on grapheme clusters are modelled as
written, including the saturating digit accumulation (`formatArgNumAppendDigit`) and
the width / precision limit (`formatMaxWidthPrec`).  The digit rendering of the numeric verbs (`fmt.Sprintf` on a
`*big.Int` / `*big.Float`), `Text('g', -1)` and JSON string quoting are library
calls: fields of `L : Lib`.  The ragel-generated state machine is replaced by a
hand-written scanner for the same grammar
  '%' flags* width? precision? argidx? letter     ('%%' = literal percent)
and compared with it only through whole-function correspondence.
Arguments are known or null strings, numbers and bools whose type needs no
conversion for the verb; everything else is `.unmodelled`.
-/
import CtyModel.Stdlib.Glue
namespace CtyModel
namespace StdNum

structure Verb where
  raw : List Char          -- data[ts:te], from '%' to the mode letter
  offset : Nat
  argNum : Nat
  mode : Char := 'v'
  zero : Bool := false
  sharp : Bool := false
  plus : Bool := false
  minus : Bool := false
  space : Bool := false
  hasPrec : Bool := false
  prec : Nat := 0
  hasWidth : Bool := false
  width : Nat := 0
  deriving Repr, Inhabited, DecidableEq

def isDigit (c : Char) : Bool := '0' ≤ c && c ≤ '9'
def isLetter (c : Char) : Bool := ('a' ≤ c && c ≤ 'z') || ('A' ≤ c && c ≤ 'Z')

/-- `flags*` -/
def takeFlags : List Char → Verb → Verb × List Char
  | c :: rest, v =>
    if c == '0' then takeFlags rest { v with zero := true, raw := v.raw ++ [c] }
    else if c == '#' then takeFlags rest { v with sharp := true, raw := v.raw ++ [c] }
    else if c == '-' then takeFlags rest { v with minus := true, raw := v.raw ++ [c] }
    else if c == '+' then takeFlags rest { v with plus := true, raw := v.raw ++ [c] }
    else if c == ' ' then takeFlags rest { v with space := true, raw := v.raw ++ [c] }
    else (v, c :: rest)
  | [], v => (v, [])

/-- the largest Go `int` (64-bit platforms) -/
def goMaxInt : Nat := 9223372036854775807

/-- `formatMaxWidthPrec` -/
def formatMaxWidthPrec : Nat := 1000000

/-- `formatArgNumAppendDigit` (since /repo 721dbdb, 84cbc5e): append one decimal digit to an
argument number, width or precision, SATURATING at the largest int instead of wrapping -/
def appendDigit (n : Nat) (c : Char) : Nat :=
  if n > (goMaxInt - 9) / 10 then goMaxInt else 10 * n + (c.toNat - 48)

/-- `digit*`, each digit through `appendDigit`: (value, digits consumed, rest) -/
def takeDigits : List Char → Nat → List Char → Nat × List Char × List Char
  | c :: rest, acc, seen => if isDigit c then takeDigits rest (appendDigit acc c) (seen ++ [c]) else (acc, seen, c :: rest)
  | [], acc, seen => (acc, seen, [])

/-- width: `num = [1-9][0-9]*` (`width_reset`, `width_num`, `has_width`) -/
def scanWidth (v : Verb) (r : List Char) : Verb × List Char :=
  match r with
  | c :: _ =>
    if isDigit c && c != '0' then
      let d := takeDigits r 0 []
      ({ v with hasWidth := true, width := d.1, raw := v.raw ++ d.2.1 }, d.2.2)
    else (v, r)
  | [] => (v, r)

/-- precision: `'.' digit*` (`prec_reset`, `prec_num`, `has_prec`) -/
def scanPrec (v : Verb) (r : List Char) : Verb × List Char :=
  match r with
  | '.' :: r' =>
    let d := takeDigits r' 0 []
    ({ v with hasPrec := true, prec := d.1, raw := v.raw ++ ('.' :: d.2.1) }, d.2.2)
  | _ => (v, r)

/-- argidx: `'[' num ']'` (`argidx_reset`, `argidx_num`); `none` = no transition -/
def scanIdx (v : Verb) (r : List Char) : Option (Verb × List Char) :=
  match r with
  | '[' :: c :: r' =>
    if isDigit c && c != '0' then
      let d := takeDigits (c :: r') 0 []
      match d.2.2 with
      | ']' :: r'' => some ({ v with argNum := d.1, raw := v.raw ++ ('[' :: d.2.1) ++ [']'] }, r'')
      | _ => none
    else none
  | '[' :: [] => none
  | _ => some (v, r)

/-- the mode letter (`action mode` up to `verb.Raw = data[ts:te]`) -/
def scanMode (v : Verb) (r : List Char) : Option (Verb × List Char) :=
  match r with
  | c :: r' => if isLetter c then some ({ v with mode := c, raw := v.raw ++ [c] }, r') else none
  | [] => none

/-- the scanner after a '%' that is not followed by '%': `none` = the format string
is invalid here (unrecognised character or premature end) -/
def scanVerb (cs : List Char) (offset nextArg : Nat) : Option (Verb × List Char) :=
  let f := takeFlags cs { raw := ['%'], offset := offset, argNum := nextArg }
  let w := scanWidth f.1 f.2
  let p := scanPrec w.1 w.2
  match scanIdx p.1 p.2 with
  | none => none
  | some i => scanMode i.1 i.2

/-- `formatStripIndexSegment` -/
def stripIndex (raw : List Char) : List Char :=
  if raw.contains '[' && raw.contains ']' then
    raw.takeWhile (· != '[') ++ (raw.dropWhile (· != ']')).drop 1
  else raw

/-- `formatPadWidth` -/
def padWidth (clusters : String → List String) (v : Verb) (fmted : String) : String :=
  if !v.hasWidth then fmted
  else
    let given := (clusters fmted).length
    if given ≥ v.width then fmted
    else
      let pads := String.ofList (List.replicate (v.width - given) (if v.zero && !v.minus then '0' else ' '))
      if v.minus then fmted ++ pads else pads ++ fmted

/-- the precision loop of `formatAppendString` (`if verb.HasPrec`): at most `prec` clusters -/
def precCut (clusters : String → List String) (v : Verb) (str : String) : String :=
  if v.hasPrec then String.join ((clusters str).take v.prec) else str

/-- `formatAppend`: the text to append -/
def formatAppend (L : Lib) (v : Verb) (args : List Value) : Res String :=
  -- `argIdx := verb.ArgNum - 1; if argIdx >= len(args) { error }; arg := args[argIdx]`
  if v.argNum == 0 then .panic "index out of range [-1]" else
  match args[v.argNum - 1]? with
  | none => .err "not enough arguments"
  | some a =>
    if v.hasWidth && v.width > formatMaxWidthPrec then .err "unsupported width"
    else if v.hasPrec && v.prec > formatMaxWidthPrec then .err "unsupported precision"
    else if v.mode != 'v' && a.isNull then .err "null value cannot be formatted"
    else
      match v.mode with
      | 'v' =>
        match a.ty, a.v with
        | _, .null => .ok (padWidth L.clusters v "null")
        | .string, .s s => if !v.sharp then .ok (padWidth L.clusters v s) else .ok (padWidth L.clusters v (L.jsonStr s))
        | .number, .n x => if !v.sharp then .ok (padWidth L.clusters v (L.textG x)) else .unmodelled
        | .bool, .b b => .ok (padWidth L.clusters v (if b then "true" else "false"))
        | _, _ => .unmodelled
      | 't' =>
        match a.ty, a.v with
        | .bool, .b b => .ok (if b then "true" else "false")
        | _, _ => .unmodelled
      | 'b' | 'd' | 'o' | 'x' | 'X' =>
        match a.ty, a.v with
        | .number, .n x =>
          if x.isInt || x.isZero then
            match x.truncInt with
            | some i => .ok (L.fmtInt (String.ofList (stripIndex v.raw)) i)
            | none => .err "an integer is required"
          else .err "an integer is required"
        | _, _ => .unmodelled
      | 'e' | 'E' | 'f' | 'g' | 'G' =>
        match a.ty, a.v with
        | .number, .n x => .ok (L.fmtFloat (String.ofList (stripIndex v.raw)) x)
        | _, _ => .unmodelled
      | 's' =>
        match a.ty, a.v with
        | .string, .s s => .ok (padWidth L.clusters v (precCut L.clusters v s))
        | _, _ => .unmodelled
      | 'q' =>
        match a.ty, a.v with
        | .string, .s s => .ok (padWidth L.clusters v (L.jsonStr (L.nfc (precCut L.clusters v s))))
        | _, _ => .unmodelled
      | _ => .err "unsupported format verb"

/-- the main loop of `formatFSM`: literal bytes are emitted, `%%` emits a percent
sign, a verb is rendered at once (so an error of an earlier verb wins over a
syntax error further right) and moves `nextArg` to its argument number + 1 -/
def fsmLoop (L : Lib) (args : List Value) : Nat → List Char → (offset nextArg highest : Nat) → String → Res String
  | 0, _, _, _, _, _ => .unmodelled
  | _, [], _, _, highest, buf =>
    if highest < args.length then .err "too many arguments" else .ok buf
  | fuel + 1, c :: rest, offset, nextArg, highest, buf =>
    if c != '%' then fsmLoop L args fuel rest (offset + c.utf8Size) nextArg highest (buf.push c)
    else
      match rest with
      | [] => .err "invalid format string"
      | '%' :: rest' => fsmLoop L args fuel rest' (offset + 2) nextArg highest (buf.push '%')
      | _ =>
        match scanVerb rest offset nextArg with
        | none => .err "invalid format string"
        | some (v, rest') =>
          match formatAppend L v args with
          | .ok s => fsmLoop L args fuel rest' (offset + v.raw.length) (v.argNum + 1) (max highest v.argNum) (buf ++ s)
          | .err e => .err e
          | .panic w => .panic w
          | .unmodelled => .unmodelled

def formatImpl (L : Lib) (args : List Value) : Res Value := do
  let f ← arg args 0
  let rest := args.drop 1
  if rest.any (fun a => !a.whollyKnown) then .unmodelled
  else
    let fs ← asString f
    let out ← fsmLoop L rest (fs.length + 1) fs.toList 0 1 0 ""
    pure (stringVal L.nfc out)

end StdNum
end CtyModel
