/-
C17, JSON half — `json.ImpliedType` with its nesting limit (/repo 0c63e6a).

`D17.jsonImplied env max depth j` is `impliedTypeForTok(tok, dec, depth)` of cty/json/type_implied.go:
`JsonVal.impliedType` (CtyModel/JsonVal.lean, written before the limit existed) plus the test
`depth >= maxImpliedTypeDepth` in front of every array and object, with `depth+1` handed to
`impliedObjectType` / `impliedTupleType` and from there to the members.  `max` is a parameter; the
code's constant is `Generated.jsonImpliedTypeDepthLimit`.

Core Lean only: the driver links this file.
-/
import CtyModel.JsonVal
namespace CtyModel
namespace D17
open JsonVal

mutual
/-- nesting of arrays and objects: 0 for a scalar -/
def jnest : Json → Nat
  | .arr xs => 1 + jnestL xs
  | .obj ks vs => 1 + jnestM ks vs
  | _ => 0
def jnestL : List Json → Nat
  | [] => 0
  | j :: js => max (jnest j) (jnestL js)
/-- the members of an object (keys and values are parallel lists) -/
def jnestM : List String → List Json → Nat
  | _ :: ks, j :: js => max (jnest j) (jnestM ks js)
  | _, _ => 0
end

mutual
/-- `impliedTypeForTok(tok, dec, depth)` -/
def jsonImplied (env : JEnv) (max : Nat) (depth : Nat) : Json → Res Ty
  | .null => .ok .dyn
  | .bool _ => .ok .bool
  | .num _ => .ok .number
  | .str _ => .ok .string
  | .arr xs =>
    if depth ≥ max then .err "exceeded max nesting depth"
    else (jsonImpliedAll env max (depth + 1) xs).map .tuple
  | .obj ks vs =>
    if depth ≥ max then .err "exceeded max nesting depth"
    else
      match jsonImpliedMembers env max (depth + 1) ks vs [] [] with
      | .ok (aK, aT) =>
        if normConflict env.norm aK aT then .unmodelled
        else
          let r := Ty.buildFields env.norm aK aT
          .ok (.object r.1 r.2 (r.1.map fun _ => false))
      | r => errOf r
/-- `impliedTupleType(dec, depth)` -/
def jsonImpliedAll (env : JEnv) (max : Nat) (depth : Nat) : List Json → Res (List Ty)
  | [] => .ok []
  | j :: js =>
    match jsonImplied env max depth j with
    | .ok t =>
      match jsonImpliedAll env max depth js with
      | .ok ts => .ok (t :: ts)
      | r => r
    | r => errOf r
/-- `impliedObjectType(dec, depth)` -/
def jsonImpliedMembers (env : JEnv) (max : Nat) (depth : Nat) :
    List String → List Json → List String → List Ty → Res (List String × List Ty)
  | k :: ks, j :: js, aK, aT =>
    match jsonImplied env max depth j with
    | .ok aty =>
      match lookupTy k aK aT with
      | some ex =>
        if !(ex.equals aty) then .err "duplicate property in JSON object"
        else jsonImpliedMembers env max depth ks js aK (setTy k aty aK aT)
      | none => jsonImpliedMembers env max depth ks js (aK ++ [k]) (aT ++ [aty])
    | r => errOf r
  | _, _, aK, aT => .ok (aK, aT)
end

/-- `ImpliedType(buf)`: `impliedTypeForTok(tok, dec, 0)` with the limit of the source -/
def jsonImpliedTop (env : JEnv) (max : Nat) (j : Json) : Res Ty := jsonImplied env max 0 j

end D17
end CtyModel
