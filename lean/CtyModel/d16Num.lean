/-
C16 (d16): digit-level conditions on numbers that travel as decimal text.

`Msgpack.textBack` / `Msgpack.textExact` (MsgpackSpec.lean) say "the text parses back", which
is what the round-trip theorems conclude: as hypotheses they are circular.  The conditions
here are stated on DIGIT LISTS only — nothing is parsed: the shortest decimal text that
math/big's `roundShortest` picks is the EXACT decimal expansion of the number (a dyadic
rational m·2^e, e < 0, has a finite one with exactly -e fractional digits).  `Lemmas/d16Text.lean`
proves that such a text parses back to the very same number; what is NOT covered is named by
`textRouteClass` (evaluated and tagged by the harness).

Core Lean only: the driver links this file.
-/
import CtyModel.MsgpackSpec
namespace CtyModel
namespace Msgpack

/-- normal form of a number that is not whole: odd mantissa, negative exponent -/
def fracNormal : Num → Bool
  | .fin _ m e _ => m % 2 == 1 && decide (e < 0)
  | .inf _ => false

/-- The shortest decimal text of `x` AT ITS OWN PRECISION is its exact decimal expansion
(`roundShortest` dropped no digit), the mantissa fits the 512 bits the decoder parses at, and
there are at most 248 fractional digits (up to there `big.ParseFloat` divides by an exact power
of five).  A condition on digit lists. -/
def digitsExactOwn : Num → Bool
  | .fin n m e p =>
    fracNormal (.fin n m e p) && decide ((-e).toNat ≤ 248) && decide (Num.bitlen m ≤ 512) &&
      Num.roundShortest m e p == Num.Dec.ofME m e
  | .inf _ => false

/-- … and the shortest text of the same number held at 512 bits (what comes back) is the
exact expansion too: then both print the same, i.e. they are Equal in cty's sense. -/
def digitsExact : Num → Bool
  | .fin n m e p => digitsExactOwn (.fin n m e p) && Num.roundShortest m e 512 == Num.Dec.ofME m e
  | .inf _ => false

/-- The classes of numbers on the `Text('f', -1)` route (not whole, not an exact float64), for the
harness' distribution:
* `exact-text`        — `digitsExact`: proved to come back numerically identical and Equal
                         (dyadic rationals with a short expansion: 0.625, 1/8 + 2^-70, …);
* `long`              — more than 248 fractional digits or a mantissa wider than 512 bits: every
                         512-bit approximation of a decimal fraction (`ParseNumberVal("0.1")` is
                         m·2^-515: 515 fractional digits, text "0.1"): searched, not proved;
* `prec512-short-text` — held at 512 bits or more, at most 248 fractional digits, text shorter than
                         the exact expansion (rare): searched, not proved;
* `low-prec-short-text` — held at fewer than 512 bits with a shortened text: comes back as ANOTHER
                         number (Equal as a known number; as a bound: finding
                         decimal-nonstandard-precision). -/
def textRouteClass (x : Num) : String :=
  match route x with
  | .str _ =>
    if x.isInt then "whole"
    else if digitsExact x then "exact-text"
    else
      match x with
      | .fin _ m e p =>
        if (-e).toNat > 248 ∨ Num.bitlen m > 512 then "long"
        else if p ≥ 512 then "prec512-short-text" else "low-prec-short-text"
      | .inf _ => "inf"
  | _ => "not-text"

end Msgpack
end CtyModel
