/-
The Lean side of the Go→Lean translation of cty/json/marshal.go done by
`extract/translate_jsonmarshal.go` (output: `Generated/JsonMarshalFns.lean`, property C15).

The translator rewrites the bodies of `marshal` and `marshalDynamic` statement by statement.
What it cannot take from the source is *how the Go data of those functions is read as model
data* and *what the untranslated callees do*; both are fixed here, once (the GIVEN API — every
definition of this file is part of the trusted reading, none is generated):

* what has been written into the `*bytes.Buffer` is a list of JSON tokens (`Buf`), the tokens
  `encoding/json`'s lexer would deliver for the bytes.  A string / rune / byte LITERAL written
  with `WriteString` / `WriteRune` / `WriteByte` is lexed by the translator with JSON's token
  grammar (punctuation, `null` / `true` / `false`, escape-free strings; anything else fails
  closed); `json.Marshal(s)` of a Go string is the one token `.str s` (encoding/json's string
  encoder is trusted, the harness lexes the real bytes); `x.Text('f', -1)` of a `*big.Float` is
  the token `.num (Num.textF x)`; `MarshalType(ty)` is the rendering of the hand-written
  `Ty.toJson ty`; `json.Marshal` of a capsule's payload is `.unmodelled`.  `render` is the
  token list of a `Json` tree.
  Write errors of `bytes.Buffer` do not exist (it panics on out-of-memory only).
* `cty.Value` is the model's `Value`; its accessors answer as the Go methods do, a Go panic
  (wrong kind, marked, unknown, null) is `Res.panic`.  `cty.StringVal(k)` does not normalise here:
  the only strings it is applied to are attribute names of a `cty.Type`, which `cty.Object`
  normalised already (ASSUMED).
* `val.ElementIterator()` is the list of (key, element) pairs still to come, in the order the Go
  iterator yields them: index order for lists and tuples, ascending keys for maps and objects
  (the model stores them ascending), `JsonVal.setIter` for sets (the hash oracle `env.hkey`;
  no answer = `.unmodelled`).
* `map[string]cty.Type` is the parallel lists of `Ty.object`; `for k := range m` visits the keys
  in the order `ord keys`, where `ord : MapOrder` is a PARAMETER of the generated definitions
  (the tie holds for every permutation: Go's iteration order is unspecified);
  `sort.Strings` is insertion sort by `<` on `String` (the model's key order).
* `cty.Path` is erased; `path.NewErrorf(format, …)` / `path.NewError(err)` are `Res.err` of the
  format string (arguments are not evaluated: they only feed the message).

Core only (imported by the generated file).
-/
import CtyModel.JsonVal
namespace CtyModel
namespace JsonGo
open JsonVal

/-! ## errors -/

/-- `path.NewErrorf(format, …)`: the format string stands for the message -/
def newErrorf (format : String) : String := format
/-- `path.NewError(err)` -/
def newError (e : String) : String := e

/-- a call whose Go result list ends in `error`: `.ok a` = the error was nil, `.err c` = it was not -/
def split {α β} (r : Res α) (ok : α → Res β) (er : String → Res β) : Res β :=
  match r with
  | .ok a => ok a
  | .err c => er c
  | .panic w => .panic w
  | .unmodelled => .unmodelled

/-! ## the output buffer -/

inductive Tok where
  | lbrack | rbrack | lbrace | rbrace | comma | colon
  | null | tt | ff
  | num (lit : String)
  | str (s : String)
  deriving Repr, Inhabited, DecidableEq

abbrev Buf := List Tok

/-- `b.WriteString(lit)` / `b.WriteRune(lit)` / `b.WriteByte(lit)` for a literal the translator lexed into `ts` -/
def writeToks (b : Buf) (ts : List Tok) : Buf := b ++ ts
/-- `b.WriteString(x.Text('f', -1))` -/
def writeNumText (b : Buf) (lit : String) : Buf := b ++ [.num lit]
/-- `b.Write(bytes)` for bytes that are JSON text (the result of `json.Marshal` / `MarshalType`) -/
def writeBytes (b : Buf) (bytes : Buf) : Buf := b ++ bytes

mutual
/-- the tokens of a document -/
def render : Json → Buf
  | .null => [.null]
  | .bool b => [if b then .tt else .ff]
  | .num l => [.num l]
  | .str s => [.str s]
  | .arr xs => .lbrack :: (renderElems true xs ++ [.rbrack])
  | .obj ks vs => .lbrace :: (renderMembers true ks vs ++ [.rbrace])
/-- array elements; `first` = no element written yet (a comma goes BEFORE every other one) -/
def renderElems : Bool → List Json → Buf
  | _, [] => []
  | first, x :: xs => (if first then [] else [.comma]) ++ (render x ++ renderElems false xs)
def renderMembers : Bool → List String → List Json → Buf
  | first, k :: ks, v :: vs =>
    (if first then [] else [.comma]) ++ (.str k :: .colon :: (render v ++ renderMembers false ks vs))
  | _, _, _ => []
end

/-- `json.Marshal(s)` for a Go string -/
def jsonMarshalString (s : String) : Res Buf := .ok [.str s]
/-- `MarshalType(ty)` (cty/json/type.go): the hand-written `Ty.toJson` -/
def marshalType (t : Ty) : Res Buf := (Ty.toJson t).map render
/-- the `interface{}` inside a capsule value: not modelled -/
abbrev GoAny := Unit
/-- `json.Marshal(x)` by reflection -/
def jsonMarshalAny (_ : GoAny) : Res Buf := .unmodelled

/-! ## cty.Type -/

def isPrimitiveType (t : Ty) : Bool := isPrimTy t
def isListType : Ty → Bool | .list _ => true | _ => false
def isSetType : Ty → Bool | .set _ => true | _ => false
def isMapType : Ty → Bool | .map _ => true | _ => false
def isTupleType : Ty → Bool | .tuple _ => true | _ => false
def isObjectType : Ty → Bool | .object _ _ _ => true | _ => false
def isCapsuleType : Ty → Bool | .capsule _ => true | _ => false
/-- `t.ElementType()` -/
def elementType : Ty → Res Ty
  | .list e | .set e | .map e => .ok e
  | _ => .panic "not a collection type"
/-- `t.TupleElementTypes()` -/
def tupleElementTypes : Ty → Res (List Ty)
  | .tuple es => .ok es
  | _ => .panic "not a tuple type"
/-- `t.AttributeTypes()` -/
def attributeTypes : Ty → Res (List String × List Ty)
  | .object ns ts _ => .ok (ns, ts)
  | _ => .panic "not an object type"
/-- `xs[i]` on a slice -/
def sliceIndex {α} : List α → Nat → Res α
  | [], _ => .panic "index out of range"
  | x :: _, 0 => .ok x
  | _ :: xs, i + 1 => sliceIndex xs i
/-- `m[k]` on a `map[string]cty.Type`; a missing key gives Go's zero `Type`, which is outside the model -/
def mapIndex (k : String) : List String → List Ty → Res Ty
  | n :: ns, t :: ts => if n = k then .ok t else mapIndex k ns ts
  | _, _ => .unmodelled

/-- the order in which `for k := range m` visits the keys -/
abbrev MapOrder := List String → List String
/-- `sort.Strings` -/
def sortStrings (xs : List String) : List String := sortStable (fun a b => decide (a < b)) xs

/-! ## cty.Value -/

def isMarked (v : Value) : Bool := v.v.isMarked
def isKnown (v : Value) : Bool := v.v.isKnown
def typeOf (v : Value) : Ty := v.ty
/-- `val.IsNull()` on an unmarked value (a marked one answers for what is inside) -/
def isNull (v : Value) : Bool :=
  match v.v.unmark1 with
  | .null => true
  | _ => false
/-- `cty.StringVal(k)` (see the header: no normalisation) -/
def stringVal (k : String) : Value := ⟨.string, .s k⟩
/-- `val.AsString()` -/
def asString (v : Value) : Res String :=
  match v.ty, v.v with
  | .string, .s x => .ok x
  | _, .bad _ => .unmodelled
  | _, _ => .panic "not a known, non-null, unmarked string"
/-- `val.AsBigFloat()` -/
def asBigFloat (v : Value) : Res Num :=
  match v.ty, v.v with
  | .number, .n x => .ok x
  | _, .bad _ => .unmodelled
  | _, _ => .panic "not a known, non-null, unmarked number"
/-- `val.True()` -/
def isTrue (v : Value) : Res Bool :=
  match v.ty, v.v with
  | .bool, .b x => .ok x
  | _, .bad _ => .unmodelled
  | _, _ => .panic "not a known, non-null, unmarked bool"
/-- `val.RawEquals(cty.PositiveInfinity)` -/
def rawEqualsPosInf (v : Value) : Bool :=
  match v.ty, v.v with
  | .number, .n (.inf false) => true
  | _, _ => false
/-- `val.RawEquals(cty.NegativeInfinity)` -/
def rawEqualsNegInf (v : Value) : Bool :=
  match v.ty, v.v with
  | .number, .n (.inf true) => true
  | _, _ => false
/-- `val.EncapsulatedValue()` -/
def encapsulatedValue (v : Value) : Res GoAny :=
  match v.ty, v.v with
  | .capsule _, .caps => .unmodelled
  | _, .bad _ => .unmodelled
  | _, _ => .panic "not a known, non-null, unmarked capsule value"

def lookupAttr (k : String) : List String → List Ty → List Payload → Res Value
  | n :: ns, t :: ts, p :: ps => if n = k then .ok ⟨t, p⟩ else lookupAttr k ns ts ps
  | _, _, _ => .panic "value has no attribute of that name"
/-- `val.GetAttr(k)` -/
def getAttr (v : Value) (k : String) : Res Value :=
  match v.ty, v.v with
  | .object ns ts _, .smap _ ps => lookupAttr k ns ts ps
  | _, .bad _ => .unmodelled
  | _, _ => .panic "not a known, non-null, unmarked object"

/-- what an `ElementIterator` still has to yield: (key, element) pairs -/
abbrev Iter := List (Value × Value)

def indexed (e : Ty) : Nat → List Payload → Iter
  | _, [] => []
  | i, p :: ps => (⟨.number, .n (Num.ofInt i)⟩, ⟨e, p⟩) :: indexed e (i + 1) ps
def indexedZip : Nat → List Ty → List Payload → Iter
  | i, e :: es, p :: ps => (⟨.number, .n (Num.ofInt i)⟩, ⟨e, p⟩) :: indexedZip (i + 1) es ps
  | _, _, _ => []
def keyed (e : Ty) : List String → List Payload → Iter
  | k :: ks, p :: ps => (⟨.string, .s k⟩, ⟨e, p⟩) :: keyed e ks ps
  | _, _ => []
def keyedZip : List String → List Ty → List Payload → Iter
  | k :: ks, e :: es, p :: ps => (⟨.string, .s k⟩, ⟨e, p⟩) :: keyedZip ks es ps
  | _, _, _ => []
/-- `val.ElementIterator()` -/
def elementIterator (env : JEnv) (v : Value) : Res Iter :=
  match v.ty, v.v with
  | .list e, .seq ps => .ok (indexed e 0 ps)
  | .tuple es, .seq ps => .ok (indexedZip 0 es ps)
  | .map e, .smap ks ps => .ok (keyed e ks ps)
  | .object _ ts _, .smap ks ps => .ok (keyedZip ks ts ps)
  | .set e, .sset _ ps =>
    match setIter env e ps with
    | some qs => .ok (qs.map fun q => (⟨e, q⟩, ⟨e, q⟩))
    | none => .unmodelled
  | _, .bad _ => .unmodelled
  | _, _ => .panic "not a known, non-null, unmarked collection"

/-! ## fuel for the non-structural recursion (`marshal` ↔ `marshalDynamic`, object attribute names) -/

mutual
def psize : Payload → Nat
  | .seq vs => psizeL vs + 1
  | .smap _ vs => psizeL vs + 2
  | .sset _ vs => psizeL vs + 1
  | .marked _ r => psize r + 1
  | _ => 1
def psizeL : List Payload → Nat
  | [] => 0
  | v :: vs => psize v + psizeL vs
end

/-- two calls of `marshal` per level of the value at most (one through `marshalDynamic`) -/
def fuelFor (v : Value) : Nat := 2 * psize v.v + 2

end JsonGo
end CtyModel
