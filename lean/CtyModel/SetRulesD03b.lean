/-
Specification vocabulary added by the d03b deepening of C03 (core Lean only: the
driver evaluates these predicates on the values the harness generates, so that
the hypotheses and conclusions of the d03b theorems are tied to the inputs
actually run).

  * `sameShape`     two payloads of one type differ at most in number leaves with
                    the same hashed text (10 significant digits), in unknown leaves
                    (any refinements) and in capsule leaves — the relation
                    `harness/c03val.go c03SameShape` computes through the public API
  * `numTextOk`     the hashed text of a number is not empty and consists of the
                    characters `0-9 . e + - I n f` (what `big.Float.String` writes)
  * `capsuleRules`  `setRules{capsuleType}` with the capsule type's `Equals` and
                    `HashKey` operations as parameters (cty/value_ops.go `Equals`,
                    cty/set_internals.go `appendSetHashBytes`, capsule branches)
-/
import CtyModel.SetRulesD03
namespace CtyModel

mutual
/-- no set type occurs (capsule types may) -/
def Ty.setFree : Ty → Bool
  | .set _ => false
  | .list e => Ty.setFree e
  | .map e => Ty.setFree e
  | .tuple ts => Ty.setFreeL ts
  | .object _ ts _ => Ty.setFreeL ts
  | _ => true
def Ty.setFreeL : List Ty → Bool
  | [] => true
  | t :: ts => Ty.setFree t && Ty.setFreeL ts
end

/-- the payload below a marker, if any (`Value.Unmark`, shallow) -/
def Payload.unmarked : Payload → Payload
  | .marked _ r => r
  | p => p

/-- how the members of two set-typed values are compared: element type, members of either -/
abbrev SetShapeRec := Ty → List Payload → List Payload → Bool

mutual
/-- **SameShape**: same constructor at every node, same lengths, same map keys,
equal strings and bools; numbers only need the same hashed text; unknowns and
capsules are not compared.  Marks are skipped (hashing ignores them). -/
def sameShape (ss : SetShapeRec) : Ty → Payload → Payload → Bool
  | t, .marked _ p, q => sameShape ss t p q
  | _, .null, q => match q.unmarked with
    | .null => true
    | _ => false
  | _, .unk _, q => match q.unmarked with
    | .unk _ => true
    | _ => false
  | _, .b x, q => match q.unmarked with
    | .b y => x == y
    | _ => false
  | _, .s x, q => match q.unmarked with
    | .s y => x == y
    | _ => false
  | _, .n x, q => match q.unmarked with
    | .n y => numHashText x == numHashText y
    | _ => false
  | _, .caps, q => match q.unmarked with
    | .caps => true
    | _ => false
  | t, .seq xs, q => match t, q.unmarked with
    | .list e, .seq ys => xs.length == ys.length && sameShapeAll ss e xs ys
    | .tuple ts, .seq ys => sameShapeZip ss ts xs ys
    | _, _ => false
  | t, .smap kx xs, q => match t, q.unmarked with
    | .map e, .smap ky ys => kx == ky && xs.length == ys.length && sameShapeAll ss e xs ys
    | .object _ ts _, .smap _ ys => sameShapeZip ss ts xs ys
    | _, _ => false
  | t, .sset _ xs, q => match t, q.unmarked with
    | .set e, .sset _ ys => ss e xs ys
    | _, _ => false
  | _, .bad _, _ => false
termination_by structural _ p => p
def sameShapeAll (ss : SetShapeRec) : Ty → List Payload → List Payload → Bool
  | e, x :: xs, y :: ys => sameShape ss e x y && sameShapeAll ss e xs ys
  | _, _, _ => true
def sameShapeZip (ss : SetShapeRec) : List Ty → List Payload → List Payload → Bool
  | t :: ts, x :: xs, y :: ys => sameShape ss t x y && sameShapeZip ss ts xs ys
  | _, _, _ => true
end

/-- pairwise over two lists of one length -/
def sameShapeList (f : Payload → Payload → Bool) : List Payload → List Payload → Bool
  | x :: xs, y :: ys => f x y && sameShapeList f xs ys
  | [], [] => true
  | _, _ => false

/-- SameShape for values with at most `n` levels of set nesting: two set-typed
values are compared member by member in ITERATION order (`AsValueSlice`), as the
harness does. -/
def sameShapeLvl : Nat → Ty → Payload → Payload → Bool
  | 0 => fun _ _ _ => false
  | n + 1 => sameShape fun e xs ys =>
    match Value.setIter e xs, Value.setIter e ys with
    | .ok l1, .ok l2 => sameShapeList (sameShapeLvl n e) l1 l2
    | _, _ => false

/-- SameShape of two values of one type -/
def Value.sameShape (a b : Value) : Bool :=
  a.ty.equals b.ty && sameShapeLvl (max a.v.depth b.v.depth + 1) a.ty a.v b.v

/-! ### the characters of a hashed number -/

def numChar (c : Char) : Bool :=
  c.isDigit || c == '.' || c == 'e' || c == '+' || c == '-' || c == 'I' || c == 'n' || c == 'f'

/-- `big.Float.String()` wrote a non-empty text over `0-9 . e + - I n f` -/
def numTextOk (x : Num) : Bool :=
  let cs := (numHashText x).toList
  !cs.isEmpty && cs.all numChar

/-- …for every number leaf of the payload -/
def Payload.numTextsOk (p : Payload) : Bool := p.nums.all numTextOk

/-! ### the carrier of the compound-member order -/

/-- both hash texts are computed and they differ -/
def Payload.hashDiffer (e : Ty) (a b : Payload) : Bool :=
  match Value.hashBytesP e a, Value.hashBytesP e b with
  | .ok x, .ok y => x != y
  | _, _ => false

/-- `RawEquals` returns true -/
def Payload.rawTrue (e : Ty) (a b : Payload) : Bool :=
  match Value.rawEqP e a e b with
  | .ok true => true
  | _ => false

/-- any two members are `RawEquals` or have different hash texts (no `Less` tie) -/
def Payload.tieFree (e : Ty) (l : List Payload) : Bool :=
  l.all fun a => l.all fun b => Payload.rawTrue e a b || Payload.hashDiffer e a b

/-- `less` is a strict order on the members of `l` that orders any two different
positions: the carrier on which sorted iteration is a function of the member set
(decidable: it runs `less` on all pairs and triples) -/
def strictTotalB {α : Type} (less : α → α → Bool) (l : List α) : Bool :=
  l.all (fun a => !less a a) &&
  l.all (fun a => l.all fun b => l.all fun c => !(less a b && less b c) || less a c) &&
  (List.range l.length).all fun i => (List.range l.length).all fun j =>
    i == j || (match l[i]?, l[j]? with
      | some a, some b => less a b || less b a
      | _, _ => true)

/-- …for the members of a set value under `setRules{e}.Less` -/
def Payload.lessStrictTotal (e : Ty) (vs : List Payload) : Bool := strictTotalB (ctyLessB e) vs

/-! ### values that contain sets, transliterated to set-free values

`canon` replaces every set node by the LIST of its (recursively transliterated)
members sorted by the specification of `setRules.Less` (`lessEnc`); `enc` replaces
`set e` by `list e`.  (Why: Lemmas/d03bEnc.lean.)  The driver prints `canon` of the
generated values; the harness builds the same value through the public API
(`AsValueSlice` of every set) and the two must agree. -/
namespace D03b
open Value SetImpl

/-- `setRules{e}.Less(x, y)` for a compound `e`, written for proof -/
def compLessB (e : Ty) (x y : Payload) : Bool :=
  if rawB e x y then false
  else if y.isNull && !x.isNull then true
  else if x.isNull then false
  else if x.isKnown && !y.isKnown then true
  else if !x.isKnown then false
  else match hashBytesP e x, hashBytesP e y with
    | .ok hx, .ok hy => bytesLt hx hy
    | _, _ => false


mutual
/-- a well-formed type (`Ty.wf`) in which no capsule type occurs -/
def capFree : Ty → Bool
  | .capsule _ => false
  | .list e | .set e | .map e => capFree e
  | .tuple ts => capFreeL ts
  | .object ns ts os => ns.length == ts.length && os.length == ts.length && Ty.strictAsc ns && capFreeL ts
  | _ => true
def capFreeL : List Ty → Bool
  | [] => true
  | t :: ts => capFree t && capFreeL ts
end

mutual
/-- `set e` read as `list e`, at every depth -/
def enc : Ty → Ty
  | .set e => .list (enc e)
  | .list e => .list (enc e)
  | .map e => .map (enc e)
  | .tuple ts => .tuple (encL ts)
  | .object ns ts os => .object ns (encL ts) os
  | t => t
def encL : List Ty → List Ty
  | [] => []
  | t :: ts => enc t :: encL ts
end

/-- the specification of `setRules{e}.Less` on transliterated members -/
def lessEnc (e : Ty) : Payload → Payload → Bool :=
  if e.isPrim then primLessB e else compLessB (enc e)

mutual
/-- a set node becomes the list of its members in `Less` order -/
def canon : Ty → Payload → Payload
  | t, .marked m r => .marked m (canon t r)
  | .list e, .seq vs => .seq (canonAll e vs)
  | .tuple ts, .seq vs => .seq (canonZip ts vs)
  | .map e, .smap ks vs => .smap ks (canonAll e vs)
  | .object _ ts _, .smap ks vs => .smap ks (canonZip ts vs)
  | .set e, .sset _ vs => .seq (sortStable (lessEnc e) (canonAll e vs))
  | _, p => p
termination_by structural _ p => p
def canonAll : Ty → List Payload → List Payload
  | _, [] => []
  | e, v :: vs => canon e v :: canonAll e vs
def canonZip : List Ty → List Payload → List Payload
  | t :: ts, v :: vs => canon t v :: canonZip ts vs
  | _, vs => vs
end

/-- `r` holds between any two different positions (earlier, later) -/
def pairwiseB {α : Type} (r : α → α → Bool) : List α → Bool
  | [] => true
  | x :: xs => xs.all (fun y => r x y) && pairwiseB r xs

end D03b

/-- **a well-formed set node** (`set.Set` invariant + the carrier of the `Equals`
theorems), decidable: the bucket ids are the members' hashes; every member is
well-formed, mark-free, quotable, wholly known with integer numbers; no two members
are `RawEquals`; `Less` is a strict total order on the members -/
def Payload.setWF (e : Ty) (ids : List Int) (vs : List Payload) : Bool :=
  ids == vs.map (ctyRules e).hash &&
  vs.all (fun v => v.shaped e && !v.containsMarked && v.quotable && v.whollyKnown && v.intNums) &&
  D03b.pairwiseB (fun a b => !Payload.rawTrue e a b) vs &&
  Payload.lessStrictTotal e vs

/-- …as a predicate on a member of a set of sets -/
def Payload.setMemberWF (e : Ty) : Payload → Bool
  | .sset ids vs => Payload.setWF e ids vs
  | _ => false

mutual
/-- every set node of the value, at any depth, is well-formed (`Payload.setWF`) -/
def Payload.deepWF : Ty → Payload → Bool
  | .list e, .seq vs => Payload.deepWFAll e vs
  | .tuple ts, .seq vs => Payload.deepWFZip ts vs
  | .map e, .smap _ vs => Payload.deepWFAll e vs
  | .object _ ts _, .smap _ vs => Payload.deepWFZip ts vs
  | .set e, .sset ids vs => Payload.setWF e ids vs && Payload.deepWFAll e vs
  | _, _ => true
termination_by structural _ p => p
def Payload.deepWFAll : Ty → List Payload → Bool
  | _, [] => true
  | e, v :: vs => Payload.deepWF e v && Payload.deepWFAll e vs
def Payload.deepWFZip : List Ty → List Payload → Bool
  | t :: ts, v :: vs => Payload.deepWF t v && Payload.deepWFZip ts vs
  | _, _ => true
end

/-- **the carrier of the `Equals` theorems for values with sets**: well-formed,
mark-free, quotable, wholly known, integer numbers, every set node well-formed -/
def Payload.deepMember (t : Ty) (p : Payload) : Bool :=
  p.shaped t && !p.containsMarked && p.quotable && p.whollyKnown && p.intNums && Payload.deepWF t p

/-! ### capsule types -/

/-- The operations of a capsule type that `Equals`, `RawEquals` and the set hash
consult (Go callbacks of `cty.CapsuleOps`).  Encapsulated Go values are named by
natural numbers (their pointer identity). -/
structure CapsuleOps where
  /-- `ops.Equals(a, b)` reduced to "returned the known `cty.True`", if the type has the operation -/
  equals : Option (Nat → Nat → Bool)
  /-- `ops.RawEquals(a, b)`, if the type has the operation -/
  rawEquals : Option (Nat → Nat → Bool)
  /-- `ops.HashKey(a)`, if the type has the operation -/
  hashKey : Option (Nat → String)

namespace CapsuleOps

/-- `CapsuleOps.assertValid` (cty/capsule_ops.go:110): `CapsuleWithOps` panics when
`Equals` is set without `RawEquals` -/
def valid (ops : CapsuleOps) : Bool := !(ops.rawEquals.isNone && ops.equals.isSome)

/-- `Value.RawEquals` on two known non-null capsule values of one type
(cty/value_ops.go:589): the type's `RawEquals` operation, else pointer identity -/
def rawEqv (ops : CapsuleOps) (a b : Nat) : Bool :=
  match ops.rawEquals with
  | some f => f a b
  | none => a == b

/-- `Value.Equals(...)` is the known `True` on two known non-null capsule values of
one type (cty/value_ops.go:379): the type's `Equals` operation, else its
`RawEquals` operation, else pointer identity (`val.v == other.v`) -/
def eqv (ops : CapsuleOps) (a b : Nat) : Bool :=
  match ops.equals with
  | some f => f a b
  | none => ops.rawEqv a b

/-- `appendSetHashBytes`, capsule branch: `«` then `%q` of the hash key, or `?`, then `»` -/
def hashText (ops : CapsuleOps) (a : Nat) : Res Bytes :=
  match ops.hashKey with
  | some k => Res.app (.ok (strBytes "«")) (Res.app (quote (k a)) (.ok (strBytes "»")))
  | none => .ok (strBytes "«?»")

/-- `setRules{capsule}.Less` on known non-null members: the `RawEquals` shortcut,
then the default branch (compare hash texts) -/
def lessB (ops : CapsuleOps) (a b : Nat) : Bool :=
  if ops.rawEqv a b then false
  else match ops.hashText a, ops.hashText b with
    | .ok x, .ok y => bytesLt x y
    | _, _ => false

/-- `setRules{capsule}` on known non-null members: `Hash` is CRC-32 of the hash text,
`Equivalent` is `Equals(...).v == true`, `Less` as above. -/
def rules (ops : CapsuleOps) : Rules Nat where
  hash := fun a => match ops.hashText a with | .ok bs => (crc32 bs : Int) | _ => 0
  equiv := ops.eqv
  less := some ops.lessB

/-- the lawful case: `Equals` (or identity) is an equivalence, and equal capsules
have the same hash key — "HashKey injective up to Equals" read in the direction
sets need (`Equals a b → HashKey a = HashKey b`) -/
structure Lawful (ops : CapsuleOps) : Prop where
  refl : ∀ a, ops.eqv a a = true
  symm : ∀ a b, ops.eqv a b = true → ops.eqv b a = true
  trans : ∀ a b c, ops.eqv a b = true → ops.eqv b c = true → ops.eqv a c = true
  key_eq : ∀ k, ops.hashKey = some k → ∀ a b, ops.eqv a b = true → k a = k b

/-- …and the hash key tells inequivalent capsules apart (needed only for a total `Less`) -/
def KeyInjective (ops : CapsuleOps) : Prop :=
  ∃ k, ops.hashKey = some k ∧ ∀ a b, k a = k b → ops.eqv a b = true

end CapsuleOps

end CtyModel
