/-
The FULL model of `convert.unify(types, unsafe)` (cty/convert/unify.go) and of
`Unify` / `UnifyUnsafe` (public.go): the unified type AND the slice of returned
conversions — property C09.  It follows unify.go branch for branch.

What Go returns as closures is kept first order:

* a conversion obtained from `GetConversion` / `GetConversionUnsafe` is C08's
  `Convert.Plan` (`UConv.plan`);
* the closure of `unifyAllAsDynamic` (`return cty.DynamicVal, nil`) is `UConv.constDyn`;
* the closure composed by `unifyTuplesAsList` / `unifyObjectsAsMaps`,

      out, err = tupleConv(in); if err != nil { return out, err }; return listConv(out)

  is `UConv.andThen tupleConv listConv`: the second conversion is applied to the OUTPUT
  of the first (since /repo df9d7d3; before that repair the closure ended in
  `listConv(in)`, the original value), and `applyU` does the same.

Go panics are values: `ElementType()` / `AttributeTypes()` / `TupleElementTypes()`
on a type of another kind, `types[0]` and `convs[idx]` out of range, and the call of a
nil conversion are `.panic` branches of the model; `C09.no_panic` shows that none of
them is reachable.

Parameters.  `E : Convert.Env` answers `GetConversion*` (through C08's `getConv`)
and, as in Convert.lean, the calls `ty, _ := unify(…)` whose conversions the Go code
throws away (`E.unifyG`).  The two calls whose conversions ARE used — `unify(listed)`
in `unifyTuplesAsList` and `unify(mapped)` in `unifyObjectsAsMaps` — re-enter the
function itself; that recursion is indexed by fuel (`unifyF`); its depth is at most 2
because `listed` / `mapped` hold only lists / maps.  The driver instantiates
`E.unify` with `unifyTy` below: ConvertUnify's transliteration of the type result with a
fuel computed from the depth of its argument, so that it is a total function of the
type list (the harness diffs it, and the type result of `unifyF`, against the real
`Unify` / `UnifyUnsafe` on every case).

Where Go ranges over a Go map (`for name := range firstAttrs`,
`for _, aty := range ty.AttributeTypes()`) the model visits attributes in ascending
name order.
-/
import CtyModel.Convert
import CtyModel.ConvertUnify
namespace CtyModel
namespace Unify
open Convert

/-! ## Returned conversions, first order -/

/-- a non-nil `Conversion` in the slice returned by `unify` -/
inductive UConv where
  /-- what `GetConversion(in, out)` / `GetConversionUnsafe(in, out)` returned -/
  | plan (p : Plan)
  /-- `func(cty.Value) (cty.Value, error) { return cty.DynamicVal, nil }` -/
  | constDyn
  /-- the closure composed in unifyTuplesAsList / unifyObjectsAsMaps; `first` is
  `tupleConv` / `objConv` (possibly nil: then the call panics), `second` is
  `listConv` / `mapConv` -/
  | andThen (first : Option UConv) (second : UConv)
  deriving Repr, Inhabited, BEq

/-- the returned `[]Conversion`: `none` = nil entry -/
abbrev Convs := List (Option UConv)

/-- `(cty.Type, []Conversion)`; `none` = `(cty.NilType, nil)` -/
abbrev UOut := Option (Ty × Convs)

/-- a returned conversion applied to a value (`Convert.apply` for the plans) -/
def applyU (E : Env) (fuel : Nat) : UConv → Value → Res Value
  | .plan p, v => apply E fuel p v
  | .constDyn, _ => .ok (Value.unknown .dyn)
  | .andThen none _, _ => .panic "call of nil conversion"
  | .andThen (some f) s, v =>
    match applyU E fuel f v with
    | .ok out => applyU E fuel s out      -- `return listConv(out)`: the output of the first step
    | other => other

/-! ## Type accessors that panic on the wrong kind -/

/-- `ty.AttributeTypes()`, in ascending name order -/
def attrTysR : Ty → Res (List Ty)
  | .object _ ts _ => .ok ts
  | _ => .panic "AttributeTypes on non-object Type"

def attrNamesR : Ty → Res (List String)
  | .object ns _ _ => .ok ns
  | _ => .panic "AttributeTypes on non-object Type"

/-- `ty.TupleElementTypes()` -/
def tupleEtysR : Ty → Res (List Ty)
  | .tuple es => .ok es
  | _ => .panic "TupleElementTypes on non-tuple Type"

/-- `xs[i]` of a Go slice -/
def idxR {α} (xs : List α) (i : Nat) : Res α :=
  match xs[i]? with
  | some x => .ok x
  | none => .panic "index out of range"

/-! ## The pieces of unify.go -/

section
variable (E : Env) (uns : Bool)

/-- the loop shared by the five `unify…Types` functions:

    conversions := make([]Conversion, len(types))
    for i, ty := range types {
        if ty.Equals(retTy) { continue }
        conversions[i] = GetConversion[Unsafe](ty, retTy)
        if conversions[i] == nil { <give up> }
    }

`none` = gave up. -/
def convLoop (retTy : Ty) : List Ty → Option Convs
  | [] => some []
  | ty :: rest =>
    if ty.equals retTy then (convLoop retTy rest).map (none :: ·)
    else match getConv E ty retTy uns with
      | none => none
      | some p => (convLoop retTy rest).map (some (.plan p) :: ·)

/-- unifyAllAsDynamic -/
def allAsDynamic (types : List Ty) : UOut :=
  some (.dyn, types.map fun _ => some .constDyn)

/-- unifyCollectionTypes -/
def collectionTypes (mk : Ty → Ty) (types : List Ty) (hasDynamic : Bool) : Res UOut :=
  if hasDynamic then .ok (allAsDynamic types)
  else
    (mapRes elementType types).bind fun elemTypes =>
    match E.unifyG uns elemTypes with
    | none => .ok none
    | some retElemType =>
      let retTy := mk retElemType
      match convLoop E uns retTy types with
      | none => .ok none                    -- "Shouldn't be reachable, since we were able to unify"
      | some cs => .ok (some (retTy, cs))

/-- unifyObjectTypesToMap -/
def objectTypesToMap (types : List Ty) : Res UOut :=
  (mapRes attrTysR types).bind fun atyss =>
  match E.unifyG uns atyss.flatten with
  | none => .ok none
  | some ety =>
    let retTy := Ty.map ety
    match convLoop E uns retTy types with
    | none => .ok none
    | some cs => .ok (some (retTy, cs))

/-- unifyTupleTypesToList -/
def tupleTypesToList (types : List Ty) : Res UOut :=
  (mapRes tupleEtysR types).bind fun etyss =>
  match E.unifyG uns etyss.flatten with
  | none => .ok none
  | some ety =>
    let retTy := Ty.list ety
    match convLoop E uns retTy types with
    | none => .ok none
    | some cs => .ok (some (retTy, cs))

/-- `retEtys[idx], _ = unify(atysAcross, unsafe)` for idx = 0 …; `none` = some column
does not unify -/
def unifyColumns : List (List Ty) → Option (List Ty)
  | [] => some []
  | col :: cols =>
    match E.unifyG uns col with
    | none => none
    | some t => (unifyColumns cols).map (t :: ·)

/-- `ty.AttributeType(name)` for every given type -/
def attrColumn (name : String) (types : List Ty) : Res (List Ty) :=
  mapRes (fun ty => match ty with
    | .object ns ts os =>
      match Ty.find name ns ts os with
      | some (t, _) => .ok t
      | none => .panic "no such attribute"
    | _ => .panic "AttributeType on non-object Type") types

/-- `ty.TupleElementTypes()[idx]` for every given type -/
def tupleColumn (idx : Nat) (types : List Ty) : Res (List Ty) :=
  mapRes (fun ty => (tupleEtysR ty).bind fun es => idxR es idx) types

/-- the first loop of unifyObjectTypes: every other type has as many attributes as
the first and no name the first lacks -/
def sameAttrNames (firstNames : List String) : List Ty → Res Bool
  | [] => .ok true
  | ty :: rest =>
    (attrNamesR ty).bind fun ns =>
      if ns.length != firstNames.length then .ok false
      else if !(ns.all fun n => firstNames.contains n) then .ok false
      else sameAttrNames firstNames rest

/-- unifyObjectTypes -/
def objectTypes (types : List Ty) (hasDynamic : Bool) : Res UOut :=
  if hasDynamic then .ok (allAsDynamic types)
  else
    (idxR types 0).bind fun first =>
    (attrNamesR first).bind fun firstNames =>
    (sameAttrNames firstNames (types.drop 1)).bind fun same =>
    if !same then objectTypesToMap E uns types
    else
      (mapRes (fun name => attrColumn name types) firstNames).bind fun cols =>
      match unifyColumns E uns cols with
      | none => .ok none
      | some atys =>
        let retTy := Ty.object firstNames atys (atys.map fun _ => false)
        match convLoop E uns retTy types with
        | none => objectTypesToMap E uns types
        | some cs => .ok (some (retTy, cs))

/-- the first loop of unifyTupleTypes -/
def sameTupleLen (n : Nat) : List Ty → Res Bool
  | [] => .ok true
  | ty :: rest =>
    (tupleEtysR ty).bind fun es => if es.length != n then .ok false else sameTupleLen n rest

/-- unifyTupleTypes -/
def tupleTypes (types : List Ty) (hasDynamic : Bool) : Res UOut :=
  if hasDynamic then .ok (allAsDynamic types)
  else
    (idxR types 0).bind fun first =>
    (tupleEtysR first).bind fun firstEtys =>
    (sameTupleLen firstEtys.length (types.drop 1)).bind fun same =>
    if !same then tupleTypesToList E uns types
    else
      (mapRes (fun idx => tupleColumn idx types) (List.range firstEtys.length)).bind fun cols =>
      match unifyColumns E uns cols with
      | none => .ok none
      | some etys =>
        let retTy := Ty.tuple etys
        match convLoop E uns retTy types with
        | none => tupleTypesToList E uns types
        | some cs => .ok (some (retTy, cs))

/-- the indices `i ≥ k` (counted from `k` at the head) whose type satisfies `p` -/
def idxsFrom (p : Ty → Bool) : Nat → List Ty → List Nat
  | _, [] => []
  | k, t :: ts => if p t then k :: idxsFrom p (k + 1) ts else idxsFrom p (k + 1) ts

/-- the indices `i` with `p types[i]` (`tupleIdxs` / `objIdxs`), ascending -/
def idxsOf (p : Ty → Bool) (types : List Ty) : List Nat := idxsFrom p 0 types

/-- `listed[idx] = ty` for every idx of `idxs` -/
def replaceAt (idxs : List Nat) (ty : Ty) (types : List Ty) : List Ty :=
  idxs.foldl (fun acc idx => acc.set idx ty) types

/-- the wrapping loop of unifyTuplesAsList / unifyObjectsAsMaps:

    for i, idx := range tupleIdxs {
        listConv := convs[idx]; tupleConv := tupleConvs[i]
        if listConv == nil { convs[idx] = tupleConv; continue }
        convs[idx] = <composed closure>
    } -/
def wrapLoop (firstConvs : Convs) : Nat → List Nat → Convs → Res Convs
  | _, [], convs => .ok convs
  | i, idx :: rest, convs =>
    (idxR convs idx).bind fun second =>
    (idxR firstConvs i).bind fun first =>
      match second with
      | none => wrapLoop firstConvs (i + 1) rest (convs.set idx first)
      | some s => wrapLoop firstConvs (i + 1) rest (convs.set idx (some (.andThen first s)))

variable (self : Bool → List Ty → Res UOut)

/-- the common shape of unifyTuplesAsList (`isStruct` = IsTupleType, `isColl` =
IsListType, `structsToColl` = unifyTupleTypesToList) and unifyObjectsAsMaps
(IsObjectType, IsMapType, unifyObjectTypesToMap); `self` is `unify` itself:

    ty, tupleConvs := unifyTupleTypesToList(tuples, unsafe)
    if !ty.IsListType() { return cty.NilType, nil }
    listed := copy of types with listed[idx] = ty for every tuple index
    newTy, convs := unify(listed, unsafe)
    if !newTy.IsListType() { return cty.NilType, nil }
    <wrapping loop>
    return newTy, convs -/
def reunify (isStruct isColl : Ty → Bool) (structsToColl : List Ty → Res UOut) (types : List Ty) : Res UOut :=
  let structs := types.filter isStruct
  let idxs := idxsOf isStruct types
  (structsToColl structs).bind fun r =>
  match r with
  | none => .ok none
  | some (ty, firstConvs) =>
    if !isColl ty then .ok none
    else
      let replaced := replaceAt idxs ty types
      (self uns replaced).bind fun r2 =>
      match r2 with
      | none => .ok none
      | some (newTy, convs) =>
        if !isColl newTy then .ok none
        else (wrapLoop firstConvs 0 idxs convs).bind fun convs' => .ok (some (newTy, convs'))

/-- unifyTuplesAsList -/
def tuplesAsList (types : List Ty) : Res UOut :=
  reunify uns self isTupleTy isListTy (tupleTypesToList E uns) types

/-- unifyObjectsAsMaps -/
def objectsAsMaps (types : List Ty) : Res UOut :=
  reunify uns self isObjectTy isMapTy (objectTypesToMap E uns) types

/-- the inner loop of the general path for one candidate `wantType = types[wantTypeIdx]`,
writing into the `conversions` buffer that is REUSED across candidates; the Bool says
whether the loop ran to its end (`false` = `continue Preferences`) -/
def tryCandidate (wantIdx : Nat) (want : Ty) : Nat → List Ty → Convs → Convs × Bool
  | _, [], buf => (buf, true)
  | i, tryType :: rest, buf =>
    if i == wantIdx then tryCandidate wantIdx want (i + 1) rest (buf.set i none)
    else if tryType.equals want then tryCandidate wantIdx want (i + 1) rest (buf.set i none)
    else match getConv E tryType want uns with
      | none => (buf.set i none, false)
      | some p => tryCandidate wantIdx want (i + 1) rest (buf.set i (some (.plan p)))

/-- `for _, wantTypeIdx := range prefOrder { … }` -/
def prefLoop (types : List Ty) : List Nat → Convs → Res UOut
  | [], _ => .ok none
  | wantIdx :: rest, buf =>
    (idxR types wantIdx).bind fun want =>
      let r := tryCandidate E uns wantIdx want 0 types buf
      if r.2 then .ok (some (want, r.1)) else prefLoop types rest r.1

/-- the general path: preference order, then the first candidate all convert to -/
def general (types : List Ty) : Res UOut :=
  prefLoop E uns types (sortTypes types) (types.map fun _ => none)

/-- one activation of `unify(types, unsafe)` -/
def unifyStep (types : List Ty) : Res UOut :=
  if types.isEmpty then .ok none
  else
    let mapCt := count isMapTy types
    let listCt := count isListTy types
    let setCt := count isSetTy types
    let objectCt := count isObjectTy types
    let tupleCt := count isTupleTy types
    let dynamicCt := count Ty.isDyn types
    let n := types.length
    if mapCt > 0 && mapCt + dynamicCt == n then collectionTypes E uns .map types (dynamicCt > 0)
    else if mapCt > 0 && mapCt + objectCt + dynamicCt == n then
      (objectsAsMaps E uns self types).bind fun r =>
      match r with
      | some (ty, convs) => if isMapTy ty then .ok (some (ty, convs)) else general E uns types
      | none => general E uns types
    else if listCt > 0 && listCt + dynamicCt == n then collectionTypes E uns .list types (dynamicCt > 0)
    else if listCt > 0 && listCt + tupleCt + dynamicCt == n then
      (tuplesAsList E uns self types).bind fun r =>
      match r with
      | some (ty, convs) => if isListTy ty then .ok (some (ty, convs)) else general E uns types
      | none => general E uns types
    else if setCt > 0 && setCt + dynamicCt == n then collectionTypes E uns .set types (dynamicCt > 0)
    else if objectCt > 0 && objectCt + dynamicCt == n then objectTypes E uns types (dynamicCt > 0)
    else if tupleCt > 0 && tupleCt + dynamicCt == n then tupleTypes E uns types (dynamicCt > 0)
    else if objectCt > 0 && tupleCt > 0 then .ok none
    else general E uns types
end

/-- `unify(types, unsafe)`; the fuel bounds the re-entry through unifyTuplesAsList /
unifyObjectsAsMaps (2 is always enough); out of fuel is `.unmodelled` -/
def unifyF (E : Env) : Nat → Bool → List Ty → Res UOut
  | 0, _, _ => .unmodelled
  | fuel + 1, uns, types => unifyStep E uns (unifyF E fuel) types

/-- `convert.Unify(types)` -/
def unify (E : Env) (fuel : Nat) (types : List Ty) : Res UOut := unifyF E fuel false types

/-- `convert.UnifyUnsafe(types)` -/
def unifyUnsafe (E : Env) (fuel : Nat) (types : List Ty) : Res UOut := unifyF E fuel true types

/-! ## The instance of `Env.unify` the driver uses -/

mutual
/-- nesting depth of a type -/
def tyDepth : Ty → Nat
  | .list e | .set e | .map e => tyDepth e + 1
  | .tuple es => tyDepthL es + 1
  | .object _ ts _ => tyDepthL ts + 1
  | _ => 0
def tyDepthL : List Ty → Nat
  | [] => 0
  | t :: ts => max (tyDepth t) (tyDepthL ts)
end

/-- enough fuel for ConvertUnify's `unifyTyF` on this list: every level of nesting costs
at most three nested calls (re-entry as list / map, element types, a conversion's own
`unify`) -/
def fuelFor (ts : List Ty) : Nat := 3 * tyDepthL ts + 8

/-- the type result of `unify`, as a total function of the type list -/
def unifyTy (uns : Bool) (ts : List Ty) : Option Ty := unifyTyF (fuelFor ts) uns ts

/-- `base` with `unify := unifyTy` -/
def Env.std (base : Env) : Env := { base with unify := unifyTy }

end Unify
end CtyModel
