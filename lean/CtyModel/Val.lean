/-
Model of `cty.Value` = (type, payload) (cty/value.go).  Leaves carry no type of
their own; they get it from the container's type, as in the Go representation
(`[]interface{}`, `map[string]interface{}`, `set.Set`).  The harness obtains the
payload through the verif-tagged `cty.VerifDump`.
-/
import CtyModel.Ty
import CtyModel.Num
namespace CtyModel

/-- a numeric bound of a refinement: value and inclusiveness -/
structure Bound where
  v : Num
  incl : Bool
  deriving Repr, BEq, DecidableEq, Inhabited

/-- `unknownValRefinement` (cty/unknown_refinement.go) -/
inductive Rfn where
  | unref                                  -- no refinement object at all
  | nullable (n : Tri)                     -- *refinementNullable
  | str (n : Tri) (pfx : String)           -- *refinementString
  | num (n : Tri) (min max : Option Bound) -- *refinementNumber
  | coll (n : Tri) (minLen maxLen : Int)   -- *refinementCollection
  deriving Repr, BEq, DecidableEq, Inhabited

inductive Payload where
  | null
  | unk (r : Rfn)
  | b (v : Bool)
  | n (v : Num)
  | s (v : String)
  | seq (vs : List Payload)                          -- list / tuple
  | smap (keys : List String) (vs : List Payload)    -- map / object, keys ascending
  | sset (ids : List Int) (vs : List Payload)        -- set: bucket id per member, ids ascending
  | caps
  | marked (marks : List String) (real : Payload)    -- marker{realV, marks}, marks sorted
  | bad (why : String)                               -- payload of a Go kind the type cannot have
  deriving Repr, Inhabited, BEq

structure Value where
  ty : Ty
  v : Payload
  deriving Repr, Inhabited, BEq

namespace Tri
def toSexp : Tri → Sexp
  | .f => .atom "f" | .t => .atom "t" | .u => .atom "u"
def ofSexp : Sexp → Option Tri
  | .atom "f" => some .f | .atom "t" => some .t | .atom "u" => some .u
  | _ => none
end Tri

namespace Rfn
def boundToSexp : Option Bound → Sexp
  | none => .atom "-"
  | some b => .list [b.v.toSexp, Sexp.encBool b.incl]
def boundOfSexp : Sexp → Option (Option Bound)
  | .atom "-" => some none
  | .list [v, i] => do pure (some ⟨← Num.ofSexp v, ← Sexp.decBool i⟩)
  | _ => none
def toSexp : Rfn → Sexp
  | .unref => .atom "-"
  | .nullable n => .list [.atom "nl", n.toSexp]
  | .str n p => .list [.atom "st", n.toSexp, Sexp.encStr p]
  | .num n lo hi => .list [.atom "nu", n.toSexp, boundToSexp lo, boundToSexp hi]
  | .coll n lo hi => .list [.atom "co", n.toSexp, Sexp.encInt lo, Sexp.encInt hi]
def ofSexp : Sexp → Option Rfn
  | .atom "-" => some .unref
  | .list [.atom "nl", n] => (Tri.ofSexp n).map .nullable
  | .list [.atom "st", n, p] => do pure (.str (← Tri.ofSexp n) (← Sexp.decStr p))
  | .list [.atom "nu", n, lo, hi] => do
    pure (.num (← Tri.ofSexp n) (← boundOfSexp lo) (← boundOfSexp hi))
  | .list [.atom "co", n, lo, hi] => do
    pure (.coll (← Tri.ofSexp n) (← Sexp.decInt lo) (← Sexp.decInt hi))
  | _ => none
def nullness : Rfn → Tri
  | .unref => .u
  | .nullable n | .str n _ | .num n _ _ | .coll n _ _ => n
end Rfn

namespace Payload

mutual
partial def toSexp : Payload → Sexp
  | .null => .atom "null"
  | .unk r => .list [.atom "unk", r.toSexp]
  | .b v => .list [.atom "b", Sexp.encBool v]
  | .n v => v.toSexp
  | .s v => .list [.atom "s", Sexp.encStr v]
  | .seq vs => .list (.atom "seq" :: vs.map toSexp)
  | .smap ks vs => .list (.atom "smap" :: membersToSexp ks vs)
  | .sset ids vs => .list (.atom "sset" :: setToSexp ids vs)
  | .caps => .list [.atom "cap"]
  | .marked ms r => .list [.atom "mk", .list (ms.map Sexp.encStr), toSexp r]
  | .bad w => .list [.atom "bad", .atom w]
partial def membersToSexp : List String → List Payload → List Sexp
  | k :: ks, v :: vs => .list [Sexp.encStr k, toSexp v] :: membersToSexp ks vs
  | _, _ => []
partial def setToSexp : List Int → List Payload → List Sexp
  | i :: is, v :: vs => .list [Sexp.encInt i, toSexp v] :: setToSexp is vs
  | _, _ => []
end

partial def ofSexp : Sexp → Option Payload
  | .atom "null" => some .null
  | .list [.atom "unk", r] => (Rfn.ofSexp r).map .unk
  | .list [.atom "b", v] => (Sexp.decBool v).map .b
  | .list [.atom "s", v] => (Sexp.decStr v).map .s
  | .list (.atom "seq" :: vs) => (vs.mapM ofSexp).map .seq
  | .list (.atom "smap" :: ms) => do
    let parts ← ms.mapM fun m =>
      match m with
      | .list [k, v] => do pure ((← Sexp.decStr k), (← ofSexp v))
      | _ => none
    pure (.smap (parts.map (·.1)) (parts.map (·.2)))
  | .list (.atom "sset" :: ms) => do
    let parts ← ms.mapM fun m =>
      match m with
      | .list [k, v] => do pure ((← Sexp.decInt k), (← ofSexp v))
      | _ => none
    pure (.sset (parts.map (·.1)) (parts.map (·.2)))
  | .list (.atom "cap" :: _) => some .caps
  | .list [.atom "mk", .list ms, r] => do
    pure (.marked (← ms.mapM Sexp.decStr) (← ofSexp r))
  | .list [.atom "bad", .atom w] => some (.bad w)
  | x => (Num.ofSexp x).map .n

end Payload

namespace Value
/-- wire form `(v <ty> <payload>)` -/
def toSexp (x : Value) : Sexp := .list [.atom "v", x.ty.toSexp, x.v.toSexp]
def ofSexp : Sexp → Option Value
  | .list [.atom "v", t, p] => do pure ⟨← Ty.ofSexp t, ← Payload.ofSexp p⟩
  | _ => none
end Value

end CtyModel
