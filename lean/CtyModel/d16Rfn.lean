/-
C16 (d16): what the MessagePack codec KEEPS of a refinement — the exact relation between the
refinement of an unknown value and the refinement of its decoding (audit of C16, missing
theorem (b)).  `Weaker` (MsgpackSpec.lean) alone is satisfied by a decoder that drops every
refinement; `RfnKept` is not: nullness, numeric bounds (as numbers, with their inclusiveness)
and length bounds come back as they were, a string prefix comes back byte for byte unless it
is longer than `maxPrefixLength`, in which case what comes back is a byte-prefix of it
(`RfnKeptE`: precisely `ctystrings.SafeKnownPrefix` of its first 255 bytes).

Core Lean only.
-/
import CtyModel.Msgpack
namespace CtyModel
namespace Msgpack
open Refine

/-- the same bound: numerically identical (the decoder may hold it at another precision),
same inclusiveness -/
def boundKept : Option Bound → Option Bound → Prop
  | none, none => True
  | some a, some b => Num.cmp a.v b.v = 0 ∧ a.incl = b.incl
  | _, _ => False

/-- a refinement that says nothing the wire format carries: `marshalUnknownValue` writes the
compact one-byte form, and the decoder builds an unknown value without a refinement object -/
def trivialRfn (r : Rfn) : Bool :=
  decide (r.nullness ≠ .f) &&
  (match r with
   | .unref | .nullable _ => true
   | .str _ p => p == ""
   | .num _ lo hi => lo.isNone && hi.isNone
   | .coll _ lo hi => lo == 0 && hi == Refine.maxInt)

/-- what a refinement that IS written comes back as, for the external functions `E` -/
def keptBodyE (E : Ext) (r' r : Rfn) : Prop :=
  match r with
  | .unref => False
  | .nullable n => r' = .nullable n
  | .str n p =>
    ∃ q', r' = .str n q' ∧
      (if (bytes p).length > maxPrefixLength then
         ∃ q, E.safePrefix ((bytes p).take (maxPrefixLength - 1)) = some q ∧ bytes q' = bytes q ∧
           (bytes q').isPrefixOf (bytes p) = true
       else bytes q' = bytes p)
  | .num n lo hi => ∃ lo' hi', r' = .num n lo' hi' ∧ boundKept lo' lo ∧ boundKept hi' hi
  | .coll n lo hi => r' = .coll n lo hi

/-- the same without reference to `E`: a prefix longer than the limit comes back as SOME
byte-prefix of itself -/
def keptBody (r' r : Rfn) : Prop :=
  match r with
  | .unref => False
  | .nullable n => r' = .nullable n
  | .str n p =>
    ∃ q', r' = .str n q' ∧
      (if (bytes p).length > maxPrefixLength then (bytes q').isPrefixOf (bytes p) = true
       else bytes q' = bytes p)
  | .num n lo hi => ∃ lo' hi', r' = .num n lo' hi' ∧ boundKept lo' lo ∧ boundKept hi' hi
  | .coll n lo hi => r' = .coll n lo hi

/-- `r'` is `r` as it comes back, for the external functions `E` -/
def RfnKeptE (E : Ext) (r' r : Rfn) : Prop :=
  if trivialRfn r then r' = .unref else keptBodyE E r' r

/-- … without reference to `E` (this is the clause `Approx` carries at every unknown leaf) -/
def RfnKept (r' r : Rfn) : Prop :=
  if trivialRfn r then r' = .unref else keptBody r' r

theorem keptBodyE.toBody {E : Ext} {r' r : Rfn} (h : keptBodyE E r' r) : keptBody r' r := by
  cases r with
  | unref => exact h
  | nullable n => exact h
  | str n p =>
    obtain ⟨q', h1, h2⟩ := h
    refine ⟨q', h1, ?_⟩
    split
    · rename_i hl
      simp only [hl, if_true] at h2
      obtain ⟨q, _, _, h3⟩ := h2
      exact h3
    · rename_i hl
      simpa [hl] using h2
  | num n lo hi => exact h
  | coll n lo hi => exact h

theorem RfnKeptE.toKept {E : Ext} {r' r : Rfn} (h : RfnKeptE E r' r) : RfnKept r' r := by
  unfold RfnKeptE at h
  unfold RfnKept
  split
  · rename_i ht; simpa [ht] using h
  · rename_i ht
    simp only [ht, Bool.false_eq_true, if_false] at h
    exact h.toBody

end Msgpack
end CtyModel
