/-
PathSet (cty/path_set.go): `pathSetRules` (hash, equivalence) and the `PathSet`
methods as instances of the generic hash-bucket set `SetImpl` (cty/set), exactly
as the Go type wraps `set.Set[Path]`.

`pathRules.hash`  — CRC-64/ISO over the attribute names, `#` for every index step;
`pathRules.equiv` — same length, attribute names equal, index keys `Equals`
                    known and true.

`Equivalent` is reflexive only on paths whose keys are known (an unknown key is
not `Equals`-true to itself), so the rules are lawful on `GoodPath` — paths whose
index keys are known numbers or strings (marked or not: marks are dropped before
the comparison is read), the only keys `IndexStep.Apply` finds a member with —
and the refinement theorems (`Props/C19.lean`, `pathset_refines`) are
about `goodRules : Rules GoodPath`, the same two functions on that subtype.

Core Lean only: the driver links this file.
-/
import CtyModel.Path
import CtyModel.SetImpl
namespace CtyModel
namespace PathSet

/-! ### CRC-64/ISO (hash/crc64, reflected polynomial 0xD800000000000000) on `Nat` -/

def crcPoly : Nat := 0xD800000000000000
def crcMask : Nat := 0xFFFFFFFFFFFFFFFF

def crcBit (c : Nat) : Nat := if c % 2 = 1 then (c >>> 1) ^^^ crcPoly else c >>> 1

def crcByte (c b : Nat) : Nat :=
  crcBit (crcBit (crcBit (crcBit (crcBit (crcBit (crcBit (crcBit (c ^^^ b))))))))

/-- `crc64.Checksum(bs, MakeTable(ISO))`; a `hash.Hash64` fed the same bytes in
several `Write`s yields the same sum -/
def crc64 (bs : List UInt8) : Nat :=
  (bs.foldl (fun c b => crcByte c b.toNat) crcMask) ^^^ crcMask

/-- `int(uint64)` on a 64-bit platform -/
def toInt64 (n : Nat) : Int := if n < 2 ^ 63 then (n : Int) else (n : Int) - 2 ^ 64

/-! ### pathSetRules -/

/-- the bytes written to the hash: the name of every attribute step, `#` for any other step -/
def hashBytes : Path → List UInt8
  | [] => []
  | .getAttr n :: p => n.toUTF8.toList ++ hashBytes p
  | .index _ :: p => 35 :: hashBytes p

/-- `pathSetRules.Hash` -/
def hash (p : Path) : Int := toInt64 (crc64 (hashBytes p))

/-- the step loop of `pathSetRules.Equivalent` (lengths already equal) -/
def equivSteps : Path → Path → Res Bool
  | .getAttr a :: p, .getAttr b :: q => if a != b then .ok false else equivSteps p q
  | .index a :: p, .index b :: q =>
    match Value.equals a b with
    | .ok eq =>
      -- marks on keys play no part: `eq, _ := aStep.Key.Equals(bStep.Key).Unmark()`
      let eq := eq.unmark
      if !eq.isKnown then .ok false
      else if !eq.isTrue then .ok false
      else equivSteps p q
    | .err c => .err c
    | .panic w => .panic w
    | .unmodelled => .unmodelled
  | [], _ => .ok true
  | _, _ => .ok false

/-- `pathSetRules.Equivalent` -/
def equiv (p q : Path) : Res Bool :=
  if p.length != q.length then .ok false else equivSteps p q

/-- `set.Rules[Path](pathSetRules{})`; a panicking comparison cannot be expressed
in `Rules` and is reported by the driver before the set is touched (`equivTotal`) -/
def pathRules : Rules Path :=
  { hash := hash, equiv := fun p q => match equiv p q with | .ok b => b | _ => false }

/-- a key that `IndexStep.Apply` can use: a known number or string, possibly marked -/
def primKey (k : Value) : Bool :=
  match k.ty, k.v.unmark1 with
  | .number, .n _ => true
  | .string, .s _ => true
  | _, _ => false

/-- every index key of the path is a known number or string (marks allowed) -/
def keysOk : Path → Bool
  | [] => true
  | .getAttr _ :: p => keysOk p
  | .index k :: p => primKey k && keysOk p

abbrev GoodPath := { p : Path // keysOk p = true }

/-- the same rules on paths with known number / string keys -/
def goodRules : Rules GoodPath :=
  { hash := fun p => pathRules.hash p.1, equiv := fun p q => pathRules.equiv p.1 q.1 }

theorem keysOk_take : ∀ (p : Path) (n : Nat), keysOk p = true → keysOk (p.take n) = true
  | [], n, _ => by cases n <;> rfl
  | _ :: _, 0, _ => rfl
  | .getAttr _ :: p, n + 1, h => by
    simp only [List.take_succ_cons, keysOk] at h ⊢
    exact keysOk_take p n h
  | .index k :: p, n + 1, h => by
    simp only [List.take_succ_cons, keysOk, Bool.and_eq_true] at h ⊢
    exact ⟨h.1, keysOk_take p n h.2⟩

/-- `path[:1], path[:2], …, path[:len(path)]` -/
def prefixes (p : Path) : List Path := (List.range p.length).map fun i => p.take (i + 1)

def prefixesG (p : GoodPath) : List GoodPath :=
  (List.range p.1.length).map fun i => ⟨p.1.take (i + 1), keysOk_take p.1 (i + 1) p.2⟩

/-! ### the PathSet methods -/

/-- `PathSet.Equal`: same length and every member of the receiver is in the other set -/
def equal {α} (R : Rules α) (s o : SetImpl α) : Bool :=
  s.length == o.length && (SetImpl.iter R s).all fun v => SetImpl.has R o v

/-- `PathSet.Empty` -/
def isEmpty {α} (s : SetImpl α) : Bool := s.length == 0

/-- `PathSet.List` (nil for the empty set) -/
def list {α} (R : Rules α) (s : SetImpl α) : List α := if isEmpty s then [] else SetImpl.iter R s

/-- `PathSet.AddAllSteps`, given the prefixes of the path -/
def addAll {α} (R : Rules α) (s : SetImpl α) (xs : List α) : SetImpl α := xs.foldl (SetImpl.add R) s

/-- One call of the PathSet API on a file of PathSet variables.  `Add`, `Remove`,
`Has`, `Union`, `Intersection`, `Subtract`, `SymmetricDifference` are the calls
of the wrapped `set.Set` (`SetOp`); `NewPathSet(paths…)` is a sequence of `Add`s. -/
inductive PSOp (α : Type) where
  | set (op : SetOp α)
  | addAllSteps (i : Nat) (x : α)
  | empty (i : Nat)
  | list (i : Nat)
  | equal (a b : Nat)

def psStep {α} (R : Rules α) (pre : α → List α) (op : PSOp α) (st : List (SetImpl α)) :
    List (SetImpl α) × SetOut α :=
  match op with
  | .set op => SetImpl.step R op st
  | .addAllSteps i x => (SetImpl.putReg st i (addAll R (SetImpl.getReg st i) (pre x)), .none)
  | .empty i => (st, .bool (isEmpty (SetImpl.getReg st i)))
  | .list i => (st, .list (list R (SetImpl.getReg st i)))
  | .equal a b => (st, .bool (equal R (SetImpl.getReg st a) (SetImpl.getReg st b)))

/-- a whole history: final PathSet variables and one output per call -/
def psRun {α} (R : Rules α) (pre : α → List α) :
    List (PSOp α) → List (SetImpl α) → List (SetImpl α) × List (SetOut α)
  | [], st => (st, [])
  | op :: ops, st =>
    let r := psStep R pre op st
    let rest := psRun R pre ops r.1
    (rest.1, r.2 :: rest.2)

/-- would any comparison the history can make panic or leave the model?  (every
pair of paths mentioned is compared with `Equivalent`) -/
def equivTotal (ps : List Path) : Bool :=
  ps.all fun p => ps.all fun q => match equiv p q with | .ok _ => true | _ => false

end PathSet
end CtyModel
