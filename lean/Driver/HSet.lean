/-
Driver handler for the generic hash-bucket set (`CtyModel.SetImpl`).

  set.run <rules> <nregs> <op>*

replays a history of `cty/set` API calls on a register file of sets over `Int`
under one of the named sample rules (`SetImpl.Sample.byName`) and prints the
value returned by every query call, then `|`, then the final bucket layout of
registers `0 … nregs-1`:

  op   := (add i x) | (rem i x) | (has i x) | (len i) | (vals i) | (copy d s)
        | (union d a b) | (inter d a b) | (sub d a b) | (symd d a b)
  out  := 0|1  |  <n>  |  (x*)                     -- has | len | vals
  set  := ((id x+)*)                               -- buckets ascending by id
-/
import Driver.Util
import CtyModel.SetImpl
open CtyModel

namespace HSet

def decOp : Sexp → Option (SetOp Int)
  | .list [.atom "add", i, x] => do pure (.add (← Sexp.decNat i) (← Sexp.decInt x))
  | .list [.atom "rem", i, x] => do pure (.remove (← Sexp.decNat i) (← Sexp.decInt x))
  | .list [.atom "has", i, x] => do pure (.has (← Sexp.decNat i) (← Sexp.decInt x))
  | .list [.atom "len", i] => do pure (.length (← Sexp.decNat i))
  | .list [.atom "vals", i] => do pure (.values (← Sexp.decNat i))
  | .list [.atom "copy", d, s] => do pure (.copy (← Sexp.decNat d) (← Sexp.decNat s))
  | .list [.atom "union", d, a, b] => do
    pure (.union (← Sexp.decNat d) (← Sexp.decNat a) (← Sexp.decNat b))
  | .list [.atom "inter", d, a, b] => do
    pure (.intersection (← Sexp.decNat d) (← Sexp.decNat a) (← Sexp.decNat b))
  | .list [.atom "sub", d, a, b] => do
    pure (.subtract (← Sexp.decNat d) (← Sexp.decNat a) (← Sexp.decNat b))
  | .list [.atom "symd", d, a, b] => do
    pure (.symmetricDifference (← Sexp.decNat d) (← Sexp.decNat a) (← Sexp.decNat b))
  | _ => none

def intsStr (l : List Int) : String :=
  "(" ++ " ".intercalate (l.map toString) ++ ")"

def outStr : SetOut Int → Option String
  | .none => none
  | .bool b => some (if b then "1" else "0")
  | .nat n => some (toString n)
  | .list l => some (intsStr l)

def setStr (s : SetImpl Int) : String :=
  "(" ++ " ".intercalate (s.buckets.map fun kv => intsStr (kv.1 :: kv.2)) ++ ")"

def runStr (R : Rules Int) (nregs : Nat) (ops : List (SetOp Int)) : String :=
  let r := SetImpl.runRegs R ops []
  let outs := r.2.filterMap outStr
  let regs := (List.range nregs).map fun i => setStr (SetImpl.getReg r.1 i)
  " ".intercalate (outs ++ ["|"] ++ regs)

end HSet

def handleSet : Handler := fun op args =>
  match op, args with
  | "set.run", .atom rules :: n :: ops => do
    let R ← SetImpl.Sample.byName rules
    let n ← Sexp.decNat n
    let ops ← ops.mapM HSet.decOp
    pure (HSet.runStr R n ops)
  | _, _ => none
