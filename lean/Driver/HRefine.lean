import Driver.Util
import CtyModel.Refine
import CtyModel.RefineIdeal
import CtyModel.RefineWith
import CtyModel.RefineTextFree
open CtyModel
open CtyModel.Refine

/-! Driver ops of the refinement slice (C05).

* `rfn.run <value> (<call>*)` → `ok <value> <observers>` | `panic <index of the call>` | `unmodelled`
  (index = number of calls when `NewValue` itself panics); number equality as the code
  answers it (`textOracle` = `rawNumberEqual`)
* `rfn.runx` the same with `partialOracle` (exact comparison, `unmodelled` where the answer could
  depend on the decimal text) — the instance of `ExactOracle` the theorems are tied through
* `rfn.runi` the same with `D05.idealOracle` (exact comparison, always answering): sent by the harness only for
  inputs whose numbers are all integers or infinities, where `C05.run_code_eq_exact` proves the three oracles agree,
  and (slice d05b) for inputs on which the real `Equals` answers as `Cmp` for every pair of numbers
  (`C05.refine_code_eq_exact_textfree`)
* `rfn.textfree <value> (<call>*)` → `0|1`: the decidable side condition `D05b.textFree` of the bridge theorems (the
  harness sends the same condition evaluated on the real code)
* `rfn.klen <value>` → `Length()` of a known collection as the range of possible lengths `ok <least> <most>`
  (`knownLength`; slice d05b)
* `rfn.with <value> ((<same> (<call>*))*)` → `v.RefineWith(refiners...)`: each refiner applies its calls and returns the
  builder it was given (`same = 1`) or another one; `ok <value> <observers>` | `panic` | `unmodelled`
* `rfn.nn <value>` → `v.RefineNotNull()`
* `rfn.range <value>` → observers of `value.Range()` (top-level marks removed first)
* `rfn.includes <range-of value> <arg>` → `t|f|u|panic|unmodelled`
* `rfn.gamma <value> <conc>` → `0|1` (the specification γ)
* `rfn.den <call> <conc>` → `0|1`
* `pfx.safe <nfc> <lastBoundary> (<advance>*)` → the model's `SafeKnownPrefix` -/

def decNumArg : Sexp → Option NumArg
  | .atom "ninf" => some .negInf
  | .atom "pinf" => some .posInf
  | .atom "unk" => some .unknown
  | .atom "null" => some .null
  | s => (Num.ofSexp s).map .known

def decCall : Sexp → Option RefineCall
  | .list [.atom "nn"] => some .notNull
  | .list [.atom "nl"] => some .null
  | .list [.atom "lo", a, i] => do pure (.numLower (← decNumArg a) (← Sexp.decBool i))
  | .list [.atom "hi", a, i] => do pure (.numUpper (← decNumArg a) (← Sexp.decBool i))
  | .list [.atom "ri", a, b] => do pure (.numRangeInclusive (← decNumArg a) (← decNumArg b))
  | .list [.atom "ll", n] => (Sexp.decInt n).map .lenLower
  | .list [.atom "lu", n] => (Sexp.decInt n).map .lenUpper
  | .list [.atom "cl", n] => (Sexp.decInt n).map .collectionLength
  | .list [.atom "sp", p] => (Sexp.decStr p).map .stringPrefix
  | .list [.atom "sf", p] => (Sexp.decStr p).map .stringPrefixFull
  | _ => none

def decConc : Sexp → Option Conc
  | .atom "null" => some .null
  | .atom "other" => some .other
  | .list [.atom "len", n] => (Sexp.decNat n).map .coll
  | .list [.atom "str", s] => (Sexp.decStr s).map fun s => .str (bytes s)
  | s => (Num.ofSexp s).map .num

def obsRes {α} (f : α → String) : Res α → String
  | .ok a => f a
  | .panic _ => "P"
  | .err _ => "E"
  | .unmodelled => "U"

def boundStr : Option Num × Bool → String
  | (none, i) => s!"unk/{Sexp.encBool i}"
  | (some n, i) => s!"{n.toSexp}/{Sexp.encBool i}"

/-- the accessors of `v.Range()` -/
def observers (v : Value) : String :=
  match range v.unmark with
  | .ok r =>
    s!"dnn={Sexp.encBool r.definitelyNotNull} lo={obsRes boundStr r.numberLowerBound} hi={obsRes boundStr r.numberUpperBound} pfx={obsRes (fun s => toString (Sexp.encStr s)) r.stringPrefix} ll={obsRes toString r.lengthLowerBound} lu={obsRes toString r.lengthUpperBound}"
  | .panic _ => "range-panic"
  | .err _ => "range-err"
  | .unmodelled => "range-unmodelled"

def triStr : Tri → String
  | .t => "t" | .f => "f" | .u => "u"

/-- `v.Refine().<calls>.NewValue()` under a given equality oracle, printed -/
def runWith (O : EqOracle) (v : Value) (cs : List RefineCall) : String :=
  match init v with
  | .ok b =>
    (match @runIdx O b 0 cs with
     | (.ok b', i) =>
       (match @newValue O b' with
        | .ok w => s!"ok {w.toSexp} {observers w}"
        | .panic _ => s!"panic {i}"
        | .err _ => "err"
        | .unmodelled => "unmodelled")
     | (.panic _, i) => s!"panic {i}"
     | (.err _, _) => "err"
     | (.unmodelled, _) => "unmodelled")
  | .panic _ => "panic init"
  | .err _ => "err"
  | .unmodelled => "unmodelled"

def decRefiner : Sexp → Option D05.Refiner
  | .list [s, .list cs] => do pure ⟨← cs.mapM decCall, ← Sexp.decBool s⟩
  | _ => none

def rfnValRes : Res Value → String
  | .ok w => s!"ok {w.toSexp} {observers w}"
  | .panic _ => "panic"
  | .err _ => "err"
  | .unmodelled => "unmodelled"

def handleRefine : Handler := fun op args =>
  match op, args with
  | "rfn.run", [v, .list cs] => do
    let v ← Value.ofSexp v
    let cs ← cs.mapM decCall
    pure (runWith textOracle v cs)
  | "rfn.runx", [v, .list cs] => do
    let v ← Value.ofSexp v
    let cs ← cs.mapM decCall
    pure (runWith partialOracle v cs)
  | "rfn.runi", [v, .list cs] => do
    let v ← Value.ofSexp v
    let cs ← cs.mapM decCall
    pure (runWith D05.idealOracle v cs)
  | "rfn.with", [v, .list rs] => do
    let v ← Value.ofSexp v
    let rs ← rs.mapM decRefiner
    pure (rfnValRes (@D05.refineWith textOracle v rs))
  | "rfn.nn", [v] => do
    let v ← Value.ofSexp v
    pure (rfnValRes (@D05.refineNotNull textOracle v))
  | "rfn.textfree", [v, .list cs] => do
    let v ← Value.ofSexp v
    let cs ← cs.mapM decCall
    pure (toString (Sexp.encBool (D05b.textFree v cs)))
  | "rfn.klen", [v] => do
    let v ← Value.ofSexp v
    pure (match knownLength v.unmark with
      | .ok (least, most) => s!"ok {least} {most}"
      | .panic _ => "panic"
      | .err _ => "err"
      | .unmodelled => "unmodelled")
  | "rfn.range", [v] => do
    let v ← Value.ofSexp v
    pure (observers v)
  | "rfn.includes", [v, a] => do
    let v ← Value.ofSexp v
    let a ← Value.ofSexp a
    pure (match range v.unmark with
      | .ok r =>
        (match @includes textOracle r a with
         | .ok x => triStr x
         | .panic _ => "panic"
         | .err _ => "err"
         | .unmodelled => "unmodelled")
      | .panic _ => "panic"
      | _ => "unmodelled")
  | "rfn.gamma", [v, c] => do
    let v ← Value.ofSexp v
    let c ← decConc c
    pure (toString (Sexp.encBool (γV v c)))
  | "rfn.den", [c, x] => do
    let c ← decCall c
    let x ← decConc x
    pure (toString (Sexp.encBool (den c x)))
  | "pfx.safe", [nfc, lb, .list advs] => do
    let nfc ← Sexp.decStr nfc
    let lb ← Sexp.decInt lb
    let advs ← advs.mapM Sexp.decNat
    pure (Sexp.bytesToHex (safeKnownPrefix delimiters (bytes nfc) lb advs))
  | _, _ => none
