import CtyModel.Basic
import CtyModel.Sexp
open CtyModel

/-- print a modelled outcome: `ok <x>` | `err` | `panic` | `unmodelled` -/
def resTag {α} (f : α → String) : Res α → String
  | .ok a => "ok " ++ f a
  | .err _ => "err"
  | .panic _ => "panic"
  | .unmodelled => "unmodelled"

abbrev Handler := String → List Sexp → Option String
