import Driver.HMsgpack
import CtyModel.d16Num
import CtyModel.d16Marshal
import CtyModel.d16Parse
import CtyModel.ConvertSet
import CtyModel.ConvertD08Env
open CtyModel
open CtyModel.Msgpack

/-! Driver ops of slice d16 (C16):

* `d16.encint <int>` → `i <bytes>` | `u <bytes>`: the family (`Msgpack.encInt`) and the size (`Msgpack.intSize`)
  of the compact integer item the encoder writes for that integer
* `d16.numclass <num>` → `Msgpack.textRouteClass` (which numbers the text-route theorems cover)
* `d16.unmarshaln <item> <ty> ((x<raw> x<nfc>)*)` → as `mp.unmarshal`, with Unicode normalisation given as a
  table computed by the real `norm.NFC` (strings not in the table are fixed points)
* `d16.parse x<hex>` → `Msgpack.parseNumberE`: `cty.ParseNumberVal` with exponents (`mp.parse` answers `unmodelled` there)
* `d16.shape <value> <ty> <oracle>` → for a conforming value: do the hypotheses of `C16.marshal_total_partial`
  hold (`wf`, `shapeP`) and is the model's answer a value or an error (the harness expects `true` three times for
  every value built through cty's constructors); `unmodelled` for a non-conforming one
* `d16.marshalc <value> <ty> <oracle>` → `Msgpack.marshalC`: `Marshal` including its `convert.Convert` path, in
  the environment and with the fuel of the C08 driver; `d16.marshalc-sets`: the same, every array printed with
  its members sorted (a conversion that builds a set orders its members by the real hash) -/

namespace HD16

def decNormTable : Sexp → Option (List (String × String))
  | .list es => es.mapM fun e =>
    match e with
    | .list [a, b] => do pure ((← Sexp.decStr a), (← Sexp.decStr b))
    | _ => none
  | _ => none

def extNorm (tbl : List (String × String)) : Ext :=
  { HMsgpack.extOf [] with norm := fun s => ((tbl.find? fun e => e.1 == s).map (·.2)).getD s }

/-- print of an item with the members of every array sorted by their own print (sets up to order) -/
partial def sortedItem : Item → Sexp
  | .arr xs =>
    let ms := (xs.map fun x => toString (sortedItem x)).toArray.qsort (· < ·)
    .list (.atom "arr" :: ms.toList.map .atom)
  | .map ks vs => .list (.atom "map" :: (ks.zip vs).map fun kv => .list [sortedItem kv.1, sortedItem kv.2])
  | it => HMsgpack.itemToSexp it

end HD16

open HD16 HMsgpack in
def handleD16 : Handler := fun op args =>
  match op, args with
  | "d16.encint", [i] => do
    let i ← Sexp.decInt i
    pure (match encInt i with
      | .int j => s!"i {intSize j}"
      | .uint u => s!"u {intSize u}"
      | _ => "bad")
  | "d16.numclass", [x] => do
    let x ← Num.ofSexp x
    pure (textRouteClass x)
  | "d16.unmarshaln", [it, t, tbl] => do
    let it ← itemOfSexp it
    let t ← Ty.ofSexp t
    let tbl ← decNormTable tbl
    pure (resTag canonV (@Unmarshal Refine.textOracle (extNorm tbl) it t))
  | "d16.marshalc", [v, t, o] => do
    let v ← Value.ofSexp v
    let t ← Ty.ofSexp t
    let tbl ← decOracle o
    pure (if !Convert.stringsModelled v.v then "unmodelled"
          else resTag (fun it => toString (itemToSexp it)) (marshalC (extOf tbl) Convert.driverEnv 64 v t))
  | "d16.parse", [x] => do
    let x ← Sexp.decStr x
    pure (resTag (fun n => toString n.toSexp) (parseNumberE x))
  | "d16.shape", [v, t, o] => do
    let v ← Value.ofSexp v
    let t ← Ty.ofSexp t
    let tbl ← decOracle o
    -- the hypotheses of `C16.marshal_total_partial` on a conforming value, and its conclusion for this instance
    pure (if Ty.conformErrs t v.ty != 0 then "unmodelled"
          else
            let total := match marshal (extOf tbl) v t with
              | .ok _ | .err _ => true
              | _ => false
            s!"wf:{t.wf && v.ty.wf} shape:{shapeP v.ty v.v} ok-or-err:{total}")
  | "d16.marshalc-sets", [v, t, o] => do
    let v ← Value.ofSexp v
    let t ← Ty.ofSexp t
    let tbl ← decOracle o
    pure (if !Convert.stringsModelled v.v then "unmodelled"
          else resTag (fun it => toString (sortedItem it)) (marshalC (extOf tbl) Convert.driverEnv 64 v t))
  | _, _ => none
