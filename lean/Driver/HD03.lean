/-
Driver handler for the d03 deepening of C03: the hypotheses and specifications of
the d03 theorems, evaluated on the values the harness actually generates.

  c03.frontier <v>            → <plain> <prim> <intMember> <quotable>   (0/1 each) for value v
  c03.primiter <ety> <p>*     → (<p>*)   members Added in order under setRules{ety}, then
                                          sorted by the SPECIFICATION `primLessB` (not by `Lvl.less`)
-/
import Driver.Util
import CtyModel.SetRulesD03
open CtyModel

namespace HD03
def b01 (b : Bool) : String := if b then "1" else "0"

def primIter (e : Ty) (ms : List Payload) : String :=
  if !(e.isPrim && ctyRulesOk e ms) then "unmodelled" else
  let vs := SetImpl.values (SetImpl.fromList (ctyRules e) ms)
  "(" ++ " ".intercalate ((SetImpl.sortStable (primLessB e) vs).map fun p => toString p.toSexp) ++ ")"
end HD03

def handleD03 : Handler := fun op args =>
  match op, args with
  | "c03.frontier", [v] => do
    let v ← Value.ofSexp v
    pure (" ".intercalate [HD03.b01 v.ty.plain, HD03.b01 v.ty.isPrim, HD03.b01 (v.v.intMember v.ty),
      HD03.b01 v.v.quotable])
  | "c03.primiter", ety :: ms => do pure (HD03.primIter (← Ty.ofSexp ety) (← ms.mapM Payload.ofSexp))
  | _, _ => none
