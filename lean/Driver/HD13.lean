/-
Driver op of the deepened C13 slice: the stdlib collection / sequence / set
functions under `modelEnv` — unify, convert, hash and hash-byte order computed by
the models of those packages, no oracle column.

  std.callm <fname> (<arg>*)     -- XFunc.Call(args)

Answer as `std.call`; `unmodelled` where `modelEnv` leaves its fragment.
-/
import Driver.HStdlib
import CtyModel.Stdlib.d13Env
open CtyModel CtyModel.Stdlib

def handleD13 : Handler := fun op args =>
  match op, args with
  | "std.callm", [.atom name, .list as] => do
    let f ← byName name
    let as ← as.mapM Value.ofSexp
    if !modelEnvCovers as then pure "unmodelled"
    else if HStdlib.refineUnmodelled f modelEnv as then pure "unmodelled"
    else pure (HStdlib.outStr (fun v => toString v.toSexp) (f.call modelEnv as))
  | _, _ => none
