/-
Driver ops for the stdlib collection / sequence / set functions (C13).

  std.call <fname> (<arg>*) (<oracle>*)     -- XFunc.Call(args)
  std.rtfv <fname> (<arg>*) (<oracle>*)     -- XFunc.ReturnTypeForValues(args)

  oracle := (u (<ty>*) <ty>|-)              convert.UnifyUnsafe(types)
          | (c <val> <ty> <val>|err)        convert.Convert(val, ty)
          | (h <ety> <payload> <int>)       Value{ety, payload}.Hash()
          | (o <ety> <payload>*)            set iteration order of these members (non-primitive ety)

Answer: `ok <val|ty>` | `err` (any error but PanicError) | `panicerr` (PanicError) |
`panic` (a Go panic escaping the call) | `unmodelled`.
-/
import Driver.Util
import CtyModel.Stdlib.Funcs
open CtyModel CtyModel.Stdlib

namespace HStdlib

structure Tables where
  unify : List (List Ty × Option Ty) := []
  conv : List (Value × Ty × Option Value) := []
  hash : List (Ty × Payload × Int) := []
  order : List (Ty × List Payload) := []

def decEntry (t : Tables) : Sexp → Option Tables
  | .list [.atom "u", .list tys, r] => do
    let tys ← tys.mapM Ty.ofSexp
    let r ← (match r with
      | .atom "-" => some none
      | x => (Ty.ofSexp x).map some)
    pure { t with unify := (tys, r) :: t.unify }
  | .list [.atom "c", v, ty, r] => do
    let v ← Value.ofSexp v
    let ty ← Ty.ofSexp ty
    let r ← (match r with
      | .atom "err" => some none
      | x => (Value.ofSexp x).map some)
    pure { t with conv := (v, ty, r) :: t.conv }
  | .list [.atom "h", ety, p, i] => do
    pure { t with hash := (← Ty.ofSexp ety, ← Payload.ofSexp p, ← Sexp.decInt i) :: t.hash }
  | .list (.atom "o" :: ety :: ps) => do
    pure { t with order := (← Ty.ofSexp ety, ← ps.mapM Payload.ofSexp) :: t.order }
  | _ => none

def decTables : List Sexp → Tables → Option Tables
  | [], t => some t
  | e :: es, t => (decEntry t e).bind (decTables es)

def pos (p : Payload) : List Payload → Nat → Option Nat
  | [], _ => none
  | x :: xs, i => if x == p then some i else pos p xs (i + 1)

def toEnv (t : Tables) : Env :=
  { unify := fun tys =>
      match t.unify.find? (fun e => e.1 == tys) with
      | some e => .ok e.2
      | none => .unmodelled
    convert := fun v ty =>
      match t.conv.find? (fun e => e.1 == v && e.2.1 == ty) with
      | some e => (match e.2.2 with
        | some r => .ok r
        | none => .err "conversion")
      | none => .unmodelled
    hash := fun ety p => (t.hash.find? (fun e => e.1 == ety && e.2.1 == p)).map (·.2.2)
    bytesLess := fun ety a b =>
      match t.order.find? (fun e => e.1 == ety) with
      | some e =>
        (match pos a e.2 0, pos b e.2 0 with
         | some i, some j => i < j
         | _, _ => false)
      | none => false }

def outStr {α} (f : α → String) : Fn.Out α → String
  | .ok a => "ok " ++ f a
  | .err (.panicError _) => "panicerr"
  | .err _ => "err"
  | .panic _ => "panic"
  | .unmodelled => "unmodelled"

/-- does `refineNonNull` leave the modelled fragment on the value it is applied to? -/
def refineUnmodelled (f : Func) (E : Env) (args : List Value) : Bool :=
  match f.spec.refine with
  | none => false
  | some _ =>
    let dynShort := match (Fn.returnTypeForValues f.spec (f.tf E) args).1 with
      | .ok (_, d) => d
      | _ => false
    match (Fn.callUnrefined f.spec (f.tf E) (f.impl E) args).1 with
    | .ok v => !dynShort && (v.isKnown || !v.ty.isDyn) && refineNNUnmodelled v.unmark
    | _ => false

end HStdlib

open HStdlib in
def handleStdlib : Handler := fun op args =>
  match op, args with
  | "std.call", [.atom name, .list as, .list orc] => do
    let f ← byName name
    let as ← as.mapM Value.ofSexp
    let t ← decTables orc {}
    let E := toEnv t
    if refineUnmodelled f E as then pure "unmodelled"
    else pure (outStr (fun v => toString v.toSexp) (f.call E as))
  | "std.rtfv", [.atom name, .list as, .list orc] => do
    let f ← byName name
    let as ← as.mapM Value.ofSexp
    let t ← decTables orc {}
    pure (outStr (fun ty => toString ty.toSexp) (f.returnType (toEnv t) as))
  | _, _ => none
