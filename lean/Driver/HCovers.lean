import Driver.Util
import CtyModel.Covers
open CtyModel

/-- an implementation outcome on the wire: `(ok <val>)` or the atom `panic` -/
def outcomeOfSexp : Sexp → Option (Res Value)
  | .list [.atom "ok", v] => (Value.ofSexp v).map .ok
  | .atom "panic" => some (.panic "impl")
  | _ => none

def verdictStr : Verdict → String
  | .pass => "pass"
  | .skip w => "skip " ++ w
  | .fail w => "fail " ++ w

/-- `covers a c`, and the C01 search predicates evaluated on implementation outputs -/
def handleCovers : Handler := fun op args =>
  match op, args with
  | "covers", [a, c] => do
    pure (if Covers (← Value.ofSexp a) (← Value.ofSexp c) then "1" else "0")
  | "judge.c01.sound1", [o, w, ro, rw] => do
    pure (verdictStr (judgeSound [← Value.ofSexp o] [← Value.ofSexp w] (← outcomeOfSexp ro) (← outcomeOfSexp rw)))
  | "judge.c01.sound2", [o1, o2, w1, w2, ro, rw] => do
    pure (verdictStr (judgeSound [← Value.ofSexp o1, ← Value.ofSexp o2] [← Value.ofSexp w1, ← Value.ofSexp w2]
      (← outcomeOfSexp ro) (← outcomeOfSexp rw)))
  | "judge.c01.known", .atom name :: rest => do
    match rest.reverse with
    | ro :: osRev =>
      let os ← osRev.reverse.mapM Value.ofSexp
      pure (verdictStr (judgeKnown name os (← outcomeOfSexp ro)))
    | [] => none
  | "judge.c01.includes", [a, v, .atom ans] => do
    let cov := Covers (← Value.ofSexp a) (← Value.ofSexp v)
    pure (match ans with
      | "f" => if cov then "fail includes-false-but-covered" else "pass"
      | "t" => if cov then "pass" else "fail includes-true-but-not-covered"
      | _ => "pass")
  | _, _ => none
