import Driver.Util
import CtyModel.Ty
import CtyModel.TyJson
open CtyModel

def handleTy : Handler := fun op args =>
  match op, args with
  | "ty.equals", [a, b] => do
    let a ← Ty.ofSexp a; let b ← Ty.ofSexp b
    pure (toString (Sexp.encBool (a.equals b)))
  | "ty.conform", [w, g] => do
    let w ← Ty.ofSexp w; let g ← Ty.ofSexp g
    pure (toString (Ty.conformErrs w g))
  | "ty.hasdyn", [a] => do
    let a ← Ty.ofSexp a
    pure (toString (Sexp.encBool a.hasDyn))
  | "ty.stripopt", [a] => do
    let a ← Ty.ofSexp a
    pure (toString a.stripOpt.toSexp)
  | "ty.json", [a] => do
    let a ← Ty.ofSexp a
    pure (match a.toJson with
      | .ok j => toString j.toSexp
      | _ => "err")
  | "ty.ofjson", [j] => do
    let j ← Json.ofSexp j
    pure (resTag (fun t => toString t.toSexp) (Ty.ofJson id j))
  | _, _ => none
