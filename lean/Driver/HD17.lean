import Driver.HMsgpack
import CtyModel.d17Msgpack
import CtyModel.d17JsonDepth
import CtyModel.Generated.Limits
import Driver.HJsonVal
open CtyModel
open CtyModel.Msgpack

/-! Driver ops of the C17 MessagePack slice (d17): the decoder model of `CtyModel/d17Msgpack.lean`
(follows /repo bb6ac26), same wire forms as `mp.unmarshal` (Driver/HMsgpack.lean).

* `d17.unmarshal <item> <ty>` → `ok <value>` | `err` | `panic` | `unmodelled`
* `d17.allocfit <item> <ty> <bytes> <measured alloc> <ok 0|1>` → `fit` iff `wireSize item ≤ (1 + extDepth item)·bytes` and (when the real
  decoder returned a value) `allocCost ≤ measured alloc`; else the two numbers
* `d17.jsonimplied <tbl> <json>` → `json.ImpliedType` with the nesting limit of the source (`Generated.jsonImpliedTypeDepthLimit`)
* `d17.cutfit <cut> <ty> <measured alloc> <bytes per slot>` → `fit` iff `perSlot·allocCostCut ≤ measured ≤ 256·allocCostCut + 16384`
  (documents cut off after a length header: the case `allocHint` is for)
* `d17.alloc <item> <ty>` → `<slots> <wireSize>`: element slots requested by the `make(` calls of the decoder on the
  way through the document, and the model's lower bound of the document's size in bytes -/

/-- cut-off documents: `eof` | `(carr n (item*) cut)` | `(cmapk n ((k v)*))` | `(cmapv n ((k v)*) key cut)` | `(cext code len)` -/
partial def cutOfSexp : Sexp → Option D17.Cut
  | .atom "eof" => some .eof
  | .list [.atom "carr", n, .list done, last] => do
    pure (.arr (← Sexp.decNat n) (← done.mapM HMsgpack.itemOfSexp) (← cutOfSexp last))
  | .list [.atom "cmapk", n, .list ps] => do
    let parts ← ps.mapM fun p =>
      match p with
      | .list [k, v] => do pure ((← HMsgpack.itemOfSexp k), (← HMsgpack.itemOfSexp v))
      | _ => none
    pure (.mapK (← Sexp.decNat n) (parts.map (·.1)) (parts.map (·.2)))
  | .list [.atom "cmapv", n, .list ps, key, last] => do
    let parts ← ps.mapM fun p =>
      match p with
      | .list [k, v] => do pure ((← HMsgpack.itemOfSexp k), (← HMsgpack.itemOfSexp v))
      | _ => none
    pure (.mapV (← Sexp.decNat n) (parts.map (·.1)) (parts.map (·.2)) (← HMsgpack.itemOfSexp key) (← cutOfSexp last))
  | .list [.atom "cext", c, l] => do pure (.ext (← Sexp.decInt c) (← Sexp.decNat l))
  | _ => none

open HMsgpack in
def handleD17 : Handler := fun op args =>
  match op, args with
  | "d17.unmarshal", [it, t] => do
    let it ← itemOfSexp it
    let t ← Ty.ofSexp t
    pure (resTag canonV (@D17.Unmarshal Refine.textOracle (extOf []) it t))
  | "d17.alloc", [it, t] => do
    let it ← itemOfSexp it
    let t ← Ty.ofSexp t
    pure (toString (D17.allocCost D17.allocHint (extOf []) it t.stripOpt) ++ " " ++ toString (D17.wireSize it))
  | "d17.jsonimplied", [tbl, j] => do
    let env ← decEnv tbl
    let j ← Json.ofSexp j
    pure (resTag (fun t => toString t.toSexp) (D17.jsonImpliedTop env Generated.jsonImpliedTypeDepthLimit j))
  | "d17.cutfit", [c, t, a, .atom perSlot] => do
    -- the allocation cost model on a document cut off after a length header, against the measured allocation:
    -- perSlot·slots ≤ measured ≤ 256·slots + 16384
    let c ← cutOfSexp c
    let t ← Ty.ofSexp t
    let a ← Sexp.decNat a
    let per ← perSlot.toNat?
    let slots := D17.allocCostCut D17.allocHint (extOf []) c t.stripOpt
    pure (if per * slots ≤ a && a ≤ 256 * slots + 16384 then "fit" else "slots=" ++ toString slots)
  | "d17.allocfit", [it, t, n, a, .atom ok] => do
    let it ← itemOfSexp it
    let t ← Ty.ofSexp t
    let n ← Sexp.decNat n
    let a ← Sexp.decNat a
    let slots := D17.allocCost D17.allocHint (extOf []) it t.stripOpt
    let wire := D17.wireSize it
    pure (if wire ≤ (1 + D17.extDepth it) * n && (ok != "1" || slots ≤ a) then "fit"
          else "slots=" ++ toString slots ++ " wire=" ++ toString wire)
  | _, _ => none
