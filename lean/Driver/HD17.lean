import Driver.HMsgpack
import CtyModel.d17Msgpack
import CtyModel.d17JsonDepth
import CtyModel.Generated.Limits
import Driver.HJsonVal
open CtyModel
open CtyModel.Msgpack

/-! Driver ops of the C17 MessagePack slice (d17): the decoder model of `CtyModel/d17Msgpack.lean`
(follows /repo bb6ac26), same wire forms as `mp.unmarshal` (Driver/HMsgpack.lean).

* `d17.unmarshal <item> <ty>` → `ok <value>` | `err` | `panic` | `unmodelled`
* `d17.allocfit <item> <ty> <bytes> <measured alloc> <ok 0|1>` → `fit` iff `wireSize item ≤ (1 + extDepth item)·bytes` and (when the real
  decoder returned a value) `allocCost ≤ measured alloc`; else the two numbers
* `d17.jsonimplied <tbl> <json>` → `json.ImpliedType` with the nesting limit of the source (`Generated.jsonMaxImpliedTypeDepth`)
* `d17.alloc <item> <ty>` → `<slots> <wireSize>`: element slots requested by the `make(` calls of the decoder on the
  way through the document, and the model's lower bound of the document's size in bytes -/

open HMsgpack in
def handleD17 : Handler := fun op args =>
  match op, args with
  | "d17.unmarshal", [it, t] => do
    let it ← itemOfSexp it
    let t ← Ty.ofSexp t
    pure (resTag canonV (@D17.Unmarshal Refine.textOracle (extOf []) it t))
  | "d17.alloc", [it, t] => do
    let it ← itemOfSexp it
    let t ← Ty.ofSexp t
    pure (toString (D17.allocCost D17.allocHint (extOf []) it t.stripOpt) ++ " " ++ toString (D17.wireSize it))
  | "d17.jsonimplied", [tbl, j] => do
    let env ← decEnv tbl
    let j ← Json.ofSexp j
    pure (resTag (fun t => toString t.toSexp) (D17.jsonImpliedTop env Generated.jsonMaxImpliedTypeDepth j))
  | "d17.allocfit", [it, t, n, a, .atom ok] => do
    let it ← itemOfSexp it
    let t ← Ty.ofSexp t
    let n ← Sexp.decNat n
    let a ← Sexp.decNat a
    let slots := D17.allocCost D17.allocHint (extOf []) it t.stripOpt
    let wire := D17.wireSize it
    pure (if wire ≤ (1 + D17.extDepth it) * n && (ok != "1" || slots ≤ a) then "fit"
          else "slots=" ++ toString slots ++ " wire=" ++ toString wire)
  | _, _ => none
