import Driver.Util
import CtyModel.ConvertSet
import CtyModel.ConvertUnify
import CtyModel.ConvertSpec
import CtyModel.ConvertD08Env
open CtyModel
open CtyModel.Convert

/-! Driver ops of the conversion slice (C08).

* `cv.convert <value> <type>`            → `ok <value>` | `err` | `panic` | `unmodelled`   (convert.Convert)
* `cv.getconv <in> <out> <0|1>`          → `nil` | `conv`            (GetConversion / GetConversionUnsafe)
* `cv.apply <in> <out> <0|1> <value>`    → `nil` | outcome of the returned conversion on the value
* `cv.unify <0|1> (<type>*)`             → `<type>` | `NIL`          (type result of Unify / UnifyUnsafe)
* `cv.parse <str>`                       → outcome of cty.ParseNumberVal
* `cv.hash <value>`                      → outcome of Value.Hash
* `cv.judge <value> <type> <result>`     → `pass` | `fail <clause>*` (property predicates on real outputs)
* `cv.admits <result> <result'>`         → `1|0`  (refinement of an unknown result admits a concrete result) -/

def applyFuel : Nat := 64

/-- the environment the C08 theorems' `…_driver` corollaries are stated for (`Convert.driverEnv`:
`UnifyLaws` and `SetLaws` are proved of it) -/
def cvEnv : Env := Convert.driverEnv

def cvValRes (r : Res Value) : String := resTag (fun v => toString v.toSexp) r

def handleConvert : Handler := fun op args =>
  match op, args with
  | "cv.convert", [v, t] => do
    let v ← Value.ofSexp v; let t ← Ty.ofSexp t
    pure (if !stringsModelled v.v then "unmodelled" else cvValRes (convert cvEnv applyFuel v t))
  | "cv.getconv", [a, b, u] => do
    let a ← Ty.ofSexp a; let b ← Ty.ofSexp b; let u ← Sexp.decBool u
    pure (if (getConv cvEnv a b u).isSome then "conv" else "nil")
  | "cv.apply", [a, b, u, v] => do
    let a ← Ty.ofSexp a; let b ← Ty.ofSexp b; let u ← Sexp.decBool u; let v ← Value.ofSexp v
    pure (match getConv cvEnv a b u with
      | none => "nil"
      | some p => if !stringsModelled v.v then "unmodelled" else cvValRes (apply cvEnv applyFuel p v))
  | "cv.unify", [u, .list ts] => do
    let u ← Sexp.decBool u; let ts ← ts.mapM Ty.ofSexp
    pure (match cvEnv.unifyG u ts with
      | some t => toString t.toSexp
      | none => "NIL")
  | "cv.parse", [s] => do
    let s ← Sexp.decStr s
    pure (resTag (fun n => toString n.toSexp) (parseNumber s))
  | "cv.hash", [v] => do
    let v ← Value.ofSexp v
    pure (resTag toString (hashC v.ty v.v))
  | "cv.judge", [v, t, r] => do
    let v ← Value.ofSexp v; let t ← Ty.ofSexp t; let r ← Value.ofSexp r
    pure (match judge v t r with
      | [] => "pass"
      | fs => "fail " ++ " ".intercalate fs)
  | "cv.admits", [r, r'] => do
    let r ← Value.ofSexp r; let r' ← Value.ofSexp r'
    pure (toString (Sexp.encBool (admitsResult r r')))
  | _, _ => none
