import Driver.Util
import CtyModel.NumText
open CtyModel

def numRes (r : Res Num) : String := resTag (fun n => toString n.toSexp) r

def handleNum : Handler := fun op args =>
  match op, args with
  | "num.add", [a, b] => do pure (numRes (Num.add (← Num.ofSexp a) (← Num.ofSexp b)))
  | "num.sub", [a, b] => do pure (numRes (Num.sub (← Num.ofSexp a) (← Num.ofSexp b)))
  | "num.mul", [a, b] => do pure (numRes (Num.mulCty (← Num.ofSexp a) (← Num.ofSexp b)))
  | "num.quo", [a, b] => do pure (numRes (Num.quo (← Num.ofSexp a) (← Num.ofSexp b)))
  | "num.neg", [a] => do pure (numRes (.ok (Num.neg (← Num.ofSexp a))))
  | "num.abs", [a] => do pure (numRes (.ok (Num.abs (← Num.ofSexp a))))
  | "num.cmp", [a, b] => do pure (toString (Num.cmp (← Num.ofSexp a) (← Num.ofSexp b)))
  | "num.isint", [a] => do pure (toString (Sexp.encBool (← Num.ofSexp a).isInt))
  | "num.trunc", [a] => do
    pure (match (← Num.ofSexp a).truncInt with
      | some i => toString i
      | none => "none")
  | "num.textf", [a] => do pure (toString (Sexp.encStr (Num.textF (← Num.ofSexp a))))
  | "num.textg", [a] => do pure (toString (Sexp.encStr (Num.textG10 (← Num.ofSexp a))))
  | "num.raweq", [a, b] => do pure (toString (Sexp.encBool (Num.rawEqual (← Num.ofSexp a) (← Num.ofSexp b))))
  | _, _ => none
