/-
Driver handler for the C19 slice: Walk / Transform / paths / path sets.

  orc    := (orc (<value> <int>)* | (it <setvalue> (<idx>*))* )   -- SetOracle tables: (h v n) / (it s (i*))
  wcb    := (wcb <act> <rule>*)        rule := (at <path> <act>) | (nth <k> <act>)
            act := d1 | d0 | err | panic
  tcb    := (tcb (<rule>*) (<rule>*))  -- Enter rules, Exit rules
            act := keep | (ret <value>) | err | panic | (mark <m>*) | unmark
  sched  := (sched (<path> (<name>*))*)

  walk.walk   <orc> <wcb> <value>                  → (log (<path> <value>)*) ok|err|panic
  walk.trans  <orc> <sched> post|full <tcb> <value> → (log (e|x <path> <value>)*) ok <value>|err|panic
  walk.unmarkpaths <orc> <sched> <value>           → ok <value> ((<path> (<mark>*))*)   (sorted by path)
  walk.unmarkdeep  <orc> <sched> <value>           → ok <value> (<mark>*)
  walk.markpaths   <orc> <sched> <value> ((<path> (<mark>*))*) → ok <value>
  path.apply <path> <value> | path.laststep <path> <value>
  path.equals <orc> <p> <q> | path.hasprefix <orc> <p> <q> | val.rawequals <orc> <a> <b>
  pathset.hash <path> | pathset.equiv <p> <q>
  path.build <instr>*   instr := (ga <src> <name>) | (ix <src> <value>) | (ixi <src> <int>) | (ixs <src> <str>)
                        -- register 0 is the empty path, instruction k fills register k by extending
                        -- register <src> with Path.GetAttr / Index / IndexInt / IndexString → all registers
  pathset.run <nregs> <op>*    op := (add i p) (addall i p) (rem i p) (has i p) (list i) (empty i)
                                     (union d a b) (inter d a b) (sub d a b) (symd d a b) (equal a b)
-/
import Driver.Util
import CtyModel.Walk
import CtyModel.PathSet
open CtyModel

namespace HWalk

def valKey (v : Value) : String := toString v.toSexp
def pathKey (p : Path) : String := toString (Path.toSexp p)

def lookupS {β} (k : String) : List (String × β) → Option β
  | [] => none
  | (k', b) :: rest => if k == k' then some b else lookupS k rest

def decOracle : Sexp → Option SetOracle
  | .list (.atom "orc" :: rows) => do
    let hs ← rows.filterMapM fun r =>
      match r with
      | .list [.atom "h", v, n] => do pure (some (toString v, ← Sexp.decInt n))
      | .list [.atom "it", _, _] => pure none
      | _ => none
    let its ← rows.filterMapM fun r =>
      match r with
      | .list [.atom "it", s, .list idx] => do pure (some (toString s, ← idx.mapM Sexp.decNat))
      | .list [.atom "h", _, _] => pure none
      | _ => none
    pure
      { hash := fun e m => (lookupS (valKey ⟨e, m⟩) hs).getD 0
        iter := fun e ids ms =>
          match lookupS (valKey ⟨.set e, .sset ids ms⟩) its with
          | some idx => idx.filterMap fun i => ms[i]?
          | none => ms }
  | _ => none

inductive Sel where
  | at (p : String)
  | nth (k : Nat)

def decSel : Sexp → Sexp → Option Sel
  | .atom "at", p => do pure (.at (pathKey (← Path.ofSexp p)))
  | .atom "nth", k => do pure (.nth (← Sexp.decNat k))
  | _, _ => none

def selHit (s : Sel) (n : Nat) (p : Path) : Bool :=
  match s with
  | .at k => pathKey p == k
  | .nth k => n == k

def decWAct : Sexp → Option (Res Bool)
  | .atom "d1" => some (.ok true)
  | .atom "d0" => some (.ok false)
  | .atom "err" => some (.err "cb")
  | .atom "panic" => some (.panic "cb")
  | _ => none

def decWalkCb : Sexp → Option Walk.WalkCb
  | .list (.atom "wcb" :: dflt :: rules) => do
    let d ← decWAct dflt
    let rs ← rules.mapM fun r =>
      match r with
      | .list [k, x, a] => do pure ((← decSel k x), (← decWAct a))
      | _ => none
    pure fun log p _ =>
      match rs.find? (fun r => selHit r.1 log.length p) with
      | some r => r.2
      | none => d
  | _ => none

inductive TAct where
  | keep | ret (v : Value) | err | panic | mark (ms : List String) | unmark

def decTAct : Sexp → Option TAct
  | .atom "keep" => some .keep
  | .atom "err" => some .err
  | .atom "panic" => some .panic
  | .atom "unmark" => some .unmark
  | .list [.atom "ret", v] => (Value.ofSexp v).map .ret
  | .list (.atom "mark" :: ms) => (ms.mapM Sexp.decStr).map .mark
  | _ => none

def runTAct (a : TAct) (v : Value) : Res Value :=
  match a with
  | .keep => .ok v
  | .ret r => .ok r
  | .err => .err "cb"
  | .panic => .panic "cb"
  | .mark ms => .ok (v.withMarks (unionMarks ms []))
  | .unmark => .ok v.unmark

def decTRules (rules : List Sexp) : Option Walk.TCb := do
  let rs ← rules.mapM fun r =>
    match r with
    | .list [k, x, a] => do pure ((← decSel k x), (← decTAct a))
    | _ => none
  pure fun log p v =>
    match rs.find? (fun r => selHit r.1 log.length p) with
    | some r => runTAct r.2 v
    | none => .ok v

def decTransformer : Sexp → Option Walk.Transformer
  | .list [.atom "tcb", .list en, .list ex] => do pure ⟨← decTRules en, ← decTRules ex⟩
  | _ => none

def decSched : Sexp → Option Walk.Sched
  | .list (.atom "sched" :: rows) => do
    let rs ← rows.mapM fun r =>
      match r with
      | .list [p, .list ns] => do pure (pathKey (← Path.ofSexp p), ← ns.mapM Sexp.decStr)
      | _ => none
    pure fun p ns => (lookupS (pathKey p) rs).getD ns
  | _ => none

def visitStr (v : Walk.Visit) : String := "(" ++ pathKey v.1 ++ " " ++ valKey v.2 ++ ")"
def evStr : Walk.Ev → String
  | .enter p v => "(e " ++ pathKey p ++ " " ++ valKey v ++ ")"
  | .exit p v => "(x " ++ pathKey p ++ " " ++ valKey v ++ ")"
def listStr (l : List String) : String := "(" ++ " ".intercalate l ++ ")"
def marksStr (ms : List String) : String := toString (Sexp.list (ms.map Sexp.encStr))
def pvmStr (l : List Walk.PVM) : String :=
  listStr (l.map fun p => "(" ++ pathKey p.1 ++ " " ++ marksStr p.2 ++ ")")

def decPVM : Sexp → Option (List Walk.PVM)
  | .list rows => rows.mapM fun r =>
    match r with
    | .list [p, .list ms] => do pure ((← Path.ofSexp p), unionMarks (← ms.mapM Sexp.decStr) [])
    | _ => none
  | _ => none

def boolStr (b : Bool) : String := if b then "1" else "0"

/-! path sets -/
open PathSet in
def decPSOp : Sexp → Option (PSOp Path)
  | .list [.atom "add", i, p] => do pure (.set (.add (← Sexp.decNat i) (← Path.ofSexp p)))
  | .list [.atom "rem", i, p] => do pure (.set (.remove (← Sexp.decNat i) (← Path.ofSexp p)))
  | .list [.atom "has", i, p] => do pure (.set (.has (← Sexp.decNat i) (← Path.ofSexp p)))
  | .list [.atom "addall", i, p] => do pure (.addAllSteps (← Sexp.decNat i) (← Path.ofSexp p))
  | .list [.atom "list", i] => do pure (.list (← Sexp.decNat i))
  | .list [.atom "empty", i] => do pure (.empty (← Sexp.decNat i))
  | .list [.atom "equal", a, b] => do pure (.equal (← Sexp.decNat a) (← Sexp.decNat b))
  | .list [.atom "union", d, a, b] => do
    pure (.set (.union (← Sexp.decNat d) (← Sexp.decNat a) (← Sexp.decNat b)))
  | .list [.atom "inter", d, a, b] => do
    pure (.set (.intersection (← Sexp.decNat d) (← Sexp.decNat a) (← Sexp.decNat b)))
  | .list [.atom "sub", d, a, b] => do
    pure (.set (.subtract (← Sexp.decNat d) (← Sexp.decNat a) (← Sexp.decNat b)))
  | .list [.atom "symd", d, a, b] => do
    pure (.set (.symmetricDifference (← Sexp.decNat d) (← Sexp.decNat a) (← Sexp.decNat b)))
  | _ => none

def setOpPaths : SetOp Path → List Path
  | .add _ x | .remove _ x | .has _ x => [x]
  | _ => []
def psOpPaths : PathSet.PSOp Path → List Path
  | .set op => setOpPaths op
  | .addAllSteps _ x => PathSet.prefixes x
  | _ => []

/-- the same call on `GoodPath`, when every path it names has plain known keys -/
def setOpGood : SetOp Path → Option (SetOp PathSet.GoodPath)
  | .add i x => if h : PathSet.keysOk x = true then some (.add i ⟨x, h⟩) else none
  | .remove i x => if h : PathSet.keysOk x = true then some (.remove i ⟨x, h⟩) else none
  | .has i x => if h : PathSet.keysOk x = true then some (.has i ⟨x, h⟩) else none
  | .length i => some (.length i)
  | .values i => some (.values i)
  | .copy d s => some (.copy d s)
  | .union d a b => some (.union d a b)
  | .intersection d a b => some (.intersection d a b)
  | .subtract d a b => some (.subtract d a b)
  | .symmetricDifference d a b => some (.symmetricDifference d a b)
def psOpGood : PathSet.PSOp Path → Option (PathSet.PSOp PathSet.GoodPath)
  | .set op => (setOpGood op).map .set
  | .addAllSteps i x => if h : PathSet.keysOk x = true then some (.addAllSteps i ⟨x, h⟩) else none
  | .empty i => some (.empty i)
  | .list i => some (.list i)
  | .equal a b => some (.equal a b)

def outStr {α} (f : α → Path) : SetOut α → Option String
  | .none => none
  | .bool b => some (boolStr b)
  | .nat n => some (toString n)
  | .list l => some (listStr (l.map fun x => pathKey (f x)))

def psRunStr {α} (R : Rules α) (pre : α → List α) (f : α → Path) (nregs : Nat)
    (ops : List (PathSet.PSOp α)) : String :=
  let r := PathSet.psRun R pre ops []
  let outs := r.2.filterMap (outStr f)
  let regs := (List.range nregs).map fun i =>
    listStr ((SetImpl.iter R (SetImpl.getReg r.1 i)).map fun x => pathKey (f x))
  " ".intercalate (outs ++ ["|"] ++ regs)

end HWalk

open HWalk in
def handleWalk : Handler := fun op args =>
  match op, args with
  | "walk.walk", [orc, cb, v] => do
    let X ← decOracle orc
    let cb ← decWalkCb cb
    let v ← Value.ofSexp v
    let r := Walk.walk X cb v
    match r.2 with
    | .unmodelled => pure "unmodelled"
    | _ => pure (listStr ("log" :: r.1.map visitStr) ++ " " ++ resTag (fun _ => "-") r.2)
  | "walk.trans", [orc, sched, .atom mode, t, v] => do
    let X ← decOracle orc
    let σ ← decSched sched
    let t ← decTransformer t
    let v ← Value.ofSexp v
    if mode == "post" then
      let r := Walk.transform X σ t.exit v
      match r.2 with
      | .unmodelled => pure "unmodelled"
      | _ => pure (listStr ("log" :: (Walk.exits r.1).map visitStr) ++ " " ++ resTag valKey r.2)
    else
      let r := Walk.transformWith X σ t 100 v
      match r.2 with
      | .unmodelled => pure "unmodelled"
      | _ => pure (listStr ("log" :: r.1.map evStr) ++ " " ++ resTag valKey r.2)
  | "walk.unmarkpaths", [orc, sched, v] => do
    let X ← decOracle orc
    let σ ← decSched sched
    let v ← Value.ofSexp v
    -- entries sorted by path: the implementation's order follows Go map order
    pure (resTag (fun r => valKey r.1 ++ " " ++
        pvmStr (r.2.mergeSort fun a b => decide (pathKey a.1 ≤ pathKey b.1)))
      (Walk.unmarkDeepWithPaths X σ v))
  | "walk.unmarkdeep", [orc, sched, v] => do
    let X ← decOracle orc
    let σ ← decSched sched
    let v ← Value.ofSexp v
    pure (resTag (fun r => valKey r.1 ++ " " ++ marksStr r.2) (Walk.unmarkDeepT X σ v))
  | "walk.markpaths", [orc, sched, v, pvm] => do
    let X ← decOracle orc
    let σ ← decSched sched
    let v ← Value.ofSexp v
    let pvm ← decPVM pvm
    pure (resTag valKey (Walk.markWithPaths X σ v pvm))
  | "path.apply", [p, v] => do
    pure (resTag valKey (Path.apply (← Path.ofSexp p) (← Value.ofSexp v)))
  | "path.laststep", [p, v] => do
    let r := Path.lastStep (← Path.ofSexp p) (← Value.ofSexp v)
    pure (resTag (fun r => valKey r.1 ++ " " ++
      (match r.2 with | none => "nil" | some s => toString s.toSexp)) r)
  | "path.equals", [orc, p, q] => do
    pure (resTag boolStr (Path.equals (← decOracle orc) (← Path.ofSexp p) (← Path.ofSexp q)))
  | "path.hasprefix", [orc, p, q] => do
    pure (resTag boolStr (Path.hasPrefix (← decOracle orc) (← Path.ofSexp p) (← Path.ofSexp q)))
  | "val.rawequals", [orc, a, b] => do
    pure (resTag boolStr (Value.rawEquals (← decOracle orc) (← Value.ofSexp a) (← Value.ofSexp b)))
  | "pathset.hash", [p] => do pure (toString (PathSet.hash (← Path.ofSexp p)))
  | "pathset.equiv", [p, q] => do
    pure (resTag boolStr (PathSet.equiv (← Path.ofSexp p) (← Path.ofSexp q)))
  | "path.build", instrs => do
    let regs ← instrs.foldlM (fun (regs : List Path) i =>
      match i with
      | .list [.atom "ga", src, n] => do
        pure (regs ++ [Path.getAttr (← regs[← Sexp.decNat src]?) (← Sexp.decStr n)])
      | .list [.atom "ix", src, k] => do
        pure (regs ++ [Path.index (← regs[← Sexp.decNat src]?) (← Value.ofSexp k)])
      | .list [.atom "ixi", src, k] => do
        pure (regs ++ [Path.indexInt (← regs[← Sexp.decNat src]?) (← Sexp.decInt k)])
      | .list [.atom "ixs", src, k] => do
        pure (regs ++ [Path.indexString (← regs[← Sexp.decNat src]?) (← Sexp.decStr k)])
      | _ => none) [[]]
    pure (listStr (regs.map pathKey))
  | "pathset.run", n :: ops => do
    let n ← Sexp.decNat n
    let ops ← ops.mapM decPSOp
    match ops.mapM psOpGood with
    | some gops =>
      pure (psRunStr PathSet.goodRules PathSet.prefixesG (·.1) n gops)
    | none =>
      if PathSet.equivTotal (ops.flatMap psOpPaths) then
        pure (psRunStr PathSet.pathRules PathSet.prefixes id n ops)
      else pure "panic"
  | _, _ => none
