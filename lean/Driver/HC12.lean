/-
Driver verb for C12 (stdlib functions on unknown arguments): the C01 soundness
predicate `judgeSound` (Covers.lean) on a paired run of a FUNCTION CALL —
concrete argument list, weakened argument list, and the implementation's outcome
on each (`(ok <val>)` or the atom `fail` for an error / panic).

  judge.c12 ( val* ) ( val* ) <outcome> <outcome>   →  pass | skip <why> | fail <why>
-/
import Driver.Util
import Driver.HCovers
import CtyModel.Stdlib.d12bStrlen
open CtyModel

/-- `c12.strlen <val> (<cluster>*)` → `StrlenFunc.Call` of the model, the segmentation of the one string it
looks at (the known string, or the prefix of the unknown's range) given by the harness -/
def c12OutStr : Fn.Out Value → String
  | .ok a => "ok " ++ toString a.toSexp
  | .err (.panicError _) => "panicerr"
  | .err _ => "err"
  | .panic _ => "panic"
  | .unmodelled => "unmodelled"

def handleC12 : Handler := fun op args =>
  match op, args with
  | "judge.c12", [.list os, .list ws, ro, rw] => do
    let os ← os.mapM Value.ofSexp
    let ws ← ws.mapM Value.ofSexp
    let dec : Sexp → Option (Res Value) := fun s =>
      match s with
      | .atom "fail" => some (.panic "impl")
      | s => outcomeOfSexp s
    pure (verdictStr (judgeSound os ws (← dec ro) (← dec rw)))
  | "c12.strlen", [a, .list cs] => do
    let a ← Value.ofSexp a
    let cs ← cs.mapM Sexp.decStr
    pure (c12OutStr (Stdlib.strlenCall (fun _ => cs) [a]))
  | _, _ => none
