/-
Driver verb for C12 (stdlib functions on unknown arguments): the C01 soundness
predicate `judgeSound` (Covers.lean) on a paired run of a FUNCTION CALL —
concrete argument list, weakened argument list, and the implementation's outcome
on each (`(ok <val>)` or the atom `fail` for an error / panic).

  judge.c12 ( val* ) ( val* ) <outcome> <outcome>   →  pass | skip <why> | fail <why>
-/
import Driver.Util
import Driver.HCovers
open CtyModel

def handleC12 : Handler := fun op args =>
  match op, args with
  | "judge.c12", [.list os, .list ws, ro, rw] => do
    let os ← os.mapM Value.ofSexp
    let ws ← ws.mapM Value.ofSexp
    let dec : Sexp → Option (Res Value) := fun s =>
      match s with
      | .atom "fail" => some (.panic "impl")
      | s => outcomeOfSexp s
    pure (verdictStr (judgeSound os ws (← dec ro) (← dec rw)))
  | _, _ => none
