/-
Driver handler for cty's own set rules (`CtyModel/SetRules.lean`).

  hash.bytes <v>                 → ok x<hex> | panic | unmodelled     (makeSetHashBytes)
  hash.crc <v>                   → ok <int>  | panic | unmodelled     (Value.Hash)
  op.rawequals <a> <b>           → ok 0|1    | panic | unmodelled     (Value.RawEquals)
  setval <v>*                    → ok <set value> | (<member>*)       (SetVal, then its iteration order)
  vset.run <ety> <nregs> <op>*   → outputs | layouts                  (ValueSet histories)

  op     := (add i p) | (rem i p) | (has i p) | (len i) | (vals i) | (copy d s)
          | (union d a b) | (inter d a b) | (sub d a b) | (symd d a b)      p = member payload
  layout := (sset (id p)*)       the payload of SetValFromValueSet(register)
-/
import Driver.Util
import CtyModel.SetRules
open CtyModel

namespace HSetRules

def bytesStr (b : Bytes) : String := "x" ++ Sexp.bytesToHex b

def decOp : Sexp → Option (SetOp Payload)
  | .list [.atom "add", i, x] => do pure (.add (← Sexp.decNat i) (← Payload.ofSexp x))
  | .list [.atom "rem", i, x] => do pure (.remove (← Sexp.decNat i) (← Payload.ofSexp x))
  | .list [.atom "has", i, x] => do pure (.has (← Sexp.decNat i) (← Payload.ofSexp x))
  | .list [.atom "len", i] => do pure (.length (← Sexp.decNat i))
  | .list [.atom "vals", i] => do pure (.values (← Sexp.decNat i))
  | .list [.atom "copy", d, s] => do pure (.copy (← Sexp.decNat d) (← Sexp.decNat s))
  | .list [.atom "union", d, a, b] => do
    pure (.union (← Sexp.decNat d) (← Sexp.decNat a) (← Sexp.decNat b))
  | .list [.atom "inter", d, a, b] => do
    pure (.intersection (← Sexp.decNat d) (← Sexp.decNat a) (← Sexp.decNat b))
  | .list [.atom "sub", d, a, b] => do
    pure (.subtract (← Sexp.decNat d) (← Sexp.decNat a) (← Sexp.decNat b))
  | .list [.atom "symd", d, a, b] => do
    pure (.symmetricDifference (← Sexp.decNat d) (← Sexp.decNat a) (← Sexp.decNat b))
  | _ => none

def opMember : SetOp Payload → Option Payload
  | .add _ x | .remove _ x | .has _ x => some x
  | _ => none

def payloadsStr (l : List Payload) : String :=
  "(" ++ " ".intercalate (l.map fun p => toString p.toSexp) ++ ")"

def outStr : SetOut Payload → Option String
  | .none => none
  | .bool b => some (if b then "1" else "0")
  | .nat n => some (toString n)
  | .list l => some (payloadsStr l)

def runStr (e : Ty) (nregs : Nat) (ops : List (SetOp Payload)) : String :=
  let ms := (ops.filterMap opMember).foldl (fun acc p => if acc.any (· == p) then acc else acc ++ [p]) []
  if !(ctyRulesOk e ms && ctyLessOk e ms) then "unmodelled" else
  let r := SetImpl.runRegs (ctyRules e) ops []
  let outs := r.2.filterMap outStr
  let regs := (List.range nregs).map fun i => toString (setPayload (SetImpl.getReg r.1 i)).toSexp
  " ".intercalate (outs ++ ["|"] ++ regs)

def setValStr (vs : List Value) : String :=
  match Value.mkSetVal vs with
  | .ok v =>
    let it : Res (List Payload) := match v.ty, v.v.unmark1 with
      | .set e, .sset _ ms => Value.setIter e ms
      | _, _ => .panic "not a set"
    (match it with
      | .ok l => "ok " ++ toString v.toSexp ++ " | " ++ payloadsStr l
      | .unmodelled => "unmodelled"
      | _ => "panic")
  | .err _ => "err"
  | .panic _ => "panic"
  | .unmodelled => "unmodelled"

end HSetRules

def handleSetRules : Handler := fun op args =>
  match op, args with
  | "hash.bytes", [v] => do pure (resTag HSetRules.bytesStr (Value.hashBytes (← Value.ofSexp v)))
  | "hash.crc", [v] => do pure (resTag (fun (i : Int) => toString i) (Value.hash (← Value.ofSexp v)))
  | "op.rawequals", [a, b] => do
    pure (resTag (fun b => toString (Sexp.encBool b)) (Value.rawEq (← Value.ofSexp a) (← Value.ofSexp b)))
  | "setval", vs => do pure (HSetRules.setValStr (← vs.mapM Value.ofSexp))
  | "vset.run", ety :: n :: ops => do
    pure (HSetRules.runStr (← Ty.ofSexp ety) (← Sexp.decNat n) (← ops.mapM HSetRules.decOp))
  | _, _ => none
