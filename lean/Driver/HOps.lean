import Driver.Util
import CtyModel.Ops2
open CtyModel

def valRes (r : Res Value) : String := resTag (fun v => toString v.toSexp) r

def bin (f : Value → Value → Res Value) (a b : Sexp) : Option String := do
  pure (valRes (f (← Value.ofSexp a) (← Value.ofSexp b)))
def un (f : Value → Res Value) (a : Sexp) : Option String := do
  pure (valRes (f (← Value.ofSexp a)))

def handleOps : Handler := fun op args =>
  match op, args with
  | "op.equals", [a, b] => bin Value.equals a b
  | "op.notequal", [a, b] => bin Value.notEqual a b
  | "op.lt", [a, b] => bin Value.lessThan a b
  | "op.gt", [a, b] => bin Value.greaterThan a b
  | "op.le", [a, b] => bin Value.lessThanOrEqualTo a b
  | "op.ge", [a, b] => bin Value.greaterThanOrEqualTo a b
  | "op.and", [a, b] => bin Value.and a b
  | "op.or", [a, b] => bin Value.or a b
  | "op.not", [a] => un Value.not a
  | "op.add", [a, b] => bin Value.add a b
  | "op.sub", [a, b] => bin Value.sub a b
  | "op.mul", [a, b] => bin Value.mul a b
  | "op.div", [a, b] => bin Value.div a b
  | "op.mod", [a, b] => bin Value.mod a b
  | "op.neg", [a] => un Value.neg a
  | "op.abs", [a] => un Value.abs a
  | "op.index", [a, b] => bin Value.index a b
  | "op.hasindex", [a, b] => bin Value.hasIndex a b
  | "op.length", [a] => un Value.length a
  | "op.getattr", [a, n] => do
    pure (valRes (Value.getAttr (← Value.ofSexp a) (← Sexp.decStr n)))
  | "op.haselement", [a, b, h] => do
    let h : Option Int ← (match h with
      | .atom "-" => some none
      | x => (Sexp.decInt x).map some)
    pure (valRes (Value.hasElement (← Value.ofSexp a) (← Value.ofSexp b) h))
  | _, _ => none
