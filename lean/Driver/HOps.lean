import Driver.Util
import CtyModel.Ops
open CtyModel

def valRes (r : Res Value) : String := resTag (fun v => toString v.toSexp) r

def bin (f : Value → Value → Res Value) (a b : Sexp) : Option String := do
  pure (valRes (f (← Value.ofSexp a) (← Value.ofSexp b)))
def un (f : Value → Res Value) (a : Sexp) : Option String := do
  pure (valRes (f (← Value.ofSexp a)))

def handleOps : Handler := fun op args =>
  match op, args with
  | "op.equals", [a, b] => bin Value.equals a b
  | "op.lt", [a, b] => bin Value.lessThan a b
  | "op.gt", [a, b] => bin Value.greaterThan a b
  | "op.and", [a, b] => bin Value.and a b
  | "op.or", [a, b] => bin Value.or a b
  | "op.not", [a] => un Value.not a
  | _, _ => none
