/-
Driver op for the regenerated stdlib parameter tables (C11):

  fn.std <var> <obs> ( val* )   →  consistent | inconsistent <class> | unmodelled
-/
import Driver.Util
import CtyModel.Stdlib.Specs
open CtyModel

def handleStd : Handler := fun op args =>
  match op, args with
  | "fn.std", [v, .atom obs, .list as] => do
    let var ← Sexp.decStr v
    let vals ← as.mapM Value.ofSexp
    match Std.find? var with
    | none => pure "unmodelled"
    | some s =>
      let c := Std.classify (Std.toSpec s) vals
      pure (if c.consistent obs then "consistent" else s!"inconsistent {repr c}")
  | _, _ => none
