/-
Driver handler for the gocty slice (C18).

Wire form of Go types (`goty`):
  i8 i16 i32 i64 int u8 u16 u32 u64 uint f32 f64 str bool bigint bigfloat cval
  (sl T) (arr n T) (map T) (ptr T) (st (xTAG T)*)          -- fields in declaration order, `x` = no tag
Wire form of Go values (`goval`):
  (i n) (f num) nan (s xHEX) (b 0|1) nilsl (sl v*) (arr v*) nilmap (map (xKEY v)*)
  nilptr (ptr v) (st (xTAG v)*) (bi n) (bf num) (cv value) cvnil
`normtab` = ((xRAW xNFC)*): the oracle column for `ctystrings.Normalize`.
-/
import Driver.Util
import CtyModel.Gocty
open CtyModel CtyModel.Gocty

namespace GoWire

def intAtom (w : IntW) (s : Bool) : String :=
  match w, s with
  | .w8, true => "i8" | .w16, true => "i16" | .w32, true => "i32" | .w64, true => "i64" | .wInt, true => "int"
  | .w8, false => "u8" | .w16, false => "u16" | .w32, false => "u32" | .w64, false => "u64" | .wInt, false => "uint"

partial def tyOfSexp : Sexp → Option GoTy
  | .atom "i8" => some (.int .w8 true) | .atom "i16" => some (.int .w16 true)
  | .atom "i32" => some (.int .w32 true) | .atom "i64" => some (.int .w64 true)
  | .atom "int" => some (.int .wInt true)
  | .atom "u8" => some (.int .w8 false) | .atom "u16" => some (.int .w16 false)
  | .atom "u32" => some (.int .w32 false) | .atom "u64" => some (.int .w64 false)
  | .atom "uint" => some (.int .wInt false)
  | .atom "f32" => some (.float true) | .atom "f64" => some (.float false)
  | .atom "str" => some .str | .atom "bool" => some .bool
  | .atom "bigint" => some .bigInt | .atom "bigfloat" => some .bigFloat | .atom "cval" => some .cval
  | .list [.atom "sl", e] => (tyOfSexp e).map .slice
  | .list [.atom "arr", n, e] => do pure (.array (← Sexp.decNat n) (← tyOfSexp e))
  | .list [.atom "map", e] => (tyOfSexp e).map .map
  | .list [.atom "ptr", e] => (tyOfSexp e).map .ptr
  | .list (.atom "st" :: fs) => do
    let parts ← fs.mapM fun f =>
      match f with
      | .list [t, ty] => do pure ((← Sexp.decStr t), (← tyOfSexp ty))
      | _ => none
    pure (.struct (parts.map (·.1)) (parts.map (·.2)))
  | _ => none

partial def valOfSexp : Sexp → Option GoVal
  | .atom "nan" => some .nan | .atom "nilsl" => some .nilSlice | .atom "nilmap" => some .nilMap
  | .atom "nilptr" => some .nilPtr | .atom "cvnil" => some .cvalNil
  | .list [.atom "i", n] => (Sexp.decInt n).map .int
  | .list [.atom "f", x] => (Num.ofSexp x).map .flt
  | .list [.atom "s", s] => (Sexp.decStr s).map .str
  | .list [.atom "b", b] => (Sexp.decBool b).map .bool
  | .list (.atom "sl" :: vs) => (vs.mapM valOfSexp).map .slice
  | .list (.atom "arr" :: vs) => (vs.mapM valOfSexp).map .arr
  | .list (.atom "map" :: ms) => do
    let parts ← ms.mapM fun m =>
      match m with
      | .list [k, v] => do pure ((← Sexp.decStr k), (← valOfSexp v))
      | _ => none
    pure (.map (parts.map (·.1)) (parts.map (·.2)))
  | .list [.atom "ptr", v] => (valOfSexp v).map .ptr
  | .list (.atom "st" :: fs) => do
    let parts ← fs.mapM fun f =>
      match f with
      | .list [t, v] => do pure ((← Sexp.decStr t), (← valOfSexp v))
      | _ => none
    pure (.struct (parts.map (·.1)) (parts.map (·.2)))
  | .list [.atom "bi", n] => (Sexp.decInt n).map .bigInt
  | .list [.atom "bf", x] => (Num.ofSexp x).map .bigFloat
  | .list [.atom "cv", v] => (Value.ofSexp v).map .cval
  | _ => none

mutual
partial def valToSexp : GoVal → Sexp
  | .int v => .list [.atom "i", Sexp.encInt v]
  | .flt x => .list [.atom "f", x.toSexp]
  | .nan => .atom "nan"
  | .str s => .list [.atom "s", Sexp.encStr s]
  | .bool b => .list [.atom "b", Sexp.encBool b]
  | .nilSlice => .atom "nilsl"
  | .slice vs => .list (.atom "sl" :: vs.map valToSexp)
  | .arr vs => .list (.atom "arr" :: vs.map valToSexp)
  | .nilMap => .atom "nilmap"
  | .map ks vs => .list (.atom "map" :: pairs ks vs)
  | .nilPtr => .atom "nilptr"
  | .ptr v => .list [.atom "ptr", valToSexp v]
  | .struct ts vs => .list (.atom "st" :: pairs ts vs)
  | .bigInt v => .list [.atom "bi", Sexp.encInt v]
  | .bigFloat x => .list [.atom "bf", x.toSexp]
  | .cval v => .list [.atom "cv", v.toSexp]
  | .cvalNil => .atom "cvnil"
partial def pairs : List String → List GoVal → List Sexp
  | k :: ks, v :: vs => .list [Sexp.encStr k, valToSexp v] :: pairs ks vs
  | _, _ => []
end

def normOfSexp : Sexp → Option (String → String)
  | .list ps => do
    let tab ← ps.mapM fun p =>
      match p with
      | .list [a, b] => do pure ((← Sexp.decStr a), (← Sexp.decStr b))
      | _ => none
    pure fun s => match tab.find? (·.1 == s) with
      | some (_, n) => n
      | none => s
  | _ => none

end GoWire

open GoWire

def goctyGoRes (r : Res GoVal) : String := resTag (fun g => toString (valToSexp g)) r
def goctyTyRes (r : Res Ty) : String := resTag (fun t => toString t.toSexp) r
def goctyValRes (r : Res Value) : String := resTag (fun v => toString v.toSexp) r

/-- attribute names rotated so that the `k`-th comes first -/
def rotate (k : Nat) (l : List String) : List String :=
  l.drop (k % max l.length 1) ++ l.take (k % max l.length 1)

/-- the schedule that, at nesting depth `d`, starts with attribute number `ks[d]` -/
def rotSched (ks : List Nat) : Sched := fun d names => rotate (ks.getD d 0) names

/-- every choice of a first attribute (of up to 6) at nesting depths 0..2 -/
def schedVectors : List (List Nat) :=
  (List.range 6).flatMap fun a => (List.range 6).flatMap fun b => (List.range 6).map fun c => [a, b, c]

def handleGocty : Handler := fun op args =>
  match op, args with
  | "gocty.fromnum", [x, t] => do
    let x ← Num.ofSexp x; let t ← tyOfSexp t
    pure (goctyGoRes (fromCtyS idSched ⟨.number, .n x⟩ t))
  | "gocty.implied", [t] => do
    pure (goctyTyRes (impliedType id (← tyOfSexp t)))
  | "gocty.bridge", [t] => do
    pure (goctyTyRes (bridgeType id (← tyOfSexp t)))
  | "gocty.implied", [t, tab] => do
    pure (goctyTyRes (impliedType (← normOfSexp tab) (← tyOfSexp t)))
  | "gocty.bridge", [t, tab] => do
    pure (goctyTyRes (bridgeType (← normOfSexp tab) (← tyOfSexp t)))
  | "gocty.tocty", [g, ty, tab] => do
    let g ← valOfSexp g; let ty ← Ty.ofSexp ty; let norm ← normOfSexp tab
    pure (if ty.hasOpt then "unmodelled" else goctyValRes (toCty norm g ty))
  | "gocty.fromcty", [v, t] => do
    let v ← Value.ofSexp v; let t ← tyOfSexp t
    pure (goctyGoRes (fromCtyS idSched v t))
  | "gocty.fromcty", [v, t, .atom seen] => do
    -- `seen` is what the implementation answered ("err" / "panic"): which failing attribute Go's map
    -- order met first is not observable, so the answer is accepted iff SOME schedule produces it
    let v ← Value.ofSexp v; let t ← tyOfSexp t
    let r0 := goctyGoRes (fromCtyS idSched v t)
    if r0 == seen || (r0 != "err" && r0 != "panic") then pure r0
    else
      match schedVectors.find? (fun ks => goctyGoRes (fromCtyS (rotSched ks) v t) == seen) with
      | some _ => pure seen
      | none => pure r0
  | _, _ => none
