/-
Driver ops for the C14 slice (number / string / glue functions of the stdlib).

  std.num   <name> (<val>*)                    -- Impl of a number / bool / general function
  std.log   (<val>*) <f64>    std.pow likewise -- f64 := nan | <num>   (the library's answer)
  std.bslice <buflen> <val> <val>              -- BytesSliceFunc: `ok <off> <end>`
  std.glue  <name> (<val>*) (<entry>*)         -- string / regexp / date / csv function
  std.setstring <str> <base>                   -- big.Int.SetString: `none` | <int>
  std.substr (<str>*) <off> <len>              -- the cluster-list function itself
  std.glue.ref <name> (<val>*) (<entry>*)      -- d14b: split / trim family with the strings package transliterated (only nfc recorded)
  std.dom   <name> (<val>*)                    -- d14b: ok/err class of log / pow from the NaN-domain rule alone
  std.strref split <str> <sep>                 -- d14b: strings.Split itself
  std.strref parsedur <str>                    -- d14b: does time.ParseDuration accept? `ok` | `err`

  entry := (<libfn> (<str>*) <answer>)         -- one recorded call of the real library

Answer: `ok <val>` | `err` | `panicerr` (the Impl panicked: Function.Call returns a
PanicError) | `unmodelled` | `oracle-miss` (the model asked the library something
the harness had not recorded — a disagreement about which call is made).
-/
import Driver.Util
import CtyModel.Stdlib.Format
import CtyModel.Stdlib.d14FormatList
import CtyModel.Stdlib.d14bRef
import CtyModel.Stdlib.d14bDuration
import CtyModel.Stdlib.d14bTimestamp
open CtyModel CtyModel.StdNum

namespace HStdNum

def implRes (r : Res Value) : String :=
  match r with
  | .ok v => "ok " ++ toString v.toSexp
  | .err _ => "err"
  | .panic _ => "panicerr"
  | .unmodelled => "unmodelled"

def decF64 : Sexp → Option F64
  | .atom "nan" => some .nan
  | s => (Num.ofSexp s).map .num

abbrev Table := List (List String × Sexp)

def decEntry : Sexp → Option (List String × Sexp)
  | .list [.atom f, .list ks, v] => do
    let ks ← ks.mapM Sexp.decStr
    pure (f :: ks, v)
  | _ => none

def look (t : Table) (key : List String) : Option Sexp := (t.find? (·.1 == key)).map (·.2)

def miss : String := "�<oracle-miss>"

def strOf (alt : Bool) (o : Option Sexp) : String :=
  match o.bind Sexp.decStr with
  | some s => s
  | none => if alt then miss ++ "2" else miss

def strsOf (alt : Bool) (o : Option Sexp) : List String :=
  match o with
  | some (.list xs) => (xs.mapM Sexp.decStr).getD [miss]
  | _ => if alt then [miss, miss] else [miss]

def intsOf : Sexp → Option (List Int)
  | .list xs => xs.mapM Sexp.decInt
  | _ => none

def decTime : Sexp → Option Time
  | .list [y, mo, d, wd, h, mi, s, off] => do
    pure ⟨← Sexp.decNat y, ← Sexp.decNat mo, ← Sexp.decNat d, ← Sexp.decNat wd, ← Sexp.decNat h,
          ← Sexp.decNat mi, ← Sexp.decNat s, ← Sexp.decInt off⟩
  | _ => none

def decCsv : Sexp → Option CsvRead
  | .list [f, .list recs] => do
    let f ← Sexp.decBool f
    let recs ← recs.mapM fun r => match r with
      | .list xs => xs.mapM Sexp.decStr
      | _ => none
    pure ⟨recs, f⟩
  | _ => none

/-- the library as recorded in the oracle column; `alt` selects the second set of
defaults for questions that were not recorded -/
def libOf (t : Table) (alt : Bool) : Lib where
  nfc s := strOf alt (look t ["nfc", s])
  clusters s := strsOf alt (look t ["clusters", s])
  toUpper s := strOf alt (look t ["toUpper", s])
  toLower s := strOf alt (look t ["toLower", s])
  title s := strOf alt (look t ["title", s])
  trimSpace s := strOf alt (look t ["trimSpace", s])
  trim a b := strOf alt (look t ["trim", a, b])
  trimPrefix a b := strOf alt (look t ["trimPrefix", a, b])
  trimSuffix a b := strOf alt (look t ["trimSuffix", a, b])
  replaceAll a b c := strOf alt (look t ["replaceAll", a, b, c])
  split a b := strsOf alt (look t ["split", a, b])
  regexCompile p :=
    match look t ["regexCompile", p] with
    | some (.atom "err") => none
    | some (.list xs) => xs.mapM Sexp.decStr
    | _ => if alt then some [] else none
  regexReplaceAll p s r := strOf alt (look t ["regexReplaceAll", p, s, r])
  regexFind p s :=
    match look t ["regexFind", p, s] with
    | some (.atom "none") => none
    | some x => intsOf x
    | none => if alt then some [] else none
  regexFindAll p s :=
    match look t ["regexFindAll", p, s] with
    | some (.list xs) => (xs.mapM intsOf).getD []
    | _ => if alt then [[]] else []
  parseTimestamp s :=
    match look t ["parseTimestamp", s] with
    | some (.atom "err") => none
    | some x => decTime x
    | none => if alt then some default else none
  parseDuration s :=
    match look t ["parseDuration", s] with
    | some x => (Sexp.decBool x).getD false
    | none => alt
  timeAdd a b := strOf alt (look t ["timeAdd", a, b])
  csvHeader s :=
    match look t ["csvHeader", s] with
    | some (.atom "eof") => none
    | some (.atom "err") => some none
    | some (.list xs) => (xs.mapM Sexp.decStr).map some
    | _ => if alt then some none else none
  csvAll s n :=
    match (look t ["csvAll", s, toString n]).bind decCsv with
    | some r => r
    | none => ⟨[], alt⟩
  fmtInt v i := strOf alt (look t ["fmtInt", v, toString i])
  fmtFloat v x := strOf alt (look t ["fmtFloat", v, toString x.toSexp])
  textG x := strOf alt (look t ["textG", toString x.toSexp])
  jsonStr s := strOf alt (look t ["jsonStr", s])

end HStdNum

open HStdNum in
def handleStdNum : Handler := fun op args =>
  match op, args with
  | "std.num", [.atom name, .list as] => do
    let f ← numImpl name
    let as ← as.mapM Value.ofSexp
    pure (implRes (f as))
  | "std.log", [.list as, o] => do
    let o ← decF64 o
    let as ← as.mapM Value.ofSexp
    pure (implRes (logImpl (fun _ _ => o) as))
  | "std.pow", [.list as, o] => do
    let o ← decF64 o
    let as ← as.mapM Value.ofSexp
    pure (implRes (powImpl (fun _ _ => o) as))
  | "std.bslice", [n, a, b] => do
    let n ← Sexp.decNat n
    let a ← Value.ofSexp a
    let b ← Value.ofSexp b
    pure (match bytesSliceImpl n a b with
      | .ok (x, y) => "ok " ++ toString x ++ " " ++ toString y
      | .err _ => "err"
      | .panic _ => "panicerr"
      | .unmodelled => "unmodelled")
  | "std.setstring", [s, b] => do
    let s ← Sexp.decStr s
    let b ← Sexp.decNat b
    pure (match setString s.toList b with
      | none => "none"
      | some i => toString i)
  | "std.substr", [.list cs, off, len] => do
    let cs ← cs.mapM Sexp.decStr
    let off ← Sexp.decInt off
    let len ← Sexp.decInt len
    pure (toString (Sexp.list ((substrClusters cs off len).map Sexp.encStr)))
  | "std.glue", [.atom name, .list as, .list es] => do
    let f ← (if name == "format" then some formatImpl else if name == "formatlist" then some formatListImpl
      else glueImpl name)
    let as ← as.mapM Value.ofSexp
    let t ← es.mapM decEntry
    let r1 := implRes (f (libOf t false) as)
    let r2 := implRes (f (libOf t true) as)
    pure (if r1 == r2 then r1 else "oracle-miss")
  | "std.glue.ref", [.atom name, .list as, .list es] => do
    let f ← (if name == "timeadd" then some (fun L => timeAddImpl (D14b.refLibTs L))
      else if name == "formatdate" then some (fun L => formatDateImpl (D14b.refLibTs L)) else D14b.refImpl name)
    let as ← as.mapM Value.ofSexp
    let t ← es.mapM decEntry
    let r1 := implRes (f (libOf t false) as)
    let r2 := implRes (f (libOf t true) as)
    pure (if r1 == r2 then r1 else "oracle-miss")
  | "std.dom", [.atom name, .list as] => do
    let as ← as.mapM Value.ofSexp
    D14b.domClass name as
  | "std.strref", [.atom "parsedur", s] => do
    let s ← Sexp.decStr s
    pure (match D14b.durAccepts s.toList with
      | some true => "ok" | some false => "err" | none => "unmodelled")
  | "std.strref", [.atom "split", s, sep] => do
    let s ← Sexp.decStr s
    let sep ← Sexp.decStr sep
    pure (toString (Sexp.list (((D14b.goSplit s.toList sep.toList).map String.ofList).map Sexp.encStr)))
  | _, _ => none
