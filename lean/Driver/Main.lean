/-
Line-protocol driver: `<id> <op> <arg>*` in, `<id> <result>` out.  Core-only
imports so that it links as a `lean_exe`.  Each model slice contributes one
handler (Driver/H*.lean); the first handler that recognises the op answers.
-/
import Driver.HTy
import Driver.HVal
import Driver.HNum
import Driver.HOps
import Driver.HFunc
import Driver.HSet
import Driver.HSetRules
import Driver.HRefine
import Driver.HGocty
import Driver.HStd
import Driver.HStdNum
import Driver.HMarks
import Driver.HMsgpack
import Driver.HJsonVal
import Driver.HStdlib
import Driver.HWF
import Driver.HHeap
import Driver.HCovers
import Driver.HC12
import Driver.HConvert
import Driver.HWalk
import Driver.HUnify
import Driver.HD13
import Driver.HD02
import Driver.HD03
import Driver.HD03b
import Driver.HD01
import Driver.HD11
import Driver.HD06
import Driver.HD16
import Driver.HD17
import Driver.HD11b
import Driver.HD20b
open CtyModel

def handlers : List Handler := [handleTy, handleVal, handleNum, handleOps, handleFunc, handleSet, handleSetRules, handleRefine, handleGocty, handleStd, handleStdNum, handleMarks, handleMsgpack, handleJsonVal, handleStdlib, handleWF, handleHeap, handleCovers, handleC12, handleConvert, handleWalk, handleUnify, handleD13, handleD02, handleD03, handleD03b, handleD01, handleD11, handleD06, handleD16, handleD17, handleD11b, handleD20b]

def handle (op : String) (args : List Sexp) : String :=
  match handlers.findSome? (fun h => h op args) with
  | some s => s
  | none => "bad-op"

partial def loop (hin : IO.FS.Stream) (hout : IO.FS.Stream) : IO Unit := do
  let line ← hin.getLine
  if line.isEmpty then return ()
  let line := line.trimAscii.toString
  match Sexp.parseLine line with
  | some (.atom id :: .atom op :: args) =>
    hout.putStrLn (id ++ " " ++ handle op args)
  | _ => hout.putStrLn "? bad-line"
  loop hin hout

def main : IO Unit := do
  let hin ← IO.getStdin
  let hout ← IO.getStdout
  loop hin hout
  hout.flush
