/-
Line-protocol driver: `<id> <op> <arg>*` in, `<id> <result>` out.  Core-only
imports so that it links as a `lean_exe`.
-/
import CtyModel.Ty
import CtyModel.TyJson
open CtyModel

def resTag {α} (f : α → String) : Res α → String
  | .ok a => "ok " ++ f a
  | .err _ => "err"
  | .panic _ => "panic"
  | .unmodelled => "unmodelled"

def handleTy (op : String) (args : List Sexp) : Option String :=
  match op, args with
  | "ty.equals", [a, b] => do
    let a ← Ty.ofSexp a; let b ← Ty.ofSexp b
    pure (toString (Sexp.encBool (a.equals b)))
  | "ty.conform", [w, g] => do
    let w ← Ty.ofSexp w; let g ← Ty.ofSexp g
    pure (toString (Ty.conformErrs w g))
  | "ty.hasdyn", [a] => do
    let a ← Ty.ofSexp a
    pure (toString (Sexp.encBool a.hasDyn))
  | "ty.stripopt", [a] => do
    let a ← Ty.ofSexp a
    pure (toString a.stripOpt.toSexp)
  | "ty.json", [a] => do
    let a ← Ty.ofSexp a
    pure (match a.toJson with
      | .ok j => toString j.toSexp
      | _ => "err")
  | "ty.ofjson", [j] => do
    let j ← Json.ofSexp j
    pure (resTag (fun t => toString t.toSexp) (Ty.ofJson id j))
  | _, _ => none

def handle (op : String) (args : List Sexp) : String :=
  match handleTy op args with
  | some s => s
  | none => "bad-op"

partial def loop (hin : IO.FS.Stream) (hout : IO.FS.Stream) : IO Unit := do
  let line ← hin.getLine
  if line.isEmpty then return ()
  let line := line.trimAscii.toString
  match Sexp.parseLine line with
  | some (.atom id :: .atom op :: args) =>
    hout.putStrLn (id ++ " " ++ handle op args)
  | _ => hout.putStrLn "? bad-line"
  loop hin hout

def main : IO Unit := do
  let hin ← IO.getStdin
  let hout ← IO.getStdout
  loop hin hout
  hout.flush
