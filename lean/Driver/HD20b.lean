/-
Driver handler for the C20 heap model extended by `CtyModel.HeapD20b` (slice d20b).

  heapx.run <op>*

as `heap.run` (same output format: per step the registers whose fingerprints changed
or were created, then the bucket / slice layout), where <op> is an op of `heap.run`
or one of

  (xvsValues g perm) (xvalValues v perm) (xpsList g) (xpsValues g) (xunify g)
  (xunmarkDeepWithPaths v) (xpsUnion g h hs) (xpsSubtract g h hs)
-/
import Driver.HHeap
import CtyModel.HeapD20b
open CtyModel CtyModel.Heap

namespace HD20b

def decX (s : Sexp) : Option XOp :=
  match HHeap.decOp s with
  | some op => some (.base op)
  | none =>
    match s with
    | .list (.atom name :: args) =>
      match name, args with
      | "xvsValues", [g, p] => do pure (.x (.vsValues (← HHeap.nat g) (← HHeap.natL p)))
      | "xvalValues", [v, p] => do pure (.x (.valValues (← HHeap.nat v) (← HHeap.natL p)))
      | "xpsList", [g] => do pure (.x (.psList (← HHeap.nat g)))
      | "xpsValues", [g] => do pure (.x (.psValues (← HHeap.nat g)))
      | "xunify", [g] => do pure (.x (.unify (← HHeap.nat g)))
      | "xunmarkDeepWithPaths", [v] => do pure (.x (.unmarkDeepWithPaths (← HHeap.nat v)))
      | "xpsUnion", [g, h, hs] => do pure (.x (.psUnion (← HHeap.nat g) (← HHeap.nat h) (← HHeap.intL hs)))
      | "xpsSubtract", [g, h, hs] => do pure (.x (.psSubtract (← HHeap.nat g) (← HHeap.nat h) (← HHeap.intL hs)))
      | _, _ => none
    | _ => none

def runStr : St → List XOp → List String
  | _, [] => []
  | st, op :: ops =>
    match stepX st op with
    | some st' => HHeap.stepStr st st' :: runStr st' ops
    | none => "!" :: runStr st ops

end HD20b

def handleD20b : Handler := fun op args =>
  match op with
  | "heapx.run" => do
    let ops ← args.mapM HD20b.decX
    let st := Heap.runX {} ops
    pure (" ".intercalate (HD20b.runStr {} ops ++ ["|", HHeap.layoutStr st]))
  | _ => none
