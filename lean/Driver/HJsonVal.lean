import Driver.Util
import CtyModel.JsonVal
import CtyModel.JsonValSpec
import CtyModel.JsonD15
open CtyModel CtyModel.JsonVal

/-- oracle table of a case: `(tbl (nfc (raw nfc)*) (hk (ety payload id hex)*))` -/
def decEnv : Sexp → Option JEnv
  | .list [.atom "tbl", .list (.atom "nfc" :: ns), .list (.atom "hk" :: hs)] => do
    let nfc ← ns.mapM fun e =>
      match e with
      | .list [a, b] => do pure ((← Sexp.decStr a), (← Sexp.decStr b))
      | _ => none
    let hk ← hs.mapM fun e =>
      match e with
      | .list [t, p, i, .atom hex] => do pure (toString t ++ " " ++ toString p, (← Sexp.decInt i), hex)
      | _ => none
    pure {
      norm := fun s => match nfc.find? (·.1 == s) with | some (_, n) => n | none => s
      hkey := fun t p =>
        let key := toString t.toSexp ++ " " ++ toString p.toSexp
        match hk.find? (·.1 == key) with
        | some (_, i, hex) => some (i, hex)
        | none => none }
  | _ => none

def handleJsonVal : Handler := fun op args =>
  match op, args with
  | "json.marshal", [tbl, v, t] => do
    let env ← decEnv tbl
    let v ← Value.ofSexp v; let t ← Ty.ofSexp t
    pure (resTag (fun j => toString j.toSexp) (marshalTop env v t))
  | "json.unmarshal", [tbl, j, t] => do
    let env ← decEnv tbl
    let j ← Json.ofSexp j; let t ← Ty.ofSexp t
    pure (resTag (fun v => toString v.toSexp) (unmarshalTop env j t))
  | "json.implied", [tbl, j] => do
    let env ← decEnv tbl
    let j ← Json.ofSexp j
    pure (resTag (fun t => toString t.toSexp) (impliedTypeGo env j))
  | "json.simple", [tbl, j] => do
    let env ← decEnv tbl
    let j ← Json.ofSexp j
    pure (resTag (fun v => toString v.toSexp) (simpleUnmarshalGo env j))
  | "json.applies", [tbl, v, t] => do
    -- do the hypotheses of C15.roundtrip_partial hold?  (hypotheses, set-free, exact)
    let env ← decEnv tbl
    let v ← Value.ofSexp v; let t ← Ty.ofSexp t
    pure s!"{Sexp.encBool (rtHypsCore env v t)} {Sexp.encBool (setFree v.ty)} {Sexp.encBool (exact t v.ty v.v)}"
  | "json.mirrorw", [v, t, j] => do
    -- C15.mirror_structure_any_constraint: Lean's specification evaluated on the REAL output
    let v ← Value.ofSexp v; let t ← Ty.ofSexp t; let j ← Json.ofSexp j
    pure (toString (Sexp.encBool (mirrorsW t v.ty v.v j)))
  | "json.same", [a, b] => do
    -- the specification of "equal value" against the real RawEquals (same type, set-free)
    let a ← Value.ofSexp a; let b ← Value.ofSexp b
    pure (toString (Sexp.encBool (sameP a.v b.v)))
  | "json.docok", [tbl, j] => do
    let env ← decEnv tbl
    let j ← Json.ofSexp j
    pure (toString (Sexp.encBool (docOK env j)))
  | "json.simplemarshal", [tbl, v] => do
    let env ← decEnv tbl
    let v ← Value.ofSexp v
    pure (resTag (fun j => toString j.toSexp) (simpleMarshal env v))
  | "json.docoku", [tbl, j] => do
    let env ← decEnv tbl
    let j ← Json.ofSexp j
    pure (toString (Sexp.encBool (docOKU env j)))
  | "json.parsenum", [s] => do
    let s ← Sexp.decStr s
    pure (resTag (fun n => toString n.toSexp) (Num.parse512 s))
  | "json.numok", [n] => do
    let n ← Num.ofSexp n
    pure (match Num.parse512 (Num.textF n) with
      | .ok n' => toString (Sexp.encBool (Num.rawEqual n' n))
      | .unmodelled => "unmodelled"
      | _ => "0")
  | _, _ => none
