/-
Driver handler for the C20 heap model (`CtyModel.HeapOps`).

  heap.run <op>*

replays a history of API calls and caller actions from the empty state and
prints, for every step, which registers' fingerprints it CHANGED or created:

  out   := step*  "|" layout
  step  := "[" item* "]"  |  "!"                 -- "!" = the model does not apply this call
  item  := v<i>=<fp> | g<i>=<fp> | o=<toks>      -- value register, Go-data register, scalar answer
  layout: for every set held in a register at the end, every bucket as
          <id>:<len>/<cap>@<k>, where k numbers backing arrays by first appearance.

  op    := (<name> arg*) with the constructor names of `Heap.Api` / `Heap.Caller`;
  key   := (i n) | (s x<hex>);  tysrc := (prim x<hex>) | (ofval n);  lists := (l …)
-/
import Driver.Util
import CtyModel.HeapOps
import CtyModel.HeapConc
open CtyModel CtyModel.Heap

namespace HHeap

def fpFuel : Nat := 24

def tokStr : Tok → String
  | .o t => "(" ++ t
  | .c => ")"
  | .i n => " " ++ toString n
  | .s v => " " ++ (Sexp.encStr v).toStr
  | .cut => "#cut"
  | .bad => "#bad"

def toksStr (l : List Tok) : String := String.join (l.map tokStr)

def nat (s : Sexp) : Option Nat := Sexp.decNat s
def int (s : Sexp) : Option Int := Sexp.decInt s
def str (s : Sexp) : Option String := Sexp.decStr s

def natL : Sexp → Option (List Nat)
  | .list (.atom "l" :: xs) => xs.mapM nat
  | _ => none
def intL : Sexp → Option (List Int)
  | .list (.atom "l" :: xs) => xs.mapM int
  | _ => none
def strL : Sexp → Option (List String)
  | .list (.atom "l" :: xs) => xs.mapM str
  | _ => none

def key : Sexp → Option Key
  | .list [.atom "i", n] => (int n).map .i
  | .list [.atom "s", s] => (str s).map .s
  | _ => none

def tysrc : Sexp → Option TySrc
  | .list [.atom "prim", s] => (str s).map .prim
  | .list [.atom "ofval", n] => (nat n).map .ofVal
  | _ => none

def decOp : Sexp → Option HeapOp
  | .list (.atom name :: args) =>
    match name, args with
    | "numberVal", [g] => do pure (.api (.numberVal (← nat g)))
    | "numberIntVal", [n] => do pure (.api (.numberIntVal (← int n)))
    | "stringVal", [s] => do pure (.api (.stringVal (← str s)))
    | "boolVal", [b] => do pure (.api (.boolVal (← Sexp.decBool b)))
    | "nullVal", [t] => do pure (.api (.nullVal (← str t)))
    | "unknownVal", [t, r] => do pure (.api (.unknownVal (← str t) (← str r)))
    | "listVal", [g] => do pure (.api (.listVal (← nat g)))
    | "tupleVal", [g] => do pure (.api (.tupleVal (← nat g)))
    | "objectVal", [g] => do pure (.api (.objectVal (← nat g)))
    | "mapVal", [g] => do pure (.api (.mapVal (← nat g)))
    | "setVal", [g, hs] => do pure (.api (.setVal (← nat g) (← intL hs)))
    | "setValFromValueSet", [g] => do pure (.api (.setValFromValueSet (← nat g)))
    | "asBigFloat", [v] => do pure (.api (.asBigFloat (← nat v)))
    | "asValueSlice", [v, p] => do pure (.api (.asValueSlice (← nat v) (← natL p)))
    | "asValueMap", [v] => do pure (.api (.asValueMap (← nat v)))
    | "asValueSet", [v, hs] => do pure (.api (.asValueSet (← nat v) (← intL hs)))
    | "elements", [v, p] => do pure (.api (.elements (← nat v) (← natL p)))
    | "lengthInt", [v] => do pure (.api (.lengthInt (← nat v)))
    | "getAttr", [v, n] => do pure (.api (.getAttr (← nat v) (← str n)))
    | "index", [v, k] => do pure (.api (.index (← nat v) (← key k)))
    | "marks", [v] => do pure (.api (.marks (← nat v)))
    | "unmark", [v] => do pure (.api (.unmark (← nat v)))
    | "mark", [v, m] => do pure (.api (.mark (← nat v) (← str m)))
    | "withMarks", [v, g] => do pure (.api (.withMarks (← nat v) (← nat g)))
    | "withSameMarks", [v, w] => do pure (.api (.withSameMarks (← nat v) (← nat w)))
    | "opAdd", [v, w] => do pure (.api (.opAdd (← nat v) (← nat w)))
    | "opNegate", [v] => do pure (.api (.opNegate (← nat v)))
    | "opEquals", [v, w] => do pure (.api (.opEquals (← nat v) (← nat w)))
    | "opLength", [v] => do pure (.api (.opLength (← nat v)))
    | "newValueSet", [t] => do pure (.api (.newValueSet (← tysrc t)))
    | "vsAdd", [g, v, h] => do pure (.api (.vsAdd (← nat g) (← nat v) (← int h)))
    | "vsRemove", [g, v, h] => do pure (.api (.vsRemove (← nat g) (← nat v) (← int h)))
    | "vsHas", [g, v, h] => do pure (.api (.vsHas (← nat g) (← nat v) (← int h)))
    | "vsCopy", [g] => do pure (.api (.vsCopy (← nat g)))
    | "vsValues", [g, p] => do pure (.api (.vsValues (← nat g) (← natL p)))
    | "vsLength", [g] => do pure (.api (.vsLength (← nat g)))
    | "tupleType", [g] => do pure (.api (.tupleType (← nat g)))
    | "tupleElementTypes", [v] => do pure (.api (.tupleElementTypes (← nat v)))
    | "objectType", [g] => do pure (.api (.objectType (← nat g)))
    | "attributeTypes", [v] => do pure (.api (.attributeTypes (← nat v)))
    | "pathIndex", [g, v] => do pure (.api (.pathIndex (← nat g) (← nat v)))
    | "pathGetAttr", [g, n] => do pure (.api (.pathGetAttr (← nat g) (← str n)))
    | "pathCopy", [g] => do pure (.api (.pathCopy (← nat g)))
    | "newPathSet", [] => some (.api .newPathSet)
    | "psAdd", [g, p, h] => do pure (.api (.psAdd (← nat g) (← nat p) (← int h)))
    | "psHas", [g, p, h] => do pure (.api (.psHas (← nat g) (← nat p) (← int h)))
    | "psAddAllSteps", [g, p, hs] => do pure (.api (.psAddAllSteps (← nat g) (← nat p) (← intL hs)))
    | "psRemove", [g, p, h] => do pure (.api (.psRemove (← nat g) (← nat p) (← int h)))
    | "psList", [g, p] => do pure (.api (.psList (← nat g) (← natL p)))
    | "walkBegin", [v] => do pure (.api (.walkBegin (← nat v)))
    | "walkNext", [w] => do pure (.api (.walkNext (← nat w)))
    | "newFloat", [n] => do pure (.caller (.newFloat (← int n)))
    | "newSlice", [vs, c] => do pure (.caller (.newSlice (← natL vs) (← nat c)))
    | "newMap", [.list (.atom "l" :: kvs)] => do
      let es ← kvs.mapM fun
        | .list [k, v] => do pure ((← str k), (← nat v))
        | _ => none
      pure (.caller (.newMap es))
    | "newMarks", [ms] => do pure (.caller (.newMarks (← strL ms)))
    | "newTypes", [.list (.atom "l" :: ts)] => do pure (.caller (.newTypes (← ts.mapM tysrc)))
    | "newTypeMap", [.list (.atom "l" :: kts)] => do
      let es ← kts.mapM fun
        | .list [k, t] => do pure ((← str k), (← tysrc t))
        | _ => none
      pure (.caller (.newTypeMap es))
    | "nilPath", [] => some (.caller .nilPath)
    | "elemPath", [g, i] => do pure (.caller (.elemPath (← nat g) (← nat i)))
    | "setFloat", [g, n] => do pure (.caller (.setFloat (← nat g) (← int n)))
    | "setElem", [g, i, v] => do pure (.caller (.setElem (← nat g) (← nat i) (← nat v)))
    | "setElemType", [g, i, t] => do pure (.caller (.setElemType (← nat g) (← nat i) (← tysrc t)))
    | "setStep", [g, i, n] => do pure (.caller (.setStep (← nat g) (← nat i) (← str n)))
    | "mapPut", [g, k, v] => do pure (.caller (.mapPut (← nat g) (← str k) (← nat v)))
    | "mapPutType", [g, k, t] => do pure (.caller (.mapPutType (← nat g) (← str k) (← tysrc t)))
    | "mapDelete", [g, k] => do pure (.caller (.mapDelete (← nat g) (← str k)))
    | "marksAdd", [g, m] => do pure (.caller (.marksAdd (← nat g) (← str m)))
    | "appendVal", [g, v] => do pure (.caller (.appendVal (← nat g) (← nat v)))
    | "appendStep", [g, n] => do pure (.caller (.appendStep (← nat g) (← str n)))
    | _, _ => none
  | _ => none

/-- fingerprints of all registers -/
def snapshot (st : St) : List String × List String :=
  (st.vals.map fun w => toksStr (fp fpFuel st.mem w), st.gos.map fun w => toksStr (fp fpFuel st.mem w))

def diffRegs (pre : String) (old new : List String) : List String :=
  (List.range new.length).filterMap fun i =>
    match new[i]?, old[i]? with
    | some n, some o => if n == o then none else some (pre ++ toString i ++ "=" ++ n)
    | some n, none => some (pre ++ toString i ++ "=" ++ n)
    | _, _ => none

def stepStr (st st' : St) : String :=
  let (ov, og) := snapshot st
  let (nv, ng) := snapshot st'
  let outs := (st'.outs.drop st.outs.length).map fun o => "o=" ++ toksStr o
  "[" ++ " ".intercalate (diffRegs "v" ov nv ++ diffRegs "g" og ng ++ outs) ++ "]"

def runStr : St → List HeapOp → List String
  | _, [] => []
  | st, op :: ops =>
    match step st op with
    | some st' => stepStr st st' :: runStr st' ops
    | none => "!" :: runStr st ops

/-- the set a register word holds, if any -/
def setAddr : Word → Option Addr
  | .set a => some a
  | .pair _ (.set a) => some a
  | _ => none

/-- bucket layout of every set held in a register, arrays numbered by first appearance -/
def layoutStr (st : St) : String :=
  let sets := (st.vals.filterMap setAddr).map (fun a => ("V", a)) ++ (st.gos.filterMap setAddr).map (fun a => ("G", a))
  let go := fun (acc : List Addr × List String) (p : String × Addr) =>
    match kvsOf st.mem p.2 with
    | none => (acc.1, acc.2 ++ [p.1 ++ "{#bad}"])
    | some kvs =>
      let r := kvs.foldl (fun (a : List Addr × List String) kv =>
        match kv.1, kv.2 with
        | .i id, .slice arr _ len cap =>
          let seen := if a.1.contains arr then a.1 else a.1 ++ [arr]
          (seen, a.2 ++ [toString id ++ ":" ++ toString len ++ "/" ++ toString cap ++ "@" ++ toString (seen.idxOf arr)])
        | _, _ => (a.1, a.2 ++ ["#bad"])) (acc.1, [])
      (r.1, acc.2 ++ [p.1 ++ "{" ++ " ".intercalate r.2 ++ "}"])
  let r := sets.foldl go ([], [])
  let slices := (List.range st.gos.length).foldl (fun (a : List Addr × List String) i =>
    match (st.gos[i]? : Option Word) with
    | some (Word.slice arr _ len cap) =>
      if cap = 0 then (a.1, a.2 ++ ["S" ++ toString i ++ ":" ++ toString len ++ "/0@-"])
      else
        let seen := if a.1.contains arr then a.1 else a.1 ++ [arr]
        (seen, a.2 ++ ["S" ++ toString i ++ ":" ++ toString len ++ "/" ++ toString cap ++ "@" ++ toString (seen.idxOf arr)])
    | _ => a) (r.1, [])
  " ".intercalate (r.2 ++ slices.2)

/-- the step strings of a goroutine's trace (`none` = the step was not admitted / did not apply) -/
def traceStr : St → List (Option St) → List String
  | _, [] => []
  | prev, some s :: r => stepStr prev s :: traceStr s r
  | prev, none :: r => "!" :: traceStr prev r

/-- split the argument list at the atoms `|` -/
def splitBar : List Sexp → List (List Sexp)
  | [] => [[]]
  | .atom "|" :: r => [] :: splitBar r
  | x :: r => match splitBar r with
    | g :: gs => (x :: g) :: gs
    | [] => [[x]]

/-- `heap.conc <pre>* | (l <sched>*) | <prog 0>* | <prog 1>* …`: run the shared history,
then the goroutines under the given schedule (a) in the arena instance of the generic
interleaving semantics, (b) alone, (c) over ONE heap with the bump allocator; print
goroutine by goroutine what (a) gives back and whether (b), (c) print the same. -/
def conc (args : List Sexp) : Option String := do
  let groups := splitBar args
  let preS ← groups[0]?
  let schedS ← groups[1]?
  let pre ← preS.mapM decOp
  let sched ← (match schedS with
    | [s] => natL s
    | _ => none)
  let progL ← (groups.drop 2).mapM fun g => g.mapM decOp
  let progs : Nat → List HeapOp := fun i => progL.getD i []
  let st0 := Heap.run {} pre
  let n := st0.mem.length
  let c := Interleave.exec (Interleave.start (Conc.Arena.prog progs) (Conc.Arena.cells0 st0)) sched
  let g := Conc.Global.exec n (Conc.Global.start st0 progs) sched
  let ids := List.range progL.length
  let arena := ids.map fun i => traceStr st0 (c.out i)
  let solo := ids.map fun i => traceStr st0 (Conc.soloTrace n st0 (progs i))
  let glob := ids.map fun i => traceStr st0 (g.out i)
  let complete := ids.all fun i => (c.todo i).isEmpty && (g.todo i).isEmpty
  let sharedSame := decide (c.mem 0 = st0) && decide (g.mem.take n = st0.mem)
  let body := " ; ".intercalate (ids.map fun i => "T" ++ toString i ++ ":" ++ " ".intercalate (arena.getD i []))
  pure (body ++ " | " ++ (if complete then "complete" else "INCOMPLETE") ++
    (if arena == solo then " arena=solo" else " ARENA/SOLO-DIFFER") ++
    (if glob == arena then " global=arena" else " GLOBAL/ARENA-DIFFER") ++
    (if sharedSame then " shared-untouched" else " SHARED-CHANGED"))

end HHeap

def handleHeap : Handler := fun op args =>
  match op with
  | "heap.run" => do
    let ops ← args.mapM HHeap.decOp
    let st := Heap.run {} ops
    pure (" ".intercalate (HHeap.runStr {} ops ++ ["|", HHeap.layoutStr st]))
  | "heap.conc" => HHeap.conc args
  | _ => none
