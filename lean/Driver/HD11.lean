/-
Driver op of the deepened C11 slice: the allocation drivers of cty/function/stdlib
(model: CtyModel/Stdlib/d11Alloc.lean).

  c11.alloc indent <val> <len> <lines>   -- IndentFunc up to strings.Repeat(" ", spaces), for a string of <len> bytes with <lines> line breaks
  c11.alloc pad (<digit>*) <givenLen>    -- width digits as scanned by format_fsm, then formatPadWidth
  c11.alloc setproduct (<len>*)          -- SetProductFunc: total *= len; the two make() calls

Answer: `ok` | `err` | `panic` | `unmodelled` (the harness sends only requests it can run: at most
10^6 bytes, or beyond what the runtime can address).
-/
import Driver.Util
import CtyModel.Stdlib.d11Alloc
open CtyModel CtyModel.D11

def handleD11 : Handler := fun op args =>
  match op, args with
  | "c11.alloc", [.atom "indent", v, dl, ln] => do
    let v ← Value.ofSexp v
    let dl ← Sexp.decInt dl
    let ln ← Sexp.decInt ln
    pure (resTag (fun n => if n == 0 then "nopad" else "pad") (indentPad v dl ln))
  | "c11.alloc", [.atom "pad", .list ds, g] => do
    let ds ← ds.mapM Sexp.decNat
    let g ← Sexp.decInt g
    pure (resTag (fun n => if n == 0 then "nopad" else "pad") (formatPadOfDigits ds g))
  | "c11.alloc", [.atom "setproduct", .list ls] => do
    let ls ← ls.mapM Sexp.decInt
    pure (resTag (fun n => if n == 0 then "empty" else "nonempty") (setProductAlloc ls))
  | _, _ => none
