import Driver.Util
import CtyModel.d01Side
import CtyModel.d01bSide
open CtyModel

/-- `judge.c01.scope <op> o1 o2 w1 w2`: is this paired run inside the scope (all
hypotheses, side conditions included) of the C01 soundness theorem of `op`?
`in` / `out` / `na` (no such theorem) -/
def handleD01 : Handler := fun op args =>
  match op, args with
  | "judge.c01.scope", [.atom name, o1, o2, w1, w2] => do
    pure (match D01.inScope name (← Value.ofSexp o1) (← Value.ofSexp o2) (← Value.ofSexp w1) (← Value.ofSexp w2) with
      | some true => "in"
      | some false => "out"
      | none => "na")
  | "judge.c01.scope1", [.atom "length", o, w] => do
    pure (if D01.inScopeLength (← Value.ofSexp o) (← Value.ofSexp w) then "in" else "out")
  | "judge.c01.scopeHas", [o, el, w, h] => do
    -- every hypothesis of C01.sound_hasElement_members_partial (needle kept, members weakened in place)
    let h : Option Int ← (match h with
      | .atom "-" => some none
      | x => (Sexp.decInt x).map some)
    pure (if D01b.inScopeHasMembers (← Value.ofSexp o) (← Value.ofSexp el) (← Value.ofSexp w) h then "in-members" else "out")
  | "judge.c01.scope1", _ => some "na"
  | _, _ => none
