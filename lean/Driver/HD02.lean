/-
Driver ops of the deepened C02 slice.

  d02.getattr <v> <raw name> <nfc(raw name)>   -- v.GetAttr(raw): `name = NormalizeString(name)` with the
                                                  normal form as an oracle column (x/text is not modelled)
-/
import Driver.HOps
open CtyModel

def handleD02 : Handler := fun op args =>
  match op, args with
  | "d02.getattr", [a, _raw, n] => do
    pure (valRes (Value.getAttr (← Value.ofSexp a) (← Sexp.decStr n)))
  | _, _ => none
