/-
Driver handler for the d03b deepening of C03: the predicates the d03b theorems are
stated with, evaluated on the values the harness actually generates, and the
capsule model.

  c03.sameshape <v1> <v2>        → 0 | 1 | unmodelled     `Value.sameShape` (unmodelled: a set-typed part whose
                                                          iteration the model cannot compute)
  c03.d03bflags <v>              → <setFree> <numTextsOk> <quotable>
  c03.tiefree <ety> <p>*         → 0 | 1 | unmodelled     `Payload.tieFree`
  c03.canon <v>                  → <flags> <v'> | <flags> unmodelled
        flags = <capFree> <mark-free> ; v' = the transliteration (`D03b.enc`, `D03b.canon`): every set replaced by
        the list of its members in `Less` order (specification sort); unmodelled outside the carrier `D03b.G`
  c03.lessstricttotal <ety> <p>* → 0 | 1 | unmodelled     `Payload.lessStrictTotal` (members must be in the carrier)
  c03.setwf <v>                  → 0 | 1 | unmodelled     `Payload.setWF` of a known set value (unmodelled: not a set
                                                          payload, or a capsule type inside)
  c03.deepmember <v>             → 0 | 1 | unmodelled     `Payload.deepMember` (unmodelled: a capsule type inside)
  c03.capsule <eq> <raw> <key> <id>*
                                 → <eqv bits> <rawEqv bits> <hash text hex>,* (<iteration order>)
        the capsule operations are: Equals a b := a % eq == b % eq (absent when eq = 0), RawEquals likewise
        with raw, HashKey a := "k\";" ++ toString (a % key) (absent when key = 0); the set is built by
        adding the ids in order under `CapsuleOps.rules`
-/
import Driver.Util
import CtyModel.SetRulesD03b
open CtyModel

namespace HD03b
def b01 (b : Bool) : String := if b then "1" else "0"

def hashOk (v : Value) : Bool := (Value.hashBytes v).isOk

def sameShapeStr (a b : Value) : String :=
  if (!a.ty.setFree || !b.ty.setFree) && !(hashOk a && hashOk b) then "unmodelled"
  else b01 (Value.sameShape a b)

def tieFreeStr (e : Ty) (ms : List Payload) : String :=
  if !(ms.all fun p => hashOk ⟨e, p⟩) then "unmodelled"
  else if !(ms.all fun a => ms.all fun b => (Value.rawEqP e a e b).isOk) then "unmodelled"
  else b01 (Payload.tieFree e ms)

def inG (t : Ty) (p : Payload) : Bool := D03b.capFree t && p.shaped t && !p.containsMarked && p.quotable

def canonStr (v : Value) : String :=
  let fl := b01 (D03b.capFree v.ty) ++ " " ++ b01 (!v.v.containsMarked)
  if !inG v.ty v.v then fl ++ " unmodelled"
  else fl ++ " " ++ toString (Value.toSexp ⟨D03b.enc v.ty, D03b.canon v.ty v.v⟩)

def lessStrictTotalStr (e : Ty) (ms : List Payload) : String :=
  if !(ms.all fun p => inG e p) then "unmodelled" else b01 (Payload.lessStrictTotal e ms)

def setWFStr (v : Value) : String :=
  match v.ty, v.v with
  | .set e, .sset ids vs => if !D03b.capFree e then "unmodelled" else b01 (Payload.setWF e ids vs)
  | _, _ => "unmodelled"

def capsOps (eq raw key : Nat) : CapsuleOps where
  equals := if eq = 0 then none else some fun a b => a % eq == b % eq
  rawEquals := if raw = 0 then none else some fun a b => a % raw == b % raw
  hashKey := if key = 0 then none else some fun a => "k\";" ++ toString (a % key)

def capsStr (eq raw key : Nat) (ids : List Nat) : String :=
  let ops := capsOps eq raw key
  if !ops.valid then "panic" else
  let bits (f : Nat → Nat → Bool) : String := String.join (ids.flatMap fun a => ids.map fun b => b01 (f a b))
  let hs := ids.map fun a => match ops.hashText a with
    | .ok bs => Sexp.bytesToHex bs
    | _ => "?"
  let it := SetImpl.iter ops.rules (SetImpl.fromList ops.rules ids)
  bits ops.eqv ++ " " ++ bits ops.rawEqv ++ " " ++ ",".intercalate hs ++ " (" ++ " ".intercalate (it.map toString) ++ ")"
end HD03b

def handleD03b : Handler := fun op args =>
  match op, args with
  | "c03.sameshape", [a, b] => do pure (HD03b.sameShapeStr (← Value.ofSexp a) (← Value.ofSexp b))
  | "c03.d03bflags", [v] => do
    let v ← Value.ofSexp v
    pure (" ".intercalate [HD03b.b01 v.ty.setFree, HD03b.b01 v.v.numTextsOk, HD03b.b01 v.v.quotable])
  | "c03.canon", [v] => do pure (HD03b.canonStr (← Value.ofSexp v))
  | "c03.lessstricttotal", ety :: ms => do pure (HD03b.lessStrictTotalStr (← Ty.ofSexp ety) (← ms.mapM Payload.ofSexp))
  | "c03.setwf", [v] => do pure (HD03b.setWFStr (← Value.ofSexp v))
  | "c03.deepmember", [v] => do
    let v ← Value.ofSexp v
    pure (if !D03b.capFree v.ty then "unmodelled" else HD03b.b01 (v.v.deepMember v.ty))
  | "c03.tiefree", ety :: ms => do pure (HD03b.tieFreeStr (← Ty.ofSexp ety) (← ms.mapM Payload.ofSexp))
  | "c03.capsule", eq :: raw :: key :: ids => do
    pure (HD03b.capsStr (← Sexp.decNat eq) (← Sexp.decNat raw) (← Sexp.decNat key) (← ids.mapM Sexp.decNat))
  | _, _ => none
