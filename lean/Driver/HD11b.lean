/-
Driver op of the second deepening of C11 (slice d11b): `XFunc.Call(args)` of the functions whose
totality is proved END TO END (`C11.call_total_<f>`), run through the modelled call protocol on the
argument lists of C11's own generator (any number of arguments of any type, null, unknown, marked,
dynamically typed).

  d11b.call <fname> (<arg>*)

<fname> is a name of `D11b.table` (number / bool functions, `Stdlib/d11bFuncs.lean`; no environment)
or of `D11b.collTable` (collection functions of `Stdlib.byName`, run under `modelEnv` like `std.callm`;
no `refineUnmodelled` escape: `refineNonNull` is PROVED to accept every result of these functions).
  d11b.glue <fname> (<arg>*) (<entry>*)

<fname> of `D11b.glueTable` (string functions = `cty.StringVal ∘ library`); the entries are the recorded
calls of the real library, as for `std.glue` (Driver/HStdNum.lean).
  d11b.math <fname> (<arg>*) <f64>         -- log / pow: <f64> is the math library's answer (`nan` | <num>)

Answer: `ok <val>` | `err` | `panicerr` | `panic` | `unmodelled` | `oracle-miss`.
-/
import Driver.HStdlib
import Driver.HStdNum
import CtyModel.Stdlib.d13Env
import CtyModel.Stdlib.d11bFuncs
open CtyModel CtyModel.Stdlib

def handleD11b : Handler := fun op args =>
  match op, args with
  | "d11b.call", [.atom name, .list as] => do
    let as ← as.mapM Value.ofSexp
    match D11b.byName name with
    | some f => pure (HStdlib.outStr (fun v => toString v.toSexp) (f.call {} as))
    | none =>
      if !(D11b.collTable.any fun e => e.1 == name) then none
      else
        let f ← byName name
        -- only `reverse` (of a set whose element type is not primitive) consults the environment: the
        -- byte order of two hash strings, which `modelEnv` computes for strings inside its fragment
        if name == "reverse" && !modelEnvCovers as then pure "unmodelled"
        else pure (HStdlib.outStr (fun v => toString v.toSexp) (f.call modelEnv as))
  | "d11b.glue", [.atom name, .list as, .list es] => do
    let f ← D11b.glueByName name
    let as ← as.mapM Value.ofSexp
    let t ← es.mapM HStdNum.decEntry
    let r1 := HStdlib.outStr (fun v => toString v.toSexp) ((f (HStdNum.libOf t false)).call {} as)
    let r2 := HStdlib.outStr (fun v => toString v.toSexp) ((f (HStdNum.libOf t true)).call {} as)
    pure (if r1 == r2 then r1 else "oracle-miss")
  | "d11b.math", [.atom name, .list as, o] => do
    let f ← D11b.mathByName name
    let as ← as.mapM Value.ofSexp
    let o ← HStdNum.decF64 o
    pure (HStdlib.outStr (fun v => toString v.toSexp) ((f (fun _ _ => o)).call {} as))
  | _, _ => none
