/-
Driver handler for C06: the well-formedness judge.

  wf <val> [(<str>*)]      → pass | fail <clause>

`<val>` is the wire form of a value the REAL implementation produced (type by
public accessors, payload by `cty.VerifDump`).  The optional list is the NFC
oracle column: the strings occurring in the value for which the real
`norm.NFC.IsNormalString` answers false.  A value whose dump cannot be decoded
(a payload of a Go kind the codec has no form for) fails with clause `decode`.
-/
import Driver.Util
import CtyModel.WF
open CtyModel

def handleWF : Handler := fun op args =>
  match op, args with
  | "wf", [v] =>
    match Value.ofSexp v with
    | some v => some (v.wfVerdict fun _ => true)
    | none => some "fail decode"
  | "wf", [v, .list bad] =>
    match Value.ofSexp v, bad.mapM Sexp.decStr with
    | some v, some bad => some (v.wfVerdict fun s => !bad.contains s)
    | _, _ => some "fail decode"
  | _, _ => none
