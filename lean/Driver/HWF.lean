/-
Driver handler for C06.

  wf <val> [(<str>*)]      → pass | fail <clause>

the well-formedness judge: `<val>` is the wire form of a value the REAL
implementation produced (type by public accessors, payload by `cty.VerifDump`).
The optional list is the NFC oracle column: the strings occurring in the value
for which the real `norm.NFC.IsNormalString` answers false.  A value whose dump
cannot be decoded (a payload of a Go kind the codec has no form for) fails with
clause `decode`.

Correspondence of the model functions C06 adds (CtyModel/WFCons.lean):

  c06.setval (<val>*) (<hash>*)   → ok <val> | panic | unmodelled      cty.SetVal
  c06.mark <val> <str>            → <val>                              Value.Mark
  c06.asstring <val>              → ok <str> | panic                   Value.AsString
  c06.lengthint <val>             → ok <n> | panic                     Value.LengthInt
  c06.elements <val>              → ok (<val>*) | panic | unmodelled   ElementIterator, values only
                                    (set members in sorted wire order: the iterator's order is `Less`)
-/
import Driver.Util
import CtyModel.WFCons
open CtyModel

def sortStrings (l : List String) : List String := (l.toArray.qsort (· < ·)).toList

def elementsStr (v : Value) (xs : List Value) : String :=
  let ws := xs.map fun x => toString x.toSexp
  let ws := match v.ty with
    | .set _ => sortStrings ws
    | _ => ws
  "(" ++ " ".intercalate ws ++ ")"

def handleWF : Handler := fun op args =>
  match op, args with
  | "wf", [v] =>
    match Value.ofSexp v with
    | some v => some (v.wfVerdict fun _ => true)
    | none => some "fail decode"
  | "wf", [v, .list bad] =>
    match Value.ofSexp v, bad.mapM Sexp.decStr with
    | some v, some bad => some (v.wfVerdict fun s => !bad.contains s)
    | _, _ => some "fail decode"
  | "c06.setval", [.list vs, .list hs] => do
    let vs ← vs.mapM Value.ofSexp
    let hs ← hs.mapM Sexp.decInt
    pure (resTag (fun v => toString v.toSexp) (Value.setValH vs hs))
  | "c06.mark", [v, m] => do
    pure (toString ((← Value.ofSexp v).mark1 (← Sexp.decStr m)).toSexp)
  | "c06.asstring", [v] => do
    pure (resTag (fun s => toString (Sexp.encStr s)) (← Value.ofSexp v).asString)
  | "c06.lengthint", [v] => do
    pure (resTag toString (← Value.ofSexp v).lengthInt)
  | "c06.elements", [v] => do
    let v ← Value.ofSexp v
    pure (resTag (elementsStr v) v.elements)
  | _, _ => none
