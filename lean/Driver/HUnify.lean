import Driver.Util
import CtyModel.ConvertSet
import CtyModel.Unify
import CtyModel.UnifySpec
open CtyModel
open CtyModel.Convert
open CtyModel.Unify

/-! Driver ops of the unification slice (C09).

* `un.unify <0|1> (<type>*)`             → `NIL` | `<type> <flags>` | `panic` | `unmodelled`
      the full model `unifyF`: unified type and, per input, `n` (nil conversion) / `c`
* `un.ty <0|1> (<type>*)`                → `NIL` | `<type>`     (`unifyTy`, the instance of `Env.unify`)
* `un.apply <0|1> (<type>*) <i> <value>` → `NIL` | `nil` | outcome of returned conversion `i` on the value
* `un.sort (<type>*)`                    → `(<index>*)`         (sortTypes)
* `un.cmp <type> <type>`                 → `-1|0|1`             (compareTypes)
* `un.judge <0|1> (<type>*) <result type> (<0|1>*)` → `pass` | `fail <clause>*`
      the clauses about the returned slice, on the REAL outputs (flags: 1 = nil)
* `un.yields <result type> <value>`      → `1|0`   (`yieldsUnified` on a real outcome) -/

def unEnv : Env := Env.std (Env.concrete unifyTy)
def unFuel : Nat := 4
def unApplyFuel : Nat := 64

def unValRes (r : Res Value) : String := resTag (fun v => toString v.toSexp) r

def unFlags (cs : Convs) : String :=
  "(" ++ " ".intercalate (cs.map fun c => if c.isNone then "n" else "c") ++ ")"

def handleUnify : Handler := fun op args =>
  match op, args with
  | "un.unify", [u, .list ts] => do
    let u ← Sexp.decBool u; let ts ← ts.mapM Ty.ofSexp
    pure (match unifyF unEnv unFuel u ts with
      | .ok none => "NIL"
      | .ok (some (t, cs)) => toString t.toSexp ++ " " ++ unFlags cs
      | .err _ => "err"
      | .panic _ => "panic"
      | .unmodelled => "unmodelled")
  | "un.ty", [u, .list ts] => do
    let u ← Sexp.decBool u; let ts ← ts.mapM Ty.ofSexp
    pure (match unEnv.unifyG u ts with
      | some t => toString t.toSexp
      | none => "NIL")
  | "un.apply", [u, .list ts, i, v] => do
    let u ← Sexp.decBool u; let ts ← ts.mapM Ty.ofSexp; let i ← Sexp.decNat i; let v ← Value.ofSexp v
    pure (match unifyF unEnv unFuel u ts with
      | .ok none => "NIL"
      | .ok (some (_, cs)) =>
        match cs[i]? with
        | some (some c) => if !stringsModelled v.v then "unmodelled" else unValRes (applyU unEnv unApplyFuel c v)
        | some none => "nil"
        | none => "no-slot"
      | .err _ => "err"
      | .panic _ => "panic"
      | .unmodelled => "unmodelled")
  | "un.sort", [.list ts] => do
    let ts ← ts.mapM Ty.ofSexp
    pure ("(" ++ " ".intercalate ((sortTypes ts).map toString) ++ ")")
  | "un.cmp", [a, b] => do
    let a ← Ty.ofSexp a; let b ← Ty.ofSexp b
    pure (toString (compareTypes a b))
  | "un.judge", [_u, .list ts, t, .list fl] => do
    let ts ← ts.mapM Ty.ofSexp; let t ← Ty.ofSexp t; let fl ← fl.mapM Sexp.decBool
    let fails := (if slotsOk ts fl then [] else ["slots"]) ++
      (if nilIffEqual t ts fl then [] else ["nil-iff-equal"])
    pure (match fails with
      | [] => "pass"
      | fs => "fail " ++ " ".intercalate fs)
  | "un.yields", [t, v] => do
    let t ← Ty.ofSexp t; let v ← Value.ofSexp v
    pure (toString (Sexp.encBool (yieldsUnified t v)))
  | _, _ => none
