/-
Driver handler for the d06 extension of C06.

  wfc <val> (<str>*) (<tag>*)     → pass | fail <clause>
      the strict judge `Value.WFc` (CtyModel/d06WF.lean): `<val>` as for `wf`; the first list is the NFC
      oracle column (strings for which `norm.NFC.IsNormalString` answers false), the second the
      capsule-equality oracle: the identity tag of every capsule leaf of the value, in dump order.

  c06.mapvaln (<key>*) (<val>*) (<raw> <normal> …) <val>      → match | nomatch …
  c06.objectvaln (<key>*) (<val>*) (<raw> <normal> …) <val>   → match | nomatch …
      `cty.MapVal` / `cty.ObjectVal` on RAW keys: the last argument is what the real constructor returned
      (`panic` for a panic); the answer is `match` iff it is the model's result for SOME order in which the Go
      `range` may have visited the entries (all orders enumerated; the harness keeps maps ≤ 5 entries).
      The table is the oracle column for `NormalizeString`.

  c06.stringval <str> <normal>    → <val>                    cty.StringVal
  c06.setvalc (<val>*) ((<tag>*)*) (<hash>*)  → ok <val> | panic | unmodelled   cty.SetVal on capsule-bearing members:
                                                              the model's `setValH` on the members with their capsule leaves
                                                              tagged (`D06.decap`); the harness tags the real result alike
  c06.equalsc <val> (<tag>*) <val> (<tag>*)  → ok <val> | …  Value.Equals on capsule-bearing operands, capsule
                                                              leaves compared by tag (`D06.decap`)
-/
import Driver.Util
import CtyModel.d06WF
import CtyModel.d06Cons
open CtyModel

def d06Table : List Sexp → Option (List (String × String))
  | a :: b :: rest => do
    let a ← Sexp.decStr a
    let b ← Sexp.decStr b
    let r ← d06Table rest
    pure ((a, b) :: r)
  | [] => some []
  | _ => none

def d06Norm (tab : List (String × String)) (s : String) : String :=
  match tab.find? (·.1 == s) with
  | some p => p.2
  | none => s

def d06Zip : List String → List Value → List (String × Value)
  | k :: ks, v :: vs => (k, v) :: d06Zip ks vs
  | _, _ => []

/-- results of a constructor over every visiting order of its entries -/
def d06AllOrders (ks : List String) (vs : List Value) (f : List String → List Value → String) : List String :=
  (D06.perms (d06Zip ks vs)).map fun p => f (p.map (·.1)) (p.map (·.2))

def handleD06 : Handler := fun op args =>
  match op, args with
  | "wfc", [v, .list bad, .list cids] =>
    match Value.ofSexp v, bad.mapM Sexp.decStr, cids.mapM Sexp.decNat with
    | some v, some bad, some cids => some (D06.wfcVerdict cids (fun s => !bad.contains s) v)
    | _, _, _ => some "fail decode"
  | "c06.mapvaln", [.list ks, .list vs, .list tab, got] => do
    let ks ← ks.mapM Sexp.decStr
    let vs ← vs.mapM Value.ofSexp
    let tab ← d06Table tab
    let outs := d06AllOrders ks vs fun ks vs =>
      resTag (fun v => toString v.toSexp) (D06.mapValN (d06Norm tab) ks vs)
    let got := match got with
      | .atom "panic" => "panic"
      | g => "ok " ++ toString g
    pure (if outs.contains got then "match" else "nomatch " ++ " | ".intercalate outs.eraseDups)
  | "c06.objectvaln", [.list ks, .list vs, .list tab, got] => do
    let ks ← ks.mapM Sexp.decStr
    let vs ← vs.mapM Value.ofSexp
    let tab ← d06Table tab
    let outs := d06AllOrders ks vs fun ks vs => "ok " ++ toString (D06.objectValN (d06Norm tab) ks vs).toSexp
    let got := match got with
      | .atom "panic" => "panic"
      | g => "ok " ++ toString g
    pure (if outs.contains got then "match" else "nomatch " ++ " | ".intercalate outs.eraseDups)
  | "c06.stringval", [s, n] => do
    let s ← Sexp.decStr s
    let n ← Sexp.decStr n
    pure (toString (Value.stringVal (fun _ => n) s).toSexp)
  | "c06.equalsc", [a, .list ca, b, .list cb] => do
    let a ← Value.ofSexp a
    let b ← Value.ofSexp b
    let ca ← ca.mapM Sexp.decNat
    let cb ← cb.mapM Sexp.decNat
    if D06.capsCount a.v != ca.length || D06.capsCount b.v != cb.length then pure "bad-tags"
    else pure (resTag (fun v => toString v.toSexp) (Value.equals (D06.decap (D06.cidOf ca) a) (D06.decap (D06.cidOf cb) b)))
  | "c06.setvalc", [.list vs, .list cols, .list hs] => do
    let vs ← vs.mapM Value.ofSexp
    let cols ← cols.mapM fun c => match c with
      | .list l => l.mapM Sexp.decNat
      | _ => none
    let hs ← hs.mapM Sexp.decInt
    if vs.length != cols.length then pure "bad-tags"
    else
      let ms := (vs.zip cols).map fun p => D06.decap (D06.cidOf p.2) p.1
      if (vs.zip cols).any (fun p => D06.capsCount p.1.v != p.2.length) then pure "bad-tags"
      else pure (resTag (fun v => toString v.toSexp) (Value.setValH ms hs))
  | _, _ => none
