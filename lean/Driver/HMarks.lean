/-
Driver handler for the marks API, the collection constructors' mark handling,
the conversion wrapper, and the operation-method table of C04
(`CtyModel/MarksOps.lean`).

  mk.op <name> <operand>* [<attr name> | <needle hash>]     -> ok <v> | panic | …
  mk.judge <name> <extra> (<operand>*) <marked out> <clean out> -> pass | fail
  mk.mark v m | mk.withmarks v ((m*)*) | mk.unmark v | mk.unmarkdeep v | mk.unmarkdeepr v (sets rebuilt)
  mk.unmarkpaths v | mk.markpaths v (pvm*) | mk.withsamemarks v (src*)
  mk.hasmark v m | mk.obs v | mk.hassamemarks a b
  mk.setval (v*) (hash*) | mk.listval (v*) | mk.mapval (key*) (v*)
  mk.convwrap v <inner out>

  out  := (ok v) | err | panic
  step := (i n) | (k str) | (a str)          pvm := ((step*) (mark*))
-/
import Driver.Util
import CtyModel.MarksOps
open CtyModel

namespace HMarks

def valRes (r : Res Value) : String := resTag (fun v => toString v.toSexp) r

def marksSexp (ms : List String) : Sexp := .list (ms.map Sexp.encStr)

def decMarks : Sexp → Option (List String)
  | .list ms => ms.mapM Sexp.decStr
  | _ => none

def decVals : Sexp → Option (List Value)
  | .list vs => vs.mapM Value.ofSexp
  | _ => none

def opOfName (name : String) (extra : Sexp) : Option Op :=
  match name with
  | "equals" => some .equals | "add" => some .add | "sub" => some .sub | "mul" => some .mul
  | "div" => some .div | "mod" => some .mod | "neg" => some .neg | "abs" => some .abs
  | "not" => some .not | "and" => some .and | "or" => some .or | "lt" => some .lt | "gt" => some .gt
  | "index" => some .index | "hasindex" => some .hasIndex | "length" => some .length
  | "notequal" => some .notEqual | "le" => some .le | "ge" => some .ge
  | "getattr" => (Sexp.decStr extra).map Op.getAttr
  | "haselement" =>
    match extra with
    | .atom "-" => some (.hasElement none)
    | x => (Sexp.decInt x).map fun h => Op.hasElement (some h)
  | _ => none

def hasExtra (name : String) : Bool := name == "getattr" || name == "haselement"

def decOut : Sexp → Option (Res Value)
  | .list [.atom "ok", v] => (Value.ofSexp v).map .ok
  | .atom "err" => some (.err "")
  | .atom "panic" => some (.panic "")
  | _ => none

def stepSexp : Value.Step → Sexp
  | .idx i => .list [.atom "i", Sexp.encNat i]
  | .key k => .list [.atom "k", Sexp.encStr k]
  | .attr n => .list [.atom "a", Sexp.encStr n]

def decStep : Sexp → Option Value.Step
  | .list [.atom "i", n] => (Sexp.decNat n).map .idx
  | .list [.atom "k", s] => (Sexp.decStr s).map .key
  | .list [.atom "a", s] => (Sexp.decStr s).map .attr
  | _ => none

def pvmStr (e : Value.PVM) : String :=
  toString (Sexp.list [.list (e.path.map stepSexp), marksSexp e.marks])

def decPvm : Sexp → Option Value.PVM
  | .list [.list steps, ms] => do pure ⟨← steps.mapM decStep, ← decMarks ms⟩
  | _ => none

/-- the records as a set: sorted by their printed form -/
def pvmsStr (l : List Value.PVM) : String :=
  "(" ++ " ".intercalate ((l.map pvmStr).mergeSort (fun a b => decide (a ≤ b))) ++ ")"

def decHash : Sexp → Option (Option Int)
  | .atom "-" => some none
  | x => (Sexp.decInt x).map some

end HMarks

open HMarks in
def handleMarks : Handler := fun op args =>
  match op, args with
  | "mk.op", .atom name :: rest => do
    let (operands, extra) :=
      if hasExtra name then (rest.dropLast, rest.getLast?.getD (.atom "-")) else (rest, Sexp.atom "-")
    let o ← opOfName name extra
    let vs ← operands.mapM Value.ofSexp
    pure (valRes (o.run vs))
  | "mk.judge", [.atom name, extra, operands, m, c] => do
    let o ← opOfName name extra
    let vs ← decVals operands
    pure (if opJudge o vs (← decOut m) (← decOut c) then "pass" else "fail")
  | "mk.mark", [v, m] => do
    pure (toString ((← Value.ofSexp v).mark (← Sexp.decStr m)).toSexp)
  | "mk.withmarks", [v, .list mss] => do
    pure (toString ((← Value.ofSexp v).withMarksV (← mss.mapM decMarks)).toSexp)
  | "mk.unmark", [v] => do
    let r := (← Value.ofSexp v).unmarkPair
    pure s!"{r.1.toSexp} {marksSexp r.2}"
  | "mk.unmarkdeep", [v] => do
    let r := (← Value.ofSexp v).unmarkDeepPair
    pure s!"{r.1.toSexp} {marksSexp r.2}"
  | "mk.unmarkdeepr", [v] => do
    let r := (← Value.ofSexp v).unmarkDeepRPair (fun _ _ _ => false)
    pure s!"{r.1.toSexp} {marksSexp r.2}"
  | "mk.unmarkpaths", [v] => do
    let r := (← Value.ofSexp v).unmarkDeepWithPaths
    pure s!"{r.1.toSexp} {pvmsStr r.2}"
  | "mk.markpaths", [v, .list pvm] => do
    pure (valRes ((← Value.ofSexp v).markWithPaths (← pvm.mapM decPvm)))
  | "mk.withsamemarks", [v, srcs] => do
    pure (toString ((← Value.ofSexp v).withSameMarks (← decVals srcs)).toSexp)
  | "mk.hasmark", [v, m] => do
    pure (toString (Sexp.encBool ((← Value.ofSexp v).hasMark (← Sexp.decStr m))))
  | "mk.obs", [v] => do
    let v ← Value.ofSexp v
    pure s!"{Sexp.encBool v.isMarked} {Sexp.encBool v.containsMarked} {marksSexp v.marks}"
  | "mk.hassamemarks", [a, b] => do
    pure (toString (Sexp.encBool ((← Value.ofSexp a).hasSameMarks (← Value.ofSexp b))))
  | "mk.setval", [vs, .list hs] => do
    pure (valRes (Value.setVal (← decVals vs) (← hs.mapM decHash)))
  | "mk.listval", [vs] => do
    pure (valRes (Value.listVal (← decVals vs)))
  | "mk.mapval", [.list ks, vs] => do
    pure (valRes (Value.mapVal (← ks.mapM Sexp.decStr) (← decVals vs)))
  | "mk.convwrap", [v, inner] => do
    let inner ← decOut inner
    pure (valRes (Value.convWrap (fun _ => inner) (← Value.ofSexp v)))
  | _, _ => none
