import Driver.Util
import CtyModel.Val
open CtyModel

def handleVal : Handler := fun op args =>
  match op, args with
  | "val.echo", [v] => do
    let v ← Value.ofSexp v
    pure (toString v.toSexp)
  | _, _ => none
