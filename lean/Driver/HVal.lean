import Driver.Util
import CtyModel.Marks
open CtyModel

def marksStr (ms : List String) : String :=
  toString (Sexp.list (ms.map Sexp.encStr))

def handleVal : Handler := fun op args =>
  match op, args with
  | "val.echo", [v] => do
    let v ← Value.ofSexp v
    pure (toString v.toSexp)
  | "val.obs", [v] => do
    let v ← Value.ofSexp v
    pure (s!"{Sexp.encBool v.isNull} {Sexp.encBool v.isKnown} {Sexp.encBool v.isMarked} {Sexp.encBool v.containsMarked} {Sexp.encBool v.whollyKnown} {marksStr v.marks} {marksStr v.marksDeep}")
  | "val.unmarkdeep", [v] => do
    let v ← Value.ofSexp v
    pure (toString v.unmarkDeep.toSexp)
  | "val.unmark", [v] => do
    let v ← Value.ofSexp v
    pure (toString v.unmark.toSexp)
  | "val.withmarks", [v, .list ms] => do
    let v ← Value.ofSexp v
    let ms ← ms.mapM Sexp.decStr
    pure (toString (v.withMarks (unionMarks ms [])).toSexp)
  | _, _ => none
