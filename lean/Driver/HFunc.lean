/-
Driver ops for the function-call protocol (C10).

  fn.call  <params> <var> <refine> <tf> <impl> <args>
  fn.rtfv  <params> <var> <refine> <tf> <args>          -- ReturnTypeForValues
  fn.rt    <params> <var> <refine> <tf> <types>         -- ReturnType

  params := ( (ty null unknown dynamic marked)* )       flags 0|1
  var    := - | (ty null unknown dynamic marked)
  refine := none | notnull | panics
  tf     := (ok ty) | err | panic
  impl   := (ok val) | err | panic
  args   := ( val* )        types := ( ty* )

  fn.proxy  … as fn.call                                -- Function.Proxy()(args...)
  fn.redesc <params> <var> <refine> <tf> <impl> <args> <n>   -- WithNewDescriptions(_, n descriptions).Call(args)
  fn.params <params> <var>                              -- Params() / VarParam(): `<params> <var>` echoed

Every value the harness sends is checked for `Payload.markerWF` (the representation
invariant `C10.ArgsWF` of the theorems); a violation is answered `marker-wf-violation`,
which the harness reports as a correspondence mismatch.

Answer: `<outcome> | <event>*` with outcome `ok <val|ty>` | `argerr <i>` | `err`
(plain error) | `cberr` (the callback's own error) | `panicerr` (PanicError) |
`panic` (a Go panic escaping the call), and events `(type <args>)`,
`(impl <args> <retTy>)`, `(refine)`.
-/
import Driver.Util
import CtyModel.Function
open CtyModel CtyModel.Fn

namespace HFunc

def decParam : Sexp → Option Param
  | .list [t, n, u, d, m] => do
    pure { ty := ← Ty.ofSexp t, allowNull := ← Sexp.decBool n, allowUnknown := ← Sexp.decBool u,
           allowDynamic := ← Sexp.decBool d, allowMarked := ← Sexp.decBool m }
  | _ => none

def decVar : Sexp → Option (Option Param)
  | .atom "-" => some none
  | s => (decParam s).map some

/-- refinement record a fresh builder starts from (`Value.Refine`), by type -/
def freshRfn : Ty → Rfn
  | .string => .str .u ""
  | .number => .num .u none none
  | .list _ | .set _ | .map _ => .coll .u 0 9223372036854775807
  | _ => .nullable .u

def setNotNull : Rfn → Rfn
  | .unref => .unref
  | .nullable _ => .nullable .f
  | .str _ p => .str .f p
  | .num _ lo hi => .num .f lo hi
  | .coll _ lo hi => .coll .f lo hi

/-- `func(b) { return b.NotNull() }` followed by `NewValue()`, on a shallowly
unmarked value: `.ok payload`, `.panic` (the builder panics), `.unmodelled`
(the one-element-set collapse, whose bucket id needs the value hash). -/
def notNull (v : Value) : Res Payload :=
  match v.v with
  | .null => .panic "refining null value as non-null"
  | .unk r =>
    if v.ty.isDyn then .ok (.unk r)                       -- DynamicVal: silently ignored
    else
      let wip := match r with
        | .unref => freshRfn v.ty
        | r => r
      if wip.nullness == .t then .panic "refining null value as non-null"
      else
        match setNotNull wip with
        | .num n (some lo) (some hi) =>
          if lo.incl && hi.incl && Num.cmp lo.v hi.v == 0 then .ok (.n lo.v)
          else .ok (.unk (.num n (some lo) (some hi)))
        | .coll n lo hi =>
          if lo == hi then
            match v.ty with
            | .list _ => .ok (.seq (List.replicate lo.toNat (.unk .unref)))
            | .set _ => if lo == 0 then .ok (.sset [] []) else if lo == 1 then .unmodelled else .ok (.unk (.coll n lo hi))
            | .map _ => if lo == 0 then .ok (.smap [] []) else .ok (.unk (.coll n lo hi))
            | _ => .ok (.unk (.coll n lo hi))
          else .ok (.unk (.coll n lo hi))
        | w => .ok (.unk w)
  | p => .ok p

/-- `some refiner`, or `none` when the menu entry is unknown -/
def decRefine : Sexp → Option (Option (Value → Res Payload))
  | .atom "none" => some none
  | .atom "notnull" => some (some notNull)
  | .atom "panics" => some (some fun _ => .panic "refine callback")
  | _ => none

def toRefineFn (r : Value → Res Payload) : RefineFn := fun v =>
  match r v with
  | .ok p => some p
  | _ => none

def decTf : Sexp → Option TypeFn
  | .list [.atom "ok", t] => do let t ← Ty.ofSexp t; pure fun _ => .ok t
  | .atom "err" => some fun _ => .err "spy"
  | .atom "panic" => some fun _ => .panic "spy"
  | _ => none

def decImpl : Sexp → Option ImplFn
  | .list [.atom "ok", v] => do let v ← Value.ofSexp v; pure fun _ _ => .ok v
  | .atom "err" => some fun _ _ => .err "spy"
  | .atom "panic" => some fun _ _ => .panic "spy"
  | _ => none

def valsStr (vs : List Value) : String := toString (Sexp.list (vs.map Value.toSexp))

def eventStr : Event → String
  | .type as => "(type " ++ valsStr as ++ ")"
  | .impl as t => "(impl " ++ valsStr as ++ " " ++ toString t.toSexp ++ ")"
  | .refine _ => "(refine)"

def outStr {α} (f : α → String) : Out α → String
  | .ok a => "ok " ++ f a
  | .err .argCount => "err"
  | .err (.arg i) => "argerr " ++ toString i
  | .err (.callback _) => "cberr"
  | .err (.panicError _) => "panicerr"
  | .panic _ => "panic"
  | .unmodelled => "unmodelled"

def answer {α} (f : α → String) (r : Out α × List Event) : String :=
  match r.1 with
  | .unmodelled => "unmodelled"
  | o => outStr f o ++ " |" ++ String.join (r.2.map fun e => " " ++ eventStr e)

def valStr (v : Value) : String := toString v.toSexp
def tyStr (t : Ty) : String := toString t.toSexp

/-- does the refiner leave the modelled fragment on the value it is applied to? -/
def refineUnmodelled (r : Option (Value → Res Payload)) (pre : Out Value × List Event) (dynShort : Bool) : Bool :=
  match r, pre.1 with
  | some r, .ok v =>
    !dynShort && (v.isKnown || !v.ty.isDyn) &&
      (match r v.unmark with
       | .unmodelled => true
       | _ => false)
  | _, _ => false

def encFlag (b : Bool) : String := if b then "1" else "0"

def paramStr (p : Param) : String :=
  "(" ++ tyStr p.ty ++ " " ++ encFlag p.allowNull ++ " " ++ encFlag p.allowUnknown ++ " " ++
    encFlag p.allowDynamic ++ " " ++ encFlag p.allowMarked ++ ")"

def allMarkerWF (vs : List Value) : Bool := vs.all fun v => v.v.markerWF

/-- `fn.call` / `fn.proxy` / `fn.redesc` after decoding -/
def runCall (spec : Spec) (rf : Option (Value → Res Payload)) (tf : TypeFn) (impl : ImplFn)
    (as : List Value) (entry : Spec → TypeFn → ImplFn → List Value → Out Value × List Event) : String :=
  let dynShort := match (returnTypeForValues spec tf as).1 with
    | .ok (_, d) => d
    | _ => false
  if !allMarkerWF as then "marker-wf-violation"
  else if refineUnmodelled rf (callUnrefined spec tf impl as) dynShort then "unmodelled"
  else answer valStr (entry spec tf impl as)

end HFunc

open HFunc in
def handleFunc : Handler := fun op args =>
  match op, args with
  | "fn.call", [.list ps, var, rf, tf, impl, .list as] => do
    let ps ← ps.mapM decParam
    let var ← decVar var
    let rf ← decRefine rf
    let tf ← decTf tf
    let impl ← decImpl impl
    let as ← as.mapM Value.ofSexp
    let spec : Spec := { params := ps, varParam := var, refine := rf.map toRefineFn }
    pure (runCall spec rf tf impl as call)
  | "fn.proxy", [.list ps, var, rf, tf, impl, .list as] => do
    let ps ← ps.mapM decParam
    let var ← decVar var
    let rf ← decRefine rf
    let tf ← decTf tf
    let impl ← decImpl impl
    let as ← as.mapM Value.ofSexp
    let spec : Spec := { params := ps, varParam := var, refine := rf.map toRefineFn }
    pure (runCall spec rf tf impl as proxy)
  | "fn.redesc", [.list ps, var, rf, tf, impl, .list as, n] => do
    let ps ← ps.mapM decParam
    let var ← decVar var
    let rf ← decRefine rf
    let tf ← decTf tf
    let impl ← decImpl impl
    let as ← as.mapM Value.ofSexp
    let n ← Sexp.decNat n
    let spec : Spec := { params := ps, varParam := var, refine := rf.map toRefineFn }
    match spec.withNewDescriptions n with
    | .ok spec' => pure (runCall spec' rf tf impl as call)
    | _ => pure "panic |"
  | "fn.params", [.list ps, var] => do
    let ps ← ps.mapM decParam
    let var ← decVar var
    let spec : Spec := { params := ps, varParam := var }
    pure ("(" ++ " ".intercalate (spec.params.map paramStr) ++ ") " ++
      (match spec.varParam with
       | some p => paramStr p
       | none => "-"))
  | "fn.rtfv", [.list ps, var, rf, tf, .list as] => do
    let ps ← ps.mapM decParam
    let var ← decVar var
    let rf ← decRefine rf
    let tf ← decTf tf
    let as ← as.mapM Value.ofSexp
    let spec : Spec := { params := ps, varParam := var, refine := rf.map toRefineFn }
    if !allMarkerWF as then pure "marker-wf-violation"
    else pure (answer tyStr (returnTypeForValuesPub spec tf as))
  | "fn.rt", [.list ps, var, rf, tf, .list ts] => do
    let ps ← ps.mapM decParam
    let var ← decVar var
    let rf ← decRefine rf
    let tf ← decTf tf
    let ts ← ts.mapM Ty.ofSexp
    let spec : Spec := { params := ps, varParam := var, refine := rf.map toRefineFn }
    pure (answer tyStr (returnType spec tf ts))
  | _, _ => none
