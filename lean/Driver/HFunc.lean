/-
Driver ops for the function-call protocol (C10).

  fn.call  <params> <var> <refine> <tf> <impl> <args>
  fn.rtfv  <params> <var> <refine> <tf> <args>          -- ReturnTypeForValues
  fn.rt    <params> <var> <refine> <tf> <types>         -- ReturnType

  params := ( (ty null unknown dynamic marked)* )       flags 0|1
  var    := - | (ty null unknown dynamic marked)
  refine := none | notnull | panics
  tf     := (ok ty) | err | panic
  impl   := (ok val) | err | panic
  args   := ( val* )        types := ( ty* )

  fn.proxy  … as fn.call                                -- Function.Proxy()(args...)
  fn.redesc <params> <var> <refine> <tf> <impl> <args> <n>   -- WithNewDescriptions(_, n descriptions).Call(args)
  fn.params <params> <var>                              -- Params() / VarParam(): `<params> <var>` echoed

Every value the harness sends is checked for `Payload.markerWF` (the representation
invariant `C10.ArgsWF` of the theorems); a violation is answered `marker-wf-violation`,
which the harness reports as a correspondence mismatch.

  fn.wrap   <params> <var> <refine> <tf> <impl> <args> <wrappers> <entry>
            wrappers := ( ((redesc n) | unpred)* )   entry := call | proxy | rtfv | rt
            -- the constructors WithNewDescriptions / Unpredictable applied left to right, then one entry point
            -- (`rt` is handed the types of <args>); the trace lists the invocations of the SPEC's callbacks, so
            -- the `impl` event of `unpredictableImpl` (which is not the spec's Impl) is left out

Answer: `<outcome> | <event>*` with outcome `ok <val|ty>` | `argerr <i>` | `err`
(plain error) | `cberr` (the callback's own error) | `panicerr` (PanicError) |
`panic` (a Go panic escaping the call), and events `(type <args>)`,
`(impl <args> <retTy>)`, `(refine)`.
-/
import Driver.Util
import CtyModel.Function
import CtyModel.FnD10
open CtyModel CtyModel.Fn CtyModel.Fn.D10

namespace HFunc

def decParam : Sexp → Option Param
  | .list [t, n, u, d, m] => do
    pure { ty := ← Ty.ofSexp t, allowNull := ← Sexp.decBool n, allowUnknown := ← Sexp.decBool u,
           allowDynamic := ← Sexp.decBool d, allowMarked := ← Sexp.decBool m }
  | _ => none

def decVar : Sexp → Option (Option Param)
  | .atom "-" => some none
  | s => (decParam s).map some

/-- `some refiner`, or `none` when the menu entry is unknown -/
def decRefine : Sexp → Option (Option (Value → Res Payload))
  | .atom "none" => some none
  | .atom "notnull" => some (some notNull)
  | .atom "panics" => some (some refinePanics)
  | _ => none

def decTf : Sexp → Option TypeFn
  | .list [.atom "ok", t] => do let t ← Ty.ofSexp t; pure fun _ => .ok t
  | .atom "err" => some fun _ => .err "spy"
  | .atom "panic" => some fun _ => .panic "spy"
  | _ => none

def decImpl : Sexp → Option ImplFn
  | .list [.atom "ok", v] => do let v ← Value.ofSexp v; pure fun _ _ => .ok v
  | .atom "err" => some fun _ _ => .err "spy"
  | .atom "panic" => some fun _ _ => .panic "spy"
  | _ => none

def valsStr (vs : List Value) : String := toString (Sexp.list (vs.map Value.toSexp))

def eventStr : Event → String
  | .type as => "(type " ++ valsStr as ++ ")"
  | .impl as t => "(impl " ++ valsStr as ++ " " ++ toString t.toSexp ++ ")"
  | .refine _ => "(refine)"

def outStr {α} (f : α → String) : Out α → String
  | .ok a => "ok " ++ f a
  | .err .argCount => "err"
  | .err (.arg i) => "argerr " ++ toString i
  | .err (.callback _) => "cberr"
  | .err (.panicError _) => "panicerr"
  | .panic _ => "panic"
  | .unmodelled => "unmodelled"

def answer {α} (f : α → String) (r : Out α × List Event) : String :=
  match r.1 with
  | .unmodelled => "unmodelled"
  | o => outStr f o ++ " |" ++ String.join (r.2.map fun e => " " ++ eventStr e)

def valStr (v : Value) : String := toString v.toSexp
def tyStr (t : Ty) : String := toString t.toSexp

/-- does the refiner leave the modelled fragment on the value it is applied to? -/
def refineUnmodelled (r : Option (Value → Res Payload)) (pre : Out Value × List Event) (dynShort : Bool) : Bool :=
  match r, pre.1 with
  | some r, .ok v =>
    !dynShort && (v.isKnown || !v.ty.isDyn) &&
      (match r v.unmark with
       | .unmodelled => true
       | _ => false)
  | _, _ => false

def encFlag (b : Bool) : String := if b then "1" else "0"

def paramStr (p : Param) : String :=
  "(" ++ tyStr p.ty ++ " " ++ encFlag p.allowNull ++ " " ++ encFlag p.allowUnknown ++ " " ++
    encFlag p.allowDynamic ++ " " ++ encFlag p.allowMarked ++ ")"

def allMarkerWF (vs : List Value) : Bool := vs.all fun v => v.v.markerWF

/-! Outside the modelled fragment: a marked argument holding a set with two members in ONE hash bucket.
Go's `UnmarkDeep` rebuilds such a set through `cty.SetVal`, which re-adds the members in `Less` order, so
the order inside the bucket can change; the shared `Payload.stripMarks` keeps it.  (Seen once in 3·10⁶
random cases: the numbers 1 and 1+2⁻⁴⁷⁷ at 512 bits hash alike.)  Answered `unmodelled`, counted, not compared. -/
def adjDup : List Int → Bool
  | a :: b :: r => a == b || adjDup (b :: r)
  | _ => false
mutual
def dupBucket : Payload → Bool
  | .sset ids vs => adjDup ids || dupBucketL vs
  | .seq vs | .smap _ vs => dupBucketL vs
  | .marked _ r => dupBucket r
  | _ => false
def dupBucketL : List Payload → Bool
  | [] => false
  | v :: vs => dupBucket v || dupBucketL vs
end
def bucketOrderUnmodelled (vs : List Value) : Bool := vs.any fun v => v.containsMarked && dupBucket v.v

/-- `fn.call` / `fn.proxy` / `fn.redesc` after decoding -/
def runCall (spec : Spec) (rf : Option (Value → Res Payload)) (tf : TypeFn) (impl : ImplFn)
    (as : List Value) (entry : Spec → TypeFn → ImplFn → List Value → Out Value × List Event) : String :=
  let dynShort := match (returnTypeForValues spec tf as).1 with
    | .ok (_, d) => d
    | _ => false
  if !allMarkerWF as then "marker-wf-violation"
  else if bucketOrderUnmodelled as then "unmodelled"
  else if refineUnmodelled rf (callUnrefined spec tf impl as) dynShort then "unmodelled"
  else answer valStr (entry spec tf impl as)

def decWrapper : Sexp → Option Wrapper
  | .list [.atom "redesc", n] => do pure (.redesc (← Sexp.decNat n))
  | .atom "unpred" => some .unpredictable
  | _ => none

def decEntry : String → Option Entry
  | "call" => some .call
  | "proxy" => some .proxy
  | "rtfv" => some .rtfv
  | "rt" => some .rt
  | _ => none

def ansStr : Ans → String
  | .val v => valStr v
  | .ty t => tyStr t

def isImplEvent : Event → Bool
  | .impl _ _ => true
  | _ => false

/-- `fn.wrap` after decoding -/
def runWrap (f : Func) (rf : Option (Value → Res Payload)) (ws : List Wrapper) (e : Entry) (as : List Value) : String :=
  if !allMarkerWF as then "marker-wf-violation"
  else if bucketOrderUnmodelled as then "unmodelled"
  else
    match wrap f ws with
    | .ok f' =>
      let dynShort := match (returnTypeForValues f'.spec f'.tf as).1 with
        | .ok (_, d) => d
        | _ => false
      let valued := e == .call || e == .proxy
      if valued && refineUnmodelled rf (callUnrefined f'.spec f'.tf f'.impl as) dynShort then "unmodelled"
      else
        let r := run f' e as
        let tr := if ws.contains .unpredictable then r.2.filter (fun ev => !isImplEvent ev) else r.2
        answer ansStr (r.1, tr)
    | _ => "panic |"

end HFunc

open HFunc in
def handleFunc : Handler := fun op args =>
  match op, args with
  | "fn.call", [.list ps, var, rf, tf, impl, .list as] => do
    let ps ← ps.mapM decParam
    let var ← decVar var
    let rf ← decRefine rf
    let tf ← decTf tf
    let impl ← decImpl impl
    let as ← as.mapM Value.ofSexp
    let spec : Spec := { params := ps, varParam := var, refine := rf.map toRefineFn }
    pure (runCall spec rf tf impl as call)
  | "fn.proxy", [.list ps, var, rf, tf, impl, .list as] => do
    let ps ← ps.mapM decParam
    let var ← decVar var
    let rf ← decRefine rf
    let tf ← decTf tf
    let impl ← decImpl impl
    let as ← as.mapM Value.ofSexp
    let spec : Spec := { params := ps, varParam := var, refine := rf.map toRefineFn }
    pure (runCall spec rf tf impl as proxy)
  | "fn.redesc", [.list ps, var, rf, tf, impl, .list as, n] => do
    let ps ← ps.mapM decParam
    let var ← decVar var
    let rf ← decRefine rf
    let tf ← decTf tf
    let impl ← decImpl impl
    let as ← as.mapM Value.ofSexp
    let n ← Sexp.decNat n
    let spec : Spec := { params := ps, varParam := var, refine := rf.map toRefineFn }
    match spec.withNewDescriptions n with
    | .ok spec' => pure (runCall spec' rf tf impl as call)
    | _ => pure "panic |"
  | "fn.wrap", [.list ps, var, rf, tf, impl, .list as, .list ws, .atom entry] => do
    let ps ← ps.mapM decParam
    let var ← decVar var
    let rf ← decRefine rf
    let tf ← decTf tf
    let impl ← decImpl impl
    let as ← as.mapM Value.ofSexp
    let ws ← ws.mapM decWrapper
    let e ← decEntry entry
    let spec : Spec := { params := ps, varParam := var, refine := rf.map toRefineFn }
    pure (runWrap ⟨spec, tf, impl⟩ rf ws e as)
  | "fn.params", [.list ps, var] => do
    let ps ← ps.mapM decParam
    let var ← decVar var
    let spec : Spec := { params := ps, varParam := var }
    pure ("(" ++ " ".intercalate (spec.params.map paramStr) ++ ") " ++
      (match spec.varParam with
       | some p => paramStr p
       | none => "-"))
  | "fn.rtfv", [.list ps, var, rf, tf, .list as] => do
    let ps ← ps.mapM decParam
    let var ← decVar var
    let rf ← decRefine rf
    let tf ← decTf tf
    let as ← as.mapM Value.ofSexp
    let spec : Spec := { params := ps, varParam := var, refine := rf.map toRefineFn }
    if !allMarkerWF as then pure "marker-wf-violation"
    else if bucketOrderUnmodelled as then pure "unmodelled"
    else pure (answer tyStr (returnTypeForValuesPub spec tf as))
  | "fn.rt", [.list ps, var, rf, tf, .list ts] => do
    let ps ← ps.mapM decParam
    let var ← decVar var
    let rf ← decRefine rf
    let tf ← decTf tf
    let ts ← ts.mapM Ty.ofSexp
    let spec : Spec := { params := ps, varParam := var, refine := rf.map toRefineFn }
    pure (answer tyStr (returnType spec tf ts))
  | _, _ => none
