import Driver.Util
import CtyModel.MsgpackSpec
import CtyModel.d16Set
open CtyModel
open CtyModel.Msgpack

/-! Driver ops of the MessagePack slice (C16; the decoder ops are reused by C17).

Items travel as
  item := nil | (b 0|1) | (i int) | (u nat) | (f32 num) | (f64 num) | nan | (s x<hex>) | (bin h<hex>)
        | (binj json) | (arr item*) | (map (item item)*) | (ext code len hdr item*)
  hdr  := (m n) | nil | ext | other

* `mp.marshal <value> <ty> ((h<cut> x<safe>)*)` → `ok <item>` | `err` | `panic` | `unmodelled`
  (the third argument is the oracle column: `ctystrings.SafeKnownPrefix` of every
  byte-cut prefix that occurs in the value, computed by the real function)
* `mp.unmarshal <item> <ty>` (the exported `Unmarshal`) → `ok <value>` …, sets printed without bucket ids, members sorted; the
  refinement builder's number equality is `textOracle` (= `rawNumberEqual`, what the code does)
* `mp.unmarshalx` the same with `partialOracle` (exact; `unmodelled` where the answer could depend on
  the decimal text) — the instance the theorems of `Props/C16.lean` are stated for
* `mp.implied <item>` → `ok <ty>` …
* `mp.parse x<hex>` → `ok <num>` … (`cty.ParseNumberVal`)
* `mp.fits <value> <ty> <oracle>` → `0|1`: the hypotheses of `C16.roundtrip_covers` (`Fits`, conformance)
* `mp.fitsimp` / `mp.fitsimp-sets <value> <ty> <oracle> <ok 0|1>` → `1` if ALL the hypotheses of
  `C16.roundtrip_covers_sets_partial` hold (`Fits`, conformance, `setsApart`), else `unmodelled` (the case is
  then not counted as compared): the harness' own answer is "did the real round trip satisfy the property",
  so a mismatch is exactly a case where the hypotheses hold and the real code fails -/

namespace HMsgpack

def hexAtom (bs : List UInt8) : Sexp := .atom ("h" ++ Sexp.bytesToHex bs)
def decHexAtom : Sexp → Option (List UInt8)
  | .atom a =>
    match a.toList with
    | 'h' :: hex => Sexp.hexToBytes hex
    | _ => none
  | _ => none

def hdrToSexp : ExtHdr → Sexp
  | .map n => .list [.atom "m", Sexp.encNat n]
  | .nil => .atom "nil"
  | .ext => .atom "ext"
  | .other => .atom "other"
def hdrOfSexp : Sexp → Option ExtHdr
  | .list [.atom "m", n] => (Sexp.decNat n).map .map
  | .atom "nil" => some .nil
  | .atom "ext" => some .ext
  | .atom "other" => some .other
  | _ => none

mutual
partial def itemToSexp : Item → Sexp
  | .nil => .atom "nil"
  | .bool b => .list [.atom "b", Sexp.encBool b]
  | .int i => .list [.atom "i", Sexp.encInt i]
  | .uint u => .list [.atom "u", Sexp.encNat u]
  | .f32 x => .list [.atom "f32", x.toSexp]
  | .f64 x => .list [.atom "f64", x.toSexp]
  | .fnan => .atom "nan"
  | .str s => .list [.atom "s", Sexp.encStr s]
  | .bin b => .list [.atom "bin", hexAtom b]
  | .binj j => .list [.atom "binj", j.toSexp]
  | .arr xs => .list (.atom "arr" :: xs.map itemToSexp)
  | .map ks vs => .list (.atom "map" :: pairsToSexp ks vs)
  | .ext c l h st => .list (.atom "ext" :: Sexp.encInt c :: Sexp.encNat l :: hdrToSexp h :: st.map itemToSexp)
partial def pairsToSexp : List Item → List Item → List Sexp
  | k :: ks, v :: vs => .list [itemToSexp k, itemToSexp v] :: pairsToSexp ks vs
  | _, _ => []
end

partial def itemOfSexp : Sexp → Option Item
  | .atom "nil" => some .nil
  | .atom "nan" => some .fnan
  | .list [.atom "b", b] => (Sexp.decBool b).map .bool
  | .list [.atom "i", i] => (Sexp.decInt i).map .int
  | .list [.atom "u", u] => (Sexp.decNat u).map .uint
  | .list [.atom "f32", x] => (Num.ofSexp x).map .f32
  | .list [.atom "f64", x] => (Num.ofSexp x).map .f64
  | .list [.atom "s", s] => (Sexp.decStr s).map .str
  | .list [.atom "bin", b] => (decHexAtom b).map .bin
  | .list [.atom "binj", j] => (Json.ofSexp j).map .binj
  | .list (.atom "arr" :: xs) => (xs.mapM itemOfSexp).map .arr
  | .list (.atom "map" :: ps) => do
    let parts ← ps.mapM fun p =>
      match p with
      | .list [k, v] => do pure ((← itemOfSexp k), (← itemOfSexp v))
      | _ => none
    pure (.map (parts.map (·.1)) (parts.map (·.2)))
  | .list (.atom "ext" :: c :: l :: h :: st) => do
    pure (.ext (← Sexp.decInt c) (← Sexp.decNat l) (← hdrOfSexp h) (← st.mapM itemOfSexp))
  | _ => none

/-- canonical print of a decoded payload: as `Payload.toSexp`, but a set is its
members without bucket ids, sorted by their own print -/
partial def canonP : Payload → Sexp
  | .seq vs => .list (.atom "seq" :: vs.map canonP)
  | .smap ks vs => .list (.atom "smap" :: (ks.zip vs).map fun kv => .list [Sexp.encStr kv.1, canonP kv.2])
  | .sset _ vs =>
    let ms := (vs.map fun v => toString (canonP v)).toArray.qsort (· < ·)
    .list (.atom "sset" :: ms.toList.map .atom)
  | .marked ms r => .list [.atom "mk", .list (ms.map Sexp.encStr), canonP r]
  | p => p.toSexp

def canonV (v : Value) : String := toString (Sexp.list [.atom "v", v.ty.toSexp, canonP v.v])

def decOracle : Sexp → Option (List (List UInt8 × String))
  | .list es => es.mapM fun e =>
    match e with
    | .list [c, r] => do pure ((← decHexAtom c), (← Sexp.decStr r))
    | _ => none
  | _ => none

/-- the external functions as the driver sees them: strings arrive normalised,
`SafeKnownPrefix` is a table computed by the real function, and a set is just
its member list without equivalent duplicates (`Msgpack.setOfDedup`, d16Set.lean: total, and
the instance `C16.roundtrip_covers_sets_partial` is proved for; compared up to order by the harness;
bucket ids, i.e. the hash, are property C03's) -/
def extOf (tbl : List (List UInt8 × String)) : Ext where
  norm := id
  safePrefix := fun bs => (tbl.find? fun e => e.1 == bs).map (·.2)
  setOf := setOfDedup

end HMsgpack

open HMsgpack in
def handleMsgpack : Handler := fun op args =>
  match op, args with
  | "mp.marshal", [v, t, o] => do
    let v ← Value.ofSexp v
    let t ← Ty.ofSexp t
    let tbl ← decOracle o
    pure (resTag (fun it => toString (itemToSexp it)) (marshal (extOf tbl) v t))
  | "mp.unmarshal", [it, t] => do
    let it ← itemOfSexp it
    let t ← Ty.ofSexp t
    pure (resTag canonV (@Unmarshal Refine.textOracle (extOf []) it t))
  | "mp.unmarshalx", [it, t] => do
    let it ← itemOfSexp it
    let t ← Ty.ofSexp t
    pure (resTag canonV (@Unmarshal Refine.partialOracle (extOf []) it t))
  | "mp.implied", [it] => do
    let it ← itemOfSexp it
    pure (resTag (fun t => toString t.toSexp) (impliedType (extOf []) it))
  | "mp.fits", [v, t, o] => do
    let v ← Value.ofSexp v
    let t ← Ty.ofSexp t
    let tbl ← decOracle o
    pure (toString (Sexp.encBool (Fits (extOf tbl) t v && Ty.conformErrs t v.ty == 0)))
  | "mp.fitsimp", [v, t, o, .atom ok] => do
    let v ← Value.ofSexp v
    let t ← Ty.ofSexp t
    let tbl ← decOracle o
    -- every hypothesis of `C16.roundtrip_covers_sets_partial` is evaluated; where one fails the case is not compared
    let _ := ok
    pure (if Fits (extOf tbl) t v && Ty.conformErrs t v.ty == 0 && setsApart v.ty v.v then "1" else "unmodelled")
  | "mp.fitsimp-sets", [v, t, o, .atom _] => do
    let v ← Value.ofSexp v
    let t ← Ty.ofSexp t
    let tbl ← decOracle o
    pure (if Fits (extOf tbl) t v && Ty.conformErrs t v.ty == 0 && setsApart v.ty v.v then "1" else "unmodelled")
  | "mp.parse", [s] => do
    let s ← Sexp.decStr s
    pure (resTag (fun x => toString x.toSexp) (parseNumber s))
  | _, _ => none
