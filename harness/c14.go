package main

// C14 — number, string, encoding and date functions of the stdlib compute the
// documented result.  The REAL functions (stdlib.XxxFunc.Call) are run on wholly
// known arguments; the outcome class (ok value / err / PanicError / Go panic) is
// compared with the Lean model through the driver, and the property predicate is
// evaluated against an independent reference (math/big for numbers, the Go
// standard library for glue).  Never compares error text.

import (
	"fmt"
	"math"
	"math/big"
	"strings"

	"github.com/zclconf/go-cty/cty"
	"github.com/zclconf/go-cty/cty/function"
	"github.com/zclconf/go-cty/cty/function/stdlib"
)

func init() {
	register("C14", "each listed stdlib function x wholly known argument lists: numbers of every magnitude/precision class (small/huge ints, halves, "+
		"float64 incl. random bit patterns, 512-bit decimals, low precision, ±0, ±inf); strings over the C05 alphabet (ASCII, combining marks, Hangul jamo, "+
		"emoji ZWJ sequences, regional indicators, CRLF); digit strings in bases 2..62; generated regexps, RFC 3339 timestamps, durations, date formats, CSV, "+
		"printf-like format strings from the verb grammar with generated flags/width/precision/argument indices; JSON-representable values (jsondecode(jsonencode v) = v, search only). Outcome classes are compared with the Lean model (oracle columns computed by the real libraries) "+
		"and judged against math/big and the Go standard library. non-trivial = the call reached Impl (no argument-check error); "+
		"distinct = distinct canonical (function, arguments) strings", runC14)
}

// stdOut runs a stdlib function under recover and classifies the outcome.
func stdOut(f function.Function, args []cty.Value) (out string, v cty.Value, class string) {
	var err error
	p, _ := try(func() { v, err = f.Call(args) })
	switch {
	case p:
		return "panic", cty.NilVal, "panic"
	case err != nil:
		if _, ok := err.(function.PanicError); ok {
			return "panicerr", cty.NilVal, "panicerr"
		}
		return "err", cty.NilVal, "err"
	}
	return "ok " + encVal(v), v, "ok"
}

func wireArgs(args []cty.Value) string {
	ws := make([]string, len(args))
	for i, a := range args {
		ws[i] = encVal(a)
	}
	return "(" + strings.Join(ws, " ") + ")"
}

func litArgs(args []cty.Value) string {
	ws := make([]string, len(args))
	for i, a := range args {
		ws[i] = a.GoString()
	}
	return strings.Join(ws, ", ")
}

func c14Fail(ctx *Ctx, site, sig, what, fn string, args []cty.Value, outcome string) {
	ctx.Fail(Failure{Site: site, Sig: sig, What: what, Input: fn + " " + wireArgs(args),
		GoLit: "stdlib." + fn + "Func.Call([]cty.Value{" + litArgs(args) + "})", Outcome: outcome})
}

// okNumber demands a known, non-null, unmarked number result.
func okNumber(v cty.Value) bool {
	return v != cty.NilVal && v.Type() == cty.Number && v.IsKnown() && !v.IsNull() && !v.IsMarked()
}

var halfPool = []string{"0.5", "-0.5", "1.5", "-1.5", "2.5", "-2.5", "0.25", "-0.75", "0.999999999999999999999999", "-0.000000000000000000001",
	"9223372036854775807.5", "-9223372036854775808.5", "18446744073709551615.5", "1000000000000000000000000000000.5", "-1000000000000000000000000000000.5",
	"4503599627370496.5", "0.1", "-0.1", "1e-30", "-1e-30", "123456789012345678901234567890.123456789"}

// genC14Num: genNumber plus halves, near-integers and huge non-integers.
func genC14Num(ctx *Ctx) cty.Value {
	r := ctx.R
	switch r.Intn(10) {
	case 0, 1:
		return cty.MustParseNumberVal(halfPool[r.Intn(len(halfPool))])
	case 2:
		// k + j/8 as float64
		return cty.NumberFloatVal(float64(r.Intn(41)-20) + float64(r.Intn(8))/8)
	case 3:
		// ±(2^k ± 1/2) at 512 bits
		k := uint(r.Intn(300))
		z := new(big.Float).SetPrec(512).SetInt(new(big.Int).Lsh(big.NewInt(1), k))
		h := big.NewFloat(0.5)
		if r.Intn(2) == 0 {
			z.Add(z, h)
		} else {
			z.Sub(z, h)
		}
		if r.Intn(2) == 0 {
			z.Neg(z)
		}
		return cty.NumberVal(z)
	case 4:
		// low precision with fraction
		f := new(big.Float).SetPrec(uint(1 + r.Intn(12))).SetFloat64(float64(r.Intn(4000)-2000) / 16)
		return cty.NumberVal(f)
	}
	return genNumber(r, ValOpts{})
}

type c14NumFn struct {
	name  string // driver name
	goNm  string // stdlib.<goNm>Func
	f     function.Function
	arity int // -1 variadic
}

var c14NumFns = []c14NumFn{
	{"abs", "Absolute", stdlib.AbsoluteFunc, 1}, {"neg", "Negate", stdlib.NegateFunc, 1},
	{"add", "Add", stdlib.AddFunc, 2}, {"sub", "Subtract", stdlib.SubtractFunc, 2}, {"mul", "Multiply", stdlib.MultiplyFunc, 2},
	{"div", "Divide", stdlib.DivideFunc, 2}, {"mod", "Modulo", stdlib.ModuloFunc, 2},
	{"lt", "LessThan", stdlib.LessThanFunc, 2}, {"gt", "GreaterThan", stdlib.GreaterThanFunc, 2},
	{"le", "LessThanOrEqualTo", stdlib.LessThanOrEqualToFunc, 2}, {"ge", "GreaterThanOrEqualTo", stdlib.GreaterThanOrEqualToFunc, 2},
	{"min", "Min", stdlib.MinFunc, -1}, {"max", "Max", stdlib.MaxFunc, -1},
	{"int", "Int", stdlib.IntFunc, 1}, {"ceil", "Ceil", stdlib.CeilFunc, 1}, {"floor", "Floor", stdlib.FloorFunc, 1},
	{"signum", "Signum", stdlib.SignumFunc, 1},
}

func ratCmpInt(r *big.Rat) (isInt bool) { return r.IsInt() }

// judgeNum evaluates the property predicate for one numeric function call.
func judgeNum(ctx *Ctx, fn c14NumFn, args []cty.Value, class string, res cty.Value) {
	fail := func(sig, what string) {
		out := class
		if class == "ok" {
			out = res.GoString()
		}
		c14Fail(ctx, fn.name, sig, what, fn.goNm, args, out)
	}
	if class == "panic" {
		fail(fn.name+"-go-panic", "a Go panic escaped Function.Call")
		return
	}
	x := args[0].AsBigFloat()
	var rx *big.Rat
	if !x.IsInf() {
		rx, _ = x.Rat(nil)
	}
	// the operation-method result the wrappers must agree with
	wrapper := func(op func() cty.Value) {
		var want cty.Value
		p, why := try(func() { want = op() })
		if p {
			// only big.ErrNaN panics are documented; they must come back as plain errors
			if class != "err" {
				fail(fn.name+"-nan-not-error", "operation panicked ("+why+") but the function did not return a plain error")
			}
			return
		}
		if class != "ok" {
			fail(fn.name+"-spurious-failure", "operation method succeeds but the function failed")
			return
		}
		if !res.RawEquals(want) {
			fail(fn.name+"-differs-from-operation", "function result differs from the operation method's result "+want.GoString())
		}
	}
	switch fn.name {
	case "abs":
		wrapper(func() cty.Value { return args[0].Absolute() })
	case "neg":
		wrapper(func() cty.Value { return args[0].Negate() })
	case "add":
		wrapper(func() cty.Value { return args[0].Add(args[1]) })
	case "sub":
		wrapper(func() cty.Value { return args[0].Subtract(args[1]) })
	case "mul":
		wrapper(func() cty.Value { return args[0].Multiply(args[1]) })
	case "div":
		wrapper(func() cty.Value { return args[0].Divide(args[1]) })
	case "mod":
		wrapper(func() cty.Value { return args[0].Modulo(args[1]) })
	case "lt", "gt", "le", "ge":
		if class != "ok" || res.Type() != cty.Bool || !res.IsKnown() || res.IsNull() {
			fail(fn.name+"-not-bool", "comparison of known numbers did not give a known bool")
			return
		}
		c := args[0].AsBigFloat().Cmp(args[1].AsBigFloat())
		// le / ge are "LessThan or Equals" with cty's own number equality (C03 covers where that
		// differs from exact equality for numbers of different precision)
		eq := c == 0 || args[0].Equals(args[1]).True()
		want := map[string]bool{"lt": c < 0, "gt": c > 0, "le": c < 0 || eq, "ge": c > 0 || eq}[fn.name]
		if res.True() != want {
			fail(fn.name+"-wrong", "comparison disagrees with exact comparison")
		}
	case "min", "max":
		if class != "ok" || !okNumber(res) {
			fail(fn.name+"-failed", "min/max of known numbers failed")
			return
		}
		rf := res.AsBigFloat()
		isArg := false
		for _, a := range args {
			c := rf.Cmp(a.AsBigFloat())
			if c == 0 {
				isArg = true
			}
			if (fn.name == "min" && c > 0) || (fn.name == "max" && c < 0) {
				fail(fn.name+"-not-bound", "result does not bound every argument")
				return
			}
		}
		if !isArg {
			fail(fn.name+"-not-an-argument", "result is none of the arguments")
		}
	case "ceil", "floor", "int":
		if class == "panicerr" {
			if x.IsInf() {
				fail(fn.name+"-inf-panicerror", "infinity makes the implementation panic (PanicError) instead of returning an error or a value")
			} else {
				fail(fn.name+"-panicerror", "PanicError on a finite number")
			}
			return
		}
		if x.IsInf() {
			if fn.name == "int" {
				// documented domain of int (number.go, Int: "If an infinity is passed to Int, an error is
				// returned"): EVERY infinity is rejected with a plain error (regression signature of fix f991adf)
				if class != "err" {
					fail("int-inf-not-rejected", "int of an infinity did not return the documented error")
				}
				return
			}
			// ±inf is a fixed point of ceil and floor
			if class != "ok" || !okNumber(res) || res.AsBigFloat().Cmp(x) != 0 {
				fail(fn.name+"-inf-not-fixed", "ceil/floor of an infinity is not that infinity")
			}
			return
		}
		if class != "ok" || !okNumber(res) || res.AsBigFloat().IsInf() {
			fail(fn.name+"-failed", "failed on a finite number")
			return
		}
		rr, _ := res.AsBigFloat().Rat(nil)
		if !rr.IsInt() {
			fail(fn.name+"-not-integer", "result is not a whole number")
			return
		}
		one := big.NewRat(1, 1)
		switch fn.name {
		case "ceil": // r-1 < x <= r
			if !(rx.Cmp(rr) <= 0 && new(big.Rat).Sub(rr, one).Cmp(rx) < 0) {
				fail("ceil-wrong", "not the smallest whole number >= x")
			}
		case "floor": // r <= x < r+1
			if !(rr.Cmp(rx) <= 0 && rx.Cmp(new(big.Rat).Add(rr, one)) < 0) {
				fail("floor-wrong", "not the greatest whole number <= x")
			}
		case "int": // truncation toward zero
			ax, ar := new(big.Rat).Abs(rx), new(big.Rat).Abs(rr)
			if !(ar.Cmp(ax) <= 0 && new(big.Rat).Sub(ax, ar).Cmp(one) < 0 && (rr.Sign() == 0 || rr.Sign() == rx.Sign())) {
				fail("int-wrong", "not the truncation toward zero")
			}
			if rx.IsInt() && !res.RawEquals(args[0]) {
				fail("int-not-identity", "int is not the identity on a whole number")
			}
		}
	case "signum":
		want := int64(x.Sign())
		if class != "ok" {
			// the documented function is total on numbers: 0, 1 or -1 by sign (regression signature of fix 3f9a6a5)
			fail("signum-converts-to-int-first", "signum fails on a number (fractions, numbers outside int64 and infinities have a sign too)")
			return
		}
		if !okNumber(res) {
			fail("signum-type", "result is not a known number")
			return
		}
		got, acc := res.AsBigFloat().Int64()
		if acc != big.Exact || got != want {
			fail("signum-wrong", "result is not the sign of the argument")
		}
	}
}

func runC14Numbers(ctx *Ctx) {
	n := ctx.N(500, 12000)
	for _, fn := range c14NumFns {
		for i := 0; i < n; i++ {
			var args []cty.Value
			switch fn.arity {
			case -1:
				k := 1 + ctx.R.Intn(4)
				for j := 0; j < k; j++ {
					args = append(args, genC14Num(ctx))
				}
			default:
				for j := 0; j < fn.arity; j++ {
					args = append(args, genC14Num(ctx))
				}
			}
			if i == 0 && fn.name == "signum" {
				args = []cty.Value{cty.NumberFloatVal(0.5)} // corpus: witness of the signum defect repaired by 3f9a6a5, must pass
			}
			if i < 3 && fn.name == "int" {
				// corpus: int of an infinity (e69819b: no panic; f991adf: the documented error for EVERY infinity,
				// the package-level values and an infinity held by another big.Float alike), must pass
				args = []cty.Value{[]cty.Value{cty.PositiveInfinity, cty.NegativeInfinity,
					cty.NumberVal(new(big.Float).SetInf(true))}[i]}
			}
			out, res, class := stdOut(fn.f, args)
			ctx.Add("std.num", out, fn.name, wireArgs(args))
			ctx.Tag("fn:" + fn.name)
			ctx.Tag("class:" + fn.name + ":" + class)
			ctx.Eval(fn.name+" "+wireArgs(args), true)
			judgeNum(ctx, fn, args, class, res)
		}
	}
	// min/max with no arguments: documented error
	for _, fn := range []c14NumFn{c14NumFns[11], c14NumFns[12]} {
		out, _, class := stdOut(fn.f, nil)
		ctx.Add("std.num", out, fn.name, "()")
		if class != "err" {
			c14Fail(ctx, fn.name, fn.name+"-empty", "min/max without arguments must be an error", fn.goNm, nil, class)
		}
	}
	runC14Logic(ctx)
	runC14ParseInt(ctx)
	runC14LogPow(ctx)
	runC14Bytes(ctx)
}

// ---- bool.go / general.go ---------------------------------------------------

func runC14Logic(ctx *Ctx) {
	bs := []cty.Value{cty.True, cty.False}
	for _, a := range bs {
		out, res, class := stdOut(stdlib.NotFunc, []cty.Value{a})
		ctx.Add("std.num", out, "not", wireArgs([]cty.Value{a}))
		ctx.Eval("not "+encVal(a), true)
		if class != "ok" || !res.RawEquals(cty.BoolVal(!a.True())) {
			c14Fail(ctx, "logic", "not", "truth table", "Not", []cty.Value{a}, out)
		}
		for _, b := range bs {
			args := []cty.Value{a, b}
			out, res, class = stdOut(stdlib.AndFunc, args)
			ctx.Add("std.num", out, "and", wireArgs(args))
			if class != "ok" || !res.RawEquals(cty.BoolVal(a.True() && b.True())) {
				c14Fail(ctx, "logic", "and", "truth table", "And", args, out)
			}
			out, res, class = stdOut(stdlib.OrFunc, args)
			ctx.Add("std.num", out, "or", wireArgs(args))
			if class != "ok" || !res.RawEquals(cty.BoolVal(a.True() || b.True())) {
				c14Fail(ctx, "logic", "or", "truth table", "Or", args, out)
			}
			ctx.Eval("andor "+wireArgs(args), true)
		}
	}
	// equal / notequal / coalesce on primitives of one type
	n := ctx.N(600, 10000)
	genPrim := func(k int) cty.Value {
		switch k {
		case 0:
			return genNumber(ctx.R, ValOpts{Small: true})
		case 1:
			return cty.StringVal(genString(ctx.R))
		default:
			return cty.BoolVal(ctx.R.Intn(2) == 0)
		}
	}
	primTy := []cty.Type{cty.Number, cty.String, cty.Bool}
	for i := 0; i < n; i++ {
		k := ctx.R.Intn(3)
		a, b := genPrim(k), genPrim(ctx.R.Intn(3))
		if ctx.R.Intn(3) != 0 {
			b = genPrim(k)
		}
		if ctx.R.Intn(8) == 0 {
			b = a
		}
		args := []cty.Value{a, b}
		for _, e := range []struct {
			nm, goNm string
			f        function.Function
			neg      bool
		}{{"equal", "Equal", stdlib.EqualFunc, false}, {"notequal", "NotEqual", stdlib.NotEqualFunc, true}} {
			out, res, class := stdOut(e.f, args)
			ctx.Add("std.num", out, e.nm, wireArgs(args))
			ctx.Eval(e.nm+" "+wireArgs(args), true)
			var want cty.Value
			p, _ := try(func() { want = a.Equals(b) })
			if p || class != "ok" {
				c14Fail(ctx, e.nm, e.nm+"-failed", "equality of known primitives failed", e.goNm, args, out)
				continue
			}
			if e.neg {
				want = want.Not()
			}
			if !res.RawEquals(want) {
				c14Fail(ctx, e.nm, e.nm+"-differs-from-operation", "differs from Value.Equals", e.goNm, args, out)
			}
		}
		// coalesce over same-typed arguments with nulls
		cnt := 1 + ctx.R.Intn(4)
		cargs := make([]cty.Value, cnt)
		var first *cty.Value
		for j := range cargs {
			if ctx.R.Intn(2) == 0 {
				cargs[j] = cty.NullVal(primTy[k])
			} else {
				cargs[j] = genPrim(k)
				if first == nil {
					v := cargs[j]
					first = &v
				}
			}
		}
		out, res, class := stdOut(stdlib.CoalesceFunc, cargs)
		ctx.Add("std.num", out, "coalesce", wireArgs(cargs))
		ctx.Eval("coalesce "+wireArgs(cargs), true)
		switch {
		case first == nil && class != "err":
			c14Fail(ctx, "coalesce", "coalesce-all-null", "all-null arguments must be an error", "Coalesce", cargs, out)
		case first != nil && (class != "ok" || !res.RawEquals(*first)):
			c14Fail(ctx, "coalesce", "coalesce-wrong", "result is not the first non-null argument", "Coalesce", cargs, out)
		}
	}
}

// ---- parseint -----------------------------------------------------------------

const digitAlphabet = "0123456789abcdefghijklmnopqrstuvwxyzABCDEFGHIJKLMNOPQRSTUVWXYZ"

// refParseInt is the harness's own reading of the documented function: an optional
// sign followed by one or more digits of the base (letters case-insensitive up to
// base 36; lower case = 10..35 and upper case = 36..61 above).
func refParseInt(s string, base int) (*big.Int, bool) {
	neg := false
	if len(s) > 0 && (s[0] == '-' || s[0] == '+') {
		neg = s[0] == '-'
		s = s[1:]
	}
	if len(s) == 0 {
		return nil, false
	}
	v := new(big.Int)
	b := big.NewInt(int64(base))
	for i := 0; i < len(s); i++ {
		c := s[i]
		d := -1
		switch {
		case c >= '0' && c <= '9':
			d = int(c - '0')
		case c >= 'a' && c <= 'z':
			d = int(c-'a') + 10
		case c >= 'A' && c <= 'Z':
			if base <= 36 {
				d = int(c-'A') + 10
			} else {
				d = int(c-'A') + 36
			}
		}
		if d < 0 || d >= base {
			return nil, false
		}
		v.Mul(v, b).Add(v, big.NewInt(int64(d)))
	}
	if neg {
		v.Neg(v)
	}
	return v, true
}

func runC14ParseInt(ctx *Ctx) {
	r := ctx.R
	n := ctx.N(4000, 80000)
	junk := []string{"_", " ", ".", "é", "x", "-", "+", "0x", "\n", "१"}
	for i := 0; i < n; i++ {
		base := 2 + r.Intn(61)
		var baseV cty.Value = cty.NumberIntVal(int64(base))
		switch r.Intn(25) {
		case 0:
			bad := []cty.Value{cty.NumberIntVal(0), cty.NumberIntVal(1), cty.NumberIntVal(63), cty.NumberIntVal(-2), cty.NumberFloatVal(2.5),
				cty.PositiveInfinity, cty.MustParseNumberVal("1e30")}
			baseV = bad[r.Intn(len(bad))]
		}
		var sb strings.Builder
		switch r.Intn(6) {
		case 0:
			sb.WriteByte('-')
		case 1:
			sb.WriteByte('+')
		}
		k := r.Intn(7)
		if r.Intn(10) == 0 {
			k = 20 + r.Intn(60)
		}
		for j := 0; j < k; j++ {
			switch r.Intn(12) {
			case 0:
				sb.WriteByte(digitAlphabet[r.Intn(62)]) // any digit character, possibly >= base
			case 1:
				if r.Intn(4) == 0 {
					sb.WriteString(junk[r.Intn(len(junk))])
				} else {
					sb.WriteByte(digitAlphabet[r.Intn(base)])
				}
			default:
				sb.WriteByte(digitAlphabet[r.Intn(base)])
			}
		}
		s := sb.String()
		args := []cty.Value{cty.StringVal(s), baseV}
		out, res, class := stdOut(stdlib.ParseIntFunc, args)
		ctx.Add("std.num", out, "parseint", wireArgs(args))
		ctx.Tag("class:parseint:" + class)
		ctx.Eval("parseint "+wireArgs(args), true)
		// the digit scanner on its own
		if bi, acc := baseV.AsBigFloat().Int64(); acc == big.Exact && bi >= 2 && bi <= 62 {
			z, ok := new(big.Int).SetString(cty.StringVal(s).AsString(), int(bi))
			impl := "none"
			if ok {
				impl = z.String()
			}
			ctx.Add("std.setstring", impl, encStr(cty.StringVal(s).AsString()), fmt.Sprint(bi))
		}
		fail := func(sig, what string) { c14Fail(ctx, "parseint", sig, what, "ParseInt", args, out) }
		if class == "panic" || class == "panicerr" {
			fail("parseint-panic", "parseint panicked")
			continue
		}
		bf := baseV.AsBigFloat()
		bi, acc := bf.Int64()
		validBase := !bf.IsInf() && acc == big.Exact && bi >= 2 && bi <= 62
		if !validBase {
			if class != "err" {
				fail("parseint-bad-base-accepted", "a base outside 2..62 was accepted")
			}
			continue
		}
		want, ok := refParseInt(cty.StringVal(s).AsString(), int(bi))
		switch {
		case ok && class != "ok":
			fail("parseint-rejects-digits", "a well-formed digit string was rejected")
		case !ok && class == "ok":
			fail("parseint-accepts-non-digits", "a string that is not sign+digits of the base was accepted")
		case ok:
			if !okNumber(res) {
				fail("parseint-type", "result is not a known number")
				continue
			}
			got, a2 := res.AsBigFloat().Int(nil)
			if a2 != big.Exact || got.Cmp(want) != 0 {
				fail("parseint-wrong-value", "value differs from the digits' value "+want.String())
			}
		}
	}
}

// ---- log / pow ----------------------------------------------------------------

func f64Wire(f float64) string {
	if math.IsNaN(f) {
		return "nan"
	}
	return cty.VerifNumWire(new(big.Float).SetFloat64(f))
}

func runC14LogPow(ctx *Ctx) {
	r := ctx.R
	n := ctx.N(1500, 30000)
	small := []float64{0, 1, -1, 2, 10, 0.5, -0.5, 3, 100, 1e-3, math.E, -2, 1024}
	genArg := func() cty.Value {
		switch r.Intn(6) {
		case 0, 1, 2:
			return cty.NumberFloatVal(small[r.Intn(len(small))])
		case 3:
			return cty.NumberIntVal(int64(r.Intn(50) - 10))
		}
		return genC14Num(ctx)
	}
	for i := 0; i < n; i++ {
		args := []cty.Value{genArg(), genArg()}
		for _, e := range []struct {
			nm, goNm string
			f        function.Function
			ref      func(a, b float64) float64
		}{{"log", "Log", stdlib.LogFunc, func(a, b float64) float64 { return math.Log(a) / math.Log(b) }},
			{"pow", "Pow", stdlib.PowFunc, math.Pow}} {
			out, res, class := stdOut(e.f, args)
			fa, _ := args[0].AsBigFloat().Float64()
			fb, _ := args[1].AsBigFloat().Float64()
			ref := e.ref(fa, fb)
			ctx.Add("std."+e.nm, out, wireArgs(args), f64Wire(ref))
			c14DomCase(ctx, e.nm, args, class, fa, fb)
			ctx.Tag("class:" + e.nm + ":" + class)
			ctx.Eval(e.nm+" "+wireArgs(args), true)
			fail := func(sig, what string) { c14Fail(ctx, e.nm, sig, what, e.goNm, args, out) }
			// arguments outside float64 (inexact infinity) are outside the domain
			_, accA := args[0].AsBigFloat().Float64()
			_, accB := args[1].AsBigFloat().Float64()
			outside := (math.IsInf(fa, 0) && accA != big.Exact) || (math.IsInf(fb, 0) && accB != big.Exact)
			switch {
			case class == "panic":
				fail(e.nm+"-go-panic", "Go panic escaped")
			case class == "panicerr":
				if math.IsNaN(ref) {
					fail(e.nm+"-nan-panicerror", "the float64 reference result is NaN and the implementation panics inside Impl (PanicError) instead of returning an error")
				} else {
					fail(e.nm+"-panicerror", "PanicError although the reference result is a number")
				}
			case outside:
				if class != "err" {
					fail(e.nm+"-outside-float64", "argument outside float64 was not rejected")
				}
			case math.IsNaN(ref):
				if class != "err" {
					fail(e.nm+"-nan-value", "NaN reference but a value came back")
				}
			case class != "ok" || !okNumber(res):
				fail(e.nm+"-failed", "failed although the float64 reference result is a number")
			default:
				got, _ := res.AsBigFloat().Float64()
				if got != ref || math.Signbit(got) != math.Signbit(ref) {
					fail(e.nm+"-wrong", fmt.Sprintf("differs from the float64 reference %v", ref))
				}
			}
		}
	}
}

// ---- bytes.go -------------------------------------------------------------------

func runC14Bytes(ctx *Ctx) {
	r := ctx.R
	n := ctx.N(800, 10000)
	for i := 0; i < n; i++ {
		buf := []byte(strings.Repeat("ab", r.Intn(4)))[0:]
		if len(buf) > 0 && r.Intn(2) == 0 {
			buf = buf[:len(buf)-1]
		}
		if buf == nil {
			buf = []byte{}
		}
		if i == 0 {
			buf = []byte("a") // corpus: witness of the offset+length overflow repaired by c7a738f
		}
		genI := func() cty.Value {
			if i == 0 {
				return cty.NilVal
			}
			switch r.Intn(10) {
			case 0:
				return cty.NumberIntVal(math.MaxInt64 - int64(r.Intn(2)))
			case 1:
				return cty.NumberIntVal(-int64(r.Intn(3)) - 1)
			case 2:
				return cty.NumberFloatVal(0.5)
			}
			return cty.NumberIntVal(int64(r.Intn(8)))
		}
		off, ln := genI(), genI()
		if i == 0 {
			off, ln = cty.NumberIntVal(1), cty.NumberIntVal(math.MaxInt64)
		}
		bv := stdlib.BytesVal(buf)
		out, lres, lclass := stdOut(stdlib.BytesLenFunc, []cty.Value{bv})
		if lclass != "ok" || !lres.RawEquals(cty.NumberIntVal(int64(len(buf)))) {
			ctx.Fail(Failure{Site: "byteslen", Sig: "byteslen-wrong", What: "byteslen is not the buffer length", Input: fmt.Sprint(len(buf)), GoLit: fmt.Sprintf("stdlib.BytesLen(stdlib.BytesVal(make([]byte,%d)))", len(buf)), Outcome: out})
		}
		var res cty.Value
		var err error
		p, _ := try(func() { res, err = stdlib.BytesSliceFunc.Call([]cty.Value{bv, off, ln}) })
		impl := ""
		switch {
		case p:
			impl = "panic"
		case err != nil:
			if _, ok := err.(function.PanicError); ok {
				impl = "panicerr"
			} else {
				impl = "err"
			}
		default:
			got := *(res.EncapsulatedValue().(*[]byte))
			// locate the sub-slice by its length and capacity
			o := cap(buf) - cap(got)
			impl = fmt.Sprintf("ok %d %d", o, o+len(got))
		}
		ctx.Add("std.bslice", impl, fmt.Sprint(len(buf)), encVal(off), encVal(ln))
		key := fmt.Sprintf("bslice %d %s %s", len(buf), encVal(off), encVal(ln))
		ctx.Eval(key, true)
		lit := fmt.Sprintf("stdlib.BytesSlice(stdlib.BytesVal(make([]byte,%d)), %s, %s)", len(buf), off.GoString(), ln.GoString())
		oi, oacc := off.AsBigFloat().Int64()
		li, lacc := ln.AsBigFloat().Int64()
		inDomain := oacc == big.Exact && lacc == big.Exact && oi >= 0 && li >= 0 && oi <= int64(len(buf)) && li <= int64(len(buf))-oi
		switch {
		case impl == "panic" || impl == "panicerr":
			sig := "byteslice-panic"
			if oacc == big.Exact && lacc == big.Exact && oi > 0 && li > math.MaxInt64-oi {
				sig = "byteslice-offset-plus-length-overflow" // regression of fix c7a738f
			}
			ctx.Fail(Failure{Site: "byteslice", Sig: sig, What: "the slice request panics inside Impl (PanicError) instead of the documented range error", Input: key, GoLit: lit, Outcome: impl})
		case inDomain && impl != fmt.Sprintf("ok %d %d", oi, oi+li):
			ctx.Fail(Failure{Site: "byteslice", Sig: "byteslice-wrong", What: "in-range slice request failed or returned the wrong range", Input: key, GoLit: lit, Outcome: impl})
		case !inDomain && impl != "err":
			ctx.Fail(Failure{Site: "byteslice", Sig: "byteslice-accepts-out-of-range", What: "out-of-range slice request accepted", Input: key, GoLit: lit, Outcome: impl})
		}
	}
}

func runC14(ctx *Ctx) {
	runC14Numbers(ctx)
	runC14Strings(ctx)
	runC14Format(ctx)
	runC14Json(ctx)
	runC14D14b(ctx)
}
