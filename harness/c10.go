package main

// C10 — the function-call protocol (cty/function/function.go).
//
// Every case builds a REAL function.New(&function.Spec{…}) whose Type, Impl and
// RefineResult callbacks are spies with a behaviour chosen from a menu, calls
// Call / ReturnTypeForValues / ReturnType (and, in c10b.go, Proxy / Params /
// VarParam / WithNewDescriptions) on it, and
//   (a) adds a correspondence case against the Lean model (ops fn.call, fn.rtfv,
//       fn.rt, fn.proxy, fn.params, fn.redesc: outcome + trace of callback
//       invocations with the arguments seen);
//   (b) evaluates the property's predicates directly on what the real spies saw
//       and on the real result.

import (
	"errors"
	"fmt"
	"strings"

	"github.com/zclconf/go-cty/cty"
	"github.com/zclconf/go-cty/cty/function"
)

func init() {
	register("C10", "real function.Spec objects with spy callbacks; small scope enumerated: every combination of the four Allow* flags on 0-2 "+
		"positional parameters with/without a variadic one x argument lists over seven argument classes (conforming, non-conforming, null, "+
		"unknown, DynamicVal, deep-marked, marked unknown), parameter types from {string, list(number), dynamic, object{a:string}}, and the "+
		"callback-behaviour product (Type: returns T/fails/panics; Impl: returns conforming/non-conforming/null/unknown value, fails, panics; "+
		"RefineResult: none/NotNull/panics); plus random specs with generated types/values. non-trivial = at least one argument and at least one "+
		"Allow* flag set; distinct = distinct canonical wire strings of (spec, callbacks, arguments)", runC10)
}

type c10Param struct {
	ty         cty.Type
	n, u, d, m bool // AllowNull, AllowUnknown, AllowDynamicType, AllowMarked
}

type c10Case struct {
	params  []c10Param
	vp      *c10Param
	refine  string // none | notnull | panics
	tf      string // ok | err | panic
	tfTy    cty.Type
	impl    string // ok | err | panic
	implVal cty.Value
	args    []cty.Value
	how     string
}

var errC10Spy = errors.New("spy callback error")

var c10ExtraTick int

func (p c10Param) wire() string {
	return fmt.Sprintf("(%s %s %s %s %s)", encTy(p.ty), encBool(p.n), encBool(p.u), encBool(p.d), encBool(p.m))
}

func (p c10Param) real() function.Parameter {
	return function.Parameter{Name: "p", Type: p.ty, AllowNull: p.n, AllowUnknown: p.u, AllowDynamicType: p.d, AllowMarked: p.m}
}

func (p c10Param) goLit() string {
	return fmt.Sprintf("{Type: %#v, AllowNull: %v, AllowUnknown: %v, AllowDynamicType: %v, AllowMarked: %v}", p.ty, p.n, p.u, p.d, p.m)
}

func c10Vals(vs []cty.Value) string {
	ws := make([]string, len(vs))
	for i, v := range vs {
		ws[i] = encVal(v)
	}
	return "(" + strings.Join(ws, " ") + ")"
}

func c10GoVals(vs []cty.Value) string {
	var s string
	try(func() { s = fmt.Sprintf("%#v", vs) })
	if s == "" {
		s = c10Vals(vs)
	}
	return s
}

func (c *c10Case) paramFor(i int) *c10Param {
	if i < len(c.params) {
		return &c.params[i]
	}
	return c.vp
}

// isOffender: argument a in position i breaks a rule the protocol answers with an ArgError
// (null without AllowNull, or a type that does not conform to the parameter's).
func (c *c10Case) isOffender(i int, a cty.Value) bool {
	p := c.paramFor(i)
	if p == nil {
		return false
	}
	if a.IsNull() && !p.n {
		return true
	}
	return a.Type() != cty.DynamicPseudoType && !c10Conforms(a.Type(), p.ty)
}

// checkArgErr judges the index of an ArgError returned for the argument list as.
func (c *c10Case) checkArgErr(ctx *Ctx, entry string, err error, as []cty.Value, key string) {
	ae, ok := err.(function.ArgError)
	if !ok {
		return
	}
	first := -1
	for i, a := range as {
		if c.isOffender(i, a) {
			first = i
			break
		}
	}
	switch {
	case ae.Index < 0 || ae.Index >= len(as):
		ctx.Fail(Failure{Site: "argerror-names-offender", Sig: "argerror-index-out-of-range", What: entry + ": ArgError.Index is not an argument position", Input: key, GoLit: c.goLit(), Outcome: fmt.Sprintf("argerr %d", ae.Index)})
	case !c.isOffender(ae.Index, as[ae.Index]):
		sig := "argerror-names-innocent-arg"
		if c.vp != nil && first >= len(c.params) && ae.Index == first-len(c.params) {
			// the defect repaired by /repo 1f09d73 (index relative to the variadic tail)
			sig = "variadic-nonconforming-index-relative-to-tail"
		}
		ctx.Fail(Failure{Site: "argerror-names-offender", Sig: sig, What: entry + ": ArgError.Index names an argument that is neither null-without-AllowNull nor non-conforming",
			Input: key, GoLit: c.goLit(), Outcome: fmt.Sprintf("argerr %d; first offending argument is %d", ae.Index, first)})
	}
}

func (c *c10Case) specWire() []string {
	ps := make([]string, len(c.params))
	for i, p := range c.params {
		ps[i] = p.wire()
	}
	vp := "-"
	if c.vp != nil {
		vp = c.vp.wire()
	}
	tf := c.tf
	if tf == "ok" {
		tf = "(ok " + encTy(c.tfTy) + ")"
	}
	return []string{"(" + strings.Join(ps, " ") + ")", vp, c.refine, tf}
}

func (c *c10Case) implWire() string {
	if c.impl == "ok" {
		return "(ok " + encVal(c.implVal) + ")"
	}
	return c.impl
}

func (c *c10Case) goLit() string {
	var sb strings.Builder
	sb.WriteString("function.New(&function.Spec{Params: []function.Parameter{")
	for i, p := range c.params {
		if i > 0 {
			sb.WriteString(", ")
		}
		sb.WriteString(p.goLit())
	}
	sb.WriteString("}")
	if c.vp != nil {
		sb.WriteString(", VarParam: &function.Parameter" + c.vp.goLit())
	}
	switch c.tf {
	case "ok":
		fmt.Fprintf(&sb, ", Type: function.StaticReturnType(%#v)", c.tfTy)
	case "err":
		sb.WriteString(", Type: func([]cty.Value) (cty.Type, error) { return cty.NilType, errors.New(\"spy\") }")
	default:
		sb.WriteString(", Type: func([]cty.Value) (cty.Type, error) { panic(\"spy\") }")
	}
	switch c.impl {
	case "ok":
		var v string
		try(func() { v = c.implVal.GoString() })
		fmt.Fprintf(&sb, ", Impl: func([]cty.Value, cty.Type) (cty.Value, error) { return %s, nil }", v)
	case "err":
		sb.WriteString(", Impl: func([]cty.Value, cty.Type) (cty.Value, error) { return cty.NilVal, errors.New(\"spy\") }")
	default:
		sb.WriteString(", Impl: func([]cty.Value, cty.Type) (cty.Value, error) { panic(\"spy\") }")
	}
	switch c.refine {
	case "notnull":
		sb.WriteString(", RefineResult: func(b *cty.RefinementBuilder) *cty.RefinementBuilder { return b.NotNull() }")
	case "panics":
		sb.WriteString(", RefineResult: func(b *cty.RefinementBuilder) *cty.RefinementBuilder { panic(\"spy\") }")
	}
	sb.WriteString("}).Call(" + c10GoVals(c.args) + ")")
	return sb.String()
}

// c10Obs is what one real call showed.
type c10Obs struct {
	events     []string
	typeSeen   [][]cty.Value
	implSeen   [][]cty.Value
	implRT     []cty.Type
	refineSeen int
	order      []byte // 'T', 'I', 'R'
}

func (c *c10Case) build(o *c10Obs) function.Function {
	spec := &function.Spec{}
	for _, p := range c.params {
		spec.Params = append(spec.Params, p.real())
	}
	if c.vp != nil {
		vp := c.vp.real()
		spec.VarParam = &vp
	}
	spec.Type = func(args []cty.Value) (cty.Type, error) {
		cp := append([]cty.Value(nil), args...)
		o.typeSeen = append(o.typeSeen, cp)
		o.order = append(o.order, 'T')
		o.events = append(o.events, "(type "+c10Vals(cp)+")")
		switch c.tf {
		case "ok":
			return c.tfTy, nil
		case "err":
			return cty.NilType, errC10Spy
		}
		panic("spy type callback panic")
	}
	spec.Impl = func(args []cty.Value, rt cty.Type) (cty.Value, error) {
		cp := append([]cty.Value(nil), args...)
		o.implSeen = append(o.implSeen, cp)
		o.implRT = append(o.implRT, rt)
		o.order = append(o.order, 'I')
		o.events = append(o.events, "(impl "+c10Vals(cp)+" "+encTy(rt)+")")
		switch c.impl {
		case "ok":
			return c.implVal, nil
		case "err":
			return cty.NilVal, errC10Spy
		}
		panic("spy impl callback panic")
	}
	switch c.refine {
	case "notnull":
		spec.RefineResult = func(b *cty.RefinementBuilder) *cty.RefinementBuilder {
			o.refineSeen++
			o.order = append(o.order, 'R')
			o.events = append(o.events, "(refine)")
			return b.NotNull()
		}
	case "panics":
		spec.RefineResult = func(b *cty.RefinementBuilder) *cty.RefinementBuilder {
			o.refineSeen++
			o.order = append(o.order, 'R')
			o.events = append(o.events, "(refine)")
			panic("spy refine callback panic")
		}
	}
	return function.New(spec)
}

func c10Outcome(panicked bool, err error, okStr string) string {
	switch {
	case panicked:
		return "panic"
	case err != nil:
		switch e := err.(type) {
		case function.ArgError:
			return fmt.Sprintf("argerr %d", e.Index)
		case function.PanicError:
			return "panicerr"
		default:
			if err == errC10Spy {
				return "cberr"
			}
			return "err"
		}
	}
	return "ok " + okStr
}

func c10Answer(outcome string, o *c10Obs) string {
	s := outcome + " |"
	for _, e := range o.events {
		s += " " + e
	}
	return s
}

func c10SameModuloMarks(a, b cty.Value) bool {
	ua, _ := a.UnmarkDeep()
	ub, _ := b.UnmarkDeep()
	return ua.RawEquals(ub)
}

func c10Conforms(given, want cty.Type) bool { return len(given.TestConformance(want)) == 0 }

// c10Run executes one case against the real code, records the correspondence
// cases and evaluates the predicates.
func c10Run(ctx *Ctx, c *c10Case, alsoRT bool) {
	sw := c.specWire()
	argsW := c10Vals(c.args)
	key := strings.Join(sw, " ") + " " + c.implWire() + " " + argsW
	ctx.Tag("how:" + c.how)

	// ---- Call
	var o c10Obs
	f := c.build(&o)
	var val cty.Value
	var err error
	panicked, why := try(func() { val, err = f.Call(c.args) })
	okStr := ""
	if !panicked && err == nil {
		okStr = encVal(val)
	}
	outcome := c10Outcome(panicked, err, okStr)
	ctx.Add("fn.call", c10Answer(outcome, &o), sw[0], sw[1], sw[2], sw[3], c.implWire(), argsW)
	ctx.Tag("outcome:" + strings.SplitN(outcome, " ", 2)[0])

	// ---- Proxy / Params / VarParam / WithNewDescriptions (c10b.go), on every 5th of the cases below
	if alsoRT {
		c10ExtraTick++
		if c10ExtraTick%5 == 0 || c.how == "regression" {
			c10Extras(ctx, c, sw, argsW, key, c10Answer(outcome, &o))
		}
	}

	// ---- ReturnTypeForValues / ReturnType (correspondence + no escaping panic)
	if alsoRT {
		var o2 c10Obs
		f2 := c.build(&o2)
		var ty cty.Type
		var err2 error
		p2, why2 := try(func() { ty, err2 = f2.ReturnTypeForValues(c.args) })
		s := ""
		if !p2 && err2 == nil {
			s = encTy(ty)
		}
		ctx.Add("fn.rtfv", c10Answer(c10Outcome(p2, err2, s), &o2), sw[0], sw[1], sw[2], sw[3], argsW)
		if !p2 {
			c.checkArgErr(ctx, "ReturnTypeForValues", err2, c.args, key)
		}
		if p2 {
			ctx.Fail(Failure{Site: "panics-become-errors", Sig: "rtfv-go-panic", What: "ReturnTypeForValues let a Go panic escape", Input: key, GoLit: c.goLit(), Outcome: why2})
		}
		if len(o2.implSeen) > 0 || o2.refineSeen > 0 {
			ctx.Fail(Failure{Site: "impl-only-after-type", Sig: "rtfv-ran-impl", What: "ReturnTypeForValues invoked Impl or RefineResult", Input: key, GoLit: c.goLit(), Outcome: string(o2.order)})
		}
		var o3 c10Obs
		f3 := c.build(&o3)
		tys := make([]cty.Type, len(c.args))
		tw := make([]string, len(c.args))
		for i, a := range c.args {
			tys[i] = a.Type()
			tw[i] = encTy(tys[i])
		}
		p3, why3 := try(func() { ty, err2 = f3.ReturnType(tys) })
		s = ""
		if !p3 && err2 == nil {
			s = encTy(ty)
		}
		ctx.Add("fn.rt", c10Answer(c10Outcome(p3, err2, s), &o3), sw[0], sw[1], sw[2], sw[3], "("+strings.Join(tw, " ")+")")
		if !p3 {
			unk := make([]cty.Value, len(tys))
			for i, t := range tys {
				unk[i] = cty.UnknownVal(t)
			}
			c.checkArgErr(ctx, "ReturnType", err2, unk, key)
		}
		if p3 {
			ctx.Fail(Failure{Site: "panics-become-errors", Sig: "rt-go-panic", What: "ReturnType let a Go panic escape", Input: key, GoLit: c.goLit(), Outcome: why3})
		}
	}

	// ---- predicates on the real observations
	fail := func(site, sig, what, outc string) {
		ctx.Fail(Failure{Site: site, Sig: sig, What: what, Input: key, GoLit: c.goLit(), Outcome: outc})
	}
	nArgs := len(c.args)
	countOK := nArgs == len(c.params) || (c.vp != nil && nArgs > len(c.params))
	implRan := len(o.implSeen) > 0
	typeRan := len(o.typeSeen) > 0
	if len(o.typeSeen) > 1 || len(o.implSeen) > 1 || o.refineSeen > 1 {
		fail("impl-only-after-type", "callback-ran-twice", "a callback was invoked more than once by one Call", string(o.order))
	}
	// checked return type: what the Type callback answered, or the placeholder when it was never asked
	checked := cty.DynamicPseudoType
	if typeRan && c.tf == "ok" {
		checked = c.tfTy
	}

	// per-argument classification by the declared contract (only meaningful when the count is right)
	blocks := func(i int) bool {
		p, a := c.paramFor(i), c.args[i]
		return (a.Type() == cty.DynamicPseudoType && !p.d) || (!a.IsKnown() && !p.u)
	}
	// every mark of every argument the function does not handle itself
	unhandled := make(cty.ValueMarks)
	if countOK {
		for i, a := range c.args {
			if !c.paramFor(i).m {
				_, ms := a.UnmarkDeep()
				for m := range ms {
					unhandled[m] = struct{}{}
				}
			}
		}
	}
	carriesMarks := func(v cty.Value) bool {
		have := v.Marks()
		for m := range unhandled {
			if _, ok := have[m]; !ok {
				return false
			}
		}
		return true
	}

	// impl_only_after_type
	if implRan {
		switch {
		case !typeRan || o.order[0] != 'T':
			fail("impl-only-after-type", "impl-without-type", "Impl ran although the Type callback had not been asked first", string(o.order))
		case c.tf != "ok":
			fail("impl-only-after-type", "impl-after-type-rejected", "Impl ran although the Type callback did not accept the arguments", string(o.order))
		case !o.implRT[0].Equals(c.tfTy):
			fail("impl-only-after-type", "impl-rettype", "Impl was given a return type other than the one the Type callback answered", encTy(o.implRT[0]))
		case !countOK || len(o.implSeen[0]) != nArgs || len(o.typeSeen[0]) != nArgs:
			fail("impl-only-after-type", "impl-arg-count", "Impl/Type saw a different number of arguments than Call was given", fmt.Sprint(len(o.implSeen[0])))
		default:
			for i := range c.args {
				if !c10SameModuloMarks(o.implSeen[0][i], o.typeSeen[0][i]) || !c10SameModuloMarks(o.implSeen[0][i], c.args[i]) {
					fail("impl-only-after-type", "impl-different-args", "Impl saw an argument the Type callback did not accept (beyond unmarking)", fmt.Sprintf("index %d: %s", i, encVal(o.implSeen[0][i])))
				}
			}
		}
	}
	// impl_args_satisfy_contract
	if implRan && countOK && len(o.implSeen[0]) == nArgs {
		for i, a := range o.implSeen[0] {
			p := c.paramFor(i)
			flags := fmt.Sprintf("n%v u%v d%v m%v", p.n, p.u, p.d, p.m)
			switch {
			case a.Type() != cty.DynamicPseudoType && !c10Conforms(a.Type(), p.ty):
				fail("impl-args-contract", "nonconforming-arg", "Impl saw an argument not conforming to its parameter type", fmt.Sprintf("index %d %s", i, encVal(a)))
			case a.IsNull() && !p.n:
				fail("impl-args-contract", "null-arg:"+flags, "Impl saw a null argument without AllowNull", fmt.Sprintf("index %d %s", i, encVal(a)))
			case !a.IsKnown() && !p.u:
				fail("impl-args-contract", "unknown-arg:"+flags, "Impl saw an unknown argument without AllowUnknown", fmt.Sprintf("index %d %s", i, encVal(a)))
			case a.Type() == cty.DynamicPseudoType && !p.d:
				fail("impl-args-contract", "dynamic-arg:"+flags, "Impl saw a dynamically-typed argument without AllowDynamicType", fmt.Sprintf("index %d %s", i, encVal(a)))
			case a.ContainsMarked() && !p.m:
				fail("impl-args-contract", "marked-arg:"+flags, "Impl saw a mark (at some depth) without AllowMarked", fmt.Sprintf("index %d %s", i, encVal(a)))
			}
		}
	}

	// type_args_satisfy_contract (marks): the Type callback, too, sees no mark a parameter does not allow
	// (a seeded change let a marked variadic argument through to Type whenever a positional one was marked as well;
	// Impl, unmarked by Call's own pass, then ran on other arguments than the type check had accepted)
	if typeRan && countOK && len(o.typeSeen[0]) == nArgs {
		for i, a := range o.typeSeen[0] {
			if p := c.paramFor(i); a.ContainsMarked() && !p.m {
				fail("type-args-contract", fmt.Sprintf("marked-arg:n%v u%v d%v m%v", p.n, p.u, p.d, p.m), "the Type callback saw a mark (at some depth) without AllowMarked", fmt.Sprintf("index %d %s", i, encVal(a)))
			}
		}
	}

	// outcome classification and the remaining clauses
	kind := strings.SplitN(outcome, " ", 2)[0]
	switch kind {
	case "panic":
		switch {
		case c.refine == "panics" && o.refineSeen > 0:
			// A RefineResult callback that itself panics is outside the property's quantifier (only the
			// Type and Impl callbacks are quantified over as panicking): compared with the model, not judged.
			ctx.Tag("note:refine-callback-panicked")
		case c.refine == "notnull" && o.refineSeen > 0 && c.tf == "ok" && implRan && c.impl == "ok" && c.implVal.IsNull():
			// DESIGN §8 #18 (documented obligation of the function author): a refinement is declared, no
			// callback panicked, and the builder panics because the result contradicts the declaration.
			fail("panics-become-errors", "refine-builder-panic-escapes", "the result violates the declared refinement (NotNull on a null result): the refinement builder's panic escapes Call as a Go panic", why)
		default:
			fail("panics-become-errors", "go-panic", "Call let a Go panic escape", why)
		}
	case "err":
		if countOK {
			fail("outcome-classification", "plain-error-with-right-count", "Call returned an unclassified plain error although the argument count was acceptable", err.Error())
		}
		if implRan || typeRan {
			fail("outcome-classification", "callbacks-ran-on-count-error", "a callback ran although the argument count was wrong", string(o.order))
		}
	case "argerr":
		if !countOK {
			fail("argerror-names-offender", "argerror-on-count", "ArgError for a call with the wrong number of arguments", outcome)
		} else {
			c.checkArgErr(ctx, "Call", err, c.args, key)
		}
		if implRan {
			fail("impl-only-after-type", "impl-ran-on-argerror", "Impl ran although the call returned an ArgError", string(o.order))
		}
	case "cberr":
		if !((typeRan && c.tf == "err") || (implRan && c.impl == "err")) {
			fail("outcome-classification", "spontaneous-callback-error", "the callback error was returned but no callback returned it", string(o.order))
		}
	case "panicerr":
		nonconf := implRan && c.impl == "ok" && c.tf == "ok" && !c10Conforms(c.implVal.Type(), c.tfTy)
		if !((typeRan && c.tf == "panic") || (implRan && c.impl == "panic") || nonconf) {
			fail("outcome-classification", "spontaneous-panicerror", "PanicError although no callback panicked and the result conformed", err.Error()[:minInt(len(err.Error()), 200)])
		}
	case "ok":
		// nonconforming_never_returned
		if !c10Conforms(val.Type(), checked) {
			fail("nonconforming-never-returned", "nonconforming-result", "Call returned a value that does not conform to the checked return type", outcome+" checked "+encTy(checked))
		}
		if !carriesMarks(val) {
			site := "result-carries-marks"
			if !implRan {
				site = "shortcircuit-carries-marks"
			}
			fail(site, "lost-mark", "the result lacks a mark of an argument whose parameter has no AllowMarked", outcome)
		}
		var pre cty.Value // the result before the declared refinement
		if implRan {
			if c.impl != "ok" {
				fail("outcome-classification", "ok-after-impl-failed", "Call succeeded although Impl failed or panicked", outcome)
				break
			}
			pre = c.implVal.WithMarks(unhandled)
		} else {
			// short circuit: must be caused by an unknown / dynamically-typed argument, never spontaneous
			caused := false
			if countOK {
				for i := range c.args {
					if blocks(i) {
						caused = true
					}
				}
			}
			if !caused {
				fail("outcome-classification", "spontaneous-shortcircuit", "Call returned without running Impl although no argument was unknown or dynamically typed without permission", outcome)
			}
			if typeRan && c.tf != "ok" {
				fail("outcome-classification", "ok-after-type-failed", "Call succeeded although the Type callback failed", outcome)
			}
			pre = cty.UnknownVal(checked).WithMarks(unhandled)
			if val.IsKnown() {
				fail("shortcircuit-unknown", "known-shortcircuit", "short-circuit result is not unknown", outcome)
			}
			if !val.Type().Equals(checked) {
				fail("shortcircuit-unknown", "shortcircuit-type", "short-circuit result is not of the checked return type", outcome+" checked "+encTy(checked))
			}
		}
		// refinement_applied: every typed result carries the declared refinement
		want := pre
		typed := pre.IsKnown() || pre.Type() != cty.DynamicPseudoType
		dynShort := !typeRan
		if c.refine == "notnull" && typed && !dynShort {
			var w cty.Value
			if p, _ := try(func() { w = pre.RefineNotNull() }); !p {
				want = w
				u, _ := val.Unmark()
				if u.IsNull() || !u.Range().DefinitelyNotNull() {
					fail("refinement-applied", "notnull-missing", "the declared NotNull refinement is missing from a typed result", outcome)
				}
			}
			if o.refineSeen != 1 {
				fail("refinement-applied", "refine-not-invoked", "RefineResult was not invoked for a typed result", string(o.order))
			}
		}
		if !val.RawEquals(want) {
			// beyond the stated property (the correspondence compares exact results): only counted
			ctx.Tag("note:result-differs-from-reference")
		}
	}
	nontrivial := nArgs >= 1 && countOK
	if nontrivial {
		any := false
		for i := range c.args {
			p := c.paramFor(i)
			any = any || p.n || p.u || p.d || p.m
		}
		nontrivial = any
	}
	ctx.Eval(key, nontrivial)
}

// ---- the enumerated small scope -------------------------------------------

var c10Tys = []cty.Type{cty.String, cty.List(cty.Number), cty.DynamicPseudoType, cty.Object(map[string]cty.Type{"a": cty.String})}

const c10Classes = 7

var c10ClassNames = []string{"conforming", "nonconforming", "null", "unknown", "dynamicval", "deepmarked", "markedunknown"}

// c10ClassVal: the argument of the given class for a parameter of type t.
func c10ClassVal(t cty.Type, class int) cty.Value {
	var conf, nonconf, deep cty.Value
	ct := t // a concrete type conforming to t
	switch {
	case t == cty.String:
		conf, nonconf, deep = cty.StringVal("a"), cty.True, cty.StringVal("a").Mark("m1")
	case t.IsListType():
		conf = cty.ListVal([]cty.Value{cty.NumberIntVal(1), cty.NumberIntVal(2)})
		nonconf = cty.ListVal([]cty.Value{cty.StringVal("x")})
		deep = cty.ListVal([]cty.Value{cty.NumberIntVal(1).Mark("m1"), cty.NumberIntVal(2)})
	case t == cty.DynamicPseudoType:
		ct = cty.Number
		conf, nonconf = cty.StringVal("d"), cty.True // nothing fails to conform to the placeholder
		deep = cty.TupleVal([]cty.Value{cty.StringVal("x").Mark("m1"), cty.True}).Mark("m3")
	default:
		conf = cty.ObjectVal(map[string]cty.Value{"a": cty.StringVal("x")})
		nonconf = cty.ObjectVal(map[string]cty.Value{"a": cty.True})
		deep = cty.ObjectVal(map[string]cty.Value{"a": cty.StringVal("x").Mark("m1")})
	}
	switch class {
	case 0:
		return conf
	case 1:
		return nonconf
	case 2:
		return cty.NullVal(t) // for the placeholder: a null of unknown type
	case 3:
		return cty.UnknownVal(ct)
	case 4:
		return cty.DynamicVal
	case 5:
		return deep
	default:
		if t == cty.DynamicPseudoType {
			return cty.DynamicVal.Mark("m2")
		}
		return cty.UnknownVal(ct).Mark("m2")
	}
}

func c10Flags(bits int, ty cty.Type) c10Param {
	return c10Param{ty: ty, n: bits&1 != 0, u: bits&2 != 0, d: bits&4 != 0, m: bits&8 != 0}
}

// impl return menu relative to the checked type
func c10ImplMenu(t cty.Type) []cty.Value {
	ct := t
	var conf cty.Value
	switch {
	case t == cty.String:
		conf = cty.StringVal("r")
	case t == cty.DynamicPseudoType:
		ct = cty.Bool
		conf = cty.False
	default:
		conf = cty.ListVal([]cty.Value{cty.NumberIntVal(7)})
	}
	nonconf := cty.EmptyObjectVal
	return []cty.Value{conf, nonconf, cty.NullVal(t), cty.UnknownVal(ct), cty.DynamicVal, conf.Mark("r1")}
}

func runC10(ctx *Ctx) {
	defTy := cty.String
	defImpl := cty.StringVal("r")
	pickTy := func() cty.Type { return c10Tys[ctx.R.Intn(len(c10Tys))] }
	cases := 0
	// Regression, runs first — FIXED DEFECT (/repo 1f09d73; DESIGN §8 #10): the ArgError for a
	// non-conforming VARIADIC argument carried the index relative to the variadic tail
	// (Index 1 for argument 2 here; Index 0 for argument 1 through ReturnType).
	{
		sp := c10Param{ty: cty.String}
		vp := c10Param{ty: cty.String}
		c10Run(ctx, &c10Case{params: []c10Param{sp}, vp: &vp, refine: "none", tf: "ok", tfTy: cty.String, impl: "ok", implVal: cty.StringVal("x"),
			args: []cty.Value{cty.StringVal("a"), cty.StringVal("b"), cty.True}, how: "regression"}, true)
		c10Run(ctx, &c10Case{params: []c10Param{sp}, vp: &vp, refine: "none", tf: "ok", tfTy: cty.String, impl: "ok", implVal: cty.StringVal("x"),
			args: []cty.Value{cty.UnknownVal(cty.String), cty.UnknownVal(cty.Bool)}, how: "regression"}, true)
	}
	mk := func(params []c10Param, vp *c10Param, classes []int, how string) *c10Case {
		c := &c10Case{params: params, vp: vp, refine: "none", tf: "ok", tfTy: defTy, impl: "ok", implVal: defImpl, how: how}
		for i, cl := range classes {
			var t cty.Type
			switch {
			case i < len(params):
				t = params[i].ty
			case vp != nil:
				t = vp.ty
			default:
				t = defTy
			}
			c.args = append(c.args, c10ClassVal(t, cl))
		}
		cases++
		return c
	}
	// all argument-class lists of length k
	var lists func(k int) [][]int
	lists = func(k int) [][]int {
		if k == 0 {
			return [][]int{{}}
		}
		var out [][]int
		for _, l := range lists(k - 1) {
			for c := 0; c < c10Classes; c++ {
				out = append(out, append(append([]int(nil), l...), c))
			}
		}
		return out
	}

	// (A) flags x argument classes, default callbacks: np positional parameters (0..2), with and
	//     without a variadic parameter; every flag combination of every parameter; every class
	//     list of every admissible length up to np+2 (np+1 without variadic args is the count
	//     error).  The largest blocks are sampled instead (the scope string says which).
	scope := []string{}
	for np := 0; np <= 2; np++ {
		for _, variadic := range []bool{false, true} {
			var lens []int
			if variadic {
				lens = []int{np, np + 1, np + 2}
			} else {
				lens = []int{np}
			}
			for _, ln := range lens {
				ll := lists(ln)
				nv := ln - np // number of variadic arguments
				varBits := []int{0}
				if variadic {
					if nv == 0 {
						varBits = []int{0, 15} // the variadic parameter's flags cannot matter without variadic arguments
					} else {
						varBits = nil
						for b := 0; b < 16; b++ {
							varBits = append(varBits, b)
						}
					}
				}
				combos := (1 << (4 * np)) * len(varBits)
				total := combos * len(ll)
				sample := 0
				if total > ctx.N(20000, 400000) {
					sample = ctx.N(20000, 400000) / combos
					if sample < 2 {
						sample = 2
					}
				}
				n := 0
				for bits := 0; bits < 1<<(4*np); bits++ {
					for _, vb := range varBits {
						pick := ll
						if sample > 0 {
							pick = nil
							for j := 0; j < sample; j++ {
								pick = append(pick, ll[ctx.R.Intn(len(ll))])
							}
						}
						for _, cl := range pick {
							params := make([]c10Param, np)
							for i := range params {
								params[i] = c10Flags(bits>>(4*i), pickTy())
							}
							var vp *c10Param
							if variadic {
								p := c10Flags(vb, pickTy())
								vp = &p
							}
							c10Run(ctx, mk(params, vp, cl, fmt.Sprintf("enum-p%d-v%v", np, variadic)), n%2 == 0)
							n++
						}
					}
				}
				how := "all"
				if sample > 0 {
					how = fmt.Sprintf("%d sampled per flag combination of the", sample)
				}
				scope = append(scope, fmt.Sprintf("%d positional%s, %d args: %d flag combinations x %s %d class lists",
					np, map[bool]string{false: "", true: "+variadic"}[variadic], ln, combos, how, len(ll)))
			}
			// wrong argument counts
			for _, ln := range []int{np - 1, np + 1} {
				if ln < 0 || (variadic && ln > np) {
					continue
				}
				ll := lists(ln)
				for j := 0; j < 20; j++ {
					params := make([]c10Param, np)
					for i := range params {
						params[i] = c10Flags(ctx.R.Intn(16), pickTy())
					}
					var vp *c10Param
					if variadic {
						p := c10Flags(ctx.R.Intn(16), pickTy())
						vp = &p
					}
					c10Run(ctx, mk(params, vp, ll[ctx.R.Intn(len(ll))], "count"), true)
				}
			}
		}
	}

	// (B) callback-behaviour product on: one parameter (all flags) x one argument (all classes),
	//     and one positional + variadic with two arguments (flags/classes sampled).
	tfMenu := []struct {
		tf string
		ty cty.Type
	}{{"ok", cty.String}, {"ok", cty.DynamicPseudoType}, {"ok", cty.List(cty.Number)}, {"err", cty.NilType}, {"panic", cty.NilType}}
	cb := 0
	for _, tfm := range tfMenu {
		rt := tfm.ty
		if tfm.tf != "ok" {
			rt = cty.String
		}
		type implB struct {
			impl string
			v    cty.Value
		}
		var impls []implB
		for _, v := range c10ImplMenu(rt) {
			impls = append(impls, implB{"ok", v})
		}
		impls = append(impls, implB{"err", cty.NilVal}, implB{"panic", cty.NilVal})
		for _, im := range impls {
			for _, rf := range []string{"none", "notnull", "panics"} {
				apply := func(c *c10Case) {
					c.tf, c.tfTy, c.impl, c.implVal, c.refine = tfm.tf, tfm.ty, im.impl, im.v, rf
					c.how = "callbacks"
					cb++
					c10Run(ctx, c, false)
				}
				// no parameters at all
				apply(mk(nil, nil, nil, ""))
				for bits := 0; bits < 16; bits++ {
					for cl := 0; cl < c10Classes; cl++ {
						apply(mk([]c10Param{c10Flags(bits, pickTy())}, nil, []int{cl}, ""))
					}
				}
				for j := 0; j < ctx.N(40, 2000); j++ {
					p := c10Flags(ctx.R.Intn(16), pickTy())
					v := c10Flags(ctx.R.Intn(16), pickTy())
					apply(mk([]c10Param{p}, &v, []int{ctx.R.Intn(c10Classes), ctx.R.Intn(c10Classes)}, ""))
				}
			}
		}
	}
	scope = append(scope, fmt.Sprintf("callback product: 5 Type behaviours x 8 Impl behaviours x 3 RefineResult behaviours x (no parameter; one parameter: 16 flag combinations x 7 classes; sampled positional+variadic) = %d cases", cb))
	scope = append(scope, "Proxy / Params / VarParam / WithNewDescriptions (every description count 0..len(params)+2) on every 5th of the cases that also run ReturnTypeForValues / ReturnType")
	ctx.res.Exhaustive = true
	ctx.res.Scope = strings.Join(scope, "; ")
	c10D10(ctx) // wrappers x entry points (c10_d10.go)

	// (C) random specs, arguments, callbacks
	to := TyOpts{Dyn: true, Capsule: true}
	all := ValOpts{Unknown: true, Null: true, Marks: true, DynVal: true}
	genArg := func(t cty.Type) cty.Value {
		ct := concretize(ctx.R, t)
		switch ctx.R.Intn(10) {
		case 0, 1:
			return genVal(ctx.R, t, 2, ValOpts{})
		case 2:
			return genVal(ctx.R, genTy(ctx.R, 1, to), 2, ValOpts{})
		case 3:
			if ctx.R.Intn(2) == 0 {
				return cty.NullVal(t)
			}
			return cty.NullVal(ct)
		case 4:
			return genUnknown(ctx.R, ct)
		case 5:
			return cty.DynamicVal
		case 6:
			v := genVal(ctx.R, t, 2, ValOpts{Marks: true})
			if !v.ContainsMarked() {
				v = v.Mark(markNames[ctx.R.Intn(len(markNames))])
			}
			return v
		case 7:
			return genUnknown(ctx.R, ct).Mark(markNames[ctx.R.Intn(len(markNames))])
		default:
			return genVal(ctx.R, t, 2, all)
		}
	}
	for i := 0; i < ctx.N(4000, 150000); i++ {
		c := &c10Case{refine: "none", tf: "ok", impl: "ok", how: "random"}
		np := ctx.R.Intn(4)
		for j := 0; j < np; j++ {
			c.params = append(c.params, c10Flags(ctx.R.Intn(16), genTy(ctx.R, 2, to)))
		}
		if ctx.R.Intn(2) == 0 {
			p := c10Flags(ctx.R.Intn(16), genTy(ctx.R, 2, to))
			c.vp = &p
		}
		na := np
		if c.vp != nil {
			na += ctx.R.Intn(4)
		}
		if ctx.R.Intn(12) == 0 {
			na = ctx.R.Intn(5)
		}
		for j := 0; j < na; j++ {
			p := c.paramFor(j)
			t := cty.String
			if p != nil {
				t = p.ty
			}
			c.args = append(c.args, genArg(t))
		}
		switch ctx.R.Intn(8) {
		case 0:
			c.tf = "err"
		case 1:
			c.tf = "panic"
		}
		c.tfTy = genTy(ctx.R, 2, to)
		if c.tf != "ok" {
			c.tfTy = cty.NilType
		}
		switch ctx.R.Intn(8) {
		case 0:
			c.impl = "err"
		case 1:
			c.impl = "panic"
		default:
			rt := c.tfTy
			if rt == cty.NilType {
				rt = cty.String
			}
			if ctx.R.Intn(5) == 0 {
				c.implVal = genVal(ctx.R, genTy(ctx.R, 1, to), 2, all)
			} else {
				c.implVal = genVal(ctx.R, rt, 2, all)
			}
		}
		switch ctx.R.Intn(6) {
		case 0, 1:
			c.refine = "notnull"
		case 2:
			if ctx.R.Intn(4) == 0 {
				c.refine = "panics"
			}
		}
		c10Run(ctx, c, i%3 == 0)
	}
}
