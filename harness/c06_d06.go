package main

// C06, d06 extension.
//
//  1. the capsule-equality oracle column of the strict judge `wfc` (lean/CtyModel/d06WF.lean):
//     the identity tag of every capsule leaf of a value, in dump order.  Identity is what
//     Value.Equals uses for a capsule type without custom ops: the encapsulated pointer.
//  2. correspondence of the constructors WITH their NormalizeString step (lean/CtyModel/d06Cons.lean):
//     MapVal / ObjectVal on raw keys (not NFC, colliding after normalisation), StringVal.
//  3. correspondence of Value.Equals on capsule-bearing operands against the model's Equals on the
//     relabelled operands (ties the oracle of 1. to the code).

import (
	"fmt"
	"regexp"
	"sort"
	"strings"

	"github.com/zclconf/go-cty/cty"
	"golang.org/x/text/unicode/norm"
)

func tyHasCapsule(t cty.Type) bool {
	switch {
	case t.IsCapsuleType():
		return true
	case t.IsListType() || t.IsSetType() || t.IsMapType():
		return tyHasCapsule(t.ElementType())
	case t.IsTupleType():
		for _, e := range t.TupleElementTypes() {
			if tyHasCapsule(e) {
				return true
			}
		}
	case t.IsObjectType():
		for _, e := range t.AttributeTypes() {
			if tyHasCapsule(e) {
				return true
			}
		}
	}
	return false
}

var c06CapTags = map[interface{}]int{}

// c06CapTag: one tag per encapsulated pointer (1, 2, … in order of first sight; the two shared
// generator payloads are registered first so that tags do not depend on the run)
func c06CapTag(p interface{}) int {
	if len(c06CapTags) == 0 {
		for i, q := range capsulePayloads {
			c06CapTags[interface{}(q)] = i + 1
		}
	}
	if t, ok := c06CapTags[p]; ok {
		return t
	}
	t := len(c06CapTags) + 1
	c06CapTags[p] = t
	return t
}

// c06SplitTop splits "(a b) (c) d" into its top-level items.
func c06SplitTop(s string) []string {
	var out []string
	d, start := 0, -1
	for i := 0; i < len(s); i++ {
		switch s[i] {
		case '(':
			if d == 0 && start < 0 {
				start = i
			}
			d++
		case ')':
			d--
			if d == 0 && start >= 0 {
				out = append(out, s[start:i+1])
				start = -1
			}
		case ' ':
			if d == 0 && start >= 0 {
				out = append(out, s[start:i])
				start = -1
			}
		default:
			if d == 0 && start < 0 {
				start = i
			}
		}
	}
	if start >= 0 {
		out = append(out, s[start:])
	}
	return out
}

// c06CapIDs lists the tag of every capsule leaf of v in the order cty.VerifDump prints them.
// Lists, tuples, maps and objects are dumped in the order ElementIterator visits them; a set is
// dumped in bucket order, which the public API does not expose: its members (public order) are
// matched to the dump entries by (hash, dump text) — members with equal text are interchangeable.
func c06CapIDs(v cty.Value) []int {
	t := v.Type()
	if !tyHasCapsule(t) {
		return nil
	}
	if v.IsMarked() {
		v, _ = v.Unmark()
	}
	if !v.IsKnown() || v.IsNull() {
		return nil
	}
	switch {
	case t.IsCapsuleType():
		return []int{c06CapTag(v.EncapsulatedValue())}
	case t.IsSetType():
		dump := cty.VerifDump(v)
		entries := c06SplitTop(strings.TrimSuffix(strings.TrimPrefix(dump, "(sset"), ")"))
		var ms []cty.Value
		for it := v.ElementIterator(); it.Next(); {
			_, e := it.Element()
			ms = append(ms, e)
		}
		keys := make([]string, len(ms))
		for i, m := range ms {
			keys[i] = fmt.Sprintf("(%d %s)", cty.VerifHash(m), cty.VerifDump(m))
		}
		used := make([]bool, len(ms))
		var out []int
		for _, e := range entries {
			found := false
			for i := range ms {
				if !used[i] && keys[i] == e {
					used[i] = true
					out = append(out, c06CapIDs(ms[i])...)
					found = true
					break
				}
			}
			if !found {
				panic("c06CapIDs: set member of the dump not found among the iterated members: " + e)
			}
		}
		return out
	default:
		var out []int
		for it := v.ElementIterator(); it.Next(); {
			_, e := it.Element()
			out = append(out, c06CapIDs(e)...)
		}
		return out
	}
}

func c06CapCol(v cty.Value) string {
	var ids []int
	if p, _ := try(func() { ids = c06CapIDs(v) }); p {
		return "(bad)" // the judge answers `fail decode`
	}
	ss := make([]string, len(ids))
	for i, id := range ids {
		ss[i] = fmt.Sprint(id)
	}
	return "(" + strings.Join(ss, " ") + ")"
}

// ---- constructors with their NormalizeString step -------------------------------------------

// raw keys: NFC and not, pairs that collide after normalisation, Hangul jamo, singletons
var c06RawKeys = []string{"a", "b", "k", "\u00e9", "e\u0301", "zz", "", "\u00c5", "A\u030a", "\u212b", "\uac00", "\u1100\u1161", "\u03a9", "\u2126", "\u00f1", "n\u0303", "q\u0323\u0307", "q\u0307\u0323"}

func c06NormTable(keys []string) string {
	var parts []string
	for _, k := range keys {
		parts = append(parts, encStr(k), encStr(cty.NormalizeString(k)))
	}
	return "(" + strings.Join(parts, " ") + ")"
}

func c06ConsN(j *c06Judge) {
	ctx := j.ctx
	// the laws the theorems assume of NormalizeString, probed on the key alphabet and on generated strings
	idem, nfcOk := true, true
	bad := ""
	probe := func(s string) {
		n := cty.NormalizeString(s)
		if cty.NormalizeString(n) != n {
			idem, bad = false, s
		}
		if !norm.NFC.IsNormalString(n) {
			nfcOk, bad = false, s
		}
	}
	for _, k := range c06RawKeys {
		probe(k)
	}
	for i := 0; i < ctx.N(2000, 40000); i++ {
		s := genString(ctx.R)
		if ctx.R.Intn(2) == 0 {
			s += c06RawKeys[ctx.R.Intn(len(c06RawKeys))] + genString(ctx.R)
		}
		probe(s)
		ctx.Add("c06.stringval", encVal(cty.StringVal(s)), encStr(s), encStr(cty.NormalizeString(s)))
	}
	ctx.Probe("norm_idem: NormalizeString(NormalizeString(s)) == NormalizeString(s)", idem, fmt.Sprintf("%q", bad))
	ctx.Probe("norm_nfc: norm.NFC.IsNormalString(NormalizeString(s))", nfcOk, fmt.Sprintf("%q", bad))

	for i := 0; i < ctx.N(1500, 30000); i++ {
		o := c06Full
		if i%3 == 0 {
			o = c06Known
		}
		k := 1 + ctx.R.Intn(4)
		if i%7 == 0 {
			k = 0
		}
		ety := genTy(ctx.R, 1+ctx.R.Intn(2), TyOpts{})
		ms := c06Members(ctx, ety, k, o)
		if ctx.R.Intn(8) == 0 && k > 1 {
			ms[k-1] = genVal(ctx.R, genTy(ctx.R, 1, TyOpts{}), 1, o) // inconsistent element types: MapVal panics
		}
		// distinct raw keys, often with colliding normal forms
		perm := ctx.R.Perm(len(c06RawKeys))
		keys := make([]string, k)
		for x := range keys {
			keys[x] = c06RawKeys[perm[x]]
		}
		if k >= 2 && ctx.R.Intn(2) == 0 {
			// force a collision: a decomposed / composed pair
			pairs := [][2]string{{"\u00e9", "e\u0301"}, {"\u00c5", "A\u030a"}, {"\u00c5", "\u212b"}, {"\uac00", "\u1100\u1161"}, {"\u03a9", "\u2126"}, {"\u00f1", "n\u0303"}, {"q\u0323\u0307", "q\u0307\u0323"}}
			p := pairs[ctx.R.Intn(len(pairs))]
			keys[0], keys[1] = p[0], p[1]
			for x := 2; x < k; x++ {
				if keys[x] == p[0] || keys[x] == p[1] {
					keys[x] = fmt.Sprintf("u%d", x)
				}
			}
			ctx.Tag("consn:colliding-keys")
		}
		nfcAll := true
		for _, key := range keys {
			if !norm.NFC.IsNormalString(key) {
				nfcAll = false
			}
		}
		if !nfcAll {
			ctx.Tag("consn:raw-key-not-nfc")
		}
		mm := map[string]cty.Value{}
		for x, key := range keys {
			mm[key] = ms[x]
		}
		sorted := append([]string{}, keys...)
		sort.Strings(sorted)
		var svals []cty.Value
		for _, key := range sorted {
			svals = append(svals, mm[key])
		}
		kw := make([]string, len(sorted))
		for x, key := range sorted {
			kw[x] = encStr(key)
		}
		keyCol := "(" + strings.Join(kw, " ") + ")"
		lit := func(name string) func() string {
			return func() string {
				var parts []string
				for _, key := range sorted {
					parts = append(parts, fmt.Sprintf("%q: %s", key, mm[key].GoString()))
				}
				return name + "(map[string]cty.Value{" + strings.Join(parts, ", ") + "})"
			}
		}
		got := "panic"
		if v, ok := j.produce("MapVal:raw-keys", lit("cty.MapVal"), func() cty.Value { return cty.MapVal(mm) }); ok {
			got = encVal(v)
		}
		ctx.Add("c06.mapvaln", "match", keyCol, c06Wires(svals), c06NormTable(sorted), got)
		ctx.Tag("consn:mapval:" + map[bool]string{true: "panic", false: "ok"}[got == "panic"])
		got = "panic"
		if v, ok := j.produce("ObjectVal:raw-keys", lit("cty.ObjectVal"), func() cty.Value { return cty.ObjectVal(mm) }); ok {
			got = encVal(v)
		}
		ctx.Add("c06.objectvaln", "match", keyCol, c06Wires(svals), c06NormTable(sorted), got)
	}
}

// ---- Equals on capsule-bearing operands against the relabelled model -------------------------------

func c06CapsuleEquals(j *c06Judge) {
	ctx := j.ctx
	for i := 0; i < ctx.N(1500, 30000); i++ {
		var t cty.Type
		for tries := 0; ; tries++ {
			t = genTy(ctx.R, 1+ctx.R.Intn(2), TyOpts{Capsule: true})
			if tyHasCapsule(t) || tries > 20 {
				break
			}
		}
		o := c06Full
		if i%2 == 0 {
			o = c06Known
		}
		a, b := genVal(ctx.R, t, 2, o), genVal(ctx.R, t, 2, o)
		if ctx.R.Intn(4) == 0 {
			b = a
		}
		out, _, _ := opOut(func() cty.Value { return a.Equals(b) })
		ca, cb := c06CapCol(a), c06CapCol(b)
		if ca == "(bad)" || cb == "(bad)" {
			ctx.Tag("capequals:tags-unavailable")
			continue
		}
		ctx.Add("c06.equalsc", out, encVal(a), ca, encVal(b), cb)
		ctx.Tag("capequals:" + c06Kind(t))
		// sets of capsule-bearing members: the producer the strict duplicate clause is about
		ms := []cty.Value{a, b, genVal(ctx.R, t, 2, o)}
		j.produce("SetVal:capsules", c06Lit("cty.SetVal", ms...), func() cty.Value { return cty.SetVal(ms) })
		c06CorrSetValC(ctx, ms)
		j.produce("ListVal:capsules", c06Lit("cty.ListVal", ms...), func() cty.Value {
			return cty.ListVal([]cty.Value{cty.SetVal(ms[:2]), cty.SetVal(ms[1:])})
		})
	}
}

// hand-written dumps for the strict judge: the duplicate clause must not pass for the wrong reason
func c06SelfTestD06(ctx *Ctx) {
	for _, c := range []struct{ wire, bad, caps, want string }{
		{"(v (E (C 1)) (sset (5 (cap)) (5 (cap))))", "()", "(1 1)", "fail set-duplicate"},
		{"(v (E (C 1)) (sset (5 (cap)) (5 (cap))))", "()", "(1 2)", "pass"},
		{"(v (E (C 1)) (sset (5 (cap)) (5 (cap))))", "()", "(1)", "fail decode-capsule-tags"},
		{"(v (E (T (C 1) S)) (sset (5 (seq (cap) (s x61))) (5 (seq (cap) (s x61)))))", "()", "(2 2)", "fail set-duplicate"},
		{"(v (E (T (C 1) S)) (sset (5 (seq (cap) (s x61))) (5 (seq (cap) (s x62)))))", "()", "(2 2)", "pass"},
		{"(v (E (T (C 1) S)) (sset (5 (seq (cap) (s x61))) (5 (seq (cap) (s x61)))))", "()", "(1 2)", "pass"},
		{"(v (L (E (C 1))) (seq (sset (5 (cap))) (sset (5 (cap)) (5 (cap)))))", "()", "(1 2 2)", "fail set-duplicate"},
		{"(v (L (E (C 1))) (seq (sset (5 (cap))) (sset (5 (cap)) (5 (cap)))))", "()", "(2 1 2)", "pass"},
		{"(v (E (C 1)) (sset (5 (cap)) (5 (unk (nl f))) (5 null)))", "()", "(1)", "pass"},
		{"(v (E (E S)) (sset (5 (sset (1 (s x61)))) (5 (sset (1 (s x61))))))", "()", "()", "fail set-duplicate"},
		{"(v (E S) (sset (1 (s x61)) (1 (s x61))))", "()", "()", "fail set-duplicate"},
		{"(v (T S) (seq))", "()", "()", "fail tuple-length"},
		{"(v S (s x65cc81))", "(x65cc81)", "()", "fail string-not-nfc"},
		{"(v (C 1) (mk (x6d) (cap)))", "()", "(1)", "pass"},
	} {
		ctx.Add("wfc", c.want, c.wire, c.bad, c.caps)
		ctx.Tag("selftest:d06")
	}
}

// ---- SetVal on capsule-bearing members against the model on the relabelled members -----------------

var c06CapTyRe = regexp.MustCompile(`\(C \d+\)`)

// c06Relabel is `D06.decap` on the wire: capsule types read as tuple [number], the k-th capsule leaf
// replaced by the one-element tuple holding its tag.
func c06Relabel(wire string, ids []int) string {
	wire = c06CapTyRe.ReplaceAllString(wire, "(T N)")
	var sb strings.Builder
	k := 0
	for {
		i := strings.Index(wire, "(cap)")
		if i < 0 {
			break
		}
		sb.WriteString(wire[:i])
		tag := 0
		if k < len(ids) {
			tag = ids[k]
		}
		e := 0 // `Num.ofNat`: odd mantissa (tags are >= 1)
		for tag > 0 && tag%2 == 0 {
			tag /= 2
			e++
		}
		fmt.Fprintf(&sb, "(seq (n 0 %d %d 64))", tag, e)
		k++
		wire = wire[i+len("(cap)"):]
	}
	sb.WriteString(wire)
	return sb.String()
}

// c06CorrSetValC: cty.SetVal on members of a capsule-bearing type; the model runs on the members with their
// capsule leaves tagged, the real result is tagged the same way before it is compared.
func c06CorrSetValC(ctx *Ctx, ms []cty.Value) {
	hs := make([]string, len(ms))
	cols := make([]string, len(ms))
	for i, m := range ms {
		hs[i] = hashOracle(m)
		cols[i] = c06CapCol(m)
		if hs[i] == "-" || cols[i] == "(bad)" {
			ctx.Tag("setvalc:oracle-unavailable")
			return
		}
	}
	out := "panic"
	var res cty.Value
	if p, _ := try(func() { res = cty.SetVal(ms) }); !p {
		var ids []int
		if p, _ := try(func() { ids = c06CapIDs(res) }); p {
			ctx.Tag("setvalc:oracle-unavailable")
			return
		}
		out = "ok " + c06Relabel(encVal(res), ids)
	}
	ctx.Add("c06.setvalc", out, c06Wires(ms), "("+strings.Join(cols, " ")+")", "("+strings.Join(hs, " ")+")")
	ctx.Tag("setvalc:" + map[bool]string{true: "panic", false: "ok"}[out == "panic"])
}
