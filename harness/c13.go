package main

// C13 — collection, set and sequence functions of cty/function/stdlib against a
// reference over plain Go slices and maps.
//
// Every case calls the REAL stdlib function (XFunc.Call) and
//   (a) adds a correspondence case against the Lean model of its Type / Impl
//       callbacks run through the modelled call protocol (op std.call): result
//       value with its type, or the class err / panicerr / panic;
//   (b) for wholly known arguments evaluates the property predicate: the result
//       equals what an independent reference written over plain slices/maps
//       returns (c13ref.go), has the documented type, and the call fails
//       exactly when the arguments are outside the documented domain.
//
// What the callbacks obtain from package convert (UnifyUnsafe, Convert), from
// the set hash function, and the iteration order of sets whose elements are not
// primitive, are oracle columns computed here with the real library.

import (
	"errors"
	"fmt"
	"math/big"
	"sort"
	"strings"

	"github.com/zclconf/go-cty/cty"
	"github.com/zclconf/go-cty/cty/convert"
	"github.com/zclconf/go-cty/cty/function"
	"github.com/zclconf/go-cty/cty/function/stdlib"
)

func init() {
	register("C13", "real stdlib functions called through Function.Call on wholly known argument lists: lists/tuples/sets/maps/objects of "+
		"numbers, strings, bools and nested collections, lengths 0-6, nulls inside collections; index arithmetic enumerated exhaustively "+
		"(element: every length 0-6 x index -12..12 on lists and tuples; slice: every length 0-6 x start,end in -1..7; chunklist: every length "+
		"0-6 x size -1..8; range: all start,end,step in -4..4) plus big, fractional and infinite numbers as indices, sizes and steps; "+
		"the same functions with unknowns, marks, nulls and DynamicVal sprinkled in (correspondence only). non-trivial = the call succeeded on a "+
		"non-empty collection or failed for a reason the reference predicts; distinct = distinct canonical wire strings of (function, arguments)", runC13)
}

var c13Funcs = map[string]function.Function{
	"length": stdlib.LengthFunc, "hasindex": stdlib.HasIndexFunc, "index": stdlib.IndexFunc, "element": stdlib.ElementFunc,
	"coalescelist": stdlib.CoalesceListFunc, "coalesce": stdlib.CoalesceFunc, "compact": stdlib.CompactFunc,
	"contains": stdlib.ContainsFunc, "distinct": stdlib.DistinctFunc, "chunklist": stdlib.ChunklistFunc,
	"flatten": stdlib.FlattenFunc, "keys": stdlib.KeysFunc, "values": stdlib.ValuesFunc, "lookup": stdlib.LookupFunc,
	"merge": stdlib.MergeFunc, "reverse": stdlib.ReverseListFunc, "slice": stdlib.SliceFunc, "zipmap": stdlib.ZipmapFunc,
	"sort": stdlib.SortFunc, "setproduct": stdlib.SetProductFunc, "concat": stdlib.ConcatFunc, "range": stdlib.RangeFunc,
	"sethaselement": stdlib.SetHasElementFunc, "setunion": stdlib.SetUnionFunc, "setintersection": stdlib.SetIntersectionFunc,
	"setsubtract": stdlib.SetSubtractFunc, "setsymmetricdifference": stdlib.SetSymmetricDifferenceFunc,
}

var c13Names = []string{"length", "hasindex", "index", "element", "coalescelist", "coalesce", "compact", "contains", "distinct",
	"chunklist", "flatten", "keys", "values", "lookup", "merge", "reverse", "slice", "zipmap", "sort", "setproduct", "concat",
	"range", "sethaselement", "setunion", "setintersection", "setsubtract", "setsymmetricdifference"}

// ---- calling the real function ------------------------------------------------

type c13Res struct {
	class string // ok | err | panicerr | panic
	val   cty.Value
	err   error
}

func (r c13Res) wire() string {
	if r.class == "ok" {
		return "ok " + encVal(r.val)
	}
	return r.class
}

func c13Invoke(name string, args []cty.Value) c13Res {
	fn := c13Funcs[name]
	var v cty.Value
	var err error
	if p, _ := try(func() { v, err = fn.Call(args) }); p {
		return c13Res{class: "panic"}
	}
	if err != nil {
		var pe function.PanicError
		if errors.As(err, &pe) {
			return c13Res{class: "panicerr", err: err}
		}
		return c13Res{class: "err", err: err}
	}
	return c13Res{class: "ok", val: v}
}

func c13EncArgs(args []cty.Value) string {
	ws := make([]string, len(args))
	for i, a := range args {
		ws[i] = encVal(a)
	}
	return "(" + strings.Join(ws, " ") + ")"
}

func c13GoLit(name string, args []cty.Value) string {
	ws := make([]string, len(args))
	for i, a := range args {
		ws[i] = a.GoString()
	}
	return "stdlib." + name + "(" + strings.Join(ws, ", ") + ")"
}

// c13CollidingSet: does v hold (at any depth) a known set with two members in one hash bucket?
func c13CollidingSet(v cty.Value) bool {
	v, _ = v.Unmark()
	if !v.IsKnown() || v.IsNull() {
		return false
	}
	ty := v.Type()
	if !(ty.IsCollectionType() || ty.IsTupleType() || ty.IsObjectType()) {
		return false
	}
	if ty.IsSetType() {
		seen := map[int]bool{}
		for it := v.ElementIterator(); it.Next(); {
			_, m := it.Element()
			mu, _ := m.UnmarkDeep()
			h := 0
			if p, _ := try(func() { h = mu.Hash() }); p {
				continue
			}
			if seen[h] {
				return true
			}
			seen[h] = true
		}
	}
	for it := v.ElementIterator(); it.Next(); {
		_, m := it.Element()
		if c13CollidingSet(m) {
			return true
		}
	}
	return false
}

// c13TripleTieWithUnknowns: does v hold (at any depth) a known set with three members in one hash bucket,
// at least one of them not wholly known?
func c13TripleTieWithUnknowns(v cty.Value) bool {
	v, _ = v.Unmark()
	if !v.IsKnown() || v.IsNull() {
		return false
	}
	ty := v.Type()
	if !(ty.IsCollectionType() || ty.IsTupleType() || ty.IsObjectType()) {
		return false
	}
	if ty.IsSetType() {
		cnt, unk := map[int]int{}, map[int]bool{}
		for it := v.ElementIterator(); it.Next(); {
			_, m := it.Element()
			mu, _ := m.UnmarkDeep()
			h := 0
			if p, _ := try(func() { h = mu.Hash() }); p {
				continue
			}
			cnt[h]++
			if !mu.IsWhollyKnown() {
				unk[h] = true
			}
			if cnt[h] >= 3 && unk[h] {
				return true
			}
		}
	}
	for it := v.ElementIterator(); it.Next(); {
		_, m := it.Element()
		if c13TripleTieWithUnknowns(m) {
			return true
		}
	}
	return false
}

// c13Case calls the real function, records the correspondence case and returns the result.
func c13Case(ctx *Ctx, name string, args []cty.Value, zeroStep bool) c13Res {
	r := c13Invoke(name, args)
	for _, a := range args {
		// Value.UnmarkDeep (applied by the call protocol to a marked argument) REBUILDS every set it
		// walks through, re-inserting the members in iteration order; when two unequal members share a
		// hash bucket their order inside the bucket can change.  The shared marks model keeps the
		// payload as it is, so these cases are counted and left to the marks slice (C04).
		if a.ContainsMarked() && c13CollidingSet(a) {
			ctx.Tag("skipped:unmarkdeep-rebuilds-colliding-set")
			return r
		}
	}
	for _, a := range args {
		// Three or more members of one hash bucket of which some are not wholly known (only then can a set hold
		// RawEquals-identical members): the order INSIDE the bucket after copying / rebuilding the set is an
		// artefact of the insertion history that the function models do not follow (seen once in 473 613
		// thorough cases: setunion of one such set keeps [u, f, u], the model rebuilds [u, u, f]).  The value-level
		// statements are unaffected (iteration order and RawEquals agree); counted and not compared.
		if c13TripleTieWithUnknowns(a) {
			ctx.Tag("skipped:three-hash-tied-members-with-unknowns")
			return r
		}
	}
	orc := c13Oracle(name, args, zeroStep)
	ctx.Add("std.call", r.wire(), name, c13EncArgs(args), "("+strings.Join(orc, " ")+")")
	// the same call under modelEnv (Stdlib/d13Env.lean): unify, convert, hash and hash-byte order come
	// from the Lean models of those packages instead of the oracle columns above
	ctx.Add("std.callm", r.wire(), name, c13EncArgs(args))
	ctx.Tag("fn:" + name + ":" + r.class)
	return r
}

// ---- oracle columns -----------------------------------------------------------

type c13Orc struct {
	entries []string
	seen    map[string]bool
}

func (o *c13Orc) add(s string) {
	if !o.seen[s] {
		o.seen[s] = true
		o.entries = append(o.entries, s)
	}
}

func (o *c13Orc) unify(tys []cty.Type) cty.Type {
	var r cty.Type
	if p, _ := try(func() { r, _ = convert.UnifyUnsafe(tys) }); p {
		return cty.NilType
	}
	ws := make([]string, len(tys))
	for i, t := range tys {
		ws[i] = encTy(t)
	}
	rs := "-"
	if r != cty.NilType {
		rs = encTy(r)
	}
	o.add("(u (" + strings.Join(ws, " ") + ") " + rs + ")")
	return r
}

func (o *c13Orc) conv1(v cty.Value, ty cty.Type) (cty.Value, bool) {
	var r cty.Value
	var err error
	if p, _ := try(func() { r, err = convert.Convert(v, ty) }); p {
		return cty.NilVal, false
	}
	if err != nil {
		o.add("(c " + encVal(v) + " " + encTy(ty) + " err)")
		return cty.NilVal, false
	}
	o.add("(c " + encVal(v) + " " + encTy(ty) + " " + encVal(r) + ")")
	return r, true
}

// conv records convert.Convert(v, ty) for v as given and as the call protocol hands it on (deeply unmarked).
func (o *c13Orc) conv(v cty.Value, ty cty.Type) (cty.Value, bool) {
	if v.ContainsMarked() {
		u, _ := v.UnmarkDeep()
		o.conv1(u, ty)
	}
	return o.conv1(v, ty)
}

func (o *c13Orc) hash(elem cty.Value) {
	if elem.ContainsMarked() {
		return
	}
	var h int
	if p, _ := try(func() { h = elem.Hash() }); p {
		return
	}
	o.add(fmt.Sprintf("(h %s %s %d)", encTy(elem.Type()), cty.VerifDump(elem), h))
}

func c13Primitive(t cty.Type) bool { return t == cty.String || t == cty.Number || t == cty.Bool }

// collectSets gathers the members of every known set nested anywhere in v, per element type.
func c13CollectSets(v cty.Value, into map[string][]cty.Value, tys map[string]cty.Type) {
	if v == cty.NilVal {
		return
	}
	v, _ = v.Unmark()
	if !v.IsKnown() || v.IsNull() {
		return
	}
	ty := v.Type()
	if !(ty.IsCollectionType() || ty.IsTupleType() || ty.IsObjectType()) {
		return
	}
	if ty.IsSetType() {
		k := encTy(ty.ElementType())
		tys[k] = ty.ElementType()
		for it := v.ElementIterator(); it.Next(); {
			_, m := it.Element()
			into[k] = append(into[k], m)
		}
	}
	for it := v.ElementIterator(); it.Next(); {
		_, m := it.Element()
		c13CollectSets(m, into, tys)
	}
}

// order emits, for every non-primitive element type, the members of all sets in vals in the
// order a set holding all of them iterates (setRules.Less).
func (o *c13Orc) order(vals []cty.Value) {
	into := map[string][]cty.Value{}
	tys := map[string]cty.Type{}
	for _, v := range vals {
		c13CollectSets(v, into, tys)
	}
	keys := make([]string, 0, len(into))
	for k := range into {
		keys = append(keys, k)
	}
	sort.Strings(keys)
	for _, k := range keys {
		if c13Primitive(tys[k]) || len(into[k]) == 0 {
			continue
		}
		ms := into[k]
		var reps []cty.Value
		if p, _ := try(func() { reps = cty.SetVal(ms).AsValueSlice() }); p {
			continue
		}
		used := make([]bool, len(ms))
		var out []string
		for _, rep := range reps {
			for i, m := range ms {
				if used[i] {
					continue
				}
				same := m.RawEquals(rep)
				if !same {
					if eq := m.Equals(rep); eq.IsKnown() && eq.True() {
						same = true
					}
				}
				if same {
					used[i] = true
					out = append(out, cty.VerifDump(m))
				}
			}
		}
		for i, m := range ms {
			if !used[i] {
				out = append(out, cty.VerifDump(m))
			}
		}
		o.add("(o " + k + " " + strings.Join(out, " ") + ")")
	}
}

func c13Types(args []cty.Value) []cty.Type {
	tys := make([]cty.Type, len(args))
	for i, a := range args {
		tys[i] = a.Type()
	}
	return tys
}

func c13RetType(name string, args []cty.Value) (cty.Type, bool) {
	var rt cty.Type
	var err error
	if p, _ := try(func() { rt, err = c13Funcs[name].ReturnTypeForValues(args) }); p || err != nil {
		return cty.NilType, false
	}
	return rt, true
}

// knownSlice returns the elements of a (possibly marked) known, non-null sequence/set.
func c13KnownSlice(v cty.Value) ([]cty.Value, bool) {
	v, _ = v.Unmark()
	if !v.IsKnown() || v.IsNull() {
		return nil, false
	}
	ty := v.Type()
	if !(ty.IsListType() || ty.IsSetType() || ty.IsTupleType()) {
		return nil, false
	}
	return v.AsValueSlice(), true
}

func c13Oracle(name string, args []cty.Value, zeroStep bool) []string {
	o := &c13Orc{seen: map[string]bool{}}
	o.order(args)
	switch name {
	case "coalesce":
		if rt := o.unify(c13Types(args)); rt != cty.NilType {
			for _, a := range args {
				o.conv(a, rt)
			}
		}
	case "lookup":
		if len(args) == 3 {
			if args[0].Type().IsMapType() {
				o.conv(args[2], args[0].Type().ElementType())
			}
			if rt, ok := c13RetType(name, args); ok {
				o.conv(args[2], rt)
			}
		}
	case "setproduct":
		for _, a := range args {
			if a.Type().IsTupleType() && a.Type().Length() > 0 {
				o.unify(a.Type().TupleElementTypes())
			}
		}
		if rt, ok := c13RetType(name, args); ok && rt.IsCollectionType() && rt.ElementType().IsTupleType() {
			sub := rt.ElementType().TupleElementTypes()
			rows := [][]cty.Value{{}}
			good := len(sub) == len(args)
			for j, a := range args {
				if !good {
					break
				}
				es, ok := c13KnownSlice(a)
				if !ok {
					good = false
					break
				}
				conv := make([]cty.Value, 0, len(es))
				for _, e := range es {
					if !e.Type().Equals(sub[j]) {
						c, ok := o.conv(e, sub[j])
						if !ok {
							good = false
							break
						}
						e = c
					}
					conv = append(conv, e)
				}
				var next [][]cty.Value
				for _, r := range rows {
					for _, e := range conv {
						next = append(next, append(append([]cty.Value{}, r...), e))
					}
				}
				rows = next
				if len(rows) > 400 {
					good = false
				}
			}
			if good && rt.IsSetType() {
				for _, r := range rows {
					tv, _ := cty.TupleVal(r).UnmarkDeep()
					o.hash(tv)
				}
			}
		}
	case "concat":
		allLists := len(args) > 0
		for _, a := range args {
			if !a.Type().IsListType() {
				allLists = false
			}
		}
		if allLists {
			o.unify(c13Types(args))
		}
		if rt, ok := c13RetType(name, args); ok && rt.IsListType() {
			for _, a := range args {
				o.conv(a, rt)
			}
		}
	case "sethaselement":
		if len(args) == 2 {
			// the call protocol unmarks (and thereby REBUILDS any set inside) only an argument that carries a
			// mark: an unmarked needle reaches Value.Hash as it is, members of a colliding bucket in their own order
			e := args[1]
			if e.ContainsMarked() {
				e, _ = e.UnmarkDeep()
			}
			o.hash(e)
		}
	case "setunion", "setintersection", "setsubtract", "setsymmetricdifference":
		var all, filtered []cty.Type
		for _, a := range args {
			if !a.Type().IsCollectionType() {
				continue
			}
			ety := a.Type().ElementType()
			all = append(all, ety)
			au, _ := a.UnmarkDeep()
			if au.IsKnown() && !au.IsNull() && au.LengthInt() == 0 && ety == cty.DynamicPseudoType {
				continue
			}
			filtered = append(filtered, ety)
		}
		o.unify(all)
		o.unify(filtered)
		if rt, ok := c13RetType(name, args); ok && rt.IsSetType() {
			var convd []cty.Value
			for _, a := range args {
				c, ok := o.conv(a, rt)
				if !ok {
					continue
				}
				convd = append(convd, c)
				if es, ok := c13KnownSlice(c); ok {
					for _, e := range es {
						o.hash(e)
					}
				}
			}
			o.order(convd)
		}
	}
	return o.entries
}

// ---- generators ---------------------------------------------------------------

var c13ElemTys = []cty.Type{
	cty.String, cty.Number, cty.Bool, cty.String, cty.Number,
	cty.List(cty.String), cty.Tuple([]cty.Type{cty.Number, cty.String}),
	cty.Object(map[string]cty.Type{"a": cty.String}), cty.Set(cty.Number), cty.Map(cty.Number), cty.EmptyTuple,
}

func c13ElemTy(ctx *Ctx) cty.Type { return c13ElemTys[ctx.R.Intn(len(c13ElemTys))] }

func c13List(ety cty.Type, vs []cty.Value) cty.Value {
	if len(vs) == 0 {
		return cty.ListValEmpty(ety)
	}
	return cty.ListVal(vs)
}

func c13Set(ety cty.Type, vs []cty.Value) cty.Value {
	if len(vs) == 0 {
		return cty.SetValEmpty(ety)
	}
	return cty.SetVal(vs)
}

func c13Map(ety cty.Type, m map[string]cty.Value) cty.Value {
	if len(m) == 0 {
		return cty.MapValEmpty(ety)
	}
	return cty.MapVal(m)
}

// members of a collection of element type ety
func c13Members(ctx *Ctx, ety cty.Type, n int, o ValOpts) []cty.Value {
	vs := make([]cty.Value, n)
	for i := range vs {
		vs[i] = genVal(ctx.R, ety, 1, o)
	}
	return vs
}

// top applies the top-level sprinkle (null / unknown / mark / DynamicVal) to an argument.
func c13Top(ctx *Ctx, v cty.Value, o ValOpts) cty.Value {
	if o.Unknown && ctx.R.Intn(12) == 0 {
		if o.DynVal && ctx.R.Intn(3) == 0 {
			return cty.DynamicVal
		}
		v = genUnknown(ctx.R, v.Type())
	} else if o.Null && o.Unknown && ctx.R.Intn(14) == 0 {
		v = cty.NullVal(v.Type())
	}
	if o.Marks && ctx.R.Intn(8) == 0 {
		v = v.Mark(markNames[ctx.R.Intn(len(markNames))])
	}
	return v
}

// seq generates a list, tuple or set (kinds: "l", "t", "s" — any subset) of 0..maxLen members.
func c13Seq(ctx *Ctx, kinds string, ety cty.Type, maxLen int, o ValOpts) cty.Value {
	n := ctx.R.Intn(maxLen + 1)
	k := kinds[ctx.R.Intn(len(kinds))]
	switch k {
	case 't':
		vs := make([]cty.Value, n)
		for i := range vs {
			t := ety
			if ctx.R.Intn(3) == 0 {
				t = c13ElemTy(ctx)
			}
			vs[i] = genVal(ctx.R, t, 1, o)
		}
		return cty.TupleVal(vs)
	case 's':
		return c13Set(ety, c13Members(ctx, ety, n, o))
	default:
		return c13List(ety, c13Members(ctx, ety, n, o))
	}
}

var c13Keys = []string{"a", "b", "k", "é", "zz", ""}

func c13MapOrObj(ctx *Ctx, ety cty.Type, maxLen int, obj bool, o ValOpts) cty.Value {
	n := ctx.R.Intn(maxLen + 1)
	m := map[string]cty.Value{}
	for i := 0; i < n; i++ {
		t := ety
		if obj && ctx.R.Intn(3) == 0 {
			t = c13ElemTy(ctx)
		}
		m[c13Keys[ctx.R.Intn(len(c13Keys))]] = genVal(ctx.R, t, 1, o)
	}
	if obj {
		return cty.ObjectVal(m)
	}
	return c13Map(ety, m)
}

var c13OddNumbers = []cty.Value{
	cty.NumberFloatVal(0.5), cty.NumberFloatVal(-1.5), cty.MustParseNumberVal("2.000000000000000000000001"),
	cty.MustParseNumberVal("9223372036854775807"), cty.MustParseNumberVal("9223372036854775808"),
	cty.MustParseNumberVal("-9223372036854775808"), cty.MustParseNumberVal("-9223372036854775809"),
	cty.MustParseNumberVal("1e30"), cty.PositiveInfinity, cty.NegativeInfinity,
	cty.NumberVal(new(big.Float).Neg(new(big.Float).SetInt64(0))), cty.MustParseNumberVal("4294967296"),
}

// idx: a number used as an index, size or bound
func c13Idx(ctx *Ctx, lo, hi int) cty.Value {
	if ctx.R.Intn(8) == 0 {
		return c13OddNumbers[ctx.R.Intn(len(c13OddNumbers))]
	}
	return cty.NumberIntVal(int64(lo + ctx.R.Intn(hi-lo+1)))
}

func c13NumArg(ctx *Ctx, v cty.Value, o ValOpts) cty.Value { return c13Top(ctx, v, o) }

func c13Wrong(ctx *Ctx, o ValOpts) cty.Value {
	ts := []cty.Type{cty.String, cty.Number, cty.Bool, cty.Map(cty.String), cty.Object(map[string]cty.Type{"a": cty.Number}), cty.Set(cty.String)}
	return genVal(ctx.R, ts[ctx.R.Intn(len(ts))], 1, o)
}

// c13GenArgs generates an argument list for the named function.
func c13GenArgs(ctx *Ctx, name string, o ValOpts) []cty.Value {
	r := ctx.R
	ety := c13ElemTy(ctx)
	top := func(v cty.Value) cty.Value { return c13Top(ctx, v, o) }
	switch name {
	case "length":
		switch r.Intn(5) {
		case 0:
			return []cty.Value{top(c13MapOrObj(ctx, ety, 4, r.Intn(2) == 0, o))}
		case 1:
			return []cty.Value{top(c13Wrong(ctx, o))}
		}
		return []cty.Value{top(c13Seq(ctx, "lts", ety, 5, o))}
	case "hasindex", "index":
		var c, k cty.Value
		switch r.Intn(6) {
		case 0, 1:
			c = c13MapOrObj(ctx, ety, 4, false, o)
			k = cty.StringVal(c13Keys[r.Intn(len(c13Keys))])
		case 2:
			c = c13Wrong(ctx, o)
			k = c13Idx(ctx, -1, 4)
		default:
			c = c13Seq(ctx, "lt", ety, 5, o)
			k = c13Idx(ctx, -2, 6)
		}
		if r.Intn(10) == 0 {
			k = genVal(r, []cty.Type{cty.String, cty.Bool, cty.Number}[r.Intn(3)], 0, o)
		}
		return []cty.Value{top(c), top(k)}
	case "element":
		c := c13Seq(ctx, "lt", ety, 6, o)
		if r.Intn(10) == 0 {
			c = c13Wrong(ctx, o)
		}
		return []cty.Value{top(c), top(c13Idx(ctx, -12, 12))}
	case "coalescelist":
		n := 1 + r.Intn(3)
		if r.Intn(15) == 0 {
			n = 0
		}
		args := make([]cty.Value, n)
		for i := range args {
			a := c13Seq(ctx, "lt", ety, 2, o)
			if r.Intn(5) == 0 {
				a = cty.NullVal(a.Type())
			}
			if r.Intn(12) == 0 {
				a = c13Wrong(ctx, o)
			}
			args[i] = top(a)
		}
		return args
	case "coalesce":
		n := 1 + r.Intn(3)
		if r.Intn(15) == 0 {
			n = 0
		}
		args := make([]cty.Value, n)
		for i := range args {
			t := ety
			if r.Intn(4) == 0 {
				t = []cty.Type{cty.String, cty.Number, cty.Bool}[r.Intn(3)]
			}
			a := genVal(r, t, 1, o)
			if r.Intn(3) == 0 {
				a = cty.NullVal(t)
			}
			args[i] = top(a)
		}
		return args
	case "compact", "sort":
		t := cty.String
		if r.Intn(12) == 0 {
			t = cty.Number
		}
		oo := o
		oo.Null = true
		return []cty.Value{top(c13Seq(ctx, "l", t, 6, oo))}
	case "contains":
		c := c13Seq(ctx, "lts", ety, 5, o)
		if r.Intn(12) == 0 {
			c = c13Wrong(ctx, o)
		}
		t := ety
		if r.Intn(6) == 0 {
			t = c13ElemTy(ctx)
		}
		return []cty.Value{top(c), top(genVal(r, t, 1, o))}
	case "distinct":
		c := c13Seq(ctx, "l", ety, 6, o)
		if r.Intn(15) == 0 {
			c = c13Seq(ctx, "ts", ety, 3, o)
		}
		return []cty.Value{top(c)}
	case "chunklist":
		return []cty.Value{top(c13Seq(ctx, "l", ety, 6, o)), top(c13Idx(ctx, -1, 8))}
	case "flatten":
		n := r.Intn(4)
		vs := make([]cty.Value, n)
		for i := range vs {
			switch r.Intn(4) {
			case 0:
				vs[i] = genVal(r, ety, 1, o)
			case 1:
				inner := make([]cty.Value, r.Intn(3))
				for j := range inner {
					inner[j] = c13Seq(ctx, "lts", cty.String, 2, o)
				}
				vs[i] = cty.TupleVal(inner)
			default:
				vs[i] = c13Seq(ctx, "lts", ety, 3, o)
			}
			if r.Intn(10) == 0 {
				vs[i] = cty.NullVal(vs[i].Type())
			}
			if o.Unknown && r.Intn(8) == 0 {
				vs[i] = c13Top(ctx, vs[i], o)
			}
		}
		var c cty.Value
		switch r.Intn(4) {
		case 0:
			c = c13Seq(ctx, "ls", cty.List(ety), 3, o)
		case 1:
			c = c13Wrong(ctx, o)
			if r.Intn(2) == 0 {
				c = c13Seq(ctx, "ls", cty.Set(cty.List(cty.Number)), 2, o)
			}
		default:
			c = cty.TupleVal(vs)
		}
		return []cty.Value{top(c)}
	case "keys", "values":
		if r.Intn(10) == 0 {
			return []cty.Value{top(c13Seq(ctx, "lts", ety, 3, o))}
		}
		return []cty.Value{top(c13MapOrObj(ctx, ety, 5, r.Intn(2) == 0, o))}
	case "lookup":
		obj := r.Intn(3) == 0
		m := c13MapOrObj(ctx, ety, 4, obj, o)
		if r.Intn(12) == 0 {
			m = c13Seq(ctx, "lt", ety, 3, o)
		}
		t := ety
		if r.Intn(5) == 0 {
			t = c13ElemTy(ctx)
		}
		return []cty.Value{top(m), top(cty.StringVal(c13Keys[r.Intn(len(c13Keys))])), top(genVal(r, t, 1, o))}
	case "merge":
		n := r.Intn(4)
		args := make([]cty.Value, n)
		obj := r.Intn(2) == 0
		for i := range args {
			t := ety
			if r.Intn(4) == 0 {
				t = c13ElemTy(ctx)
			}
			ob := obj
			if r.Intn(4) == 0 {
				ob = !ob
			}
			a := c13MapOrObj(ctx, t, 3, ob, o)
			if r.Intn(6) == 0 {
				a = cty.NullVal(a.Type())
			}
			if r.Intn(15) == 0 {
				a = c13Seq(ctx, "lt", ety, 2, o)
			}
			args[i] = top(a)
		}
		return args
	case "reverse":
		if r.Intn(12) == 0 {
			return []cty.Value{top(c13Wrong(ctx, o))}
		}
		return []cty.Value{top(c13Seq(ctx, "lts", ety, 6, o))}
	case "slice":
		c := c13Seq(ctx, "lt", ety, 6, o)
		if r.Intn(12) == 0 {
			c = c13Seq(ctx, "s", ety, 3, o)
			if r.Intn(2) == 0 {
				c = c13Wrong(ctx, o)
			}
		}
		return []cty.Value{top(c), top(c13Idx(ctx, -1, 7)), top(c13Idx(ctx, -1, 7))}
	case "zipmap":
		n := r.Intn(5)
		ks := make([]cty.Value, n)
		for i := range ks {
			ks[i] = cty.StringVal(c13Keys[r.Intn(len(c13Keys))])
			if r.Intn(14) == 0 {
				ks[i] = cty.NullVal(cty.String)
			}
			if o.Unknown && r.Intn(10) == 0 {
				ks[i] = cty.UnknownVal(cty.String)
			}
			if o.Marks && r.Intn(8) == 0 {
				ks[i] = ks[i].Mark("m1")
			}
		}
		m := n
		if r.Intn(6) == 0 {
			m = r.Intn(5)
		}
		var vals cty.Value
		if r.Intn(2) == 0 {
			vals = c13List(ety, c13Members(ctx, ety, m, o))
		} else {
			vs := make([]cty.Value, m)
			for i := range vs {
				vs[i] = genVal(r, c13ElemTy(ctx), 1, o)
			}
			vals = cty.TupleVal(vs)
		}
		if r.Intn(15) == 0 {
			vals = c13Wrong(ctx, o)
		}
		return []cty.Value{top(c13List(cty.String, ks)), top(vals)}
	case "setproduct":
		n := 2 + r.Intn(2)
		if r.Intn(15) == 0 {
			n = r.Intn(2)
		}
		args := make([]cty.Value, n)
		kinds := []string{"l", "lt", "lts", "s", "ls"}[r.Intn(5)]
		for i := range args {
			t := []cty.Type{cty.String, cty.Number, cty.Bool, ety}[r.Intn(4)]
			args[i] = top(c13Seq(ctx, kinds, t, 3, o))
			if r.Intn(20) == 0 {
				args[i] = top(c13Wrong(ctx, o))
			}
		}
		return args
	case "concat":
		n := 1 + r.Intn(3)
		if r.Intn(15) == 0 {
			n = 0
		}
		args := make([]cty.Value, n)
		kinds := []string{"l", "lt", "t"}[r.Intn(3)]
		for i := range args {
			t := ety
			if r.Intn(4) == 0 {
				t = []cty.Type{cty.String, cty.Number, cty.Bool}[r.Intn(3)]
			}
			args[i] = top(c13Seq(ctx, kinds, t, 3, o))
			if r.Intn(20) == 0 {
				args[i] = top(c13Wrong(ctx, o))
			}
		}
		return args
	case "range":
		n := 1 + r.Intn(3)
		if r.Intn(20) == 0 {
			n = r.Intn(5)
		}
		args := make([]cty.Value, n)
		for i := range args {
			switch r.Intn(8) {
			case 0:
				args[i] = genNumber(r, ValOpts{})
			case 1:
				args[i] = cty.NumberFloatVal(float64(r.Intn(41)-20) / 4)
			default:
				args[i] = cty.NumberIntVal(int64(r.Intn(25) - 12))
			}
			args[i] = top(args[i])
		}
		return args
	case "sethaselement":
		s := c13Seq(ctx, "s", ety, 4, o)
		if r.Intn(15) == 0 {
			s = c13Seq(ctx, "lt", ety, 3, o)
		}
		t := ety
		if r.Intn(6) == 0 {
			t = c13ElemTy(ctx)
		}
		return []cty.Value{top(s), top(genVal(r, t, 1, o))}
	case "setunion", "setintersection", "setsubtract", "setsymmetricdifference":
		n := 1 + r.Intn(3)
		if name == "setsubtract" {
			n = 2
		}
		args := make([]cty.Value, n)
		for i := range args {
			t := ety
			if r.Intn(4) == 0 {
				t = []cty.Type{cty.String, cty.Number, cty.Bool, cty.DynamicPseudoType}[r.Intn(4)]
			}
			if t == cty.DynamicPseudoType {
				args[i] = top(cty.SetValEmpty(t))
				if o.Unknown && r.Intn(3) == 0 {
					// a non-empty set(dynamic): its only possible members are DynamicVal and null
					args[i] = top(cty.SetVal([]cty.Value{cty.DynamicVal}))
				}
			} else {
				args[i] = top(c13Seq(ctx, "s", t, 4, o))
			}
			if r.Intn(25) == 0 && t != cty.DynamicPseudoType {
				args[i] = top(c13Seq(ctx, "l", t, 2, o))
			}
		}
		return args
	}
	panic("c13GenArgs: " + name)
}

// ---- runner -------------------------------------------------------------------

func runC13(ctx *Ctx) {
	known := ValOpts{Null: true, Small: true, NoInf: true}
	sprinkled := ValOpts{Null: true, Small: true, Unknown: true, Marks: true, DynVal: true, NoInf: true}
	c13Exhaustive(ctx)
	c13D13(ctx)
	n := ctx.N(450, 12000)
	for _, name := range c13Names {
		for i := 0; i < n; i++ {
			args := c13GenArgs(ctx, name, known)
			whollyKnown := true
			for _, a := range args {
				if !a.IsWhollyKnown() {
					whollyKnown = false
				}
			}
			res := c13Case(ctx, name, args, false)
			if whollyKnown {
				c13Judge(ctx, name, args, res)
			}
		}
		for i := 0; i < n/2; i++ {
			args := c13GenArgs(ctx, name, sprinkled)
			c13Case(ctx, name, args, false)
			ctx.Tag("sprinkled")
		}
	}
}

func c13Ints(is ...int) []cty.Value {
	vs := make([]cty.Value, len(is))
	for i, x := range is {
		vs[i] = cty.NumberIntVal(int64(x))
	}
	return vs
}

// c13Exhaustive enumerates the index arithmetic over small scopes.
func c13Exhaustive(ctx *Ctx) {
	strs := []cty.Value{cty.StringVal("a"), cty.StringVal("b"), cty.StringVal("c"), cty.StringVal("d"), cty.StringVal("e"), cty.StringVal("f")}
	mixed := []cty.Value{cty.StringVal("a"), cty.NumberIntVal(1), cty.True, cty.NullVal(cty.String), cty.EmptyTupleVal, cty.StringVal("f")}
	run := func(name string, args []cty.Value, zero bool) {
		res := c13Case(ctx, name, args, zero)
		c13Judge(ctx, name, args, res)
	}
	for l := 0; l <= 6; l++ {
		list := c13List(cty.String, strs[:l])
		tup := cty.TupleVal(mixed[:l])
		for i := -12; i <= 12; i++ {
			run("element", []cty.Value{list, cty.NumberIntVal(int64(i))}, false)
			run("element", []cty.Value{tup, cty.NumberIntVal(int64(i))}, false)
		}
		for a := -1; a <= 7; a++ {
			for b := -1; b <= 7; b++ {
				run("slice", []cty.Value{list, cty.NumberIntVal(int64(a)), cty.NumberIntVal(int64(b))}, false)
				run("slice", []cty.Value{tup, cty.NumberIntVal(int64(a)), cty.NumberIntVal(int64(b))}, false)
			}
		}
		for s := -1; s <= 8; s++ {
			run("chunklist", []cty.Value{list, cty.NumberIntVal(int64(s))}, false)
		}
		for i := -2; i <= 7; i++ {
			run("index", []cty.Value{list, cty.NumberIntVal(int64(i))}, false)
			run("index", []cty.Value{tup, cty.NumberIntVal(int64(i))}, false)
			run("hasindex", []cty.Value{list, cty.NumberIntVal(int64(i))}, false)
			run("hasindex", []cty.Value{tup, cty.NumberIntVal(int64(i))}, false)
		}
		for _, odd := range c13OddNumbers {
			run("element", []cty.Value{list, odd}, false)
			run("element", []cty.Value{tup, odd}, false)
			run("slice", []cty.Value{list, odd, cty.NumberIntVal(int64(l))}, false)
			run("slice", []cty.Value{list, cty.NumberIntVal(0), odd}, false)
			run("chunklist", []cty.Value{list, odd}, false)
		}
	}
	for a := -4; a <= 4; a++ {
		run("range", c13Ints(a), false)
		for b := -4; b <= 4; b++ {
			run("range", c13Ints(a, b), false)
			for s := -4; s <= 4; s++ {
				run("range", c13Ints(a, b, s), false)
			}
			// the step argument being the cty.Zero singleton itself (regression: every zero step is rejected)
			run("range", []cty.Value{cty.NumberIntVal(int64(a)), cty.NumberIntVal(int64(b)), cty.Zero}, true)
		}
	}
	for _, odd := range c13OddNumbers {
		five, zero := cty.NumberIntVal(5), cty.NumberIntVal(0)
		run("range", []cty.Value{odd}, false)
		run("range", []cty.Value{zero, odd}, false)
		run("range", []cty.Value{odd, five}, false)
		run("range", []cty.Value{zero, five, odd}, false)
		run("range", []cty.Value{five, zero, odd}, false)
		run("range", []cty.Value{odd, five, cty.NumberIntVal(1)}, false)
		run("range", []cty.Value{five, odd, cty.NumberIntVal(-1)}, false)
		run("range", []cty.Value{odd, odd, odd}, false)
	}
	for _, st := range []int{1, 2, 3, 1000, -1, -7} {
		run("range", c13Ints(0, 1023*st, st), false)
		run("range", c13Ints(0, 1024*st, st), false)
		run("range", c13Ints(0, 1024*st+st/absInt(st), st), false)
		run("range", c13Ints(0, 1025*st, st), false)
	}
	// regression (/repo 8027069): a dynamically-typed argument of the set algebra functions gives
	// cty.DynamicVal, at every position, instead of a PanicError (correspondence only: not wholly known)
	{
		set := cty.SetVal([]cty.Value{cty.StringVal("a"), cty.StringVal("b")})
		for _, name := range []string{"setunion", "setintersection", "setsubtract", "setsymmetricdifference"} {
			if name != "setsubtract" {
				c13Case(ctx, name, []cty.Value{cty.DynamicVal}, false)
				c13Case(ctx, name, []cty.Value{set, cty.DynamicVal, set}, false)
			}
			for _, args := range [][]cty.Value{
				{cty.DynamicVal, set}, {set, cty.DynamicVal}, {cty.DynamicVal, cty.DynamicVal},
				{cty.SetValEmpty(cty.DynamicPseudoType), cty.DynamicVal}, {cty.DynamicVal, cty.UnknownVal(cty.Set(cty.Number))},
			} {
				res := c13Case(ctx, name, args, false)
				ctx.Eval(name+" "+c13EncArgs(args), true)
				if res.class != "ok" || res.val.IsKnown() {
					ctx.Fail(Failure{Site: name, Sig: name + ":dynamic-argument-not-unknown",
						What:  "a call with a dynamically-typed argument (allowed by the parameter) must succeed with an unknown result (regression of /repo 8027069)",
						Input: c13EncArgs(args), GoLit: c13GoLit(name, args), Outcome: res.wire()})
				}
			}
		}
	}
	ctx.res.Exhaustive = true
	ctx.res.Scope = "element: lists and tuples of every length 0-6 x index -12..12; slice: every length 0-6 x start,end in -1..7; " +
		"chunklist: every length 0-6 x size -1..8; index/hasindex: every length 0-6 x key -2..7; range: every 1-, 2- and 3-argument call over -4..4, " +
		"the 1024-element limit from both sides for six steps, and the cty.Zero singleton as step; set algebra: cty.DynamicVal at every argument position"
}

func absInt(x int) int {
	if x < 0 {
		return -x
	}
	return x
}
