package main

// C20, derived values: building a new value FROM an existing one (refining an
// already refined unknown, re-marking, Mark on a marked value, WithMarks) must
// leave the existing value exactly as it was — the builder / marker must work on
// a copy of whatever state the value carries.  Judged on the real code by the
// fingerprint (cty.VerifDump) of the base value before and after, and by
// repeating an observation of the base (Range, Length) before and after.

import (
	"fmt"

	"github.com/zclconf/go-cty/cty"
)

func c20derived(ctx *Ctx) {
	type mk struct {
		name string
		base func() cty.Value
		// derive builds new values from base (possibly panicking: contradictory refinements are fine)
		derive func(b cty.Value)
	}
	num := func(i int64) cty.Value { return cty.NumberIntVal(i) }
	cases := []mk{
		{"unknown list refined twice (length bounds tightened)", func() cty.Value {
			return cty.UnknownVal(cty.List(cty.String)).Refine().NotNull().CollectionLengthLowerBound(1).NewValue()
		}, func(b cty.Value) {
			b.Refine().CollectionLengthUpperBound(2).NewValue()
			b.Refine().CollectionLengthLowerBound(2).CollectionLengthUpperBound(2).NewValue()
		}},
		{"unknown set refined twice", func() cty.Value {
			return cty.UnknownVal(cty.Set(cty.Number)).Refine().CollectionLengthUpperBound(5).NewValue()
		}, func(b cty.Value) { b.Refine().NotNull().CollectionLengthLowerBound(3).NewValue() }},
		{"unknown map refined twice", func() cty.Value {
			return cty.UnknownVal(cty.Map(cty.Bool)).Refine().NotNull().CollectionLengthLowerBound(1).CollectionLengthUpperBound(9).NewValue()
		}, func(b cty.Value) { b.Refine().CollectionLengthUpperBound(1).NewValue() }},
		{"unknown number refined twice", func() cty.Value {
			return cty.UnknownVal(cty.Number).Refine().NotNull().NumberRangeLowerBound(num(1), true).NewValue()
		}, func(b cty.Value) {
			b.Refine().NumberRangeUpperBound(num(7), false).NewValue()
			b.Refine().NumberRangeLowerBound(num(3), false).NumberRangeUpperBound(num(4), true).NewValue()
		}},
		{"unknown string refined twice", func() cty.Value {
			return cty.UnknownVal(cty.String).Refine().NotNull().StringPrefixFull("ab").NewValue()
		}, func(b cty.Value) { b.Refine().StringPrefixFull("abc-").NewValue() }},
		{"unknown bool: nullness refined twice", func() cty.Value {
			return cty.UnknownVal(cty.Bool).Refine().NotNull().NewValue()
		}, func(b cty.Value) { b.RefineNotNull(); try(func() { b.Refine().Null().NewValue() }) }},
		{"marked value marked again", func() cty.Value {
			return cty.ListVal([]cty.Value{cty.StringVal("a")}).Mark("m1")
		}, func(b cty.Value) { b.Mark("m2"); b.WithMarks(cty.NewValueMarks("m3", "m4")); b.WithSameMarks(cty.True.Mark("m5")) }},
	}
	for _, c := range cases {
		for rep := 0; rep < ctx.N(3, 20); rep++ {
			b := c.base()
			before := cty.VerifDump(b)
			obs := func() string {
				s := ""
				try(func() { s += fmt.Sprint(b.Range().LengthLowerBound(), b.Range().LengthUpperBound()) })
				try(func() { s += "|" + b.Length().GoString() })
				try(func() { s += "|" + fmt.Sprint(b.Range().DefinitelyNotNull()) })
				return s
			}
			o1 := obs()
			if p, why := try(func() { c.derive(b) }); p {
				ctx.Fail(Failure{Site: "no-panic", Sig: "panic:derive:" + c.name, What: "deriving a value from an existing one panicked: " + c.name, Input: before, GoLit: b.GoString(), Outcome: why})
			}
			after, o2 := cty.VerifDump(b), obs()
			ctx.Eval("derived "+c.name+fmt.Sprint(rep), false)
			if before != after || o1 != o2 {
				ctx.Fail(Failure{Site: "fingerprints-stable", Sig: "derived-value-changes-its-base", What: "deriving a new value changed the value it was derived from: " + c.name,
					Input: before, GoLit: b.GoString(), Outcome: after + " observations " + o1 + " -> " + o2})
			}
		}
	}
}
