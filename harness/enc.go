package main

import (
	"encoding/hex"
	"fmt"
	"sort"
	"strings"
	"sync"

	"github.com/zclconf/go-cty/cty"
)

// ---- capsule identities -------------------------------------------------

var (
	capMu  sync.Mutex
	capIDs = map[cty.Type]int{}
)

func capsuleID(t cty.Type) int {
	capMu.Lock()
	defer capMu.Unlock()
	if id, ok := capIDs[t]; ok {
		return id
	}
	id := len(capIDs) + 1
	capIDs[t] = id
	return id
}

func encStr(s string) string { return "x" + hex.EncodeToString([]byte(s)) }

func encBool(b bool) string {
	if b {
		return "1"
	}
	return "0"
}

// encTy prints a type in wire form using only public accessors.
func encTy(t cty.Type) string { return encTyOpt(t, true) }

// encTyOpt prints a type; with keepOpt=false optional flags are printed as 0.
func encTyOpt(t cty.Type, keepOpt bool) string {
	switch {
	case t == cty.NilType:
		return "NIL"
	case t == cty.Bool:
		return "B"
	case t == cty.Number:
		return "N"
	case t == cty.String:
		return "S"
	case t == cty.DynamicPseudoType:
		return "D"
	case t.IsListType():
		return "(L " + encTyOpt(t.ElementType(), keepOpt) + ")"
	case t.IsSetType():
		return "(E " + encTyOpt(t.ElementType(), keepOpt) + ")"
	case t.IsMapType():
		return "(M " + encTyOpt(t.ElementType(), keepOpt) + ")"
	case t.IsTupleType():
		var sb strings.Builder
		sb.WriteString("(T")
		for _, e := range t.TupleElementTypes() {
			sb.WriteByte(' ')
			sb.WriteString(encTyOpt(e, keepOpt))
		}
		sb.WriteByte(')')
		return sb.String()
	case t.IsObjectType():
		atys := t.AttributeTypes()
		names := make([]string, 0, len(atys))
		for k := range atys {
			names = append(names, k)
		}
		sort.Strings(names)
		opt := t.OptionalAttributes()
		var sb strings.Builder
		sb.WriteString("(O")
		for _, k := range names {
			_, o := opt[k]
			fmt.Fprintf(&sb, " (%s %s %s)", encStr(k), encTyOpt(atys[k], keepOpt), encBool(o && keepOpt))
		}
		sb.WriteByte(')')
		return sb.String()
	case t.IsCapsuleType():
		return fmt.Sprintf("(C %d)", capsuleID(t))
	}
	panic("encTy: unknown type " + t.GoString())
}
