package main

// C03, slice «cty/set»: the REAL generic hash-bucket set `set.Set[int]` of
// /repo/cty/set against (a) the Lean model `CtyModel.SetImpl` (correspondence,
// driver op `set.run`, bucket layout included) and (b) an independent reference
// kept here — a plain Go map of equivalence classes per set variable — for the
// property predicates:
//
//	no-equivalent-members   a set never holds two equivalent members
//	has / length / values   answers are those of the mathematical set
//	members-vs-reference    after add / remove / copy / union / intersection /
//	                        subtract / symmetric difference every live set
//	                        represents exactly the mathematical result
//	copy-snapshot           a Copy is independent of its receiver
//	insertion-order         a set built from a permutation of the same inputs
//	                        represents the same classes, has the same Length and
//	                        (total order, same members) the same Values()
//
// runC03SetBudget is called by the C03 runner (full=false in the quick tier: smaller
// exhaustive scopes plus sampling, ~4 s; full=true in the thorough tier: the
// complete small scopes, ~100 s); "C03set" is a stand-alone runner id for
// debugging this slice alone at full scope.

import (
	"fmt"
	"sort"
	"strconv"
	"strings"

	"github.com/zclconf/go-cty/cty/set"
)

func init() {
	register("C03set", "cty/set histories over int rules (exhaustive small scopes + random long ones) and permutations of constructor inputs; "+
		"non-trivial = history has >= 3 calls; distinct = distinct canonical history strings", runC03Set)
}

// ---- int rules: the same five as CtyModel.SetImpl.Sample -----------------

func emod(x, m int) int { return ((x % m) + m) % m }

type c03IntRules struct {
	name  string
	hash  func(int) int
	equiv func(a, b int) bool
}

func (r *c03IntRules) Hash(x int) int           { return r.hash(x) }
func (r *c03IntRules) Equivalent(a, b int) bool { return r.equiv(a, b) }
func (r *c03IntRules) SameRules(o set.Rules[int]) bool {
	t, ok := o.(*c03IntRules)
	return ok && t == r
}

type c03OrdRules struct {
	c03IntRules
	less func(a, b int) bool
}

func (r *c03OrdRules) Less(a, b interface{}) bool { return r.less(a.(int), b.(int)) }
func (r *c03OrdRules) SameRules(o set.Rules[int]) bool {
	t, ok := o.(*c03OrdRules)
	return ok && t == r
}

// c03Rules is one rules instance with what the harness knows about it.
type c03Rules struct {
	name     string
	r        set.Rules[int]
	equiv    func(a, b int) bool
	class    func(int) int       // canonical class id; nil = unlawful rules, correspondence only
	less     func(a, b int) bool // nil = not OrderedRules
	total    bool                // less is a strict total order on classes
	universe []int               // values used by random histories
	small    []int               // values used by the enumerated scopes (collisions + an equivalent pair)
	golit    string              // Go source of the rules, for replay literals
}

var c03AllRules = func() []*c03Rules {
	h3 := func(x int) int { return emod(x, 3) - 1 }
	e6 := func(a, b int) bool { return emod(a, 6) == emod(b, 6) }
	c6 := func(x int) int { return emod(x, 6) }
	u6 := []int{-7, -6, -1, 0, 1, 2, 3, 4, 5, 6, 7, 9, 12, 15}
	m3e6 := &c03IntRules{"m3e6", h3, e6}
	m2e12 := &c03IntRules{"m2e12", func(x int) int { return emod(x, 2) }, func(a, b int) bool { return emod(a, 12) == emod(b, 12) }}
	ltot := func(a, b int) bool { return emod(b, 6) < emod(a, 6) }
	lties := func(a, b int) bool { return emod(a, 3) < emod(b, 3) }
	ordTotal := &c03OrdRules{c03IntRules{"ordTotal", h3, e6}, ltot}
	ordTies := &c03OrdRules{c03IntRules{"ordTies", h3, e6}, lties}
	unl := &c03IntRules{"unlawful", func(x int) int { return emod(x, 3) }, func(a, b int) bool { return emod(a, 2) == emod(b, 2) }}
	const em = "em := func(x, m int) int { return ((x % m) + m) % m }; "
	return []*c03Rules{
		{name: "m3e6", r: m3e6, equiv: e6, class: c6, universe: u6, small: []int{0, 3, 6, 1},
			golit: em + "Hash(x) = em(x,3)-1; Equivalent(a,b) = em(a,6)==em(b,6)"},
		{name: "m2e12", r: m2e12, equiv: m2e12.equiv, class: func(x int) int { return emod(x, 12) },
			universe: []int{-12, -3, -2, 0, 1, 2, 3, 4, 5, 6, 7, 8, 9, 10, 11, 12, 14, 16, 25}, small: []int{0, 2, 12, 4},
			golit: em + "Hash(x) = em(x,2); Equivalent(a,b) = em(a,12)==em(b,12)"},
		{name: "ordTotal", r: ordTotal, equiv: e6, class: c6, less: ltot, total: true, universe: u6, small: []int{0, 3, 6, 1},
			golit: em + "Hash(x) = em(x,3)-1; Equivalent(a,b) = em(a,6)==em(b,6); Less(a,b) = em(b,6) < em(a,6)"},
		{name: "ordTies", r: ordTies, equiv: e6, class: c6, less: lties, universe: u6, small: []int{0, 3, 6, 1},
			golit: em + "Hash(x) = em(x,3)-1; Equivalent(a,b) = em(a,6)==em(b,6); Less(a,b) = em(a,3) < em(b,3)"},
		{name: "unlawful", r: unl, equiv: unl.equiv, universe: []int{-2, -1, 0, 1, 2, 3, 4, 5, 6, 7}, small: []int{0, 2, 3, 1},
			golit: em + "Hash(x) = em(x,3); Equivalent(a,b) = em(a,2)==em(b,2)   (UNLAWFUL on purpose)"},
	}
}()

// ---- histories ------------------------------------------------------------

type c03Op struct {
	k       string // add rem has len vals copy union inter sub symd
	a, b, c int
}

func (o c03Op) arity() int {
	switch o.k {
	case "len", "vals":
		return 1
	case "add", "rem", "has", "copy":
		return 2
	}
	return 3
}

func (o c03Op) wire() string {
	switch o.arity() {
	case 1:
		return fmt.Sprintf("(%s %d)", o.k, o.a)
	case 2:
		return fmt.Sprintf("(%s %d %d)", o.k, o.a, o.b)
	}
	return fmt.Sprintf("(%s %d %d %d)", o.k, o.a, o.b, o.c)
}

func (o c03Op) golit() string {
	switch o.k {
	case "add":
		return fmt.Sprintf("s[%d].Add(%d)", o.a, o.b)
	case "rem":
		return fmt.Sprintf("s[%d].Remove(%d)", o.a, o.b)
	case "has":
		return fmt.Sprintf("_ = s[%d].Has(%d)", o.a, o.b)
	case "len":
		return fmt.Sprintf("_ = s[%d].Length()", o.a)
	case "vals":
		return fmt.Sprintf("_ = s[%d].Values()", o.a)
	case "copy":
		return fmt.Sprintf("s[%d] = s[%d].Copy()", o.a, o.b)
	case "union":
		return fmt.Sprintf("s[%d] = s[%d].Union(s[%d])", o.a, o.b, o.c)
	case "inter":
		return fmt.Sprintf("s[%d] = s[%d].Intersection(s[%d])", o.a, o.b, o.c)
	case "sub":
		return fmt.Sprintf("s[%d] = s[%d].Subtract(s[%d])", o.a, o.b, o.c)
	case "symd":
		return fmt.Sprintf("s[%d] = s[%d].SymmetricDifference(s[%d])", o.a, o.b, o.c)
	}
	return "?"
}

func c03Wires(ops []c03Op) []string {
	w := make([]string, len(ops))
	for i, o := range ops {
		w[i] = o.wire()
	}
	return w
}

func c03GoLit(rs *c03Rules, nregs int, ops []c03Op) string {
	var sb strings.Builder
	fmt.Fprintf(&sb, "/* rules %s: %s */ s := make([]set.Set[int], %d); for i := range s { s[i] = set.NewSet[int](rules) }", rs.name, rs.golit, nregs)
	for _, o := range ops {
		sb.WriteString("; ")
		sb.WriteString(o.golit())
	}
	return sb.String()
}

func c03Ints(l []int) string {
	var sb strings.Builder
	sb.WriteByte('(')
	for i, x := range l {
		if i > 0 {
			sb.WriteByte(' ')
		}
		sb.WriteString(strconv.Itoa(x))
	}
	sb.WriteByte(')')
	return sb.String()
}

// c03Layout prints the bucket map canonically: ((id m…) …), ids ascending.
func c03Layout(s set.Set[int]) string {
	ids, buckets := set.VerifBuckets(s)
	var sb strings.Builder
	sb.WriteByte('(')
	for i, id := range ids {
		if i > 0 {
			sb.WriteByte(' ')
		}
		sb.WriteString(c03Ints(append([]int{id}, buckets[i]...)))
	}
	sb.WriteByte(')')
	return sb.String()
}

func c03Members(s set.Set[int]) []int {
	_, buckets := set.VerifBuckets(s)
	var out []int
	for _, b := range buckets {
		out = append(out, b...)
	}
	return out
}

// c03DeepCopy rebuilds a set with the same bucket layout and fresh slices
// (what Copy would be if it did not share the bucket arrays).
func c03DeepCopy(rs *c03Rules, s set.Set[int]) set.Set[int] {
	t := set.NewSet[int](rs.r)
	for _, m := range c03Members(s) {
		t.Add(m)
	}
	return t
}

type c03Viol struct{ site, sig, what, outcome string }

type c03Run struct {
	out      string // canonical outputs + final layouts (what the model must print)
	viol     []c03Viol
	panicked bool
	why      string
	tiesDiff bool // Values() order differed from a reshuffled rebuild (only looked at for ordered rules)
}

func c03ClassSet(rs *c03Rules, members []int) map[int]int {
	m := map[int]int{}
	for _, x := range members {
		m[rs.class(x)]++
	}
	return m
}

func c03SameKeys(a map[int]int, b map[int]struct{}) bool {
	if len(a) != len(b) {
		return false
	}
	for k := range b {
		if _, ok := a[k]; !ok {
			return false
		}
	}
	return true
}

func c03RefStr(m map[int]struct{}) string {
	ks := make([]int, 0, len(m))
	for k := range m {
		ks = append(ks, k)
	}
	sort.Ints(ks)
	return "classes" + c03Ints(ks)
}

// c03Exec runs a history on the real set.Set[int] and, for lawful rules, judges
// every step against the reference.  deep=true replaces Copy by a rebuild with
// fresh bucket slices (used to recognise copy aliasing).
func c03Exec(ctx *Ctx, rs *c03Rules, nregs int, ops []c03Op, deep bool) (res c03Run) {
	regs := make([]set.Set[int], nregs)
	ref := make([]map[int]struct{}, nregs)
	for i := range regs {
		regs[i] = set.NewSet[int](rs.r)
		ref[i] = map[int]struct{}{}
	}
	judge := rs.class != nil
	bad := func(site, sig, what, outcome string) {
		if len(res.viol) < 4 {
			res.viol = append(res.viol, c03Viol{site, sig, what, outcome})
		}
	}
	var outs []string
	res.panicked, res.why = try(func() {
		for step, o := range ops {
			switch o.k {
			case "add":
				regs[o.a].Add(o.b)
				if judge {
					ref[o.a][rs.class(o.b)] = struct{}{}
				}
			case "rem":
				regs[o.a].Remove(o.b)
				if judge {
					delete(ref[o.a], rs.class(o.b))
				}
			case "has":
				got := regs[o.a].Has(o.b)
				outs = append(outs, encBool(got))
				if judge {
					_, want := ref[o.a][rs.class(o.b)]
					if got != want {
						bad("has", "has-vs-reference", "Has disagrees with the mathematical set", fmt.Sprintf("step %d %s = %v, reference %v (%s)", step, o.wire(), got, want, c03RefStr(ref[o.a])))
					}
				}
			case "len":
				got := regs[o.a].Length()
				outs = append(outs, strconv.Itoa(got))
				if judge && got != len(ref[o.a]) {
					bad("length", "length-vs-reference", "Length is not the number of classes of the mathematical set", fmt.Sprintf("step %d %s = %d, reference %d (%s)", step, o.wire(), got, len(ref[o.a]), c03RefStr(ref[o.a])))
				}
			case "vals":
				got := regs[o.a].Values()
				outs = append(outs, c03Ints(got))
				if judge {
					cs := c03ClassSet(rs, got)
					if len(cs) != len(got) || !c03SameKeys(cs, ref[o.a]) {
						bad("values", "values-vs-reference", "Values does not list one representative of every class exactly once", fmt.Sprintf("step %d %s = %s, reference %s", step, o.wire(), c03Ints(got), c03RefStr(ref[o.a])))
					}
					if rs.less != nil && len(got) > 1 {
						// order must depend on the members only: rebuild from the same members, shuffled
						sh := append([]int(nil), got...)
						ctx.R.Shuffle(len(sh), func(i, j int) { sh[i], sh[j] = sh[j], sh[i] })
						again := set.NewSetFromSlice[int](rs.r, sh).Values()
						if c03Ints(again) != c03Ints(got) {
							if rs.total {
								bad("values-order", "order-depends-on-insertion-under-total-order", "Values() of two sets with literally the same members differ although Less is a strict total order on them",
									fmt.Sprintf("step %d %s = %s, rebuilt from %s gives %s", step, o.wire(), c03Ints(got), c03Ints(sh), c03Ints(again)))
							} else {
								res.tiesDiff = true
							}
						}
					}
				}
			case "copy":
				if deep {
					regs[o.a] = c03DeepCopy(rs, regs[o.b])
				} else {
					regs[o.a] = regs[o.b].Copy()
				}
				if judge {
					n := map[int]struct{}{}
					for k := range ref[o.b] {
						n[k] = struct{}{}
					}
					ref[o.a] = n
				}
			case "union", "inter", "sub", "symd":
				var r set.Set[int]
				switch o.k {
				case "union":
					r = regs[o.b].Union(regs[o.c])
				case "inter":
					r = regs[o.b].Intersection(regs[o.c])
				case "sub":
					r = regs[o.b].Subtract(regs[o.c])
				case "symd":
					r = regs[o.b].SymmetricDifference(regs[o.c])
				}
				regs[o.a] = r
				if judge {
					n := map[int]struct{}{}
					A, B := ref[o.b], ref[o.c]
					for k := range A {
						_, inB := B[k]
						if o.k == "union" || (o.k == "inter" && inB) || ((o.k == "sub" || o.k == "symd") && !inB) {
							n[k] = struct{}{}
						}
					}
					for k := range B {
						_, inA := A[k]
						if o.k == "union" || (o.k == "symd" && !inA) {
							n[k] = struct{}{}
						}
					}
					ref[o.a] = n
				}
			}
			if judge {
				// every live set: no two equivalent members; members = reference
				for i := range regs {
					ms := c03Members(regs[i])
					for x := 0; x < len(ms); x++ {
						for y := x + 1; y < len(ms); y++ {
							if rs.equiv(ms[x], ms[y]) || rs.equiv(ms[y], ms[x]) {
								bad("no-equivalent-members", "two-equivalent-members:after-"+o.k, "a set holds two equivalent members",
									fmt.Sprintf("after step %d %s set %d = %s holds %d and %d", step, o.wire(), i, c03Layout(regs[i]), ms[x], ms[y]))
							}
						}
					}
					if !c03SameKeys(c03ClassSet(rs, ms), ref[i]) {
						bad("members-vs-reference", "members-vs-reference:after-"+o.k, "the members of a set are not those of the mathematical result",
							fmt.Sprintf("after step %d %s set %d = %s, reference %s", step, o.wire(), i, c03Layout(regs[i]), c03RefStr(ref[i])))
					}
				}
			}
		}
	})
	parts := append(outs, "|")
	if !res.panicked {
		for i := range regs {
			parts = append(parts, c03Layout(regs[i]))
		}
	}
	res.out = strings.Join(parts, " ")
	return
}

func c03HasCopy(ops []c03Op) bool {
	for _, o := range ops {
		if o.k == "copy" {
			return true
		}
	}
	return false
}

// c03Shrink greedily drops calls while `fails` still holds.
func c03Shrink(ops []c03Op, fails func([]c03Op) bool) []c03Op {
	cur := append([]c03Op(nil), ops...)
	for changed := true; changed; {
		changed = false
		for i := len(cur) - 1; i >= 0; i-- {
			cand := append(append([]c03Op(nil), cur[:i]...), cur[i+1:]...)
			if fails(cand) {
				cur, changed = cand, true
			}
		}
	}
	return cur
}

func c03Input(rs *c03Rules, nregs int, ops []c03Op) string {
	return "set.run " + rs.name + " " + strconv.Itoa(nregs) + " " + strings.Join(c03Wires(ops), " ")
}

// c03Case runs one history: property predicates on the real code + one
// correspondence case.  family names the generator (distribution tag).
func c03Case(ctx *Ctx, rs *c03Rules, nregs int, ops []c03Op, family string) {
	r := c03Exec(ctx, rs, nregs, ops, false)
	ctx.Tag("set:" + family + ":" + rs.name)
	key := c03Input(rs, nregs, ops)
	ctx.Eval(key, len(ops) >= 3)
	if r.panicked {
		min := c03Shrink(ops, func(h []c03Op) bool { return c03Exec(ctx, rs, nregs, h, false).panicked })
		ctx.Fail(Failure{Site: "set-panic", Sig: "set-panic:" + rs.name, What: "a cty/set call panicked", Input: c03Input(rs, nregs, min),
			GoLit: c03GoLit(rs, nregs, min), Outcome: r.why})
		return
	}
	if r.tiesDiff {
		ctx.Tag("set:values-order-depends-on-insertion-under-ties(expected):" + rs.name)
	}
	// Copy must be a snapshot: the same history with Copy replaced by a rebuild on
	// fresh slices has to be indistinguishable.
	if c03HasCopy(ops) {
		differs := func(h []c03Op) bool {
			a, b := c03Exec(ctx, rs, nregs, h, false), c03Exec(ctx, rs, nregs, h, true)
			return !a.panicked && !b.panicked && (a.out != b.out || (len(a.viol) > 0 && len(b.viol) == 0))
		}
		if differs(ops) {
			min := c03Shrink(ops, differs)
			a, b := c03Exec(ctx, rs, nregs, min, false), c03Exec(ctx, rs, nregs, min, true)
			outcome := "real: " + a.out + "   with an unshared copy: " + b.out
			if len(a.viol) > 0 {
				outcome += "   (" + a.viol[0].site + ": " + a.viol[0].outcome + ")"
			}
			ctx.Tag("set:corr-skipped:copy-aliasing")
			ctx.Fail(Failure{Site: "copy-snapshot", Sig: "copy-shares-bucket-array",
				What:  "Set.Copy shares the bucket slices with its receiver: a later Add to the receiver and to the copy write the same spare-capacity slot, so one set's member is replaced by the other's (the copy is not a snapshot)",
				Input: c03Input(rs, nregs, min), GoLit: c03GoLit(rs, nregs, min), Outcome: outcome})
			return // the model's copy is the snapshot; this history is reported as a failure, not as a model mismatch
		}
	}
	for _, v := range r.viol {
		site, sig := v.site, v.sig
		min := c03Shrink(ops, func(h []c03Op) bool {
			for _, w := range c03Exec(ctx, rs, nregs, h, false).viol {
				if w.site == site && w.sig == sig {
					return true
				}
			}
			return false
		})
		out := v.outcome
		for _, w := range c03Exec(ctx, rs, nregs, min, false).viol {
			if w.site == site && w.sig == sig {
				out = w.outcome
				break
			}
		}
		ctx.Fail(Failure{Site: site, Sig: sig + ":" + rs.name, What: v.what, Input: c03Input(rs, nregs, min), GoLit: c03GoLit(rs, nregs, min), Outcome: out})
	}
	ctx.Add("set.run", r.out, rs.name, strconv.Itoa(nregs), strings.Join(c03Wires(ops), " "))
}

// ---- generators -----------------------------------------------------------

func c03Enum(alpha []c03Op, n int, f func([]c03Op)) int {
	cnt := 0
	buf := make([]c03Op, 0, n)
	var rec func()
	rec = func() {
		if len(buf) == n {
			f(append([]c03Op(nil), buf...))
			cnt++
			return
		}
		for _, o := range alpha {
			buf = append(buf, o)
			rec()
			buf = buf[:len(buf)-1]
		}
	}
	rec()
	return cnt
}

// observation suffix: every query on every register
func c03Observe(nregs int, vals []int) []c03Op {
	var s []c03Op
	for i := 0; i < nregs; i++ {
		for _, v := range vals {
			s = append(s, c03Op{k: "has", a: i, b: v})
		}
		s = append(s, c03Op{k: "len", a: i}, c03Op{k: "vals", a: i})
	}
	return s
}

func c03RandOp(ctx *Ctx, rs *c03Rules, nregs int) c03Op {
	v := rs.universe[ctx.R.Intn(len(rs.universe))]
	i, j, k := ctx.R.Intn(nregs), ctx.R.Intn(nregs), ctx.R.Intn(nregs)
	switch p := ctx.R.Intn(100); {
	case p < 32:
		return c03Op{k: "add", a: i, b: v}
	case p < 46:
		return c03Op{k: "rem", a: i, b: v}
	case p < 56:
		return c03Op{k: "has", a: i, b: v}
	case p < 60:
		return c03Op{k: "len", a: i}
	case p < 66:
		return c03Op{k: "vals", a: i}
	case p < 75:
		return c03Op{k: "copy", a: i, b: j}
	case p < 82:
		return c03Op{k: "union", a: i, b: j, c: k}
	case p < 88:
		return c03Op{k: "inter", a: i, b: j, c: k}
	case p < 94:
		return c03Op{k: "sub", a: i, b: j, c: k}
	}
	return c03Op{k: "symd", a: i, b: j, c: k}
}

func c03Permutations(l []int, f func([]int)) {
	p := append([]int(nil), l...)
	var rec func(int)
	rec = func(k int) {
		if k == len(p) {
			f(append([]int(nil), p...))
			return
		}
		for i := k; i < len(p); i++ {
			p[k], p[i] = p[i], p[k]
			rec(k + 1)
			p[k], p[i] = p[i], p[k]
		}
	}
	rec(0)
}

// c03PermCase: every permutation of one constructor input list.
func c03PermCase(ctx *Ctx, rs *c03Rules, input []int) {
	wantClasses := map[int]struct{}{}
	for _, x := range input {
		wantClasses[rs.class(x)] = struct{}{}
	}
	byMembers := map[string]string{} // sorted members -> Values() of the first permutation that produced them
	lit := func(p []int) string {
		return fmt.Sprintf("/* rules %s: %s */ set.NewSetFromSlice[int](rules, []int{%s})", rs.name, rs.golit, strings.Trim(strings.ReplaceAll(c03Ints(p), " ", ", "), "()"))
	}
	c03Permutations(input, func(p []int) {
		var s set.Set[int]
		var vals []int
		var n int
		if pn, why := try(func() { s = set.NewSetFromSlice[int](rs.r, p); vals = s.Values(); n = s.Length() }); pn {
			ctx.Fail(Failure{Site: "set-panic", Sig: "set-panic:" + rs.name, What: "NewSetFromSlice / Values / Length panicked", Input: "fromslice " + rs.name + " " + c03Ints(p), GoLit: lit(p), Outcome: why})
			return
		}
		ms := c03Members(s)
		cs := c03ClassSet(rs, ms)
		if len(cs) != len(ms) {
			ctx.Fail(Failure{Site: "no-equivalent-members", Sig: "two-equivalent-members:fromslice:" + rs.name, What: "a set built from a slice holds two equivalent members", Input: "fromslice " + rs.name + " " + c03Ints(p), GoLit: lit(p), Outcome: c03Layout(s)})
		}
		if !c03SameKeys(cs, wantClasses) || n != len(wantClasses) {
			ctx.Fail(Failure{Site: "insertion-order", Sig: "fromslice-classes:" + rs.name, What: "a set built from a permutation of the inputs does not hold exactly the distinct input values", Input: "fromslice " + rs.name + " " + c03Ints(p), GoLit: lit(p),
				Outcome: fmt.Sprintf("%s Length %d, want %s", c03Layout(s), n, c03RefStr(wantClasses))})
		}
		if rs.less != nil {
			sm := append([]int(nil), ms...)
			sort.Ints(sm)
			k := c03Ints(sm)
			if first, ok := byMembers[k]; !ok {
				byMembers[k] = c03Ints(vals)
			} else if first != c03Ints(vals) {
				if rs.total {
					ctx.Fail(Failure{Site: "values-order", Sig: "order-depends-on-insertion-under-total-order:" + rs.name, What: "two sets with literally the same members iterate differently although Less is a strict total order", Input: "fromslice " + rs.name + " " + c03Ints(p), GoLit: lit(p),
						Outcome: c03Ints(vals) + " vs " + first})
				} else {
					ctx.Tag("set:values-order-depends-on-insertion-under-ties(expected):" + rs.name)
				}
			}
		}
		// the same construction as a correspondence case
		ops := make([]c03Op, 0, len(p)+2)
		for _, x := range p {
			ops = append(ops, c03Op{k: "add", a: 0, b: x})
		}
		ops = append(ops, c03Op{k: "len", a: 0}, c03Op{k: "vals", a: 0})
		ctx.Add("set.run", strconv.Itoa(n)+" "+c03Ints(vals)+" | "+c03Layout(s), rs.name, "1", strings.Join(c03Wires(ops), " "))
		ctx.Eval("fromslice "+rs.name+" "+c03Ints(p), len(p) >= 3)
		ctx.Tag("set:perm:" + rs.name)
	})
}

func runC03Set(ctx *Ctx) { runC03SetBudget(ctx, true) }

// runC03SetBudget: full = the complete exhaustive scopes (E1 length<=4 for four
// rules, E2 length<=3 for three rules and length 4 for m3e6 in the thorough tier,
// E2b, E3 length<=4); !full = E1 length<=4 for m3e6 only and length<=3 elsewhere,
// E2 length<=3 for m3e6 only and length<=2 elsewhere, no E2b, E3 length<=3,
// fewer random histories.
func runC03SetBudget(ctx *Ctx, full bool) {
	var scope []string
	pick := func(fullN, quickN int) int {
		if full {
			return fullN
		}
		return quickN
	}
	for _, rs := range c03AllRules {
		v3 := rs.small[:3]
		// E1: one set, every call kind interleaved, 4 values, all histories of length <= 4
		if rs.name == "m3e6" || rs.name == "ordTotal" || rs.name == "m2e12" || rs.name == "unlawful" {
			var alpha []c03Op
			for _, v := range rs.small {
				alpha = append(alpha, c03Op{k: "add", a: 0, b: v}, c03Op{k: "rem", a: 0, b: v}, c03Op{k: "has", a: 0, b: v})
			}
			alpha = append(alpha, c03Op{k: "len", a: 0}, c03Op{k: "vals", a: 0})
			n := 0
			e1Len := pick(4, 3)
			if rs.name == "m3e6" {
				e1Len = 4
			}
			for l := 0; l <= e1Len; l++ {
				n += c03Enum(alpha, l, func(h []c03Op) { c03Case(ctx, rs, 1, append(h, c03Op{k: "vals", a: 0}), "enum1") })
			}
			scope = append(scope, fmt.Sprintf("%s: all %d histories of length<=%d of one set over %d calls (add/remove/has x values %v, length, values)", rs.name, n, e1Len, len(alpha), rs.small))
		}
		// E2: two sets, all mutators incl. copy and the four algebra calls, 3 values
		if rs.name == "m3e6" || rs.name == "ordTies" || rs.name == "m2e12" {
			var alpha []c03Op
			for i := 0; i < 2; i++ {
				for _, v := range v3 {
					alpha = append(alpha, c03Op{k: "add", a: i, b: v}, c03Op{k: "rem", a: i, b: v})
				}
			}
			alpha = append(alpha, c03Op{k: "copy", a: 1, b: 0}, c03Op{k: "copy", a: 0, b: 1})
			for _, k := range []string{"union", "inter", "sub", "symd"} {
				for d := 0; d < 2; d++ {
					alpha = append(alpha, c03Op{k: k, a: d, b: 0, c: 1}, c03Op{k: k, a: d, b: 1, c: 0})
				}
			}
			maxLen := pick(3, 2)
			if rs.name == "m3e6" {
				maxLen = 3
				if full {
					maxLen = ctx.N(3, 4)
				}
			}
			obs := c03Observe(2, v3)
			n := 0
			for l := 0; l <= maxLen; l++ {
				n += c03Enum(alpha, l, func(h []c03Op) { c03Case(ctx, rs, 2, append(h, obs...), "enum2") })
			}
			scope = append(scope, fmt.Sprintf("%s: all %d histories of length<=%d of two sets over %d mutating calls (add/remove x values %v, copy, union/intersection/subtract/symmetricDifference), each followed by every query", rs.name, n, maxLen, len(alpha), v3))
			if full && maxLen < 4 && rs.name != "m2e12" {
				// length 4 over a smaller alphabet
				beta := []c03Op{}
				for _, v := range v3 {
					beta = append(beta, c03Op{k: "add", a: 0, b: v}, c03Op{k: "rem", a: 0, b: v}, c03Op{k: "add", a: 1, b: v})
				}
				beta = append(beta, c03Op{k: "copy", a: 1, b: 0})
				for _, k := range []string{"union", "inter", "sub", "symd"} {
					beta = append(beta, c03Op{k: k, a: 0, b: 0, c: 1})
				}
				n := c03Enum(beta, 4, func(h []c03Op) { c03Case(ctx, rs, 2, append(h, obs...), "enum2b") })
				scope = append(scope, fmt.Sprintf("%s: all %d histories of length 4 of two sets over %d calls", rs.name, n, len(beta)))
			}
		}
		// E3 (long buckets): a bucket of three members — the first length at which Go's
		// append leaves spare capacity — then every history of length <= 4 of copies,
		// adds and removes on two sets
		if rs.name == "m2e12" {
			prefix := []c03Op{{k: "add", a: 0, b: 0}, {k: "add", a: 0, b: 2}, {k: "add", a: 0, b: 4}}
			var alpha []c03Op
			for i := 0; i < 2; i++ {
				for _, v := range []int{6, 8, 12} {
					alpha = append(alpha, c03Op{k: "add", a: i, b: v})
				}
				for _, v := range []int{0, 6} {
					alpha = append(alpha, c03Op{k: "rem", a: i, b: v})
				}
			}
			alpha = append(alpha, c03Op{k: "copy", a: 1, b: 0}, c03Op{k: "copy", a: 0, b: 1})
			obs := c03Observe(2, []int{0, 6, 8})
			n := 0
			e3Len := pick(4, 3)
			for l := 0; l <= e3Len; l++ {
				n += c03Enum(alpha, l, func(h []c03Op) {
					c03Case(ctx, rs, 2, append(append(append([]c03Op(nil), prefix...), h...), obs...), "enum3")
				})
			}
			scope = append(scope, fmt.Sprintf("%s: set 0 = {0,2,4} in one bucket, then all %d histories of length<=%d of two sets over %d calls (add 6/8/12, remove 0/6, copy either way), each followed by every query", rs.name, n, e3Len, len(alpha)))
		}
		// P: all permutations of constructor inputs (<= 6 inputs)
		if rs.class != nil {
			// every input list of length <= 3 over the 4 small values
			alphaV := rs.small
			cnt := 0
			for l := 0; l <= 3; l++ {
				idx := make([]int, l)
				for {
					in := make([]int, l)
					for i := range idx {
						in[i] = alphaV[idx[i]]
					}
					sorted := sort.IntsAreSorted(idx) // one representative per multiset of inputs
					if sorted {
						c03PermCase(ctx, rs, in)
						cnt++
					}
					i := l - 1
					for ; i >= 0; i-- {
						idx[i]++
						if idx[i] < len(alphaV) {
							break
						}
						idx[i] = 0
					}
					if i < 0 {
						break
					}
				}
			}
			scope = append(scope, fmt.Sprintf("%s: all permutations of all %d input multisets of size<=3 over %v", rs.name, cnt, alphaV))
			for k := 0; k < ctx.N(3, 25); k++ {
				l := 4 + ctx.R.Intn(3)
				in := make([]int, l)
				for i := range in {
					in[i] = rs.universe[ctx.R.Intn(len(rs.universe))]
				}
				c03PermCase(ctx, rs, in)
			}
		}
		// R: random histories on two to four sets
		nh, maxLen := pick(ctx.N(2500, 25000), 700), ctx.N(30, 200)
		for k := 0; k < nh; k++ {
			l := 1 + ctx.R.Intn(maxLen)
			if ctx.R.Intn(3) == 0 {
				l = 1 + ctx.R.Intn(12)
			}
			nregs := 2 + ctx.R.Intn(3)
			ops := make([]c03Op, l)
			for i := range ops {
				ops[i] = c03RandOp(ctx, rs, nregs)
			}
			c03Case(ctx, rs, nregs, ops, "random")
		}
	}
	ctx.res.Exhaustive = true
	s := "cty/set: " + strings.Join(scope, "; ")
	if ctx.res.Scope != "" {
		ctx.res.Scope += "; " + s
	} else {
		ctx.res.Scope = s
	}
}
