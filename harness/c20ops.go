package main

// C20 — execution of one history step on the real code.  `do` runs the call,
// fills in the oracle columns (member hashes, Set.Values order) and returns the
// wire form of the op for the Lean model plus a Go statement for replay.

import (
	"fmt"
	"math/big"
	"sort"
	"strings"

	"github.com/zclconf/go-cty/cty"
	"github.com/zclconf/go-cty/cty/set"
)

type c20Op struct {
	name string
	a, b int    // register indices (meaning depends on the op)
	n    int64  // integer argument
	s    string // string argument
	idxs []int  // list of value registers
	keys []string
	prim []string // type sources: "" = of value idxs[i], else a primitive name
}

func c20tysrc(prim string, v int) string {
	if prim != "" {
		return "(prim " + encStr(prim) + ")"
	}
	return fmt.Sprintf("(ofval %d)", v)
}

func (h *c20H) tysrc(prim string, v int) (cty.Type, bool) {
	if prim != "" {
		return c20primType(prim), true
	}
	if v < 0 || v >= len(h.vals) {
		return cty.NilType, false
	}
	return h.vals[v].Type(), true
}

func (h *c20H) gk(i int, kind string) *c20Go {
	if i < 0 || i >= len(h.gos) || h.gos[i].kind != kind {
		return nil
	}
	return h.gos[i]
}

func (h *c20H) val(i int) (cty.Value, bool) {
	if i < 0 || i >= len(h.vals) {
		return cty.NilVal, false
	}
	return h.vals[i], true
}

func c20plain(v cty.Value) bool { return v.IsKnown() && !v.IsNull() && !v.IsMarked() }

// c20noSets: no set anywhere inside the type (the model orders set members by oracle only at top level)
func c20noSets(t cty.Type) bool {
	switch {
	case t.IsSetType():
		return false
	case t.IsListType() || t.IsMapType():
		return c20noSets(t.ElementType())
	case t.IsTupleType():
		for _, e := range t.TupleElementTypes() {
			if !c20noSets(e) {
				return false
			}
		}
	case t.IsObjectType():
		for _, e := range t.AttributeTypes() {
			if !c20noSets(e) {
				return false
			}
		}
	}
	return true
}

// c20elems returns the (key, element) pairs ForEachElement hands out.
func c20elems(v cty.Value) (ks, es []cty.Value) {
	v.ForEachElement(func(k, e cty.Value) bool {
		ks, es = append(ks, k), append(es, e)
		return false
	})
	return
}

// setPerm: order of ElementIterator over a set value relative to bucket order.
func c20setPerm(v cty.Value, out []cty.Value) ([]int, bool) {
	s, ok := c20innerSetOfValue(v)
	if !ok {
		return nil, false
	}
	_, flat := c20setFlat(v.Type().ElementType(), s)
	return c20perm(flat, c20payloadFPs(out))
}

// do executes one step.  ok=false: the op does not apply in this state (nothing
// was executed).  A panic of the real code is reported as wire "" with ok=true.
func (h *c20H) do(op *c20Op) (wire, golit string, ok bool) {
	if strings.HasPrefix(op.name, "x") {
		return h.c20xDo(op) // the entry points added by slice d20b (harness/c20_d2.go)
	}
	nv, ng := len(h.vals), len(h.gos)
	vname := func(i int) string { return fmt.Sprintf("v%d", i) }
	gname := func(i int) string { return fmt.Sprintf("g%d", i) }
	switch op.name {
	// ---- caller: fresh Go data
	case "newFloat":
		h.pushGo(&c20Go{kind: "float", f: new(big.Float).SetInt64(op.n)})
		return fmt.Sprintf("(newFloat %d)", op.n), fmt.Sprintf("%s := new(big.Float).SetInt64(%d)", gname(ng), op.n), true
	case "newSlice":
		s := make([]cty.Value, 0, c20max(int(op.n), len(op.idxs)))
		names := []string{}
		for _, i := range op.idxs {
			v, ok := h.val(i)
			if !ok {
				return "", "", false
			}
			s = append(s, v)
			names = append(names, vname(i))
		}
		h.pushGo(&c20Go{kind: "slice", vs: s})
		return fmt.Sprintf("(newSlice %s %d)", c20ints(op.idxs), op.n),
			fmt.Sprintf("%s := append(make([]cty.Value, 0, %d), %s)", gname(ng), cap(s), strings.Join(names, ", ")), true
	case "newMap":
		m := map[string]cty.Value{}
		parts, lits := []string{}, []string{}
		for j, i := range op.idxs {
			v, ok := h.val(i)
			if !ok {
				return "", "", false
			}
			m[op.keys[j]] = v
			parts = append(parts, fmt.Sprintf("(%s %d)", encStr(op.keys[j]), i))
			lits = append(lits, fmt.Sprintf("%q: %s", op.keys[j], vname(i)))
		}
		h.pushGo(&c20Go{kind: "map", vm: m})
		return "(newMap (l " + strings.Join(parts, " ") + "))", fmt.Sprintf("%s := map[string]cty.Value{%s}", gname(ng), strings.Join(lits, ", ")), true
	case "newMarks":
		mk := cty.ValueMarks{}
		enc := []string{"l"}
		for _, k := range op.keys {
			mk[k] = struct{}{}
			enc = append(enc, encStr(k))
		}
		h.pushGo(&c20Go{kind: "marks", mk: mk})
		return "(newMarks (" + strings.Join(enc, " ") + "))", fmt.Sprintf("%s := cty.NewValueMarks(%q)  // as a non-nil map", gname(ng), op.keys), true
	case "newTypes":
		ts := make([]cty.Type, 0, len(op.prim))
		parts := []string{}
		for j, p := range op.prim {
			t, ok := h.tysrc(p, op.idxs[j])
			if !ok {
				return "", "", false
			}
			ts = append(ts, t)
			parts = append(parts, c20tysrc(p, op.idxs[j]))
		}
		h.pushGo(&c20Go{kind: "types", tys: ts})
		return "(newTypes (l " + strings.Join(parts, " ") + "))", fmt.Sprintf("%s := %#v", gname(ng), ts), true
	case "newTypeMap":
		tm := map[string]cty.Type{}
		parts := []string{}
		for j, p := range op.prim {
			t, ok := h.tysrc(p, op.idxs[j])
			if !ok {
				return "", "", false
			}
			tm[op.keys[j]] = t
			parts = append(parts, "("+encStr(op.keys[j])+" "+c20tysrc(p, op.idxs[j])+")")
		}
		h.pushGo(&c20Go{kind: "tymap", tm: tm})
		return "(newTypeMap (l " + strings.Join(parts, " ") + "))", fmt.Sprintf("%s := %#v", gname(ng), tm), true
	case "nilPath":
		h.pushGo(&c20Go{kind: "path"})
		return "(nilPath)", fmt.Sprintf("var %s cty.Path", gname(ng)), true

	// ---- caller: mutation of data it holds
	case "setFloat":
		g := h.gk(op.a, "float")
		if g == nil {
			return "", "", false
		}
		g.f.SetInt64(op.n)
		return fmt.Sprintf("(setFloat %d %d)", op.a, op.n), fmt.Sprintf("%s.SetInt64(%d)", gname(op.a), op.n), true
	case "setElem":
		g := h.gk(op.a, "slice")
		v, okv := h.val(op.b)
		if g == nil || !okv || int(op.n) >= len(g.vs) {
			return "", "", false
		}
		g.vs[op.n] = v
		return fmt.Sprintf("(setElem %d %d %d)", op.a, op.n, op.b), fmt.Sprintf("%s[%d] = %s", gname(op.a), op.n, vname(op.b)), true
	case "setElemType":
		g := h.gk(op.a, "types")
		t, okt := h.tysrc(op.s, op.b)
		if g == nil || !okt || int(op.n) >= len(g.tys) {
			return "", "", false
		}
		g.tys[op.n] = t
		return fmt.Sprintf("(setElemType %d %d %s)", op.a, op.n, c20tysrc(op.s, op.b)), fmt.Sprintf("%s[%d] = %#v", gname(op.a), op.n, t), true
	case "setStep":
		g := h.gk(op.a, "path")
		if g == nil || int(op.n) >= len(g.path) {
			return "", "", false
		}
		g.path[op.n] = cty.GetAttrStep{Name: op.s}
		return fmt.Sprintf("(setStep %d %d %s)", op.a, op.n, encStr(op.s)), fmt.Sprintf("%s[%d] = cty.GetAttrStep{Name: %q}", gname(op.a), op.n, op.s), true
	case "mapPut":
		g := h.gk(op.a, "map")
		v, okv := h.val(op.b)
		if g == nil || !okv || g.vm == nil {
			return "", "", false
		}
		g.vm[op.s] = v
		return fmt.Sprintf("(mapPut %d %s %d)", op.a, encStr(op.s), op.b), fmt.Sprintf("%s[%q] = %s", gname(op.a), op.s, vname(op.b)), true
	case "mapPutType":
		g := h.gk(op.a, "tymap")
		t, okt := h.tysrc(op.keys[0], op.b)
		if g == nil || !okt || g.tm == nil {
			return "", "", false
		}
		g.tm[op.s] = t
		return fmt.Sprintf("(mapPutType %d %s %s)", op.a, encStr(op.s), c20tysrc(op.keys[0], op.b)), fmt.Sprintf("%s[%q] = %#v", gname(op.a), op.s, t), true
	case "mapDelete":
		g := h.gk(op.a, "map")
		if g == nil || g.vm == nil {
			return "", "", false
		}
		delete(g.vm, op.s)
		return fmt.Sprintf("(mapDelete %d %s)", op.a, encStr(op.s)), fmt.Sprintf("delete(%s, %q)", gname(op.a), op.s), true
	case "marksAdd":
		g := h.gk(op.a, "marks")
		if g == nil || g.mk == nil {
			return "", "", false
		}
		g.mk[op.s] = struct{}{}
		return fmt.Sprintf("(marksAdd %d %s)", op.a, encStr(op.s)), fmt.Sprintf("%s[%q] = struct{}{}", gname(op.a), op.s), true
	case "appendVal":
		g := h.gk(op.a, "slice")
		v, okv := h.val(op.b)
		if g == nil || !okv {
			return "", "", false
		}
		h.pushGo(&c20Go{kind: "slice", vs: append(g.vs, v), origin: g.origin})
		return fmt.Sprintf("(appendVal %d %d)", op.a, op.b), fmt.Sprintf("%s := append(%s, %s)", gname(ng), gname(op.a), vname(op.b)), true
	case "elemPath":
		g := h.gk(op.a, "paths")
		if g == nil || int(op.n) >= len(g.paths) {
			return "", "", false
		}
		h.pushGo(&c20Go{kind: "path", path: g.paths[op.n], origin: g.origin})
		return fmt.Sprintf("(elemPath %d %d)", op.a, op.n), fmt.Sprintf("%s := %s[%d]", gname(ng), gname(op.a), op.n), true
	case "appendStep":
		g := h.gk(op.a, "path")
		if g == nil {
			return "", "", false
		}
		h.pushGo(&c20Go{kind: "path", path: append(g.path, cty.GetAttrStep{Name: op.s}), origin: g.origin})
		return fmt.Sprintf("(appendStep %d %s)", op.a, encStr(op.s)), fmt.Sprintf("%s := append(%s, cty.GetAttrStep{Name: %q})", gname(ng), gname(op.a), op.s), true
	}

	// ---- API calls (may panic: reported by the caller of do)
	apiWire, apiLit := "", ""
	applies := true
	panicked, why := try(func() {
		switch op.name {
		case "numberVal":
			g := h.gk(op.a, "float")
			if g == nil {
				applies = false
				return
			}
			h.vals = append(h.vals, cty.NumberVal(g.f))
			g.given["numberVal"] = true
			apiWire, apiLit = fmt.Sprintf("(numberVal %d)", op.a), fmt.Sprintf("%s := cty.NumberVal(%s)", vname(nv), gname(op.a))
		case "numberIntVal":
			h.vals = append(h.vals, cty.NumberIntVal(op.n))
			apiWire, apiLit = fmt.Sprintf("(numberIntVal %d)", op.n), fmt.Sprintf("%s := cty.NumberIntVal(%d)", vname(nv), op.n)
		case "stringVal":
			h.vals = append(h.vals, cty.StringVal(op.s))
			apiWire, apiLit = "(stringVal "+encStr(op.s)+")", fmt.Sprintf("%s := cty.StringVal(%q)", vname(nv), op.s)
		case "boolVal":
			h.vals = append(h.vals, cty.BoolVal(op.n != 0))
			apiWire, apiLit = fmt.Sprintf("(boolVal %d)", op.n), fmt.Sprintf("%s := cty.BoolVal(%v)", vname(nv), op.n != 0)
		case "nullVal":
			h.vals = append(h.vals, cty.NullVal(c20primType(op.s)))
			apiWire, apiLit = "(nullVal "+encStr(op.s)+")", fmt.Sprintf("%s := cty.NullVal(%#v)", vname(nv), c20primType(op.s))
		case "unknownVal":
			// an unknown string told apart by its prefix refinement (all unknowns share one set bucket)
			v := cty.UnknownVal(cty.String).Refine().StringPrefixFull("u" + op.s).NewValue()
			h.vals = append(h.vals, v)
			apiWire = "(unknownVal " + encStr("string") + " " + encStr(c20unkText(c20parse(cty.VerifDump(v)))) + ")"
			apiLit = fmt.Sprintf("%s := cty.UnknownVal(cty.String).Refine().StringPrefixFull(%q).NewValue()", vname(nv), "u"+op.s)
		case "listVal":
			g := h.gk(op.a, "slice")
			if g == nil || len(g.vs) == 0 || !cty.CanListVal(g.vs) {
				applies = false
				return
			}
			h.vals = append(h.vals, cty.ListVal(g.vs))
			g.given["listVal"] = true
			apiWire, apiLit = fmt.Sprintf("(listVal %d)", op.a), fmt.Sprintf("%s := cty.ListVal(%s)", vname(nv), gname(op.a))
		case "tupleVal":
			g := h.gk(op.a, "slice")
			if g == nil {
				applies = false
				return
			}
			h.vals = append(h.vals, cty.TupleVal(g.vs))
			g.given["tupleVal"] = true
			apiWire, apiLit = fmt.Sprintf("(tupleVal %d)", op.a), fmt.Sprintf("%s := cty.TupleVal(%s)", vname(nv), gname(op.a))
		case "objectVal":
			g := h.gk(op.a, "map")
			if g == nil {
				applies = false
				return
			}
			h.vals = append(h.vals, cty.ObjectVal(g.vm))
			g.given["objectVal"] = true
			apiWire, apiLit = fmt.Sprintf("(objectVal %d)", op.a), fmt.Sprintf("%s := cty.ObjectVal(%s)", vname(nv), gname(op.a))
		case "mapVal":
			g := h.gk(op.a, "map")
			if g == nil || len(g.vm) == 0 || !cty.CanMapVal(g.vm) {
				applies = false
				return
			}
			h.vals = append(h.vals, cty.MapVal(g.vm))
			g.given["mapVal"] = true
			apiWire, apiLit = fmt.Sprintf("(mapVal %d)", op.a), fmt.Sprintf("%s := cty.MapVal(%s)", vname(nv), gname(op.a))
		case "setVal":
			g := h.gk(op.a, "slice")
			if g == nil || len(g.vs) == 0 || !cty.CanSetVal(g.vs) {
				applies = false
				return
			}
			hs := []int{}
			for _, e := range g.vs {
				if e.ContainsMarked() || e.Type() == cty.DynamicPseudoType {
					h.outside = "setVal:marked-or-dynamic-element" // a valid call the model has no oracle column for
					break
				}
				hs = append(hs, cty.VerifHash(e))
			}
			h.vals = append(h.vals, cty.SetVal(g.vs))
			g.given["setVal"] = true
			apiWire, apiLit = fmt.Sprintf("(setVal %d %s)", op.a, c20ints(hs)), fmt.Sprintf("%s := cty.SetVal(%s)", vname(nv), gname(op.a))
		case "setValFromValueSet":
			g := h.gk(op.a, "vset")
			if g == nil {
				applies = false
				return
			}
			h.vals = append(h.vals, cty.SetValFromValueSet(g.set))
			g.given["setValFromValueSet"] = true
			apiWire, apiLit = fmt.Sprintf("(setValFromValueSet %d)", op.a), fmt.Sprintf("%s := cty.SetValFromValueSet(%s)", vname(nv), gname(op.a))
		case "asBigFloat":
			v, ok := h.val(op.a)
			if !ok || v.Type() != cty.Number || !c20plain(v) {
				applies = false
				return
			}
			h.pushGo(&c20Go{kind: "float", f: v.AsBigFloat(), origin: "asBigFloat"})
			apiWire, apiLit = fmt.Sprintf("(asBigFloat %d)", op.a), fmt.Sprintf("%s := %s.AsBigFloat()", gname(ng), vname(op.a))
		case "asValueSlice":
			v, ok := h.val(op.a)
			if !ok || !c20plain(v) || !v.CanIterateElements() {
				applies = false
				return
			}
			out := v.AsValueSlice()
			perm := []int{}
			if v.Type().IsSetType() {
				var okp bool
				if perm, okp = c20setPerm(v, out); !okp {
					h.outside = "asValueSlice:set-members-indistinguishable"
				}
			}
			h.pushGo(&c20Go{kind: "slice", vs: out, origin: "asValueSlice"})
			apiWire, apiLit = fmt.Sprintf("(asValueSlice %d %s)", op.a, c20ints(perm)), fmt.Sprintf("%s := %s.AsValueSlice()", gname(ng), vname(op.a))
		case "asValueMap":
			v, ok := h.val(op.a)
			if !ok || !c20plain(v) || !(v.Type().IsMapType() || v.Type().IsObjectType()) {
				applies = false
				return
			}
			h.pushGo(&c20Go{kind: "map", vm: v.AsValueMap(), origin: "asValueMap"})
			apiWire, apiLit = fmt.Sprintf("(asValueMap %d)", op.a), fmt.Sprintf("%s := %s.AsValueMap()", gname(ng), vname(op.a))
		case "asValueSet":
			v, ok := h.val(op.a)
			if !ok || !c20plain(v) || !v.Type().IsCollectionType() || v.Type().ElementType() == cty.DynamicPseudoType {
				applies = false
				return
			}
			hs := []int{}
			if v.Type().IsSetType() {
				// the model adds the members in bucket order; with one member per bucket the
				// resulting set is the same whatever the order
				s, _ := c20innerSetOfValue(v)
				ids, _, members := c20setFlatV(v.Type().ElementType(), s)
				for i := 1; i < len(ids); i++ {
					if ids[i] == ids[i-1] {
						h.outside = "asValueSet:two-members-in-one-bucket"
					}
				}
				for _, e := range members {
					hs = append(hs, cty.VerifHash(e)) // the hash the member has NOW
				}
				for i := range hs {
					for j := 0; j < i; j++ {
						if hs[i] == hs[j] {
							h.outside = "asValueSet:two-members-in-one-bucket"
						}
					}
				}
			} else {
				_, es := c20elems(v)
				for _, e := range es {
					if e.ContainsMarked() {
						applies = false
						return
					}
					hs = append(hs, cty.VerifHash(e))
				}
			}
			h.pushGo(&c20Go{kind: "vset", set: v.AsValueSet(), origin: "asValueSet"})
			apiWire, apiLit = fmt.Sprintf("(asValueSet %d %s)", op.a, c20ints(hs)), fmt.Sprintf("%s := %s.AsValueSet()", gname(ng), vname(op.a))
		case "elements":
			v, ok := h.val(op.a)
			if !ok || !c20plain(v) || !v.CanIterateElements() {
				applies = false
				return
			}
			ks, es := c20elems(v)
			perm := []int{}
			if v.Type().IsSetType() {
				var okp bool
				if perm, okp = c20setPerm(v, es); !okp {
					h.outside = "elements:set-members-indistinguishable"
				}
			}
			for i := range ks {
				h.vals = append(h.vals, ks[i], es[i])
			}
			apiWire, apiLit = fmt.Sprintf("(elements %d %s)", op.a, c20ints(perm)), fmt.Sprintf("%s.ForEachElement(func(k, e cty.Value) bool { /* keep k, e as v%d… */ return false })", vname(op.a), nv)
		case "lengthInt":
			v, ok := h.val(op.a)
			if !ok || v.IsMarked() || !(v.Type().IsTupleType() || v.Type().IsObjectType() || (c20plain(v) && v.Type().IsCollectionType())) {
				applies = false
				return
			}
			h.outs = append(h.outs, fmt.Sprintf(" %d", v.LengthInt()))
			apiWire, apiLit = fmt.Sprintf("(lengthInt %d)", op.a), fmt.Sprintf("_ = %s.LengthInt()", vname(op.a))
		case "getAttr":
			v, ok := h.val(op.a)
			if !ok || !v.Type().IsObjectType() || !v.IsKnown() || v.IsNull() || !v.Type().HasAttribute(op.s) {
				applies = false
				return
			}
			h.vals = append(h.vals, v.GetAttr(op.s))
			apiWire, apiLit = fmt.Sprintf("(getAttr %d %s)", op.a, encStr(op.s)), fmt.Sprintf("%s := %s.GetAttr(%q)", vname(nv), vname(op.a), op.s)
		case "index":
			v, ok := h.val(op.a)
			if !ok || !c20plain(v) {
				applies = false
				return
			}
			switch {
			case v.Type().IsListType() || v.Type().IsTupleType():
				if int(op.n) >= v.LengthInt() {
					applies = false
					return
				}
				h.vals = append(h.vals, v.Index(cty.NumberIntVal(op.n)))
				apiWire, apiLit = fmt.Sprintf("(index %d (i %d))", op.a, op.n), fmt.Sprintf("%s := %s.Index(cty.NumberIntVal(%d))", vname(nv), vname(op.a), op.n)
			case v.Type().IsMapType():
				if !v.HasIndex(cty.StringVal(op.s)).True() {
					applies = false
					return
				}
				h.vals = append(h.vals, v.Index(cty.StringVal(op.s)))
				apiWire, apiLit = fmt.Sprintf("(index %d (s %s))", op.a, encStr(op.s)), fmt.Sprintf("%s := %s.Index(cty.StringVal(%q))", vname(nv), vname(op.a), op.s)
			default:
				applies = false
			}
		case "marks":
			v, ok := h.val(op.a)
			if !ok {
				applies = false
				return
			}
			h.pushGo(&c20Go{kind: "marks", mk: v.Marks(), origin: "marks"})
			apiWire, apiLit = fmt.Sprintf("(marks %d)", op.a), fmt.Sprintf("%s := %s.Marks()", gname(ng), vname(op.a))
		case "unmark":
			v, ok := h.val(op.a)
			if !ok {
				applies = false
				return
			}
			u, mk := v.Unmark()
			h.vals = append(h.vals, u)
			h.pushGo(&c20Go{kind: "marks", mk: mk, origin: "unmark"})
			apiWire, apiLit = fmt.Sprintf("(unmark %d)", op.a), fmt.Sprintf("%s, %s := %s.Unmark()", vname(nv), gname(ng), vname(op.a))
		case "mark":
			v, ok := h.val(op.a)
			if !ok {
				applies = false
				return
			}
			h.vals = append(h.vals, v.Mark(op.s))
			apiWire, apiLit = fmt.Sprintf("(mark %d %s)", op.a, encStr(op.s)), fmt.Sprintf("%s := %s.Mark(%q)", vname(nv), vname(op.a), op.s)
		case "withMarks":
			v, ok := h.val(op.a)
			g := h.gk(op.b, "marks")
			if !ok || g == nil {
				applies = false
				return
			}
			h.vals = append(h.vals, v.WithMarks(g.mk))
			g.given["withMarks"] = true
			apiWire, apiLit = fmt.Sprintf("(withMarks %d %d)", op.a, op.b), fmt.Sprintf("%s := %s.WithMarks(%s)", vname(nv), vname(op.a), gname(op.b))
		case "withSameMarks":
			v, ok1 := h.val(op.a)
			w, ok2 := h.val(op.b)
			if !ok1 || !ok2 {
				applies = false
				return
			}
			h.vals = append(h.vals, v.WithSameMarks(w))
			apiWire, apiLit = fmt.Sprintf("(withSameMarks %d %d)", op.a, op.b), fmt.Sprintf("%s := %s.WithSameMarks(%s)", vname(nv), vname(op.a), vname(op.b))
		case "opAdd":
			v, ok1 := h.val(op.a)
			w, ok2 := h.val(op.b)
			if !ok1 || !ok2 || v.Type() != cty.Number || w.Type() != cty.Number || v.IsNull() || w.IsNull() {
				applies = false
				return
			}
			if !c20plain(v) || !c20plain(w) {
				h.outside = "opAdd:unknown-or-marked-operand"
			}
			h.vals = append(h.vals, v.Add(w))
			apiWire, apiLit = fmt.Sprintf("(opAdd %d %d)", op.a, op.b), fmt.Sprintf("%s := %s.Add(%s)", vname(nv), vname(op.a), vname(op.b))
		case "opNegate":
			v, ok := h.val(op.a)
			if !ok || v.Type() != cty.Number || v.IsNull() {
				applies = false
				return
			}
			if !c20plain(v) {
				h.outside = "opNegate:unknown-or-marked-operand"
			}
			h.vals = append(h.vals, v.Negate())
			apiWire, apiLit = fmt.Sprintf("(opNegate %d)", op.a), fmt.Sprintf("%s := %s.Negate()", vname(nv), vname(op.a))
		case "opEquals":
			v, ok1 := h.val(op.a)
			w, ok2 := h.val(op.b)
			if !ok1 || !ok2 {
				applies = false
				return
			}
			if !v.IsWhollyKnown() || !w.IsWhollyKnown() || v.ContainsMarked() || w.ContainsMarked() ||
				!c20noSets(v.Type()) || !c20noSets(w.Type()) || !c20noNulls(v) || !c20noNulls(w) {
				h.outside = "opEquals:unknown-marked-null-or-set-operand" // Equals is total: run it, judge it by (S) only
			}
			h.vals = append(h.vals, v.Equals(w))
			apiWire, apiLit = fmt.Sprintf("(opEquals %d %d)", op.a, op.b), fmt.Sprintf("%s := %s.Equals(%s)", vname(nv), vname(op.a), vname(op.b))
		case "opLength":
			v, ok := h.val(op.a)
			if !ok || v.IsNull() || !(v.Type().IsCollectionType() || v.Type().IsTupleType()) {
				applies = false
				return
			}
			if !c20plain(v) || !v.IsWhollyKnown() {
				h.outside = "opLength:unknown-or-marked-operand"
			}
			h.vals = append(h.vals, v.Length())
			apiWire, apiLit = fmt.Sprintf("(opLength %d)", op.a), fmt.Sprintf("%s := %s.Length()", vname(nv), vname(op.a))
		case "newValueSet":
			t, ok := h.tysrc(op.s, op.a)
			if !ok {
				applies = false
				return
			}
			h.pushGo(&c20Go{kind: "vset", set: cty.NewValueSet(t)})
			apiWire, apiLit = "(newValueSet "+c20tysrc(op.s, op.a)+")", fmt.Sprintf("%s := cty.NewValueSet(%#v)", gname(ng), t)
		case "vsAdd", "vsRemove", "vsHas":
			g := h.gk(op.a, "vset")
			v, ok := h.val(op.b)
			if g == nil || !ok || v.IsMarked() || !v.Type().Equals(g.set.ElementType()) || v.ContainsMarked() {
				applies = false
				return
			}
			hv := cty.VerifHash(v)
			switch op.name {
			case "vsAdd":
				g.set.Add(v)
				apiLit = fmt.Sprintf("%s.Add(%s)", gname(op.a), vname(op.b))
			case "vsRemove":
				g.set.Remove(v)
				apiLit = fmt.Sprintf("%s.Remove(%s)", gname(op.a), vname(op.b))
			default:
				b := g.set.Has(v)
				h.outs = append(h.outs, " "+encBool(b))
				apiLit = fmt.Sprintf("_ = %s.Has(%s)", gname(op.a), vname(op.b))
			}
			apiWire = fmt.Sprintf("(%s %d %d %d)", op.name, op.a, op.b, hv)
		case "vsCopy":
			g := h.gk(op.a, "vset")
			if g == nil {
				applies = false
				return
			}
			h.pushGo(&c20Go{kind: "vset", set: g.set.Copy(), origin: "vsCopy"})
			apiWire, apiLit = fmt.Sprintf("(vsCopy %d)", op.a), fmt.Sprintf("%s := %s.Copy()", gname(ng), gname(op.a))
		case "vsValues":
			g := h.gk(op.a, "vset")
			if g == nil {
				applies = false
				return
			}
			out := g.set.Values()
			_, flat := c20setFlat(g.set.ElementType(), c20innerSetOfVS(g.set))
			perm, okp := c20perm(flat, c20payloadFPs(out))
			if !okp {
				applies = false
				return
			}
			h.pushGo(&c20Go{kind: "slice", vs: out, origin: "vsValues"})
			apiWire, apiLit = fmt.Sprintf("(vsValues %d %s)", op.a, c20ints(perm)), fmt.Sprintf("%s := %s.Values()", gname(ng), gname(op.a))
		case "vsLength":
			g := h.gk(op.a, "vset")
			if g == nil {
				applies = false
				return
			}
			h.outs = append(h.outs, fmt.Sprintf(" %d", g.set.Length()))
			apiWire, apiLit = fmt.Sprintf("(vsLength %d)", op.a), fmt.Sprintf("_ = %s.Length()", gname(op.a))
		case "tupleType":
			g := h.gk(op.a, "types")
			if g == nil || g.tys == nil {
				applies = false
				return
			}
			h.vals = append(h.vals, cty.NullVal(cty.Tuple(g.tys)))
			g.given["tupleType"] = true
			apiWire, apiLit = fmt.Sprintf("(tupleType %d)", op.a), fmt.Sprintf("%s := cty.NullVal(cty.Tuple(%s))", vname(nv), gname(op.a))
		case "tupleElementTypes":
			v, ok := h.val(op.a)
			if !ok || !v.Type().IsTupleType() {
				applies = false
				return
			}
			h.pushGo(&c20Go{kind: "types", tys: v.Type().TupleElementTypes(), origin: "tupleElementTypes"})
			apiWire, apiLit = fmt.Sprintf("(tupleElementTypes %d)", op.a), fmt.Sprintf("%s := %s.Type().TupleElementTypes()", gname(ng), vname(op.a))
		case "objectType":
			g := h.gk(op.a, "tymap")
			if g == nil || g.tm == nil {
				applies = false
				return
			}
			h.vals = append(h.vals, cty.NullVal(cty.Object(g.tm)))
			g.given["objectType"] = true
			apiWire, apiLit = fmt.Sprintf("(objectType %d)", op.a), fmt.Sprintf("%s := cty.NullVal(cty.Object(%s))", vname(nv), gname(op.a))
		case "attributeTypes":
			v, ok := h.val(op.a)
			if !ok || !v.Type().IsObjectType() {
				applies = false
				return
			}
			h.pushGo(&c20Go{kind: "tymap", tm: v.Type().AttributeTypes(), origin: "attributeTypes"})
			apiWire, apiLit = fmt.Sprintf("(attributeTypes %d)", op.a), fmt.Sprintf("%s := %s.Type().AttributeTypes()", gname(ng), vname(op.a))
		case "pathIndex":
			g := h.gk(op.a, "path")
			v, ok := h.val(op.b)
			if g == nil || !ok || !c20plain(v) || !(v.Type() == cty.Number || v.Type() == cty.String) {
				applies = false
				return
			}
			h.pushGo(&c20Go{kind: "path", path: g.path.Index(v), origin: "pathIndex"})
			apiWire, apiLit = fmt.Sprintf("(pathIndex %d %d)", op.a, op.b), fmt.Sprintf("%s := %s.Index(%s)", gname(ng), gname(op.a), vname(op.b))
		case "pathGetAttr":
			g := h.gk(op.a, "path")
			if g == nil {
				applies = false
				return
			}
			h.pushGo(&c20Go{kind: "path", path: g.path.GetAttr(op.s), origin: "pathGetAttr"})
			apiWire, apiLit = fmt.Sprintf("(pathGetAttr %d %s)", op.a, encStr(op.s)), fmt.Sprintf("%s := %s.GetAttr(%q)", gname(ng), gname(op.a), op.s)
		case "pathCopy":
			g := h.gk(op.a, "path")
			if g == nil {
				applies = false
				return
			}
			h.pushGo(&c20Go{kind: "path", path: g.path.Copy(), origin: "pathCopy"})
			apiWire, apiLit = fmt.Sprintf("(pathCopy %d)", op.a), fmt.Sprintf("%s := %s.Copy()", gname(ng), gname(op.a))
		case "newPathSet":
			h.pushGo(&c20Go{kind: "pset", ps: cty.NewPathSet()})
			apiWire, apiLit = "(newPathSet)", fmt.Sprintf("%s := cty.NewPathSet()", gname(ng))
		case "psAdd", "psHas", "psRemove":
			g := h.gk(op.a, "pset")
			p := h.gk(op.b, "path")
			if g == nil || p == nil || !c20pathPlain(p.path) {
				applies = false
				return
			}
			hv := c20pathHash(p.path)
			if op.name == "psAdd" {
				g.ps.Add(p.path)
				p.given["psAdd"] = true
				apiLit = fmt.Sprintf("%s.Add(%s)", gname(op.a), gname(op.b))
			} else if op.name == "psRemove" {
				g.ps.Remove(p.path)
				apiLit = fmt.Sprintf("%s.Remove(%s)", gname(op.a), gname(op.b))
			} else {
				h.outs = append(h.outs, " "+encBool(g.ps.Has(p.path)))
				apiLit = fmt.Sprintf("_ = %s.Has(%s)", gname(op.a), gname(op.b))
			}
			apiWire = fmt.Sprintf("(%s %d %d %d)", op.name, op.a, op.b, hv)
		case "psAddAllSteps":
			g := h.gk(op.a, "pset")
			p := h.gk(op.b, "path")
			if g == nil || p == nil || !c20pathPlain(p.path) {
				applies = false
				return
			}
			hs := []int{}
			for i := 1; i <= len(p.path); i++ {
				hs = append(hs, c20pathHash(p.path[:i]))
			}
			g.ps.AddAllSteps(p.path)
			if len(p.path) > 0 {
				p.given["psAdd"] = true // retained exactly as by Add
				p.given["psAddAllSteps"] = true
			}
			apiWire, apiLit = fmt.Sprintf("(psAddAllSteps %d %d %s)", op.a, op.b, c20ints(hs)), fmt.Sprintf("%s.AddAllSteps(%s)", gname(op.a), gname(op.b))
		case "psList":
			g := h.gk(op.a, "pset")
			if g == nil {
				applies = false
				return
			}
			out := g.ps.List()
			perm := make([]int, len(out))
			for i := range perm {
				perm[i] = i
			}
			// a []cty.Path is modelled as a slice register of kind "paths"
			h.pushGo(&c20Go{kind: "paths", paths: out, origin: "psList"})
			apiWire, apiLit = fmt.Sprintf("(psList %d %s)", op.a, c20ints(perm)), fmt.Sprintf("%s := %s.List()", gname(ng), gname(op.a))
		case "walkBegin":
			v, ok := h.val(op.a)
			if !ok {
				applies = false
				return
			}
			if !c20noSets(v.Type()) {
				h.outside = "walkBegin:set-inside"
			}
			w, ev := c20startWalk(v)
			h.walks = append(h.walks, w)
			h.pushGo(&c20Go{kind: "path", path: ev.p, origin: "walk"})
			h.vals = append(h.vals, ev.v)
			apiWire, apiLit = fmt.Sprintf("(walkBegin %d)", op.a), fmt.Sprintf("cty.Walk(%s, cb)  // cb invocation 0 keeps its arguments as %s, %s", vname(op.a), gname(ng), vname(nv))
		case "walkNext":
			if op.a < 0 || op.a >= len(h.walks) {
				applies = false
				return
			}
			ev, more := h.walks[op.a].next()
			if more {
				h.pushGo(&c20Go{kind: "path", path: ev.p, origin: "walk"})
				h.vals = append(h.vals, ev.v)
			} else {
				h.outs = append(h.outs, "(done)")
			}
			apiWire, apiLit = fmt.Sprintf("(walkNext %d)", op.a), fmt.Sprintf("// walk %d: next cb invocation keeps its arguments as %s, %s", op.a, gname(ng), vname(nv))
		default:
			applies = false
		}
	})
	if !applies {
		return "", "", false
	}
	if panicked {
		return "", "PANIC " + why, true
	}
	return apiWire, apiLit, true
}

func c20max(a, b int) int {
	if a > b {
		return a
	}
	return b
}

func c20noNulls(v cty.Value) bool {
	ok := true
	cty.Walk(v, func(_ cty.Path, x cty.Value) (bool, error) {
		if x.IsNull() {
			ok = false
		}
		return true, nil
	})
	return ok
}

// c20pathPlain: every index key is a known, unmarked number or string
func c20pathPlain(p cty.Path) bool {
	for _, st := range p {
		if is, ok := st.(cty.IndexStep); ok {
			if !c20plain(is.Key) || !(is.Key.Type() == cty.Number || is.Key.Type() == cty.String) {
				return false
			}
		}
	}
	return true
}

var _ = sort.Strings
var _ = set.VerifBuckets[int]
