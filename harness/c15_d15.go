package main

// C15 (d15): additions along the audit (audit/audit-C15-C20.md, section C15).
//
//   - c15MirrorW: the mirror clause for EVERY constraint (C15.mirror_structure_any_constraint): the
//     plain encoding/json decoding of Marshal's output has the value's structure, with a wrapper
//     object {"value": x, "type": τ} exactly at the placeholder positions of the constraint, τ being
//     the type document of the value's type there.  Numbers are compared BY VALUE (the text, read
//     exactly and rounded to the number's own precision, is the number), not by re-evaluating the
//     expression marshal.go uses.  Set-free values: also Lean's specification `mirrorsW` evaluated on
//     the real token tree (op json.mirrorw).
//   - runC15Inf: infinities at every depth and in every container kind (they were reached 2-3 times
//     per quick run).
//   - runC15Deep: ImpliedType at its nesting limit (/repo 0c63e6a): arrays / objects / mixed nested
//     9998..10002 deep, correspondence with impliedTypeGo (limit re-read from the source).

import (
	"bytes"
	"encoding/json"
	"fmt"
	"math/big"
	"math/rand"
	"strings"

	"github.com/zclconf/go-cty/cty"
	"github.com/zclconf/go-cty/cty/convert"
	ctyjson "github.com/zclconf/go-cty/cty/json"
)

type c15mw struct {
	wrappers int
	why      string // first reason for a mismatch
	numCause string // set when the only mismatches are numbers whose text is not the value
}

func (m *c15mw) bad(why string) bool {
	if m.why == "" {
		m.why = why
	}
	return false
}

// numTextIsValue: the decimal text, read exactly and rounded to f's precision, is f.
func numTextIsValue(text string, f *big.Float) bool {
	r, ok := new(big.Rat).SetString(text)
	if !ok || f.IsInf() {
		return false
	}
	g := new(big.Float).SetPrec(f.Prec()).SetMode(big.ToNearestEven).SetRat(r)
	return g.Cmp(f) == 0
}

// plainMirrorsW: does the plain decoding x have the structure of v encoded against t?
func plainMirrorsW(v cty.Value, t cty.Type, x interface{}, m *c15mw) bool {
	vt := v.Type()
	if t == cty.DynamicPseudoType && vt != cty.DynamicPseudoType {
		w, ok := x.(map[string]interface{})
		if !ok || len(w) != 2 {
			return m.bad("no-wrapper-at-placeholder")
		}
		tx, ok1 := w["type"]
		vx, ok2 := w["value"]
		if !ok1 || !ok2 {
			return m.bad("wrapper-keys")
		}
		tb, err := json.Marshal(tx)
		if err != nil {
			return m.bad("wrapper-type-not-json")
		}
		wt, err := ctyjson.UnmarshalType(tb)
		if err != nil || !wt.Equals(vt) {
			return m.bad("wrapper-type-is-not-the-value-type")
		}
		m.wrappers++
		t, x = vt, vx
	}
	if v.IsNull() {
		if x != nil {
			return m.bad("null")
		}
		return true
	}
	switch {
	case vt == cty.Bool:
		b, ok := x.(bool)
		if !ok || b != v.True() {
			return m.bad("bool")
		}
		return true
	case vt == cty.String:
		s, ok := x.(string)
		if !ok || s != v.AsString() {
			return m.bad("string")
		}
		return true
	case vt == cty.Number:
		n, ok := x.(json.Number)
		if !ok {
			return m.bad("number-kind")
		}
		f := v.AsBigFloat()
		if !numTextIsValue(string(n), f) {
			if !numTextOwnPrec(f) {
				m.numCause = "num-text-not-exact-at-own-precision"
				return true // recorded separately: the structure is judged on
			}
			return m.bad("number-value")
		}
		return true
	case vt.IsListType() || vt.IsSetType() || vt.IsTupleType():
		a, ok := x.([]interface{})
		if !ok || len(a) != v.LengthInt() {
			return m.bad("array-length")
		}
		if vt.IsTupleType() != t.IsTupleType() || (!vt.IsTupleType() && !(t.IsListType() || t.IsSetType())) {
			return m.bad("constraint-kind")
		}
		i := 0
		for it := v.ElementIterator(); it.Next(); i++ {
			_, ev := it.Element()
			var et cty.Type
			if t.IsTupleType() {
				if i >= len(t.TupleElementTypes()) {
					return m.bad("constraint-tuple-length")
				}
				et = t.TupleElementTypes()[i]
			} else {
				et = t.ElementType()
			}
			if !plainMirrorsW(ev, et, a[i], m) {
				return false
			}
		}
		return true
	case vt.IsMapType() || vt.IsObjectType():
		o, ok := x.(map[string]interface{})
		if !ok || len(o) != v.LengthInt() {
			return m.bad("object-size")
		}
		if vt.IsMapType() != t.IsMapType() || (vt.IsObjectType() && !t.IsObjectType()) {
			return m.bad("constraint-kind")
		}
		for it := v.ElementIterator(); it.Next(); {
			ek, ev := it.Element()
			k := ek.AsString()
			mv, ok := o[k]
			if !ok {
				return m.bad("missing-key")
			}
			var et cty.Type
			if t.IsMapType() {
				et = t.ElementType()
			} else {
				if !t.HasAttribute(k) {
					return m.bad("constraint-attribute")
				}
				et = t.AttributeType(k)
			}
			if !plainMirrorsW(ev, et, mv, m) {
				return false
			}
		}
		return true
	}
	return m.bad("kind")
}

// c15MirrorW runs the mirror clause on one successful Marshal (b = its output).
func c15MirrorW(ctx *Ctx, v cty.Value, t cty.Type, b []byte) {
	if len(v.Type().TestConformance(t)) != 0 {
		return
	}
	in := encVal(v) + " " + encTy(t)
	x, err := plainDecode(b)
	m := &c15mw{}
	ok := err == nil && plainMirrorsW(v, t, x, m)
	ctx.Eval("mirrorw "+in, valDepth(v) >= 2 || hasFraction(v))
	switch {
	case m.wrappers == 0:
		ctx.Tag("mirrorw:wrappers=0")
	case m.wrappers <= 2:
		ctx.Tag(fmt.Sprintf("mirrorw:wrappers=%d", m.wrappers))
	default:
		ctx.Tag("mirrorw:wrappers>=3")
	}
	if !ok {
		ctx.Fail(Failure{Site: "mirror", Sig: "plain-decoding-differs:" + m.why, What: "plain encoding/json decoding of Marshal's output does not mirror the value against this constraint (wrapper objects exactly at the placeholder positions)",
			Input: in, GoLit: c15GoLit(v, t), Outcome: string(b)})
	} else if m.numCause != "" {
		ctx.Fail(Failure{Site: "mirror", Sig: "number-text-is-not-the-value:" + m.numCause, What: "a number in Marshal's output, read exactly and rounded to the number's own precision, is not the number of the value",
			Input: in, GoLit: c15GoLit(v, t), Outcome: string(b)})
	}
	// "the bytes are valid JSON": encoding/json's own validity scanner, besides the token lexer
	if !json.Valid(b) {
		ctx.Fail(Failure{Site: "valid-json", Sig: "marshal-output-not-json", What: "Marshal produced bytes that encoding/json's validity scanner rejects", Input: in, GoLit: c15GoLit(v, t), Outcome: string(b)})
	}
	// simple.go: SimpleJSONValue.MarshalJSON is Marshal against the value's own type
	if t.Equals(v.Type()) {
		var sb []byte
		var serr error
		p, _ := try(func() { sb, serr = ctyjson.SimpleJSONValue{Value: v}.MarshalJSON() })
		impl := c15Outcome(p, serr)
		if impl == "ok" {
			if tree := jsonTreeOfBytes(sb); tree != "BAD" {
				impl = "ok " + tree
			}
		}
		tb := newC15tbl()
		tb.addVal(v)
		ctx.Add("json.simplemarshal", impl, tb.String(), encVal(v))
		ctx.Tag("simplemarshal")
		if p || serr != nil || !bytes.Equal(sb, b) {
			ctx.Fail(Failure{Site: "simple-marshal", Sig: "differs-from-marshal-against-own-type", What: "SimpleJSONValue.MarshalJSON is not Marshal(v, v.Type())", Input: in, GoLit: c15GoLit(v, t), Outcome: string(sb)})
		}
	}
	// Lean's specification of the same clause on the REAL token tree (set-free values)
	if !strings.Contains(encTy(v.Type()), "(E ") {
		if tree := jsonTreeOfBytes(b); tree != "BAD" {
			ctx.Add("json.mirrorw", encBool(true), encVal(v), encTy(t), tree)
		}
	}
}

// runC15Inf: an infinity at a chosen depth inside every container kind, against the value's own
// type, a weakened constraint and the placeholder: Marshal must answer with an error.
func runC15Inf(ctx *Ctx) {
	r := ctx.R
	infs := []cty.Value{cty.PositiveInfinity, cty.NegativeInfinity, cty.NumberVal(new(big.Float).SetInf(false)), cty.NumberVal(new(big.Float).SetPrec(53).SetInf(true))}
	wrap := func(k int, x cty.Value) cty.Value {
		switch k {
		case 0:
			return cty.ListVal([]cty.Value{cty.NullVal(x.Type()), x})
		case 1:
			return cty.SetVal([]cty.Value{x, cty.NullVal(x.Type())})
		case 2:
			return cty.MapVal(map[string]cty.Value{"a": x, "k": cty.NullVal(x.Type())})
		case 3:
			return cty.TupleVal([]cty.Value{cty.StringVal("s"), x, cty.NullVal(cty.Bool)})
		default:
			return cty.ObjectVal(map[string]cty.Value{"n": x, "z": cty.True})
		}
	}
	n := ctx.N(120, 2000)
	for i := 0; i < n; i++ {
		v := infs[i%len(infs)]
		depth := i % 4
		for d := 0; d < depth; d++ {
			v = wrap(r.Intn(5), v)
		}
		ctx.Tag(fmt.Sprintf("inf:depth=%d", depth))
		c15Rejects(ctx, v, v.Type())
		c15Rejects(ctx, v, weakenToConstraint(r, v.Type()))
		if i%3 == 0 {
			c15Rejects(ctx, v, cty.DynamicPseudoType)
		}
	}
}

// runC15Deep: ImpliedType around its nesting limit.
func runC15Deep(ctx *Ctx) {
	shapes := []struct {
		name        string
		open, close string
		core        string
	}{
		{"arrays", "[", "]", "null"},
		{"objects", `{"a":`, "}", "1"},
		{"mixed", `[{"k":`, "}]", `"x"`}, // two levels per repetition
	}
	for _, sh := range shapes {
		per := strings.Count(sh.open, "[") + strings.Count(sh.open, "{")
		for _, depth := range []int{9998, 9999, 10000, 10001, 10002} {
			if depth%per != 0 {
				continue
			}
			n := depth / per
			b := []byte(strings.Repeat(sh.open, n) + sh.core + strings.Repeat(sh.close, n))
			tree := jsonTreeOfBytes(b)
			if tree == "BAD" {
				ctx.Tag("deep:unlexable")
				continue
			}
			var it cty.Type
			var err error
			p, _ := try(func() { it, err = ctyjson.ImpliedType(b) })
			io := c15Outcome(p, err)
			impl := io
			if io == "ok" {
				impl = "ok " + encTy(it)
			}
			ctx.Add("json.implied", impl, newC15tbl().String(), tree)
			ctx.Tag(fmt.Sprintf("deep:%s-%d:%s", sh.name, n*per, io))
			ctx.Eval(fmt.Sprintf("deep %s %d", sh.name, n*per), true)
			want := "ok"
			if n*per > 10000 {
				want = "err"
			}
			if io != want {
				ctx.Fail(Failure{Site: "implied-depth", Sig: fmt.Sprintf("%s:%d:%s", sh.name, n*per, io), What: "ImpliedType at its nesting limit: a document nested at most 10000 deep has an implied type, a deeper one is an error",
					Input: fmt.Sprintf("%s x %d", sh.open, n), GoLit: fmt.Sprintf("json.ImpliedType([]byte(strings.Repeat(%q, %d) + %q + strings.Repeat(%q, %d)))", sh.open, n, sh.core, sh.close, n), Outcome: io})
			}
		}
	}
}

// docOKUGo mirrors JsonVal.docOKU on the token stream: in every object the NFC forms of the keys
// are pairwise distinct (any order), numbers parse and satisfy NumOK.  (Compared with Lean's
// predicate on every document: op json.docoku.)
func docOKUGo(b []byte) bool {
	dec := json.NewDecoder(bytes.NewReader(b))
	dec.UseNumber()
	var val func() bool
	val = func() bool {
		tok, err := dec.Token()
		if err != nil {
			return false
		}
		switch v := tok.(type) {
		case json.Number:
			p, err := cty.ParseNumberVal(string(v))
			return err == nil && numReparses(p.AsBigFloat())
		case json.Delim:
			switch v {
			case '[':
				ok := true
				for dec.More() {
					if !val() {
						ok = false
					}
				}
				dec.Token()
				return ok
			case '{':
				ok := true
				seen := map[string]bool{}
				for dec.More() {
					kt, err := dec.Token()
					if err != nil {
						return false
					}
					k := cty.NormalizeString(kt.(string))
					if seen[k] {
						ok = false
					}
					seen[k] = true
					if !val() {
						ok = false
					}
				}
				dec.Token()
				return ok
			}
			return false
		}
		return true
	}
	return val()
}

// c15ConvTarget: a type that v's type does NOT conform to but can often be converted to
// (primitives to string, tuples of primitives to lists, objects of primitives to maps).
func c15ConvTarget(r *rand.Rand, ty cty.Type) cty.Type {
	allPrim := func(ts []cty.Type) bool {
		for _, t := range ts {
			if !t.IsPrimitiveType() {
				return false
			}
		}
		return len(ts) > 0
	}
	switch {
	case ty == cty.Number || ty == cty.Bool:
		if r.Intn(4) == 0 {
			return []cty.Type{cty.Number, cty.Bool}[r.Intn(2)]
		}
		return cty.String
	case ty == cty.String:
		return []cty.Type{cty.String, cty.Number, cty.Bool}[r.Intn(3)]
	case ty.IsListType():
		if r.Intn(3) == 0 {
			return cty.Set(c15ConvTarget(r, ty.ElementType()))
		}
		return cty.List(c15ConvTarget(r, ty.ElementType()))
	case ty.IsSetType():
		if r.Intn(3) == 0 {
			return cty.List(c15ConvTarget(r, ty.ElementType()))
		}
		return cty.Set(c15ConvTarget(r, ty.ElementType()))
	case ty.IsMapType():
		return cty.Map(c15ConvTarget(r, ty.ElementType()))
	case ty.IsTupleType():
		es := ty.TupleElementTypes()
		if allPrim(es) && r.Intn(2) == 0 {
			return cty.List(cty.String)
		}
		n := make([]cty.Type, len(es))
		for i := range es {
			n[i] = c15ConvTarget(r, es[i])
		}
		return cty.Tuple(n)
	case ty.IsObjectType():
		atys := ty.AttributeTypes()
		ks := sortedKeys(atys)
		es := make([]cty.Type, 0, len(ks))
		for _, k := range ks {
			es = append(es, atys[k])
		}
		if allPrim(es) && r.Intn(2) == 0 {
			return cty.Map(cty.String)
		}
		n := map[string]cty.Type{}
		for _, k := range ks {
			n[k] = c15ConvTarget(r, atys[k])
		}
		return cty.Object(n)
	}
	return ty
}

// runC15Conv: value.go's Marshal on a value that does NOT conform to the constraint: it must be
// exactly Marshal of convert.Convert(v, t) (same bytes), or an error when the conversion fails.
// (The conversion itself is C08's; the model's marshalTop is compared on the converted value.)
func runC15Conv(ctx *Ctx) {
	r := ctx.R
	n := ctx.N(200, 4000)
	for i := 0; i < n; i++ {
		v := c15Val(r, genTy(r, 2, TyOpts{}), 2, c15Opts{Null: true})
		t := c15ConvTarget(r, v.Type())
		if len(v.Type().TestConformance(t)) == 0 {
			ctx.Tag("conv:conforming")
			continue
		}
		in := encVal(v) + " " + encTy(t)
		var b1 []byte
		var e1 error
		p1, _ := try(func() { b1, e1 = ctyjson.Marshal(v, t) })
		var c cty.Value
		var ec error
		pc, _ := try(func() { c, ec = convert.Convert(v, t) })
		ctx.Eval("conv "+in, valDepth(v) >= 2 || hasFraction(v))
		fail := func(sig, out string) {
			ctx.Fail(Failure{Site: "marshal-converts", Sig: sig, What: "Marshal of a non-conforming value is not Marshal of convert.Convert(value, constraint)", Input: in, GoLit: c15GoLit(v, t), Outcome: out})
		}
		switch {
		case pc:
			ctx.Tag("conv:convert-panics") // C08's business
		case p1:
			fail("marshal-panic", "panic")
		case ec != nil:
			ctx.Tag("conv:unconvertible")
			if e1 == nil {
				fail("no-error-for-unconvertible", string(b1))
			}
		default:
			ctx.Tag("conv:converted")
			b2, o2 := c15Marshal(ctx, c, t)
			if (o2 == "ok") != (e1 == nil) || (e1 == nil && !bytes.Equal(b1, b2)) {
				fail("differs-from-marshal-of-converted", string(b1)+" vs "+string(b2))
			}
		}
	}
}

// c15Floors: minimum shares of the generated inputs that must have reached each predicate (audit
// C15 item 7, "skips without floor"): a generator change that silently starves a clause of its
// inputs fails the check instead of passing with fewer cases.
func c15Floors(ctx *Ctx) {
	d := ctx.res.Dist
	docs := d["doc:roundtrip"] + d["doc:conflicting-or-raw"] + d["doc:unlexable"]
	floors := []struct {
		name      string
		got, want int
	}{
		{"documents-round-tripped", d["doc:roundtrip"] * 100, docs * 60},
		{"documents-with-unsorted-distinct-keys", d["doc:docOKU-unsorted-keys"] * 100, docs * 4},
		{"rejections-infinite", d["reject:infinite"], 100},
		{"rejections-marked", d["reject:marked"], 20},
		{"rejections-unknown", d["reject:unknown"], 20},
		{"mirror-with-wrappers", d["mirrorw:wrappers=1"] + d["mirrorw:wrappers=2"] + d["mirrorw:wrappers>=3"], 300},
		{"marshal-of-converted", d["conv:converted"], 40},
		{"round-trips-without-side-condition", d["side:none"], 1000},
	}
	for _, f := range floors {
		if f.got < f.want {
			ctx.Fail(Failure{Site: "coverage-floor", Sig: f.name, What: "the generators no longer reach this clause often enough (a harness defect, not a defect of go-cty)",
				Input: f.name, GoLit: "", Outcome: fmt.Sprintf("%d < %d", f.got, f.want)})
		}
	}
}
