package main

// C03, d03b deepening: the predicates of the d03b theorems (Props/C03.lean, section
// "d03b") are tied to the inputs that are actually run.
//
//   * c03.sameshape: Value.sameShape of the Lean model against c03SameShapeStrict through the
//     public API of the REAL values, on pairs of every pool (tied in hash text or not);
//     predicate "equal hash text => same shape" on set-free types (a failure contradicts
//     C03.hash_text_injective_setfree); on hash-tied pairs the lax classification
//     c03SameShape (= c03TieExplained) must agree with the strict one.
//   * c03.d03bflags: Ty.setFree, Payload.numTextsOk (hypothesis of the theorem: must hold of
//     every number the real code hashes), Payload.quotable.
//   * c03.tiefree: Payload.tieFree (the carrier of C03.cty_less_strict_total_compound).
//   * c03.capsule: capsule types with Equals / RawEquals / HashKey callbacks against
//     CapsuleOps.rules: Equals, RawEquals, hash text, iteration order of SetVal.

import (
	"encoding/hex"
	"fmt"
	"reflect"
	"strings"

	"github.com/zclconf/go-cty/cty"
)

func c03NumHashText(v cty.Value) string {
	f := v.AsBigFloat()
	if f.Sign() == 0 {
		return "0"
	}
	return f.String()
}

// c03SameShapeStrict: c03SameShape, with number leaves compared by their hashed text.
func c03SameShapeStrict(x, y cty.Value) bool {
	if x.IsMarked() || y.IsMarked() {
		x, _ = x.Unmark()
		y, _ = y.Unmark()
	}
	if !x.Type().Equals(y.Type()) || x.IsNull() != y.IsNull() || x.IsKnown() != y.IsKnown() {
		return false
	}
	if x.IsNull() || !x.IsKnown() {
		return true
	}
	t := x.Type()
	switch {
	case t == cty.String:
		return x.AsString() == y.AsString()
	case t == cty.Bool:
		return x.True() == y.True()
	case t == cty.Number:
		return c03NumHashText(x) == c03NumHashText(y)
	case t.IsCapsuleType():
		return true
	case t.IsListType() || t.IsTupleType() || t.IsSetType():
		if x.LengthInt() != y.LengthInt() {
			return false
		}
		a, b := x.AsValueSlice(), y.AsValueSlice()
		for i := range a {
			if !c03SameShapeStrict(a[i], b[i]) {
				return false
			}
		}
		return true
	case t.IsMapType() || t.IsObjectType():
		a, b := x.AsValueMap(), y.AsValueMap()
		if len(a) != len(b) {
			return false
		}
		for _, k := range sortedKeys(a) {
			bv, ok := b[k]
			if !ok || !c03SameShapeStrict(a[k], bv) {
				return false
			}
		}
		return true
	}
	return true
}

func c03TySetFree(t cty.Type) bool {
	switch {
	case t.IsSetType():
		return false
	case t.IsListType() || t.IsMapType():
		return c03TySetFree(t.ElementType())
	case t.IsTupleType():
		for _, e := range t.TupleElementTypes() {
			if !c03TySetFree(e) {
				return false
			}
		}
	case t.IsObjectType():
		at := t.AttributeTypes()
		for _, k := range sortedKeys(at) {
			if !c03TySetFree(at[k]) {
				return false
			}
		}
	}
	return true
}

// c03NumTextsOk: every number leaf hashes to a non-empty text over 0-9 . e + - I n f
func c03NumTextsOk(v cty.Value) bool {
	if v.IsMarked() {
		v, _ = v.Unmark()
	}
	if !v.IsKnown() || v.IsNull() {
		return true
	}
	t := v.Type()
	switch {
	case t == cty.Number:
		s := c03NumHashText(v)
		if s == "" {
			return false
		}
		for _, c := range s {
			if !(c >= '0' && c <= '9') && !strings.ContainsRune(".e+-Inf", c) {
				return false
			}
		}
		return true
	case t.IsListType() || t.IsSetType() || t.IsTupleType() || t.IsMapType() || t.IsObjectType():
		ok := true
		for it := v.ElementIterator(); it.Next(); {
			_, e := it.Element()
			ok = ok && c03NumTextsOk(e)
		}
		return ok
	}
	return true
}

// c03TyCapFree: no capsule type occurs
func c03TyCapFree(t cty.Type) bool {
	switch {
	case t.IsCapsuleType():
		return false
	case t.IsListType() || t.IsMapType() || t.IsSetType():
		return c03TyCapFree(t.ElementType())
	case t.IsTupleType():
		for _, e := range t.TupleElementTypes() {
			if !c03TyCapFree(e) {
				return false
			}
		}
	case t.IsObjectType():
		at := t.AttributeTypes()
		for _, k := range sortedKeys(at) {
			if !c03TyCapFree(at[k]) {
				return false
			}
		}
	}
	return true
}

func c03EncTy(t cty.Type) cty.Type {
	switch {
	case t.IsSetType() || t.IsListType():
		return cty.List(c03EncTy(t.ElementType()))
	case t.IsMapType():
		return cty.Map(c03EncTy(t.ElementType()))
	case t.IsTupleType():
		ets := t.TupleElementTypes()
		out := make([]cty.Type, len(ets))
		for i, e := range ets {
			out[i] = c03EncTy(e)
		}
		return cty.Tuple(out)
	case t.IsObjectType():
		at := t.AttributeTypes()
		out := map[string]cty.Type{}
		for _, k := range sortedKeys(at) {
			out[k] = c03EncTy(at[k])
		}
		return cty.Object(out)
	}
	return t
}

// c03Canon: the transliteration of a mark-free value through the public API: every set is
// replaced by the list of its members in iteration order (AsValueSlice), at every depth.
func c03Canon(v cty.Value) cty.Value {
	t := v.Type()
	et := c03EncTy(t)
	if v.IsNull() {
		return cty.NullVal(et)
	}
	if !v.IsKnown() {
		if et.Equals(t) {
			return v
		}
		// the refinement of an unknown collection is kept by the wire form of the payload only;
		// unknown set-typed values are excluded by the caller
		return cty.UnknownVal(et)
	}
	switch {
	case t.IsSetType() || t.IsListType():
		vs := v.AsValueSlice()
		if len(vs) == 0 {
			return cty.ListValEmpty(et.ElementType())
		}
		out := make([]cty.Value, len(vs))
		for i, e := range vs {
			out[i] = c03Canon(e)
		}
		return cty.ListVal(out)
	case t.IsMapType():
		m := v.AsValueMap()
		if len(m) == 0 {
			return cty.MapValEmpty(et.ElementType())
		}
		out := map[string]cty.Value{}
		for _, k := range sortedKeys(m) {
			out[k] = c03Canon(m[k])
		}
		return cty.MapVal(out)
	case t.IsTupleType():
		vs := v.AsValueSlice()
		out := make([]cty.Value, len(vs))
		for i, e := range vs {
			out[i] = c03Canon(e)
		}
		return cty.TupleVal(out)
	case t.IsObjectType():
		m := v.AsValueMap()
		out := map[string]cty.Value{}
		for _, k := range sortedKeys(m) {
			out[k] = c03Canon(m[k])
		}
		return cty.ObjectVal(out)
	}
	return v
}

// c03HasUnknownColl: an unknown value of a type that contains a set type occurs (c03Canon cannot
// rebuild its refinement through the public API)
func c03HasUnknownSetTyped(v cty.Value) bool {
	if v.IsMarked() {
		v, _ = v.Unmark()
	}
	if !v.IsKnown() {
		return !c03TySetFree(v.Type())
	}
	if v.IsNull() {
		return false
	}
	t := v.Type()
	if t.IsListType() || t.IsSetType() || t.IsTupleType() || t.IsMapType() || t.IsObjectType() {
		for it := v.ElementIterator(); it.Next(); {
			_, e := it.Element()
			if c03HasUnknownSetTyped(e) {
				return true
			}
		}
	}
	return false
}

// c03CanonCase: correspondence of the transliteration + the laws it transfers, on the real code:
// hash bytes of v = hash bytes of its transliteration (C03.hash_with_sets).
func c03CanonCase(ctx *Ctx, v cty.Value) {
	capFree := c03TyCapFree(v.Type())
	clean := !v.ContainsMarked()
	fl := b01(capFree) + " " + b01(clean)
	_, quot := true, true
	ints := true
	try(func() { c03Walk(v, &ints, &quot) })
	setFree := c03TySetFree(v.Type())
	ctx.Tag(fmt.Sprintf("d03b:canon capFree=%s markFree=%s quotable=%s setFree=%s", b01(capFree), b01(clean), b01(quot), b01(setFree)))
	if !capFree || !clean || !quot {
		ctx.Add("c03.canon", fl+" unmodelled", encVal(v))
		return
	}
	if c03HasUnknownSetTyped(v) {
		return
	}
	var cv cty.Value
	if pn, _ := try(func() { cv = c03Canon(v) }); pn {
		return
	}
	ctx.Add("c03.canon", fl+" "+encVal(cv), encVal(v))
	h1, h2 := c03HashBytes(v), c03HashBytes(cv)
	ctx.Eval("d03b canon "+encVal(v), !setFree)
	if h1 != h2 {
		ctx.Fail(Failure{Site: "d03b-transliteration", Sig: "hash-text-differs-from-transliteration",
			What:  "the set hash text of a value differs from the hash text of the value with every set replaced by the list of its members in iteration order — contradicts C03.hash_with_sets",
			Input: encVal(v), GoLit: c03Lits(v), Outcome: encStr(h1) + " vs " + encStr(h2)})
	}
}

// c03LessMirror: setRules.Less re-stated through the public API (cty/set_internals.go:82-130, branch for branch)
func c03LessMirror(x, y cty.Value) bool {
	if x.RawEquals(y) {
		return false
	}
	if y.IsNull() && !x.IsNull() {
		return true
	} else if x.IsNull() {
		return false
	}
	if x.IsKnown() && !y.IsKnown() {
		return true
	} else if !x.IsKnown() {
		return false
	}
	switch x.Type() {
	case cty.String:
		return x.AsString() < y.AsString()
	case cty.Bool:
		return y.True() || !x.True()
	case cty.Number:
		return x.AsBigFloat().Cmp(y.AsBigFloat()) < 0
	}
	return c03HashBytes(x) < c03HashBytes(y)
}

// c03SetWF: Payload.setWF through the public API: member hashes are the bucket ids (checked by the
// layout correspondence elsewhere, here: Hash does not panic), members wholly known, mark-free,
// quotable, integer numbers; pairwise not RawEquals; the mirrored Less is a strict total order.
func c03SetWF(s cty.Value) bool {
	ms := s.AsValueSlice()
	for _, m := range ms {
		ints, quot := true, true
		c03Walk(m, &ints, &quot)
		if !ints || !quot || !m.IsWhollyKnown() || m.ContainsMarked() {
			return false
		}
	}
	n := len(ms)
	for i := 0; i < n; i++ {
		if c03LessMirror(ms[i], ms[i]) {
			return false
		}
		for j := 0; j < n; j++ {
			if i != j && ms[i].RawEquals(ms[j]) {
				return false
			}
			if i != j && !c03LessMirror(ms[i], ms[j]) && !c03LessMirror(ms[j], ms[i]) {
				return false
			}
			for k := 0; k < n; k++ {
				if c03LessMirror(ms[i], ms[j]) && c03LessMirror(ms[j], ms[k]) && !c03LessMirror(ms[i], ms[k]) {
					return false
				}
			}
		}
	}
	return true
}

// c03DeepWF: every set node of the value, at any depth, is well-formed (c03SetWF)
func c03DeepWF(v cty.Value) bool {
	if v.IsNull() || !v.IsKnown() {
		return true
	}
	t := v.Type()
	if t.IsSetType() && !c03SetWF(v) {
		return false
	}
	if t.IsListType() || t.IsSetType() || t.IsTupleType() || t.IsMapType() || t.IsObjectType() {
		for it := v.ElementIterator(); it.Next(); {
			_, e := it.Element()
			if !c03DeepWF(e) {
				return false
			}
		}
	}
	return true
}

// c03DeepMember: Payload.deepMember through the public API
func c03DeepMember(v cty.Value) bool {
	ints, quot := true, true
	c03Walk(v, &ints, &quot)
	return ints && quot && v.IsWhollyKnown() && !v.ContainsMarked() && c03DeepWF(v)
}

// c03SetEqualsCases: on values all of whose set nodes are well-formed, Equals is RawEquals and
// Equals-true values hash alike (C03.equals_eq_rawEquals_with_sets, C03.equals_equiv_with_sets).
func c03SetEqualsCases(ctx *Ctx, vals []cty.Value) {
	t := vals[0].Type()
	if !c03TyCapFree(t) {
		return
	}
	setFree := c03TySetFree(t)
	dm := make([]bool, len(vals))
	for i, v := range vals {
		ok := false
		if pn, _ := try(func() { ok = c03DeepMember(v) }); pn {
			continue
		}
		dm[i] = ok
		ctx.Add("c03.deepmember", b01(ok), encVal(v))
		ctx.Tag(fmt.Sprintf("d03b:deepmember setFree=%s deepMember=%s", b01(setFree), b01(ok)))
		if t.IsSetType() && v.IsKnown() && !v.IsNull() && !v.IsMarked() {
			wf := false
			if pn, _ := try(func() { wf = c03SetWF(v) }); !pn {
				ctx.Add("c03.setwf", b01(wf), encVal(v))
			}
		}
	}
	for i := range vals {
		for j := range vals {
			if !dm[i] || !dm[j] {
				continue
			}
			x, y := vals[i], vals[j]
			eq := c03EqualsTrue(x, y)
			var raw bool
			if pn, _ := try(func() { raw = x.RawEquals(y) }); pn {
				continue
			}
			ctx.Eval("d03b deepequals "+encVal(x)+" "+encVal(y), !setFree && i != j)
			if eq != raw {
				ctx.Fail(Failure{Site: "d03b-set-equals", Sig: "equals-differs-from-rawequals-on-wellformed-sets",
					What:  "two wholly known values all of whose set nodes are well-formed (integers, members pairwise different, Less total) are Equals but not RawEquals or the reverse — contradicts C03.equals_eq_rawEquals_with_sets",
					Input: encVal(x) + " " + encVal(y), GoLit: c03Lits(x, y), Outcome: fmt.Sprintf("Equals %v RawEquals %v", eq, raw)})
			}
			if eq && c03HashBytes(x) != c03HashBytes(y) {
				ctx.Fail(Failure{Site: "d03b-set-equals", Sig: "equal-wellformed-sets-hash-differently",
					What:  "two such values that are Equals have different hash bytes — contradicts C03.equals_equiv_with_sets",
					Input: encVal(x) + " " + encVal(y), GoLit: c03Lits(x, y), Outcome: encStr(c03HashBytes(x)) + " vs " + encStr(c03HashBytes(y))})
			}
		}
	}
}

// c03D03bPool: called for every pool the value half judges.
func c03D03bPool(ctx *Ctx, p c03Pool) {
	n := len(p.vals)
	if n > 10 {
		n = 10
	}
	if n == 0 {
		return
	}
	vals := p.vals[:n]
	c03SetEqualsCases(ctx, vals)
	setFree := c03TySetFree(vals[0].Type())
	hb := make([]string, n)
	clean := true
	for i, v := range vals {
		c03CanonCase(ctx, v)
		hb[i] = c03HashBytes(v)
		nt := false
		try(func() { nt = c03NumTextsOk(v) })
		_, quot := true, true
		ints := true
		try(func() { c03Walk(v, &ints, &quot) })
		ctx.Add("c03.d03bflags", strings.Join([]string{b01(setFree), b01(nt), b01(quot)}, " "), encVal(v))
		ctx.Tag(fmt.Sprintf("d03b:flags setFree=%s numTextsOk=%s quotable=%s", b01(setFree), b01(nt), b01(quot)))
		if !nt {
			ctx.Fail(Failure{Site: "d03b-numtext", Sig: "number-hash-text-outside-alphabet", What: "big.Float.String() of a hashed number is empty or has a character outside 0-9.e+-Inf: the hypothesis numTextsOk of C03.hash_text_injective_setfree does not hold of this value",
				Input: encVal(v), GoLit: c03Lits(v), Outcome: "numTextsOk = false"})
		}
		if v.ContainsMarked() || hb[i] == "\x00PANIC" {
			clean = false
		}
	}
	for i := 0; i < n; i++ {
		for j := i; j < n; j++ {
			x, y := vals[i], vals[j]
			strict := false
			pn, _ := try(func() { strict = c03SameShapeStrict(x, y) })
			if pn {
				continue
			}
			tied := hb[i] == hb[j] && hb[i] != "\x00PANIC"
			ctx.Add("c03.sameshape", b01(strict), encVal(x), encVal(y))
			ctx.Eval("d03b sameshape "+encVal(x)+" "+encVal(y), tied && i != j)
			ctx.Tag(fmt.Sprintf("d03b:sameshape setFree=%s hashTied=%s sameShape=%s", b01(setFree), b01(tied), b01(strict)))
			if tied && setFree && !strict {
				ctx.Fail(Failure{Site: "hash-text-injective", Sig: "equal-hash-text-different-shape",
					What:  "two values of one set-free type have the same set hash text although they differ in structure or in a string / bool / null leaf — contradicts C03.hash_text_injective_setfree",
					Input: encVal(x) + " " + encVal(y), GoLit: c03Lits(x, y), Outcome: "hash text " + encStr(hb[i])})
			}
			if setFree && strict && !tied && hb[i] != "\x00PANIC" && hb[j] != "\x00PANIC" {
				ctx.Fail(Failure{Site: "hash-text-injective", Sig: "same-shape-different-hash-text",
					What:  "two values of one set-free type that are SameShape (equal strings, bools, structure; number leaves with equal 10-digit texts) have different set hash texts — contradicts C03.hash_text_eq_iff_sameShape",
					Input: encVal(x) + " " + encVal(y), GoLit: c03Lits(x, y), Outcome: encStr(hb[i]) + " vs " + encStr(hb[j])})
			}
			if tied && c03TieExplained(x, y) != strict {
				ctx.Fail(Failure{Site: "d03b-classification", Sig: "tie-classification-disagrees-with-sameShape",
					What:  "on a hash-tied pair the harness classification c03TieExplained differs from the strict SameShape that the Lean predicate Value.sameShape computes (harness bug or set iteration artefact)",
					Input: encVal(x) + " " + encVal(y), GoLit: c03Lits(x, y), Outcome: fmt.Sprintf("lax %v strict %v", c03TieExplained(x, y), strict)})
			}
		}
	}
	// the carrier of the compound-member order: pairwise RawEquals or different hash text
	if clean && n >= 2 {
		tf := true
		ok := true
		for i := 0; i < n && ok; i++ {
			for j := 0; j < n; j++ {
				var raw bool
				if pn, _ := try(func() { raw = vals[i].RawEquals(vals[j]) }); pn {
					ok = false
					break
				}
				if !raw && hb[i] == hb[j] {
					tf = false
				}
			}
		}
		if ok {
			ctx.Add("c03.tiefree", b01(tf), append([]string{encTy(vals[0].Type())}, c03Dumps(vals)...)...)
			ctx.Tag(fmt.Sprintf("d03b:tiefree setFree=%s tieFree=%s", b01(setFree), b01(tf)))
		}
	}
}

// ---- capsule types with operations ------------------------------------------

type c03CapCfg struct{ eq, raw, key int }

var c03CapTypes = map[c03CapCfg]cty.Type{}
var c03CapPtrs []*int

func c03CapType(c c03CapCfg) cty.Type {
	if t, ok := c03CapTypes[c]; ok {
		return t
	}
	ops := &cty.CapsuleOps{}
	if c.eq > 0 {
		m := c.eq
		ops.Equals = func(a, b interface{}) cty.Value { return cty.BoolVal(*(a.(*int))%m == *(b.(*int))%m) }
	}
	if c.raw > 0 {
		m := c.raw
		ops.RawEquals = func(a, b interface{}) bool { return *(a.(*int))%m == *(b.(*int))%m }
	}
	if c.key > 0 {
		m := c.key
		ops.HashKey = func(v interface{}) string { return fmt.Sprintf("k\";%d", *(v.(*int))%m) }
	}
	t := cty.CapsuleWithOps(fmt.Sprintf("cap-%d-%d-%d", c.eq, c.raw, c.key), reflect.TypeOf(0), ops)
	c03CapTypes[c] = t
	return t
}

// c03CapLawful: the hypotheses of C03.capsule_rules_lawful hold of the configuration
// (Equals is congruence modulo eq, else modulo raw, else identity; it must refine the hash key)
func c03CapLawful(c c03CapCfg) bool {
	if c.key == 0 {
		return true
	}
	m := c.eq
	if m == 0 {
		m = c.raw
	}
	if m == 0 {
		return true // identity
	}
	return m%c.key == 0
}

func runC03D03b(ctx *Ctx) {
	if c03CapPtrs == nil {
		for i := 0; i < 12; i++ {
			p := new(int)
			*p = i
			c03CapPtrs = append(c03CapPtrs, p)
		}
	}
	mods := []int{0, 2, 3, 6}
	for k := 0; k < ctx.N(300, 4000); k++ {
		c := c03CapCfg{mods[ctx.R.Intn(4)], mods[ctx.R.Intn(4)], mods[ctx.R.Intn(4)]}
		if c.eq > 0 && c.raw == 0 { // CapsuleOps.assertValid: Equals cannot be set without RawEquals
			pnc, _ := try(func() { c03CapType(c) })
			ctx.Add("c03.capsule", map[bool]string{true: "panic", false: "ok"}[pnc], fmt.Sprint(c.eq), fmt.Sprint(c.raw), fmt.Sprint(c.key))
			ctx.Tag("d03b:capsule invalid ops (Equals without RawEquals)")
			continue
		}
		t := c03CapType(c)
		n := 2 + ctx.R.Intn(5)
		ids := make([]int, n)
		vals := make([]cty.Value, n)
		args := []string{fmt.Sprint(c.eq), fmt.Sprint(c.raw), fmt.Sprint(c.key)}
		for i := range ids {
			ids[i] = ctx.R.Intn(len(c03CapPtrs))
			vals[i] = cty.CapsuleVal(t, c03CapPtrs[ids[i]])
			args = append(args, fmt.Sprint(ids[i]))
		}
		var eqB, rawB strings.Builder
		var hs, it []string
		classes := 0
		pn, why := try(func() {
			for i, a := range vals {
				first := true
				for j, b := range vals {
					e := a.Equals(b)
					et := e.IsKnown() && !e.IsMarked() && e.True()
					eqB.WriteString(b01(et))
					rawB.WriteString(b01(a.RawEquals(b)))
					if et && j < i {
						first = false
					}
				}
				if first {
					classes++
				}
				b, p := cty.VerifHashBytes(a)
				if p {
					hs = append(hs, "?")
				} else {
					hs = append(hs, hex.EncodeToString(b))
				}
			}
			for _, m := range cty.SetVal(vals).AsValueSlice() {
				it = append(it, fmt.Sprint(*(m.EncapsulatedValue().(*int))))
			}
		})
		lawful := c03CapLawful(c)
		ctx.Tag(fmt.Sprintf("d03b:capsule equals=%v rawEquals=%v hashKey=%v lawful=%v", c.eq > 0, c.raw > 0, c.key > 0, lawful))
		ctx.Eval("d03b capsule "+strings.Join(args, " "), n >= 2)
		if pn {
			ctx.Add("c03.capsule", "panic", args...)
			ctx.Fail(Failure{Site: "d03b-capsule", Sig: "capsule-set-panic", What: "Equals / RawEquals / hash / SetVal on capsule values panicked", Input: strings.Join(args, " "), Outcome: why})
			continue
		}
		ctx.Add("c03.capsule", eqB.String()+" "+rawB.String()+" "+strings.Join(hs, ",")+" ("+strings.Join(it, " ")+")", args...)
		if lawful && len(it) != classes {
			ctx.Fail(Failure{Site: "d03b-capsule", Sig: "lawful-capsule-set-wrong-length",
				What:  "a set of capsule values whose type's Equals is an equivalence refining its HashKey does not hold exactly one member per Equals class — contradicts C03.capsule_valueSet_refines",
				Input: strings.Join(args, " "), Outcome: fmt.Sprintf("%d members, %d classes", len(it), classes)})
		}
	}
}
